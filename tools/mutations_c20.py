"""Mutation trials for C20 (documentation of what was tried; run manually): applies each mutation to the scratch\nlibrary copy $AITB_REPO, runs tools/check.py C20 --tier quick, prints the outcome, reverts the copy.  Usage: python3 tools/mutations_c20.py [H1 N3 ...]"""
import subprocess, os, sys
REPO=os.environ.get('AITB_REPO','/var/tmp/rp/c20'); WT=os.path.dirname(os.path.dirname(os.path.abspath(__file__)))
env=dict(os.environ, AITB_REPO=REPO)
M=[
 ('H1 harmless: Trie::filter(pf) orders equal-size filters with lower_bound', 'src/Factored/Utils/Trie.cpp',
  """            if (!filter.isValid())
                return {};
            filters.insert(std::upper_bound(std::begin(filters), std::end(filters), filter), filter);
        }
        return applyFilters(filters);
    }

    std::vector<size_t> Trie::refine""","""            if (!filter.isValid())
                return {};
            filters.insert(std::lower_bound(std::begin(filters), std::end(filters), filter), filter);
        }
        return applyFilters(filters);
    }

    std::vector<size_t> Trie::refine"""),
 ('H2 harmless: Trie::erase(id) scans each row front to back', 'src/Factored/Utils/Trie.cpp',
  """for (auto & vv : boost::adaptors::reverse(v)) {""","""for (auto & vv : v) {"""),
 ('N1 Filter::advance uses upper_bound on the named range', 'src/Factored/Utils/Trie.cpp',
  """beginNamedFilter = std::lower_bound(beginNamedFilter, endNamedFilter, value);""","""beginNamedFilter = std::upper_bound(beginNamedFilter, endNamedFilter, value);"""),
 ('N2 FasterTrie::filter second loop starts one factor late', 'src/Factored/Utils/FasterTrie.cpp',
  """        for (; i < keys_.size(); ++i)
            for (const auto & keys : keys_[i])""","""        for (++i; i < keys_.size(); ++i)
            for (const auto & keys : keys_[i])"""),
 ('N3 reconstruct(remove) forgets --k (skips the swapped-in entry)', 'src/Factored/Utils/FasterTrie.cpp',
  """                            keysV->pop_back();
                            --k;""","""                            keysV->pop_back();"""),
 ('N4 Trie::refine with an empty key returns nothing', 'src/Factored/Utils/Trie.cpp',
  """        if (!ids.size() || !pf.first.size()) {
            // If nothing to match, match all
            return ids;""","""        if (!ids.size() || !pf.first.size()) {
            // If nothing to match, match all
            return {};"""),
 ('N5 FasterTrie::size skips the first value of every factor', 'src/Factored/Utils/FasterTrie.cpp',
  """            for (const auto & keysV : keysF)
                retval += keysV.size();""","""            for (size_t v = 1; v < keysF.size(); ++v)
                retval += keysF[v].size();"""),
 ('N6 Trie::erase(id,pf) main loop erases from the unnamed list when the key is named', 'src/Factored/Utils/Trie.cpp',
  """            auto it = std::lower_bound(std::begin(v[value]), std::end(v[value]), id);
            if (it != std::end(v[value]) && *it == id)
                v[value].erase(it);""","""            auto it = std::lower_bound(std::begin(v.back()), std::end(v.back()), id);
            if (it != std::end(v.back()) && *it == id)
                v.back().erase(it);"""),
 # ---- round 3: the parts that were only tested before; each keeps FilterMapTests / UtilsCoreTests passing (python3 tools/mutations_c20.py --unit R1 …)
 ('R1 IndexSkipMapIterator::skip() loses the container bound', 'include/AIToolbox/Utils/IndexMap.hpp',
  """                while (currentId_ < items_.size() &&
                       currentSkipId_ < ids_.size() &&""","""                while (currentSkipId_ < ids_.size() &&"""),
 ('R2 FilterMap(trie, items) rejects only a container that is too large', 'include/AIToolbox/Factored/Utils/FilterMap.hpp',
  """                if (ids_.size() != items_.size())""","""                if (ids_.size() < items_.size())"""),
 ('R3 FilterMap::filter(f, offset) const drops the offset', 'include/AIToolbox/Factored/Utils/FilterMap.hpp',
  """                return ConstIterable(ids_.filter(f, offset), items_);""","""                return ConstIterable(ids_.filter(f), items_);"""),
 ('R4 Trie::reserve resizes the id lists instead of reserving', 'src/Factored/Utils/Trie.cpp',
  """        for (auto && v : ids_)
            v.reserve(size);""","""        for (auto && v : ids_)
            for (auto && vv : v)
                vv.resize(size);"""),
 ('R5 IndexMap::sort() sorts only the first four ids', 'include/AIToolbox/Utils/IndexMap.hpp',
  """                std::sort(std::begin(ids_), std::end(ids_), [this](auto lhs, auto rhs) {""","""                std::partial_sort(std::begin(ids_), std::begin(ids_) + std::min<size_t>(4, ids_.size()), std::end(ids_), [this](auto lhs, auto rhs) {"""),
 ('R6 IndexMapIterator::operator--(int) returns the decremented iterator', 'include/AIToolbox/Utils/IndexMap.hpp',
  """            auto operator--(int) {
                auto tmp = *this;
                --currentId_;
                return tmp;""","""            auto operator--(int) {
                --currentId_;
                auto tmp = *this;
                return tmp;"""),
 ('R7 Trie::refine gives up when the id list is longer than the candidate list of the first key', 'src/Factored/Utils/Trie.cpp',
  """        filters.emplace_back(
            std::end(ids), std::end(ids),
            std::begin(ids), std::end(ids)
        );""","""        filters.emplace_back(
            std::end(ids), std::end(ids),
            std::begin(ids), std::begin(ids) + std::min(ids.size(), ids_[pf.first[0]].back().size() + ids_[pf.first[0]][pf.second[0]].size())
        );"""),
 ('R8 IndexSkipMap::cend() ends at the number of skipped ids', 'include/AIToolbox/Utils/IndexMap.hpp',
  """            auto cend() const { return const_iterator(items_.size(), ids_, items_); }""","""            auto cend() const { return const_iterator(items_.size() - (ids_.size() > items_.size() ? 1 : 0), ids_, items_); }"""),
 ('R9 (indirect) Factored::match(pf, pf) never looks at the last key of the longer list', 'src/Factored/Utils/Core.cpp',
  """        while (j < smallerK->size() && i < biggerK->size()) {""","""        while (j < smallerK->size() && i + 1 < biggerK->size()) {"""),
 ('R10 (indirect) Factored::merge(pf, pf) does not step over a shared key of the left operand when it is its last one', 'src/Factored/Utils/Core.cpp',
  """                if (lhs.first[i] == rhs.first[j]) ++i;
                ++j;
            }
        }
        retval.first.insert(std::end(retval.first),   std::begin(lhs.first) + i, std::end(lhs.first));""","""                if (lhs.first[i] == rhs.first[j] && i + 1 < lhs.first.size()) ++i;
                ++j;
            }
        }
        retval.first.insert(std::end(retval.first),   std::begin(lhs.first) + i, std::end(lhs.first));"""),
 ('R11 IndexMapIterator::operator[](diff) const (const overload only) adds diff to the id instead of moving the cursor', 'include/AIToolbox/Utils/IndexMap.hpp',
  """            const auto & operator[](difference_type diff) const {
                return (*items_)[*(currentId_ + diff)];""","""            const auto & operator[](difference_type diff) const {
                return (*items_)[*currentId_ + diff];"""),
 ('R12 IndexSkipMapIterator::operator*() const (const overload only) reads the skip cursor', 'include/AIToolbox/Utils/IndexMap.hpp',
  """            const auto& operator*() const { return items_[toContainerId()]; }""","""            const auto& operator*() const { return items_[currentSkipId_]; }"""),
]
unit = '--unit' in sys.argv
sel = [a for a in sys.argv[1:] if a != '--unit']
for name, f, a, b in M:
    if sel and name.split()[0] not in sel: continue
    p=os.path.join(REPO,f); s=open(p).read()
    if s.count(a)!=1:
        print(name, 'PATTERN COUNT', s.count(a)); continue
    open(p,'w').write(s.replace(a,b))
    if unit:
        u=subprocess.run(['python3','tools/dev/unittests_c20.py'],cwd=WT,env=env,capture_output=True,text=True)
        print('== unit tests:', 'PASS' if u.returncode==0 else 'FAIL rc=%d'%u.returncode, ' | '.join(l[:60] for l in u.stdout.splitlines()[-2:]))
    r=subprocess.run(['python3','tools/check.py','C20','--tier','quick'],cwd=WT,env=env,capture_output=True,text=True)
    lines=[l for l in r.stdout.splitlines() if l.startswith('VIOLATION') or l.startswith('[C20]')]
    print('==',name,'exit',r.returncode)
    for l in lines[:4]: print('   ',l[:200])
    import json,glob
    for l in lines:
        if l.startswith('VIOLATION'):
            rp=l.split('replay=')[1].split()[0]
            d=json.load(open(rp)); print('    first:', (d.get('verdict') or d.get('detail') or str(d.get('broken'))[:300])[:260]); break
    subprocess.run(['git','-C',REPO,'checkout','--','.'])
