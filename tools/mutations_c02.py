"""Mutation trials for C02 (documentation of what was tried; run manually): applies each mutation to the scratch library copy
$AITB_REPO, runs tools/check.py C02 --tier quick, prints the outcome (and, with --unit, whether the repository's own unit test of
the mutated component still passes), reverts the copy.   Usage: python3 tools/mutations_c02.py [--unit] [M1 M3 ...]"""
import subprocess, os, sys, json
REPO = os.environ.get('AITB_REPO', '/var/tmp/rp/c02'); WT = os.path.dirname(os.path.dirname(os.path.abspath(__file__)))
env = dict(os.environ, AITB_REPO=REPO)
sys.path.insert(0, os.path.join(WT, 'tools'))
M = [
 ('M1 Projecter::computePossibleObservations scans states from 1 (an observation only state 0 can emit is declared impossible)',
  'include/AIToolbox/POMDP/Algorithms/Utils/Projecter.hpp', 'POMDP/IncrementalPruningTests',
  "for ( size_t s = 0; s < S; ++s ) // This NEEDS to be last!", "for ( size_t s = 1; s < S; ++s ) // This NEEDS to be last!"),
 ('M2 IncrementalPruning: the merged list is not moved to slot 0 when the schedule ends elsewhere (only O >= 3)',
  'include/AIToolbox/POMDP/Algorithms/IncrementalPruning.hpp', 'POMDP/IncrementalPruningTests',
  "                if (front != 0)\n                    projs[a][0] = std::move(projs[a][front]);\n", "                (void)front;\n"),
 ('M3 Witness::addVariations never varies the choice for observation 0',
  'include/AIToolbox/POMDP/Algorithms/Witness.hpp', 'POMDP/WitnessTests',
  "        for ( size_t o = 0; o < O; ++o ) {\n            const size_t skip = vObs[o];", "        for ( size_t o = 1; o < O; ++o ) {\n            const size_t skip = vObs[o];"),
 ('M4 RTBSS::upperBound forgets the horizon factor (too small a bound for horizon >= 3; the translator also reports the unknown form)',
  'include/AIToolbox/POMDP/Algorithms/RTBSS.hpp', 'POMDP/RTBSSTests',
  "return model_.getDiscount() * maxR_ * horizon;", "return model_.getDiscount() * maxR_;"),
 ('M5 updateBeliefUnnormalized (Eigen path) multiplies by T instead of T^t',
  'include/AIToolbox/POMDP/Utils.hpp', 'POMDP/RTBSSTests',
  "br = model.getObservationFunction(a).col(o).cwiseProduct((b.transpose() * model.getTransitionFunction(a)).transpose());",
  "br = model.getObservationFunction(a).col(o).cwiseProduct(model.getTransitionFunction(a) * b);"),
 ('M6 WitnessLP::findWitness ignores improvements below 0.05 (Pruner and Witness drop useful vectors)',
  'src/Utils/Polytope.cpp', 'POMDP/WitnessTests',
  "        if (deltaValue <= 0)\n            solution.reset();", "        if (deltaValue <= 0.05)\n            solution.reset();"),
 ('M7 LinearSupport accepts a vertex only when the error exceeds 0.05',
  'include/AIToolbox/POMDP/Algorithms/LinearSupport.hpp', 'POMDP/LinearSupportTests',
  "if (diff > tolerance_ && checkDifferentGeneral(diff, tolerance_)) {", "if (diff > tolerance_ + 0.05 && checkDifferentGeneral(diff, tolerance_)) {"),
 ('M8 Projecter adds the immediate reward before discounting', 'include/AIToolbox/POMDP/Algorithms/Utils/Projecter.hpp', 'POMDP/IncrementalPruningTests',
  "projections[o].emplace_back(vproj * discount_ + immediateRewards_.row(a).transpose(), a, VObs(1,i));",
  "projections[o].emplace_back((vproj + immediateRewards_.row(a).transpose()) * discount_, a, VObs(1,i));"),
 ('M9 crossSumBestAtBelief(b, projs) keeps the first action on ties AND on improvements below 0.05 (LinearSupport supports)',
  'include/AIToolbox/POMDP/Utils.hpp', 'POMDP/LinearSupportTests',
  "            if (tmp > bestValue) {\n                bestValue = tmp;\n                std::swap(entry, helper);", "            if (tmp > bestValue + 0.05) {\n                bestValue = tmp;\n                std::swap(entry, helper);"),
 # ---- round 2 (library with the C02 fixes applied)
 ('N1 RTBSS::upperBound accumulates before discounting (sum_{t=0..h-1}: too small a bound exactly when maxR < 0)',
  'include/AIToolbox/POMDP/Algorithms/RTBSS.hpp', 'POMDP/RTBSSTests',
  "            d *= model_.getDiscount();\n            bound += d * maxR_;", "            bound += d * maxR_;\n            d *= model_.getDiscount();"),
 ('N2 LinearSupport erases the agenda entries the new support does NOT improve (obsolete test flipped)',
  'include/AIToolbox/POMDP/Algorithms/LinearSupport.hpp', 'POMDP/LinearSupportTests',
  "if (it->belief.dot(best.support->values) > it->currentValue)", "if (it->belief.dot(best.support->values) <= it->currentValue)"),
 ('N3 findVerticesNaive no longer snaps the boundary coordinates to exactly 0 (QR noise -1e-17 rejects face vertices)',
  'include/AIToolbox/Utils/Polytope.hpp', 'MDP/UtilsPolytopeTests',
  "                        result[(*enumerator)[i] - alphasSize] = 0.0;", "                        (void)0;"),
 ('N4 Witness::addVariations stops at the first already-tried variation of an observation',
  'include/AIToolbox/POMDP/Algorithms/Witness.hpp', 'POMDP/WitnessTests',
  "if ( triedVectors_.find(vObs) != std::end(triedVectors_) ) continue;", "if ( triedVectors_.find(vObs) != std::end(triedVectors_) ) break;"),
 # ---- round 3 (run with --with-fixes: fixes/C02-3,4,5 applied first, as the integrator will; R1..R4 are also caught without them)
 ('R1 weakBoundDistance forgets cwiseAbs (signed differences: a new vector far BELOW every old one counts as close; the tolerance stop fires early)',
  'src/POMDP/Utils.cpp', 'POMDP/IncrementalPruningTests',
  "double distance = (newVE.values - oldVE.values).cwiseAbs().maxCoeff();", "double distance = (newVE.values - oldVE.values).maxCoeff();"),
 ('R2 Witness: the initial variation equals the tolerance instead of twice it (with a tolerance the loop is never entered)',
  'include/AIToolbox/POMDP/Algorithms/Witness.hpp', 'POMDP/WitnessTests',
  "        double variation = tolerance_ * 2; // Make it bigger\n        while ( timestep < horizon_", "        double variation = tolerance_; // Make it bigger\n        while ( timestep < horizon_"),
 ('R3 WitnessLP scales large hyperplanes UP instead of down (shared by Pruner/Witness; only magnitudes beyond 2^16 are touched)',
  'src/Utils/Polytope.cpp', 'POMDP/IncrementalPruningTests',
  "return std::abs(e) > 16 ? std::ldexp(1.0, -e) : 1.0;", "return std::abs(e) > 16 ? std::ldexp(1.0, e) : 1.0;"),
 ('R4 Witness stops doubling its LP row reservation (rows beyond the reservation)',
  'include/AIToolbox/POMDP/Algorithms/Witness.hpp', 'POMDP/WitnessTests',
  "                            reserveSize *= 2;\n", "                            reserveSize += 0;\n"),
 ('R5 Projecter, generic (non-Eigen) branch: observation probability read at the source state s instead of s1',
  'include/AIToolbox/POMDP/Algorithms/Utils/Projecter.hpp', 'POMDP/IncrementalPruningTests',
  "vproj[s] += model_.getTransitionProbability(s,a,s1) * model_.getObservationProbability(s1,a,o) * v[s1];",
  "vproj[s] += model_.getTransitionProbability(s,a,s1) * model_.getObservationProbability(s,a,o) * v[s1];"),
 ('R6 LinearSupport: a corner whose support is already known is still appended to goodSupports (duplicate planes handed to findVerticesNaive)',
  'include/AIToolbox/POMDP/Algorithms/LinearSupport.hpp', 'POMDP/LinearSupportTests',
  "                if (inserted) goodSupports.push_back(*it);", "                (void)inserted; goodSupports.push_back(*it);"),
 ('H1 harmless: RTBSS prunes on uBound >= max instead of > (same value, same first action)',
  'include/AIToolbox/POMDP/Algorithms/RTBSS.hpp', 'POMDP/RTBSSTests',
  "if ( uBound > max ) {", "if ( uBound >= max ) {"),
]


def unit_test(rel):
    import common as C
    lib, _ = C.build_lib()
    exe = '/var/tmp/scratch-c02/ut_mut'
    os.makedirs('/var/tmp/scratch-c02', exist_ok=True)
    cmd = [C.CXX] + C.CXXFLAGS + ['-I' + os.path.join(REPO, 'test'), os.path.join(REPO, 'test', rel + '.cpp'), lib] + C.LDLIBS + ['-lboost_unit_test_framework', '-o', exe]
    r = subprocess.run(cmd, capture_output=True, text=True)
    if r.returncode != 0:
        return 'unit test does not build'
    try:
        r = subprocess.run([exe], capture_output=True, text=True, timeout=600)
    except subprocess.TimeoutExpired:
        return 'unit test TIMEOUT'
    return 'unit test PASSES' if r.returncode == 0 else 'unit test FAILS'


args = sys.argv[1:]
unit = '--unit' in args
with_fixes = '--with-fixes' in args
sel = [a for a in args if not a.startswith('--')]
for name, f, ut, a, b in M:
    if sel and name.split()[0] not in sel: continue
    if a is None: continue
    if with_fixes:
        for d in sorted(os.listdir(os.path.join(WT, 'fixes'))):
            if d.startswith(('C02-3', 'C02-4', 'C02-5')) and d.endswith('.diff'):
                subprocess.run(['git', '-C', REPO, 'apply', os.path.join(WT, 'fixes', d)], check=True)
    p = os.path.join(REPO, f); s = open(p).read()
    if s.count(a) != 1:
        print(name, 'PATTERN COUNT', s.count(a)); subprocess.run(['git', '-C', REPO, 'checkout', '--', '.']); continue
    open(p, 'w').write(s.replace(a, b))
    try:
        r = subprocess.run(['python3', 'tools/check.py', 'C02', '--tier', 'quick'], cwd=WT, env=env, capture_output=True, text=True)
        lines = [l for l in r.stdout.splitlines() if l.startswith('VIOLATION') or l.startswith('[C02]')]
        print('==', name, '| check exit', r.returncode, ('| ' + unit_test(ut)) if unit else '')
        for l in lines[:5]: print('   ', l[:200])
        for l in lines:
            if l.startswith('VIOLATION'):
                rp = l.split('replay=')[1].split()[0]
                d = json.load(open(rp)); print('    first:', (d.get('verdict') or d.get('detail') or str(d.get('broken'))[:300])[:260]); break
    finally:
        subprocess.run(['git', '-C', REPO, 'checkout', '--', '.'])
    sys.stdout.flush()
