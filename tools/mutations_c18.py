"""Mutation trials for C18 (documentation of what was tried; run manually): applies each mutation to the scratch
library copy $AITB_REPO, runs tools/check.py C18 --tier quick, prints the outcome, reverts the copy.
Usage: python3 tools/mutations_c18.py [M1 M4 ...]"""
import subprocess, os, sys, json
REPO = os.environ.get('AITB_REPO', '/var/tmp/rp/c18'); WT = os.path.dirname(os.path.dirname(os.path.abspath(__file__)))
env = dict(os.environ, AITB_REPO=REPO)
F = 'src/Tools/CassandraParser.cpp'
M = [
 ('M1 first-wins: the single-entry form only writes cells that are still zero', F,
  """                        for (const auto d3 : d3v)
                            M[d1][a][d3] = val;""",
  """                        for (const auto d3 : d3v)
                            if (M[d1][a][d3] == 0.0) M[d1][a][d3] = val;"""),
 ('M2 wildcard misses the last index', F,
  """            retval.resize(max);""", """            retval.resize(max - 1);"""),
 ('M3 parseVector: wrong count constructs the exception without throwing', F,
  """            throw std::runtime_error("Wrong number of elements when parsing vector.");""",
  """            std::runtime_error("Wrong number of elements when parsing vector.");"""),
 ('M4 parseIndeces: range test off by one (val > max)', F,
  """                if (val >= max) throw""", """                if (val > max) throw"""),
 ('M5 processReward reads the value from token 4', F,
  """                const auto val = std::stod(tokens.at(5));""", """                const auto val = std::stod(tokens.at(4));"""),
 ('M6 unchecked token access in the single-entry form', F,
  """                const auto val = std::stod(tokens.at(4));""", """                const auto val = std::stod(tokens[4]);"""),
 ('M7 matrix form loops over D3 rows instead of D1', F,
  """                for (size_t d1 = 0; d1 < D1; ++d1) {
                    const auto v = parseVector(lines_.at(++i_), D3);""",
  """                for (size_t d1 = 0; d1 < D3; ++d1) {
                    const auto v = parseVector(lines_.at(++i_), D3);"""),
 ('M8 observation lines resolve end-state names through the observation map', F,
  """                processMatrix(W, stateMap_, observationMap_);""", """                processMatrix(W, observationMap_, observationMap_);"""),
 ('M9 lines are not trimmed before dispatch', F,
  """            boost::trim(line);
            if (line == "") continue;""", """            if (boost::trim_copy(line) == "") continue;"""),
 ('M10 default discount 0.95 instead of 1.0', F,
  """        discount_ = 1.0;""", """        discount_ = 0.95;"""),
 ('M11 next-line row does not advance the cursor', F,
  """                    v = parseVector(lines_.at(++i_), D3);""", """                    v = parseVector(lines_.at(i_ + 1), D3);"""),
 ('M12 row form writes the vector reversed', F,
  """                        for (size_t i = 0; i < v.size(); ++i)
                            M[d1][a][i] = v[i];
                break;
            }
            case 1: {""",
  """                        for (size_t i = 0; i < v.size(); ++i)
                            M[d1][a][i] = v[v.size() - 1 - i];
                break;
            }
            case 1: {"""),
 ('M13 a later states: line does not clear the name map', F,
  """        map.clear();

        const auto split""", """        const auto split"""),
 ('M14 MDP::parseCassandra passes the reward table as transitions', 'src/MDP/IO.cpp',
  """        return Model(S, A, T, R, discount);""", """        return Model(S, A, T, T, discount);"""),
 ('M15 POMDP::parseCassandra swaps nothing but drops the discount', 'src/POMDP/IO.cpp',
  """        return Model<MDP::Model>(O, W, S, A, T, R, discount);""", """        return Model<MDP::Model>(O, W, S, A, T, R);"""),
 ('M16 parsePOMDP forgets to require observations', F,
  """        if (!S || !A || !O)""", """        if (!S || !A)"""),
 ('M17 values parsed in single precision', F,
  """            retval.push_back(std::stod(*begin));""", """            retval.push_back(std::stof(*begin));"""),
 ('M18 empty lines are kept in lines_', F,
  """            if (line == "") continue;""", """            if (line == "" && lines_.empty()) continue;"""),
 ('M19 single-entry form tokenised on ":" only', F,
  """                // M: <action> : <start-state> : <end-state> <prob>
                const auto tokens = tokenize(str, ": ");""", """                // M: <action> : <start-state> : <end-state> <prob>
                const auto tokens = tokenize(str, ":");"""),
 ('M20 names take precedence over the wildcard only when declared: "*" looked up after the map', F,
  """        if (str == "*") {""", """        if (str == "*" && max > 1) {"""),
 ('M21 inline row accepted when at least D3 values are present', F,
  """                if (tokens.size() == 3 + D3) {""", """                if (tokens.size() >= 3 + D3) {"""),
 ('M22 reward start/end state swapped', F,
  """                            R[s][a][s1] = val;""", """                            R[s1][a][s] = val;"""),
 ('M23 numeric declaration parsed with stoi-like truncation to 8 bits', F,
  """                return std::stoul(ids[0]);""", """                return std::stoul(ids[0]) & 0xff;"""),
 ('M24 extractIDs: a single token must be a number (catch removed)', F,
  """            try {
                return std::stoul(ids[0]);
            } catch (...) {}""", """            return std::stoul(ids[0]);"""),
 ('M25 numbers are refused once names are declared', F,
  """                const size_t val = std::stoul(str);
                if (val >= max)""", """                if (!map.empty()) throw std::runtime_error("Unknown name");
                const size_t val = std::stoul(str);
                if (val >= max)"""),
 ('M26 matrix rows stored bottom-up', F,
  """                    for (const auto a : av)
                        for (size_t i = 0; i < v.size(); ++i)
                            M[d1][a][i] = v[i];
                }
                break;""", """                    for (const auto a : av)
                        for (size_t i = 0; i < v.size(); ++i)
                            M[D1 - 1 - d1][a][i] = v[i];
                }
                break;"""),
 ('M27 a model is complete when states OR actions are declared', F,
  """        if (!S || !A)
            throw std::runtime_error("MDP definition is incomplete");""", """        if (!S && !A)
            throw std::runtime_error("MDP definition is incomplete");"""),
 ('M28 discount line ignored after the first one', F,
  """            discount_ = std::stod(tokenize(line, ":").at(1));""", """            if (discount_ == 1.0) discount_ = std::stod(tokenize(line, ":").at(1));"""),
 ('N1 (round 2) a reused parser keeps the previous discount', F,
  """        discount_ = 1.0;

        for(std::string line;""", """        for(std::string line;"""),
 ('N2 (round 2) a reused parser keeps the previous observation count', F,
  """        S_ = 0, A_ = 0, O_ = 0;""", """        S_ = 0, A_ = 0;"""),
 ('N3 (round 2) lines_ is not cleared between two uses of a parser', F,
  """        lines_.clear();
        S_ = 0""", """        S_ = 0"""),
 ('N4 (round 2) the discount default is set once in the constructor, not per parse', F,
  """        discount_ = 1.0;

        for(std::string line;""", """        static_cast<void>(0);

        for(std::string line;""", """        initMap_["values"] = [](const std::string &){};""", """        discount_ = 1.0;
        initMap_["values"] = [](const std::string &){};"""),
 ('N5 (round 2) the sizes are zeroed once in the constructor, not per parse', F,
  """        S_ = 0, A_ = 0, O_ = 0;
        discount_""", """        discount_""", """        initMap_["values"] = [](const std::string &){};""", """        S_ = 0, A_ = 0, O_ = 0;
        initMap_["values"] = [](const std::string &){};"""),

 ('P1 (round 3) parseIndeces tries the number reading first and consults the name table only when stoul throws', F,
  """            if (auto it = map.find(str); it != std::end(map)) {
                retval.push_back(it->second);
            } else {
                const size_t val = std::stoul(str);
                if (val >= max) throw std::runtime_error("Input value too high");
                retval.push_back(val);
            }""",
  """            bool isNum = true; size_t val = 0;
            try { val = std::stoul(str); } catch (...) { isNum = false; }
            if (isNum) {
                if (val >= max) throw std::runtime_error("Input value too high");
                retval.push_back(val);
            } else {
                retval.push_back(map.at(str));
            }"""),
 ('P2 (round 3, indirect: Utils/Probability.hpp) isProbability drops the sign test', 'include/AIToolbox/Utils/Probability.hpp',
  """            if (value < 0.0) return false;
            p += value;""", """            p += value;"""),
 ('P3 (round 3) parsePOMDP checks only the S*A*S extent', F,
  """        checkExtent(S, A, S);
        checkExtent(S, A, O);""", """        checkExtent(S, A, S);"""),
 ('P4 (round 3, indirect: Utils/Probability.hpp) 3D isProbability skips the last slice', 'include/AIToolbox/Utils/Probability.hpp',
  """        for (size_t d = 0; d < depth; ++d)""", """        for (size_t d = 0; d + 1 < depth; ++d)"""),
 ('P5 (round 3, indirect: POMDP/Model.hpp) setObservationFunction copies O columns but only min(S,O) are meaningful (index swap o<->s1 guard)', 'include/AIToolbox/POMDP/Model.hpp',
  """                    observations_[a](s1, o) = of[s1][a][o];""", """                    observations_[a](s1, o) = of[s1][a][O - 1 - o];"""),
 ('P6 (round 3) the wildcard test accepts any token starting with `*`... and index tokens are compared by prefix: names that are prefixes of each other', F,
  """            if (auto it = map.find(str); it != std::end(map)) {""",
  """            if (auto it = std::find_if(std::begin(map), std::end(map), [&](const auto & kv) { return boost::starts_with(kv.first, str); }); it != std::end(map)) {"""),
 ('P7 (round 3) negative values lose their sign in the single-entry reward form', F,
  """                const auto val = std::stod(tokens.at(5));""", """                const auto val = std::fabs(std::stod(tokens.at(5)));"""),
]
sel = sys.argv[1:]
for entry in M:
    name, f, a, b = entry[:4]
    if sel and name.split()[0] not in sel: continue
    p = os.path.join(REPO, f); s = open(p).read()
    if s.count(a) != 1:
        print(name, 'PATTERN COUNT', s.count(a)); continue
    s = s.replace(a, b)
    if len(entry) == 6:
        if s.count(entry[4]) != 1:
            print(name, 'PATTERN2 COUNT', s.count(entry[4])); continue
        s = s.replace(entry[4], entry[5])
    open(p, 'w').write(s)
    r = subprocess.run(['python3', 'tools/check.py', 'C18', '--tier', 'quick'], cwd=WT, env=env, capture_output=True, text=True)
    lines = [l for l in r.stdout.splitlines() if l.startswith('VIOLATION') or l.startswith('[C18]')]
    print('==', name, 'exit', r.returncode)
    for l in lines[:3]: print('   ', l[:200])
    for l in lines:
        if l.startswith('VIOLATION'):
            rp = l.split('replay=')[1].split()[0]
            d = json.load(open(rp)); print('    first:', (d.get('verdict') or d.get('detail') or str(d.get('broken'))[:300])[:200]); break
    subprocess.run(['git', '-C', REPO, 'checkout', '--', '.'])
