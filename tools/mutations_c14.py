"""Mutation trials for C14 part B (documentation of what was tried; run manually): applies each mutation to the scratch
library copy $AITB_REPO, runs tools/check.py C14 --tier quick, prints the outcome, reverts the copy.
Usage: python3 tools/mutations_c14.py [M1 M3 ...]      (FIX=1 applies fixes/C14-*.diff first, so that the known findings do not mask)"""
import subprocess, os, sys, json
REPO = os.environ.get('AITB_REPO', '/var/tmp/rp/c14'); WT = os.path.dirname(os.path.dirname(os.path.abspath(__file__)))
env = dict(os.environ, AITB_REPO=REPO)
M = [
 ('H1 harmless: plusEqual(FactoredVector, BasisFunction) treats equal-size tags as "incoming bigger" (other merge branch, same values)',
  'src/Factored/Utils/FactoredVectorOps.cpp',
  """    FactoredVector & plusEqual(const Factors & space, FactoredVector & retval, const BasisFunction & basis) {
        const size_t initRetSize = retval.bases.size();

        // We try to merge all possible
        bool merged = false;
        for (size_t i = 0; i < initRetSize; ++i) {
            auto & curBasis = retval.bases[i];

            const auto retvalBigger = basis.tag.size() <= curBasis.tag.size();""",
  """    FactoredVector & plusEqual(const Factors & space, FactoredVector & retval, const BasisFunction & basis) {
        const size_t initRetSize = retval.bases.size();

        // We try to merge all possible
        bool merged = false;
        for (size_t i = 0; i < initRetSize; ++i) {
            auto & curBasis = retval.bases[i];

            const auto retvalBigger = basis.tag.size() < curBasis.tag.size();"""),
 ('M1 plusEqualSubset reads rhs at the running index instead of the projected one', 'src/Factored/Utils/FactoredVectorOps.cpp',
  """            const auto rhsId = toIndexPartial(rhs.tag, space, *e);

            retval.values[i] += rhs.values[rhsId];""",
  """            const auto rhsId = toIndexPartial(rhs.tag, space, *e);

            retval.values[i] += rhs.values[rhsId % rhs.values.size() == i % rhs.values.size() ? rhsId : i % rhs.values.size()];"""),
 ('M2 dot(BasisFunction) projects the rhs with the lhs tag', 'src/Factored/Utils/FactoredVectorOps.cpp',
  """            const auto rhsId = toIndexPartial(rhs.tag, space, *e);

            retval.values[i] = lhs.values[lhsId] * rhs.values[rhsId];""",
  """            const auto rhsId = lhs.tag.size() == rhs.tag.size() ? toIndexPartial(lhs.tag, space, *e) : toIndexPartial(rhs.tag, space, *e);

            retval.values[i] = lhs.values[lhsId] * rhs.values[rhsId];"""),
 ('M3 FactoredVector::operator*=(Vector) forgets to split the constant among the bases', 'src/Factored/Utils/FactoredMatrix.cpp',
  """    FactoredVector & FactoredVector::operator*=(const Vector & weights) {
        const size_t wsize = static_cast<size_t>(weights.size());
        assert(wsize == bases.size() || wsize == bases.size() + 1);

        const bool add = (wsize == bases.size() + 1);
        const double toAdd = weights[wsize - 1] / bases.size();""",
  """    FactoredVector & FactoredVector::operator*=(const Vector & weights) {
        const size_t wsize = static_cast<size_t>(weights.size());
        assert(wsize == bases.size() || wsize == bases.size() + 1);

        const bool add = (wsize == bases.size() + 1);
        const double toAdd = weights[wsize - 1];"""),
 ('M4 DDNGraph::push accumulates every block with the first parent set\'s size', 'src/Factored/Utils/BayesianNetwork.cpp',
  """            newStartId += factorSpacePartial(newParents.features[i], S);""",
  """            newStartId += factorSpacePartial(newParents.features[0], S);"""),
 ('M5 DDN::getTransitionProbability(State) skips the first feature', 'src/Factored/Utils/BayesianNetwork.cpp',
  """        for (size_t i = 0; i < graph.getS().size(); ++i) {
            retval *= transitions[i](graph.getId(i, s, a), s1[i]);""",
  """        for (size_t i = 1; i < graph.getS().size(); ++i) {
            retval *= transitions[i](graph.getId(i, s, a), s1[i]);"""),
 ('M6 backProject forgets to rewind the rhs domain after each (s,a)', 'src/Factored/Utils/BayesianNetwork.cpp',
  """                rDomain.reset();

                retval.values(sId, aId) = currentVal;""",
  """                retval.values(sId, aId) = currentVal;"""),
 ('M7 plusEqualSubset(BasisMatrix) swaps the projected row/column of the rhs', 'src/Factored/Utils/FactoredMatrix2DOps.cpp',
  """                retval.values(x, y) += rhs.values(rX, rY);""",
  """                retval.values(x, y) += rhs.values(rX < (size_t)rhs.values.cols() && rY < (size_t)rhs.values.rows() ? rY : rX, rX < (size_t)rhs.values.cols() && rY < (size_t)rhs.values.rows() ? rX : rY);"""),
 ('M8 PartialIndexEnumerator(keys) counts keys <= fixedFactor in the block length', 'src/Factored/Utils/Core.cpp',
  """        for (size_t i = 0; i < factors.size() && factors[i] < fixedFactor; ++i)""",
  """        for (size_t i = 0; i < factors.size() && factors[i] <= fixedFactor; ++i)"""),
 ('M9 JointActionLearner feeds the flat learner the agent\'s own action instead of the joint index', 'src/Factored/MDP/Algorithms/JointActionLearner.cpp',
  """        const auto jointA = toIndex(A, aa);""",
  """        const auto jointA = A.size() > 1 ? aa[id_] : toIndex(A, aa);"""),
 ('M10 SparseCooperativeQLearning discounts with the squared discount', 'src/Factored/MDP/Algorithms/SparseCooperativeQLearning.cpp',
  """            const double val = discount_ * ar.value / ar.action.first.size();""",
  """            const double val = discount_ * discount_ * ar.value / ar.action.first.size();"""),
 ('M11 FlattenedModel::sampleR returns the first local reward only', 'include/AIToolbox/Factored/Bandit/FlattenedModel.hpp',
  """        return model_.sampleR(helper_).sum();""",
  """        return model_.sampleR(helper_)[0];"""),
 ('H2 harmless: toIndexPartial(keys, space, PartialFactors) multiplies first and divides back (same arithmetic)', 'src/Factored/Utils/Core.cpp',
  """            while (pf.first[j] != id) ++j;
            result += multiplier * pf.second[j];
            multiplier *= space[id];""",
  """            while (pf.first[j] != id) ++j;
            multiplier *= space[id];
            result += multiplier * pf.second[j] / space[id];"""),
 ('M12 toIndexPartial(keys, space, PartialFactors) scales by the size of the scanned position instead of the key', 'src/Factored/Utils/Core.cpp',
  """            while (pf.first[j] != id) ++j;
            result += multiplier * pf.second[j];
            multiplier *= space[id];""",
  """            while (pf.first[j] != id) ++j;
            result += multiplier * pf.second[j];
            multiplier *= space[j];"""),
 ('M17 (snapshot, finding open) minusEqual(clearZero) erases the first basis instead of the merged one', 'src/Factored/Utils/FactoredVectorOps.cpp',
  """                    retval.bases.erase(std::begin(retval.bases) + i);""",
  """                    retval.bases.erase(std::begin(retval.bases));"""),
 ('M18 JointActionLearner counts the action of agent a instead of the a-th OTHER agent (forgets the skip)', 'src/Factored/MDP/Algorithms/JointActionLearner.cpp',
  """            stateActionCounts_[s][a][aa[i]] += 1;""",
  """            stateActionCounts_[s][a][aa[a] < stateActionCounts_[s][a].size() ? aa[a] : aa[i]] += 1;"""),
 ('F13 (on the repaired tree) minusEqual appends the unmerged basis un-negated', 'src/Factored/Utils/FactoredVectorOps.cpp',
  """            retval.bases.push_back(basis);
            retval.bases.back().values *= -1.0;""",
  """            retval.bases.push_back(basis);
            retval.bases.back().values *= 1.0;"""),
 ('F14 (on the repaired tree) CooperativeQLearning does not split the discounted value among the agents', 'src/Factored/MDP/Algorithms/CooperativeQLearning.cpp',
  """            const double val = discount_ * q.values(s1id, a1id) / q.actionTag.size();""",
  """            const double val = discount_ * q.values(s1id, a1id);"""),
 ('F15 (on the repaired tree) minusEqual(clearZero) erases the first basis instead of the merged one', 'src/Factored/Utils/FactoredVectorOps.cpp',
  """                    retval.bases.erase(std::begin(retval.bases) + i);""",
  """                    retval.bases.erase(std::begin(retval.bases));"""),
 ('F16 (on the repaired tree) minusEqual reverse merge forgets to negate the incoming basis', 'src/Factored/Utils/FactoredVectorOps.cpp',
  """                    negated.values *= -1.0;""",
  """                    negated.values *= 1.0;"""),
 # ---- round 3 (repaired tree; indirect helpers and the newly modelled consumers)
 ('R1 factorSpacePartial/factorSpace wraparound test uses <= (an exactly fitting product is reported as SIZE_MAX)', 'src/Factored/Utils/Core.cpp',
  """            if (std::numeric_limits<size_t>::max() / f < retval)""",
  """            if (std::numeric_limits<size_t>::max() / f <= retval)"""),
 ('R2 PartialFactorsEnumerator::reset() from a live state forgets the first entry (the library only ever resets a cleared enumerator)', 'src/Factored/Utils/Core.cpp',
  """            std::fill(std::begin(factors_.second), std::end(factors_.second), 0);""",
  """            std::fill(std::begin(factors_.second) + 1, std::end(factors_.second), 0);"""),
 ('R3 bellmanBackup forgets the discount', 'src/Factored/MDP/Utils.cpp',
  """v.values * (v.weights * m.getDiscount())""", """v.values * (v.weights * 1.0)"""),
 ('R4 CooperativeModel::sampleSR looks the row up with the half-built next state', 'src/Factored/MDP/CooperativeModel.cpp',
  """        State & s1 = *s1p;

        for (size_t i = 0; i < S.size(); ++i) {
            const auto j = graph_.getId(i, s, a);""",
  """        State & s1 = *s1p;

        for (size_t i = 0; i < S.size(); ++i) {
            const auto j = graph_.getId(i, i ? s1 : s, a);"""),
 ('R5 DDNGraph::push only refuses too FEW feature sets', 'src/Factored/Utils/BayesianNetwork.cpp',
  """        if (parents.features.size() != factorSpacePartial(parents.agents, A))""",
  """        if (parents.features.size() < factorSpacePartial(parents.agents, A))"""),
 ('R6 (indirect, Utils/Probability.hpp) isProbability no longer refuses negative entries', 'include/AIToolbox/Utils/Probability.hpp',
  """            const double value = static_cast<double>(in[i]);
            if (value < 0.0) return false;
            p += value;
        }
        if (checkDifferentSmall(p, 1.0))""",
  """            const double value = static_cast<double>(in[i]);
            p += value;
        }
        if (checkDifferentSmall(p, 1.0))"""),
 ('R7 (indirect, Utils/Core.hpp) sequential_sorted_contains(v, elems) answers true when the scan of v ends early', 'include/AIToolbox/Utils/Core.hpp',
  """            if (i == v.size() || v[i] > elems[j]) return false;""",
  """            if (i == v.size()) return true;
            if (v[i] > elems[j]) return false;"""),
 ('R8 checkTag no longer reports duplicates', 'src/Factored/Utils/Core.cpp',
  """            if (tagV == previousV)    return std::make_pair(TagErrors::Duplicates, t);""",
  """            if (tagV == previousV && t > tag.size()) return std::make_pair(TagErrors::Duplicates, t);"""),
]
sel = sys.argv[1:]
fix = os.environ.get('FIX') == '1'
for name, f, a, b in M:
    if sel and name.split()[0] not in sel: continue
    KF = os.path.join(WT, 'known_findings.d', 'C14.json'); kf_saved = None
    if fix or name.startswith('F'):
        # on the repaired tree the findings are closed: mark them so for the duration of the trial (restored below)
        kf_saved = open(KF).read()
        open(KF, 'w').write(kf_saved.replace('"status": "open"', '"status": "fixed"'))
        for d in ('C14-1-minusequal-subtracts', 'C14-2-basis-binop-alloc-size', 'C14-3-coopqlearning-uninit-norm', 'C14-4-scalew-empty'):
            subprocess.run(['git', '-C', REPO, 'apply', os.path.join(WT, 'fixes', d + '.diff')], check=True)
    p = os.path.join(REPO, f); s = open(p).read()
    if s.count(a) != 1:
        print(name, 'PATTERN COUNT', s.count(a)); subprocess.run(['git', '-C', REPO, 'checkout', '--', '.'])
        if kf_saved is not None: open(KF, 'w').write(kf_saved)
        continue
    open(p, 'w').write(s.replace(a, b))
    r = subprocess.run(['python3', 'tools/check.py', 'C14', '--tier', 'quick'], cwd=WT, env=env, capture_output=True, text=True)
    lines = [l for l in r.stdout.splitlines() if l.startswith('VIOLATION') or l.startswith('[C14]')]
    print('==', name, 'exit', r.returncode)
    for l in lines[:4]: print('   ', l[:200])
    for l in lines:
        if l.startswith('VIOLATION'):
            rp = l.split('replay=')[1].split()[0]
            d = json.load(open(rp)); print('    first:', (d.get('verdict') or d.get('detail') or str(d.get('broken'))[:300])[:260]); break
    if kf_saved is not None: open(KF, 'w').write(kf_saved)
    subprocess.run(['git', '-C', REPO, 'checkout', '--', '.'])
