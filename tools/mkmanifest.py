#!/usr/bin/env python3
"""Regenerate MANIFEST.json from tools/props/*.py (one SPEC per claimed property)."""
import glob, importlib, json, os, sys
HERE = os.path.dirname(os.path.abspath(__file__))
VERIF = os.path.dirname(HERE)
sys.path.insert(0, HERE)

props = [json.loads(l) for l in open(os.path.join(VERIF, 'properties.jsonl'))]
checks, na = [], []
for p in props:
    pid = p['id']
    f = os.path.join(HERE, 'props', pid.lower() + '.py')
    if not os.path.exists(f):
        na.append({'property_id': pid, 'reason': 'no check registered yet: the Lean model / harness for this property is not built in the committed tree (technique applies; see DESIGN.md section 8)'})
        continue
    spec = importlib.import_module('props.' + pid.lower()).SPEC
    if spec.get('not_applicable'):
        na.append({'property_id': pid, 'reason': spec['not_applicable']}); continue
    checks.append({
        'property_id': pid,
        'quick_cmd': f'python3 tools/check.py {pid} --tier quick',
        'thorough_cmd': f'python3 tools/check.py {pid} --tier thorough',
        'evidence_file': f'/verif/evidence/{pid}.json',
        'replay_cmd_template': f'python3 tools/check.py {pid} --replay {{path}}',
        'engine': 'lean4-proof+correspondence',
        'level_claimed': {'category': spec.get('level', 'proof'),
                          'text': spec.get('level_text') or (
                              '%d Lean theorems (axiom-audited each run, listed in tools/props/%s.py and explained in docs/%s.md) about the hand-written executable model of: %s. '
                              'Tie to the code: translator-regenerated Gen modules + correspondence harness on seeded cases + Lean-evaluated checker clauses on the '
                              'implementation\'s exact outputs. Not covered by proof: %s' % (
                                  len(spec.get('theorems', [])), pid.lower(), pid, '; '.join(spec.get('modelled', ['see docs']))[:600],
                                  '; '.join(spec.get('assumptions', ['see docs']))[:500])),
                          'design_ref': 'DESIGN.md §0, §8 ' + pid + '; docs/' + pid + '.md'},
        'level_note': spec.get('level_note', 'Trusted: Lean 4.33.0 kernel; axioms propext, Classical.choice, Quot.sound only (audited each run); translator tools/extract.py; '
                               'correspondence harness (differential testing, ASan+UBSan build of /repo working tree); double arithmetic modelled as exact rationals.'),
        'technique': spec.get('technique', 'Lean 4 theorems about a hand-written executable model + correspondence check (model driver vs sanitized implementation on seeded cases)'),
    })
m = {
    'version': 1,
    'setup_cmd': 'python3 tools/setup.py',
    'hooks': {
        'guard': 'AITB_VERIF',
        'enable': 'checks compile /repo/src/**.cpp and harness/*.cpp with -DAITB_VERIF (tools/common.py CXXFLAGS); the CMake build never defines it',
        'baseline_off_cmd': 'cmake --build /repo/_build -j16 && ctest --test-dir /repo/_build -j8 --timeout 900',
        'source_commits': json.load(open(os.path.join(VERIF, 'hooks.json')))['source_commits'] if os.path.exists(os.path.join(VERIF, 'hooks.json')) else [],
        'add_only': True,
    },
    'engines': [{'name': 'lean4-proof+correspondence', 'path': 'tools/check.py', 'serves_properties': [c['property_id'] for c in checks],
                 'kind_free_text': 'Lean 4 model + theorems (lean/AITB), translator-regenerated Gen modules, C++ ASan/UBSan correspondence harnesses, compiled Lean driver evaluating model and verified checkers on exact implementation outputs'}],
    'checks': checks,
    'not_applicable': na,
    'notes': 'See DESIGN.md. VERIF_SEED selects the generator seed; tier via --tier. known_findings.json lists genuine defects recorded rather than repaired.',
}
json.dump(m, open(os.path.join(VERIF, 'MANIFEST.json'), 'w'), indent=1)
print('claimed', [c['property_id'] for c in checks], 'n/a', [x['property_id'] for x in na])
