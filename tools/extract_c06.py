#!/usr/bin/env python3
"""Translator plug-in for C06 (and the guard table other properties may read): lean/AITB/Gen/Guards.lean.

1. Every `if ( <cond> ) throw std::invalid_argument(...)` in include/ and src/ whose condition is written in the
   tiny numeric language  `< <= > >= == != || && ! ( )`, numeric literals and ONE variable  becomes a `Site`
   carrying the condition as a `Guard.GExpr` syntax tree (data; its semantics `GExpr.eval : XRat -> Bool` is IEEE:
   every comparison with nan is false, `!=` is true).  Conditions outside the language are counted, not translated.
2. Every out-of-line definition of a member called `setDiscount` is classified: guarded (a Site exists), delegating
   (forwards to another object's setDiscount) or UNGUARDED (plain assignment) -> `unguardedDiscountSetters`.
3. Order facts of the model setters (does every `throw` precede the first write to the member table?) -> `validateFirst`.
4. Do the constructors that take a discount validate it (call setDiscount / carry a guard)?  -> `ctorChecksDiscount`.
5. Does AMDP::discretizeDense divide R(s,a) by the row sum only when that sum is non-zero? -> `amdpDenseGuardedDivide`.

Any anchored site that is not found, or has a shape this file does not understand, raises ExtractError (broken tie)."""
import os, re
from fractions import Fraction
import extract as X


# ------------------------------------------------------------------ helpers
def sources():
    out = []
    for top in ('include', 'src'):
        for root, dirs, files in os.walk(os.path.join(X.REPO, top)):
            dirs.sort()
            if os.sep + 'Python' in root:
                continue
            for f in sorted(files):
                if f.endswith(('.hpp', '.cpp')):
                    out.append(os.path.relpath(os.path.join(root, f), X.REPO))
    return out


def balanced(src, i, open_ch='(', close_ch=')'):
    """src[i] == open_ch; returns index of the matching close"""
    depth = 0
    for j in range(i, len(src)):
        if src[j] == open_ch:
            depth += 1
        elif src[j] == close_ch:
            depth -= 1
            if depth == 0:
                return j
    raise X.ExtractError('unbalanced ' + open_ch)


TOK = re.compile(r'\s*(?:(\d+\.?\d*(?:[eE][+-]?\d+)?[fFlLuU]*|\.\d+)|([A-Za-z_]\w*)|(<=|>=|==|!=|\|\||&&|<|>|!|\(|\)))')


def tokenize(cond):
    toks, i = [], 0
    cond = cond.strip()
    while i < len(cond):
        m = TOK.match(cond, i)
        if not m:
            return None
        if m.group(1):
            toks.append(('num', m.group(1)))
        elif m.group(2):
            toks.append(('id', m.group(2)))
        else:
            toks.append(('op', m.group(3)))
        i = m.end()
    return toks


FLIP = {'<': '>', '<=': '>=', '>': '<', '>=': '<=', '==': '==', '!=': '!='}
CMPNAME = {'<': 'lt', '<=': 'le', '>': 'gt', '>=': 'ge', '==': 'eq', '!=': 'ne'}


class Parser:
    """or := and ('||' and)* ; and := un ('&&' un)* ; un := '!' un | '(' or ')' | atom cmp atom"""
    def __init__(self, toks):
        self.t, self.i, self.vars = toks, 0, set()

    def peek(self):
        return self.t[self.i] if self.i < len(self.t) else (None, None)

    def eat(self):
        x = self.peek(); self.i += 1; return x

    def p_or(self):
        a = self.p_and()
        while self.peek() == ('op', '||'):
            self.eat(); b = self.p_and(); a = ('or', a, b)
        return a

    def p_and(self):
        a = self.p_un()
        while self.peek() == ('op', '&&'):
            self.eat(); b = self.p_un(); a = ('and', a, b)
        return a

    def p_un(self):
        k, v = self.peek()
        if (k, v) == ('op', '!'):
            self.eat(); return ('not', self.p_un())
        if (k, v) == ('op', '('):
            self.eat(); a = self.p_or()
            if self.eat() != ('op', ')'):
                raise ValueError('paren')
            return a
        l = self.eat(); o = self.eat(); r = self.eat()
        if o[0] != 'op' or o[1] not in FLIP:
            raise ValueError('cmp')
        if l[0] == 'id' and r[0] == 'num':
            self.vars.add(l[1].rstrip('_')); return ('cmp', CMPNAME[o[1]], X.lit_to_rat(r[1]))
        if l[0] == 'num' and r[0] == 'id':
            self.vars.add(r[1].rstrip('_')); return ('cmp', CMPNAME[FLIP[o[1]]], X.lit_to_rat(l[1]))
        raise ValueError('atom')


def parse_cond(cond):
    """-> (tree, var) or None when the condition is outside the numeric one-variable language"""
    toks = tokenize(cond)
    if not toks:
        return None
    p = Parser(toks)
    try:
        tree = p.p_or()
    except (ValueError, IndexError, TypeError):
        return None
    if p.i != len(toks) or len(p.vars) != 1:
        return None
    return tree, next(iter(p.vars))


def lean_gexpr(t):
    if t[0] == 'cmp':
        return f'(.cmp .{t[1]} {X.lean_rat(t[2])})'
    if t[0] == 'not':
        return f'(.not {lean_gexpr(t[1])})'
    return f'(.{t[0]} {lean_gexpr(t[1])} {lean_gexpr(t[2])})'


FUNC_HDR = re.compile(r'([A-Za-z_]\w*)\s*(?:<[^<>;{}()]*>)?\s*::\s*(~?[A-Za-z_]\w*)\s*\(')


def enclosing_function(src, pos):
    """nearest preceding out-of-line member definition header `Class[<..>]::name(` whose body contains pos"""
    best = None
    for m in FUNC_HDR.finditer(src, 0, pos):
        try:
            close = balanced(src, m.end() - 1)
        except X.ExtractError:
            continue
        # after the parameter list: optional const / noexcept / init list, then '{'
        k = close + 1
        if not re.match(r'\s*(const\b|noexcept\b|:|\{)', src[k:k + 40]):
            continue
        ob = body_open(src, k)
        if ob is None:
            continue
        try:
            cb = balanced(src, ob, '{', '}')
        except X.ExtractError:
            continue
        if ob < pos < cb:
            best = (m.group(1), m.group(2), ob, cb)
    return best


def body_open(src, k):
    """index of the `{` opening the function body, scanning from k (just after the parameter list) over
    `const`, `noexcept` and a constructor initialiser list (whose braces, if any, sit inside parentheses)"""
    depth = 0
    for j in range(k, min(len(src), k + 4000)):
        c = src[j]
        if c == '(':
            depth += 1
        elif c == ')':
            depth -= 1
        elif depth == 0 and c == ';':
            return None
        elif depth == 0 and c == '{':
            return j
    return None


def function_bodies(src, cls, fn):
    """all out-of-line definitions `cls[<..>]::fn(params) [const] [: init] { body }` -> list of (params, init, body, line)"""
    out = []
    for m in re.finditer(r'\b' + re.escape(cls) + r'\s*(?:<[^<>;{}()]*>)?\s*::\s*' + re.escape(fn) + r'\s*\(', src):
        close = balanced(src, m.end() - 1)
        ob = body_open(src, close + 1)
        if ob is None or not re.match(r'\s*(const\b|noexcept\b|:|\{)', src[close + 1:close + 40]):
            continue
        cb = balanced(src, ob, '{', '}')
        out.append((src[m.end():close], src[close + 1:ob], src[ob:cb + 1], X.lineno(src, m.start())))
    return out


# ------------------------------------------------------------------ 1. guard sites
GUARD = re.compile(r'\bif\s*\(')


def guard_sites():
    sites, skipped = [], 0
    for rel in sources():
        src = X.strip_comments(X.read(rel))
        for m in GUARD.finditer(src):
            close = balanced(src, m.end() - 1)
            tail = src[close + 1:close + 80]
            if not re.match(r'\s*\{?\s*throw\s+std::invalid_argument\b', tail):
                continue
            cond = src[m.end():close]
            parsed = parse_cond(cond)
            fn = enclosing_function(src, m.start())
            if parsed is None:
                if fn and fn[1] == 'setDiscount':
                    raise X.ExtractError(f'{rel}:{X.lineno(src, m.start())}: setDiscount guard outside the condition language: {cond.strip()!r}')
                skipped += 1
                continue
            if fn is None:
                # in-class inline definition: take the nearest preceding `name(` that opens a body
                mm = None
                for mm in re.finditer(r'([A-Za-z_]\w*)\s*\([^;{}()]*\)\s*(?:const\s*)?\{', src[:m.start()]):
                    pass
                cls = os.path.splitext(os.path.basename(rel))[0]
                name = mm.group(1) if mm else 'unknown'
                fn = (cls, name, 0, 0)
            sites.append({'cls': fn[0], 'fn': fn[1], 'file': rel, 'line': X.lineno(src, m.start()),
                          'tree': parsed[0], 'var': parsed[1], 'text': ' '.join(cond.split())})
    return sites, skipped


# ------------------------------------------------------------------ 2. setDiscount definitions
def discount_setters(sites):
    guarded = {(s['cls'], s['file']) for s in sites if s['fn'] == 'setDiscount'}
    unguarded, delegating, total = [], [], 0
    for rel in sources():
        src = X.strip_comments(X.read(rel))
        for m in re.finditer(r'\b([A-Za-z_]\w*)\s*(?:<[^<>;{}()]*>)?\s*::\s*setDiscount\s*\(', src):
            cls = m.group(1)
            close = balanced(src, m.end() - 1)
            mm = re.match(r'\s*\{', src[close + 1:close + 40])
            if not mm:
                continue  # a call, not a definition
            total += 1
            ob = close + 1 + mm.end() - 1
            body = src[ob:balanced(src, ob, '{', '}') + 1]
            if (cls, rel) in guarded:
                continue
            if re.search(r'\.\s*setDiscount\s*\(', body):
                delegating.append((cls, rel, X.lineno(src, m.start())))
            elif re.search(r'\bdiscount_?\s*=\s*\w+\s*;', body) and 'throw' not in body:
                unguarded.append((cls, rel, X.lineno(src, m.start())))
            else:
                raise X.ExtractError(f'{rel}:{X.lineno(src, m.start())}: {cls}::setDiscount has an unknown shape')
    if total < 10:
        raise X.ExtractError('found only %d setDiscount definitions (expected the whole family)' % total)
    return unguarded, delegating


# ------------------------------------------------------------------ 3. validate-then-commit order
# (class, function, file, regex of the first WRITE to the member table, how many definitions are expected)
ORDER_SITES = [
    ('Model', 'setTransitionFunction', 'include/AIToolbox/MDP/Model.hpp', r'transitions_\s*(\[[^\]]*\]\s*\([^)]*\)\s*)?=[^=]', 'MDP_Model_setT3D'),
    ('Model', 'setTransitionFunction', 'src/MDP/Model.cpp', r'transitions_\s*=[^=]', 'MDP_Model_setTEigen'),
    ('Model', 'setDiscount', 'src/MDP/Model.cpp', r'discount_\s*=[^=]', 'MDP_Model_setDiscount'),
    ('SparseModel', 'setTransitionFunction', 'include/AIToolbox/MDP/SparseModel.hpp', r'transitions_\s*\[[^\]]*\]\s*\.\s*(setZero|insert|coeffRef)\b|transitions_\s*=[^=]', 'MDP_SparseModel_setT3D'),
    ('SparseModel', 'setTransitionFunction', 'src/MDP/SparseModel.cpp', r'transitions_\s*=[^=]', 'MDP_SparseModel_setTEigen'),
    ('SparseModel', 'setDiscount', 'src/MDP/SparseModel.cpp', r'discount_\s*=[^=]', 'MDP_SparseModel_setDiscount'),
    ('Model', 'setObservationFunction', 'include/AIToolbox/POMDP/Model.hpp', r'observations_\s*(\[[^\]]*\]\s*\([^)]*\)\s*)?=[^=]', 'POMDP_Model_setO'),
    ('SparseModel', 'setObservationFunction', 'include/AIToolbox/POMDP/SparseModel.hpp', r'observations_\s*\[[^\]]*\]\s*\.\s*(setZero|insert|coeffRef)\b|observations_\s*=[^=]', 'POMDP_SparseModel_setO'),
    ('DDNGraph', 'push', 'src/Factored/Utils/BayesianNetwork.cpp', r'(parents_|startIds_)\s*\.\s*(emplace_back|push_back)\b', 'DDNGraph_push'),
]


def validate_first():
    rows = []
    for cls, fn, rel, wr, key in ORDER_SITES:
        src = X.strip_comments(X.read(rel))
        defs = function_bodies(src, cls, fn)
        if not defs:
            raise X.ExtractError(f'{rel}: no definition of {cls}::{fn}')
        for n, (params, init, body, ln) in enumerate(defs):
            throws = [m.start() for m in re.finditer(r'\bthrow\b', body)]
            w = re.search(wr, body)
            if not throws:
                raise X.ExtractError(f'{rel}:{ln}: {cls}::{fn} no longer throws')
            if not w:
                raise X.ExtractError(f'{rel}:{ln}: {cls}::{fn}: write to the member table not found')
            rows.append((key + ('' if len(defs) == 1 else ('_3D' if 'ObFun' in params or 'const T' in params else '_Eigen')), max(throws) < w.start(), rel, ln))
    return rows


# ------------------------------------------------------------------ 4. constructors taking a discount
CTOR_SITES = [
    ('Model', 'src/MDP/Model.cpp', 'MDP_Model_basic'),
    ('SparseModel', 'src/MDP/SparseModel.cpp', 'MDP_SparseModel_basic'),
    ('CooperativeModel', 'src/Factored/MDP/CooperativeModel.cpp', 'CooperativeModel'),
]


def ctor_checks():
    rows = []
    for cls, rel, key in CTOR_SITES:
        src = X.strip_comments(X.read(rel))
        found = False
        for params, init, body, ln in function_bodies(src, cls, cls):
            if 'NoCheck' in params or re.search(r'const\s+' + cls + r'\s*&', params):
                continue
            if not re.search(r'\bdouble\s+(discount|d)\b', params):
                continue
            found = True
            checked = bool(re.search(r'\bsetDiscount\s*\(', body)) or bool(re.search(r'if\s*\([^;{}]*\bdiscount_?\b[^;{}]*\)\s*\{?\s*throw', body))
            if not checked and not re.search(r'discount_\s*\(', init):
                raise X.ExtractError(f'{rel}:{ln}: {cls} constructor neither validates nor stores the discount')
            rows.append((key, checked, rel, ln))
        if not found:
            raise X.ExtractError(f'{rel}: constructor of {cls} taking a discount not found')
    return rows


# ------------------------------------------------------------------ 4a. learned / factored models derived by the library
LEARNED = [
    ('MaximumLikelihoodModel', 'include/AIToolbox/MDP/MaximumLikelihoodModel.hpp'),
    ('SparseMaximumLikelihoodModel', 'include/AIToolbox/MDP/SparseMaximumLikelihoodModel.hpp'),
    ('ThompsonModel', 'include/AIToolbox/MDP/ThompsonModel.hpp'),
    ('CooperativeMaximumLikelihoodModel', 'src/Factored/MDP/CooperativeMaximumLikelihoodModel.cpp'),
    ('CooperativeThompsonModel', 'src/Factored/MDP/CooperativeThompsonModel.cpp'),
]


def learned_facts():
    """per learned-model class: (constructor validates the discount: calls setDiscount or carries a guard;
    setDiscount validates before it assigns)"""
    rows = []
    for cls, rel in LEARNED:
        src = X.strip_comments(X.read(rel))
        ctors = [d for d in function_bodies(src, cls, cls) if re.search(r'\bdouble\s+discount\b', d[0])]
        if not ctors:
            raise X.ExtractError(f'{rel}: constructor of {cls} taking a discount not found')
        ck = all(bool(re.search(r'\bsetDiscount\s*\(\s*discount\s*\)', b)) or bool(re.search(r'if\s*\([^;{}]*\bdiscount_?\b[^;{}]*\)\s*\{?\s*throw', b))
                 for _, _, b, _ in ctors)
        sd = function_bodies(src, cls, 'setDiscount')
        if len(sd) != 1:
            raise X.ExtractError(f'{rel}: expected one definition of {cls}::setDiscount, found {len(sd)}')
        body = sd[0][2]
        t = re.search(r'\bthrow\b', body); w = re.search(r'\bdiscount_\s*=[^=]', body)
        if not w:
            raise X.ExtractError(f'{rel}: {cls}::setDiscount does not assign discount_')
        rows.append((cls, rel, ck, bool(t) and t.start() < w.start()))
    return rows


# ------------------------------------------------------------------ 4b. sparse 3D setters: is what gets STORED re-validated?
RECHECK_SITES = [
    ('SparseModel', 'setTransitionFunction', 'include/AIToolbox/MDP/SparseModel.hpp', 'MDP_SparseModel_setT3D'),
    ('SparseModel', 'setObservationFunction', 'include/AIToolbox/POMDP/SparseModel.hpp', 'POMDP_SparseModel_setO3D'),
]


def sparse_rechecks():
    """True when, after the last `.insert(` of the 3D-container overload, the body tests `!isProbability(<sparse temp>)`
    and throws, i.e. the rows as stored (entries <= tolerance dropped) are validated too."""
    rows = []
    for cls, fn, rel, key in RECHECK_SITES:
        src = X.strip_comments(X.read(rel))
        defs = [d for d in function_bodies(src, cls, fn) if re.search(r'const\s+(T|ObFun)\s*&', d[0])]
        if len(defs) != 1:
            raise X.ExtractError(f'{rel}: expected one 3D-container overload of {cls}::{fn}, found {len(defs)}')
        params, init, body, ln = defs[0]
        ins = [m.end() for m in re.finditer(r'\.\s*insert\s*\(', body)]
        if not ins:
            raise X.ExtractError(f'{rel}:{ln}: {cls}::{fn} no longer inserts entries')
        tail = body[ins[-1]:]
        rows.append((key, bool(re.search(r'if\s*\(\s*!\s*isProbability\s*\(\s*\w+\s*\)\s*\)\s*\{?\s*throw', tail)), rel, ln))
    return rows


# ------------------------------------------------------------------ 5. AMDP dense division
def amdp_guarded():
    rel = 'include/AIToolbox/POMDP/Algorithms/AMDP.hpp'
    src = X.strip_comments(X.read(rel))
    m = X.find1(r'AMDP::discretizeDense\s*\(', src, 'AMDP::discretizeDense')
    ob = src.index('{', m.end())
    body = src[ob:balanced(src, ob, '{', '}') + 1]
    d = X.find1(r'R\s*\(\s*s\s*,\s*a\s*\)\s*/=\s*([^;]+);', body, 'R(s,a) /= … in discretizeDense')
    # guarded iff the division sits inside an else-branch of the `checkEqualSmall(sum, 0.0)` test or under an if on sum/visit
    before = body[:d.start()]
    # innermost open block before the division
    depth_stack = []
    for mm in re.finditer(r'[{}]', before):
        if mm.group(0) == '{':
            depth_stack.append(mm.start())
        else:
            depth_stack.pop()
    inner_open = depth_stack[-1]
    head = before[max(0, inner_open - 120):inner_open]
    in_else = bool(re.search(r'else\s*$', head))
    under_if = bool(re.search(r'if\s*\([^{};]*(sum|checkDifferentSmall|!=\s*0|>\s*0)[^{};]*\)\s*$', head))
    same_stmt_if = bool(re.search(r'if\s*\([^{};]*\)\s*$', before[-80:]))
    return (in_else or under_if or same_stmt_if), rel, X.lineno(src, ob + d.start())


# ------------------------------------------------------------------ emit
def gen_guards():
    sites, skipped = guard_sites()
    if len([s for s in sites if s['fn'] == 'setDiscount']) < 10:
        raise X.ExtractError('fewer than 10 guarded setDiscount sites found')
    ung, dele = discount_setters(sites)
    order = validate_first()
    ctors = ctor_checks()
    amdp, arel, aln = amdp_guarded()
    rechecks = sparse_rechecks()
    learned = learned_facts()
    b = lambda x: 'true' if x else 'false'
    L = ['/- GENERATED by tools/extract_c06.py from the library source — do not edit. -/',
         'import AITB.Model.Guard', 'namespace AITB.Gen.Guards', 'open AITB.Guard', '',
         f'/-- {len(sites)} translated guard sites; {skipped} `throw std::invalid_argument` conditions lie outside the numeric one-variable language -/',
         'def sites : List Site := [']
    for i, s in enumerate(sorted(sites, key=lambda s: (s['file'], s['line']))):
        L.append(f'  ⟨"{s["cls"]}", "{s["fn"]}", "{s["file"]}", {s["line"]}, {lean_gexpr(s["tree"])}⟩' + (',' if i + 1 < len(sites) else '') + f'  -- {s["text"]}')
    L += [']', '', '/-- out-of-line `X::setDiscount` definitions that assign without any guard -/',
          'def unguardedDiscountSetters : List (String × String × Nat) := [' + ', '.join(f'("{c}", "{r}", {ln})' for c, r, ln in sorted(ung)) + ']', '',
          '/-- `X::setDiscount` definitions that forward to another object\'s setDiscount -/',
          'def delegatingDiscountSetters : List (String × String × Nat) := [' + ', '.join(f'("{c}", "{r}", {ln})' for c, r, ln in sorted(dele)) + ']', '',
          '/-- setter -> "every throw precedes the first write to the member table" -/',
          'def validateFirst : List (String × Bool) := [' + ', '.join(f'("{k}", {b(v)})' for k, v, _, _ in order) + ']']
    for k, v, rel, ln in order:
        L += [f'/-- {rel}:{ln} -/', f'def vf_{k} : Bool := {b(v)}']
    L += ['', '/-- constructor taking a discount -> "validates it (setDiscount call or guard)" -/',
          'def ctorChecksDiscount : List (String × Bool) := [' + ', '.join(f'("{k}", {b(v)})' for k, v, _, _ in ctors) + ']']
    for k, v, rel, ln in ctors:
        L += [f'/-- {rel}:{ln} -/', f'def ctor_{k}_checksDiscount : Bool := {b(v)}']
    L += ['', '/-- learned / factored model classes: (class, file of setDiscount, constructor validates the discount, setDiscount validates before assigning) -/',
          'def learnedModels : List (String × String × Bool × Bool) := [' + ', '.join(f'("{c}", "{r}", {b(ck)}, {b(vf)})' for c, r, ck, vf in learned) + ']']
    L += ['', '-- sparse 3D-container setter -> "the rows as stored (sub-threshold entries dropped) are validated again before the commit"']
    for k, v, rel, ln in rechecks:
        L += [f'/-- {rel}:{ln} -/', f'def recheck_{k} : Bool := {b(v)}']
    L += ['', f'/-- {arel}:{aln}: `R(s,a) /= rowsum` executed only when the row sum is non-zero -/',
          f'def amdpDenseGuardedDivide : Bool := {b(amdp)}', '', 'end AITB.Gen.Guards', '']
    X.write_if_changed('Guards', '\n'.join(L))


# ------------------------------------------------------------------ round 3: text of the functions the model was written from
def _body_after(src, start_pat, what):
    """(comment-stripped, whitespace-free text of the brace block after the first match of start_pat, line)"""
    m = X.find1(start_pat, src, what, re.S)
    i = src.index('{', m.end() - 1)
    depth, j = 0, i
    while j < len(src):
        if src[j] == '{':
            depth += 1
        elif src[j] == '}':
            depth -= 1
            if depth == 0:
                return re.sub(r'\s+', '', src[i:j + 1]), X.lineno(src, m.start())
        j += 1
    raise X.ExtractError('unbalanced braces after ' + what)


BN = 'src/Factored/Utils/BayesianNetwork.cpp'
FC = 'src/Factored/Utils/Core.cpp'
CM = 'src/Factored/MDP/CooperativeModel.cpp'
UC = 'include/AIToolbox/Utils/Core.hpp'
PC = 'src/Utils/Probability.cpp'
# (name, file, signature regex, the one normalised body the Lean model (AITB.Model.CoopDyn / ModelState) was written from)
BODY_SITES = [
    ('checkEqualSmall', UC, r'inline\s+bool\s+checkEqualSmall\s*\(\s*const\s+double\s+a\s*,\s*const\s+double\s+b\s*\)\s*\{',
     '{return(std::fabs(a-b)<=equalToleranceSmall);}'),
    ('checkDifferentSmall', UC, r'inline\s+bool\s+checkDifferentSmall\s*\(\s*const\s+double\s+a\s*,\s*const\s+double\s+b\s*\)\s*\{',
     '{return!checkEqualSmall(a,b);}'),
    ('isProbabilityDense', PC, r'bool\s+isProbability\s*\(\s*const\s+Matrix2D\s*&\s*in\s*\)\s*\{',
     '{for(size_trow=0;row<static_cast<size_t>(in.rows());++row)if(in.row(row).minCoeff()<0.0||checkDifferentSmall(in.row(row).sum(),1.0))returnfalse;returntrue;}'),
    ('isProbabilityDense3D', PC, r'bool\s+isProbability\s*\(\s*const\s+Matrix3D\s*&\s*in\s*\)\s*\{',
     '{for(constauto&m2:in)if(!isProbability(m2))returnfalse;returntrue;}'),
    ('isProbabilitySparse3D', PC, r'bool\s+isProbability\s*\(\s*const\s+SparseMatrix3D\s*&\s*in\s*\)\s*\{',
     '{for(constauto&m2:in)if(!isProbability(m2))returnfalse;returntrue;}'),
    ('isProbabilityLoop', 'include/AIToolbox/Utils/Probability.hpp', r'bool\s+isProbability\s*\(\s*const\s+size_t\s+size\s*,\s*const\s+T\s*&\s*in\s*\)\s*\{',
     '{doublep=0.0;for(size_ti=0;i<size;++i){constdoublevalue=static_cast<double>(in[i]);if(value<0.0)returnfalse;p+=value;}if(checkDifferentSmall(p,1.0))returnfalse;returntrue;}'),
    ('isProbabilityLoop2D', 'include/AIToolbox/Utils/Probability.hpp', r'bool\s+isProbability\s*\(\s*const\s+size_t\s+rows\s*,\s*const\s+size_t\s+cols\s*,\s*const\s+T\s*&\s*in\s*\)\s*\{',
     '{for(size_trow=0;row<rows;++row)if(!isProbability(cols,in[row]))returnfalse;returntrue;}'),
    ('isProbabilityLoop3D', 'include/AIToolbox/Utils/Probability.hpp', r'bool\s+isProbability\s*\(\s*const\s+size_t\s+depth\s*,\s*const\s+size_t\s+rows\s*,\s*const\s+size_t\s+cols\s*,\s*const\s+T\s*&\s*in\s*\)\s*\{',
     '{for(size_td=0;d<depth;++d)if(!isProbability(rows,cols,in[d]))returnfalse;returntrue;}'),
    ('factorSpacePartial', FC, r'size_t\s+factorSpacePartial\s*\(\s*const\s+PartialKeys\s*&\s*ids\s*,\s*const\s+Factors\s*&\s*space\s*\)\s*\{',
     '{size_tretval=1;for(constautoid:ids){if(std::numeric_limits<size_t>::max()/space[id]<retval)returnstd::numeric_limits<size_t>::max();retval*=space[id];}returnretval;}'),
    ('toIndexPartial', FC, r'size_t\s+toIndexPartial\s*\(\s*const\s+PartialKeys\s*&\s*ids\s*,\s*const\s+Factors\s*&\s*space\s*,\s*const\s+Factors\s*&\s*f\s*\)\s*\{',
     '{size_tresult=0;size_tmultiplier=1;for(autoid:ids){result+=multiplier*f[id];multiplier*=space[id];}returnresult;}'),
    ('toIndexPartialPF', FC, r'size_t\s+toIndexPartial\s*\(\s*const\s+PartialKeys\s*&\s*ids\s*,\s*const\s+Factors\s*&\s*space\s*,\s*const\s+PartialFactors\s*&\s*pf\s*\)\s*\{',
     '{size_tresult=0;size_tmultiplier=1;size_tj=0;for(autoid:ids){while(pf.first[j]!=id)++j;result+=multiplier*pf.second[j];multiplier*=space[id];}returnresult;}'),
    ('ddnGetIdSA', BN, r'size_t\s+DDNGraph::getId\s*\(\s*const\s+size_t\s+feature\s*,\s*const\s+State\s*&\s*s\s*,\s*const\s+Action\s*&\s*a\s*\)\s*const\s*\{',
     '{constauto[parentId,actionId]=getIds(feature,s,a);returngetId(feature,parentId,actionId);}'),
    ('ddnGetIdPF', BN, r'size_t\s+DDNGraph::getId\s*\(\s*const\s+size_t\s+feature\s*,\s*const\s+PartialState\s*&\s*s\s*,\s*const\s+PartialAction\s*&\s*a\s*\)\s*const\s*\{',
     '{constauto[parentId,actionId]=getIds(feature,s,a);returngetId(feature,parentId,actionId);}'),
    ('ddnGetId3', BN, r'size_t\s+DDNGraph::getId\s*\(\s*const\s+size_t\s+feature\s*,\s*size_t\s+parentId\s*,\s*size_t\s+actionId\s*\)\s*const\s*\{',
     '{returnstartIds_[feature][actionId]+parentId;}'),
    ('ddnGetIdsSA', BN, r'DDNGraph::getIds\s*\(\s*const\s+size_t\s+feature\s*,\s*const\s+State\s*&\s*s\s*,\s*const\s+Action\s*&\s*a\s*\)\s*const\s*\{',
     '{constautoactionId=toIndexPartial(parents_[feature].agents,A,a);constauto&features=parents_[feature].features[actionId];constautoparentId=toIndexPartial(features,S,s);return{parentId,actionId};}'),
    ('ddnGetIdsPF', BN, r'DDNGraph::getIds\s*\(\s*const\s+size_t\s+feature\s*,\s*const\s+PartialState\s*&\s*s\s*,\s*const\s+PartialAction\s*&\s*a\s*\)\s*const\s*\{',
     '{constautoactionId=toIndexPartial(parents_[feature].agents,A,a);constauto&features=parents_[feature].features[actionId];constautoparentId=toIndexPartial(features,S,s);return{parentId,actionId};}'),
    ('ddnGetIdsOfRow', BN, r'DDNGraph::getIds\s*\(\s*const\s+size_t\s+feature\s*,\s*const\s+size_t\s+j\s*\)\s*const\s*\{',
     '{std::pair<size_t,size_t>retval{0,startIds_[feature].size()-2};auto&[parentId,actionId]=retval;while(startIds_[feature][actionId]>j)--actionId;parentId=j-startIds_[feature][actionId];returnretval;}'),
    ('ddnGetSize', BN, r'size_t\s+DDNGraph::getSize\s*\(\s*const\s+size_t\s+feature\s*\)\s*const\s*\{',
     '{returnstartIds_[feature].back();}'),
    ('ddnGetPartialSize1', BN, r'size_t\s+DDNGraph::getPartialSize\s*\(\s*const\s+size_t\s+feature\s*\)\s*const\s*\{',
     '{returnparents_[feature].features.size();}'),
    ('ddnGetPartialSize2', BN, r'size_t\s+DDNGraph::getPartialSize\s*\(\s*const\s+size_t\s+feature\s*,\s*const\s+size_t\s+actionId\s*\)\s*const\s*\{',
     '{returnstartIds_[feature][actionId+1]-startIds_[feature][actionId];}'),
    ('ddnTransitionProbability', BN, r'DDN::getTransitionProbability\s*\(\s*const\s+Factors\s*&\s*s\s*,\s*const\s+Factors\s*&\s*a\s*,\s*const\s+Factors\s*&\s*s1\s*\)\s*const\s*\{',
     '{doubleretval=1.0;for(size_ti=0;i<graph.getS().size();++i){retval*=transitions[i](graph.getId(i,s,a),s1[i]);}returnretval;}'),
    ('ddnTransitionProbabilityPF', BN, r'DDN::getTransitionProbability\s*\(\s*const\s+PartialFactors\s*&\s*s\s*,\s*const\s+PartialFactors\s*&\s*a\s*,\s*const\s+PartialFactors\s*&\s*s1\s*\)\s*const\s*\{',
     '{doubleretval=1.0;for(size_tj=0;j<s1.first.size();++j){constautonodeId=s1.first[j];retval*=transitions[nodeId](graph.getId(nodeId,s,a),s1.second[j]);}returnretval;}'),
    ('factoredMatrixGetValue', 'src/Factored/Utils/FactoredMatrix.cpp', r'FactoredMatrix2D::getValue\s*\(\s*const\s+Factors\s*&\s*space\s*,\s*const\s+Factors\s*&\s*actions\s*,\s*const\s+Factors\s*&\s*value\s*,\s*const\s+Factors\s*&\s*action\s*\)\s*const\s*\{',
     '{doubleretval=0.0;for(constauto&e:bases){constautofid=toIndexPartial(e.tag,space,value);constautoaid=toIndexPartial(e.actionTag,actions,action);retval+=e.values(fid,aid);}returnretval;}'),
    ('coopGetTransitionProbability', CM, r'double\s+CooperativeModel::getTransitionProbability\s*\(\s*const\s+State\s*&\s*s\s*,\s*const\s+Action\s*&\s*a\s*,\s*const\s+State\s*&\s*s1\s*\)\s*const\s*\{',
     '{returntransitions_.getTransitionProbability(s,a,s1);}'),
    ('coopGetExpectedReward', CM, r'double\s+CooperativeModel::getExpectedReward\s*\(\s*const\s+State\s*&\s*s\s*,\s*const\s+Action\s*&\s*a\s*,\s*const\s+State\s*&\s*\)\s*const\s*\{',
     '{returnrewards_.getValue(graph_.getS(),graph_.getA(),s,a);}'),
]


# isProbability(const SparseMatrix2D &) has two recognised forms; which one the source has is exported as `sparseSignTest`
SPARSE_ABS = ('{for(size_trow=0;row<static_cast<size_t>(in.rows());++row)if(checkDifferentSmall(in.row(row).sum(),1.0)||'
              'checkDifferentSmall(in.row(row).cwiseAbs().sum(),1.0))returnfalse;returntrue;}')          # as first read: sum and |.|-sum
SPARSE_SIGN = ('{for(intk=0;k<in.outerSize();++k)for(SparseMatrix2D::InnerIteratorit(in,k);it;++it)if(it.value()<0.0)returnfalse;'
               'for(size_trow=0;row<static_cast<size_t>(in.rows());++row)if(checkDifferentSmall(in.row(row).sum(),1.0))returnfalse;returntrue;}')   # fixes/C05-2: sign of every stored value, then the sums


def sparse_validator_form():
    src = X.strip_comments(X.read(PC))
    got, ln = _body_after(src, r'bool\s+isProbability\s*\(\s*const\s+SparseMatrix2D\s*&\s*in\s*\)\s*\{', PC + ': isProbabilitySparse')
    if got == SPARSE_SIGN:
        return True, ln
    if got == SPARSE_ABS:
        return False, ln
    if os.environ.get('AITB_C06_LENIENT_SITES') == '1':
        return bool(re.search(r'InnerIterator\w*\(in,\w+\);\w+;\+\+\w+\)if\(\w+\.value\(\)<0\.0\)returnfalse;', got)), ln
    raise X.ExtractError(f'{PC}:{ln}: isProbabilitySparse is in neither of the two forms the Lean model knows (|.|-sum test / sign test on the stored values): {got[:200]}')


def body_sites():
    out = []
    cache = {}
    for name, rel, pat, want in BODY_SITES:
        src = cache.setdefault(rel, X.strip_comments(X.read(rel)))
        got, ln = _body_after(src, pat, f'{rel}: {name}')
        if got != want:
            # AITB_C06_LENIENT_SITES=1 (mutation trials only, tools/mutations_c06.py): skip the textual tie so that the trial shows
            # what the behavioural clauses catch on their own; the site is then simply not listed (obligation `sites_all_listed` fails
            # in Lean only when the Props module is rebuilt, which the trial tolerates)
            if os.environ.get('AITB_C06_LENIENT_SITES') == '1':
                out.append((name, rel, ln)); continue
            raise X.ExtractError(f'{rel}:{ln}: {name} is not in the form the Lean model was written from: {got[:160]}')
        out.append((name, rel, ln))
    # DDNGraph::push: the startIds_ prefix sums (tail of the function, after the validation block)
    src = cache.setdefault(BN, X.strip_comments(X.read(BN)))
    body, ln = _body_after(src, r'void\s+DDNGraph::push\s*\(\s*ParentSet\s+parents\s*\)\s*\{', BN + ': DDNGraph::push')
    tail = ('parents_.emplace_back(std::move(parents));auto&newParents=parents_.back();startIds_.emplace_back(newParents.features.size()+1);'
            'auto&newStartIds=startIds_.back();size_tnewStartId=0;for(size_ti=0;i<newParents.features.size();++i){newStartIds[i]=newStartId;'
            'newStartId+=factorSpacePartial(newParents.features[i],S);}newStartIds.back()=newStartId;}')
    if not body.endswith(tail) and os.environ.get('AITB_C06_LENIENT_SITES') != '1':
        raise X.ExtractError(f'{BN}:{ln}: DDNGraph::push no longer ends with the modelled startIds_ prefix-sum loop')
    out.append(('ddnPushStartIds', BN, ln))
    # CooperativeModel copy constructor: the DDN of the copy refers to the COPY's graph
    m = X.find1(r'CooperativeModel::CooperativeModel\s*\(\s*const\s+CooperativeModel\s*&\s*other\s*\)\s*:(.*?)\{\s*\}', cache.setdefault(CM, X.strip_comments(X.read(CM))), CM + ': copy constructor', re.S)
    init = re.sub(r'\s+', '', m.group(1))
    if init != 'discount_(other.discount_),graph_(other.graph_),transitions_({graph_,other.transitions_.transitions}),rewards_(other.rewards_),rand_(other.rand_)' \
            and os.environ.get('AITB_C06_LENIENT_SITES') != '1':
        raise X.ExtractError(f'{CM}: copy constructor initialiser list changed: {init[:200]}')
    out.append(('coopCopyCtor', CM, X.lineno(cache[CM], m.start())))
    # the stream loaders (AITB.Model.Loader): log messages removed, class name abstracted
    io = cache.setdefault('src/MDP/IO.cpp', X.strip_comments(X.read('src/MDP/IO.cpp')))
    want = ('{CLSin(m.getS(),m.getA());doublediscount;if(!(is>>discount)){returnis;}elsein.setDiscount(discount);autotransitions=in.getTransitionFunction();'
            'if(!read(is,transitions)){returnis;}else{try{in.setTransitionFunction(transitions);}catch(conststd::invalid_argument&){is.setstate(std::ios::failbit);returnis;}}'
            'autorewards=in.getRewardFunction();if(!read(is,rewards)){returnis;}elsein.setRewardFunction(rewards);m=std::move(in);returnis;}')
    for name, cls in (('loadModel', 'Model'), ('loadSparseModel', 'SparseModel')):
        got, ln = _body_after(io, r'std::istream\s*&\s*operator>>\s*\(\s*std::istream\s*&\s*is\s*,\s*' + cls + r'\s*&\s*m\s*\)\s*\{', 'src/MDP/IO.cpp: operator>> ' + cls)
        got = re.sub(r'AI_LOGGER\(AI_SEVERITY_\w+,"[^"]*"\);', '', got)
        if got != want.replace('CLS', cls) and os.environ.get('AITB_C06_LENIENT_SITES') != '1':
            raise X.ExtractError(f'src/MDP/IO.cpp:{ln}: operator>>(istream&, {cls}&) is not in the form the Lean model (AITB.Model.Loader) was written from: {got[:200]}')
        out.append((name, 'src/MDP/IO.cpp', ln))
    return out


def gen_sites():
    sites = body_sites()
    sign, sln = sparse_validator_form()
    sites.insert(4, ('isProbabilitySparse', PC, sln))
    L = ['/- GENERATED by tools/extract_c06.py from the library source — do not edit. -/', 'namespace AITB.Gen.C06Sites', '',
         '/-- functions whose comment-stripped text is, today, exactly the text the Lean model (AITB.Model.ModelState: tolerance helpers and the',
         '    isProbability family; AITB.Model.CoopDyn: DDN row ids, dynamics, rewards) was written from: (name, file, line).',
         '    Any other text is a broken tie (ExtractError), so presence in this list is the fact. -/',
         'def asModelled : List (String × String × Nat) := [']
    for i, (n, rel, ln) in enumerate(sites):
        L.append(f'  ("{n}", "{rel}", {ln})' + (',' if i + 1 < len(sites) else ''))
    L += [']', '', f'/-- {PC}:{sln}: `isProbability(const SparseMatrix2D &)` rejects every negative STORED value and then tests the row sums',
          '    (true: the form after fixes/C05-2; false: the form as first read — row sum and sum of absolute values both within the tolerance of 1) -/',
          f'def sparseSignTest : Bool := {"true" if sign else "false"}', '', 'end AITB.Gen.C06Sites', '']
    X.write_if_changed('C06Sites', '\n'.join(L))


GENERATORS = [gen_guards, gen_sites]

if __name__ == '__main__':
    gen_guards()
    print(open(os.path.join(X.GEN, 'Guards.lean')).read())
