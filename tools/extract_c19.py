#!/usr/bin/env python3
"""C19 translator plug-in: the syntactic facts of MCTS.hpp / POMCP.hpp / rPOMCP.hpp / Rollout.hpp that the
horizon theorems of AITB.Props.C19 depend on (lean/AITB/Gen/C19.lean).

  mctsRollOff / pomcpRollOff : the rollout at a new leaf is called with length `maxDepth_ - depth + k`;
        k = +1 in the code as first read (two steps past the horizon), -1 in the repaired form.
  pomcpRollGuard : POMCP's rollout is inside `if ( depth + 1 < maxDepth_ && !model_.isTerminal(s1) )`
        (repaired) or unconditional (as first read: a rollout is started at the last level and from
        terminal states).
Sanity facts the model hard-codes (any other shape is a broken tie -> ExtractError): MCTS's rollout and both
recursive `simulate` calls are under `depth + 1 < maxDepth_ && !isTerminal(s1)` (rPOMCP: additionally
`!newNode`), the recursion passes `depth + 1`, `runSimulation` starts at depth 0 with `maxDepth_ = horizon`,
`rollout` loops `depth < maxDepth` and returns early on a terminal state, the action update is the
incremental mean."""
import re
import extract as E

MCTS = 'include/AIToolbox/MDP/Algorithms/MCTS.hpp'
POMCP = 'include/AIToolbox/POMDP/Algorithms/POMCP.hpp'
RPOMCP = 'include/AIToolbox/POMDP/Algorithms/rPOMCP.hpp'
ROLL = 'include/AIToolbox/MDP/Algorithms/Utils/Rollout.hpp'


def norm(s):
    return re.sub(r'\s+', '', s)


def block_at(src, i):
    """text of the brace block starting at src[i] == '{'"""
    depth, j = 0, i
    while j < len(src):
        if src[j] == '{':
            depth += 1
        elif src[j] == '}':
            depth -= 1
            if depth == 0:
                return src[i:j + 1]
        j += 1
    raise E.ExtractError('unbalanced braces')


def body(src, header_re, what):
    m = E.find1(header_re, src, what, re.S)
    return block_at(src, src.index('{', m.end() - 1)), E.lineno(src, m.start())


GUARD = r'depth\+1<maxDepth_&&!model_\.isTerminal\(s1\)'


def roll_call(b, what):
    """(offset k, guarded?) of the single `rollout(model_, s1, maxDepth_ - depth ± k, rand_)` call in body b"""
    calls = list(re.finditer(r'(?:MDP::|AIToolbox::MDP::)?rollout\s*\(\s*model_\s*,\s*s1\s*,([^;]*?),\s*rand_\s*\)\s*;', b))
    if len(calls) != 1:
        raise E.ExtractError(f'{what}: expected one rollout call, found {len(calls)}')
    arg = norm(calls[0].group(1))
    m = re.fullmatch(r'maxDepth_-depth([+-])(\d+)', arg) or re.fullmatch(r'maxDepth_-\(depth\+(\d+)\)', arg)
    if not m:
        if arg == 'maxDepth_-depth':
            off = 0
        else:
            raise E.ExtractError(f'{what}: unrecognised rollout length {arg!r}')
    elif len(m.groups()) == 2:
        off = int(m.group(2)) * (1 if m.group(1) == '+' else -1)
    else:
        off = -int(m.group(1))
    # guarded: the call lies inside a block opened by `if ( depth + 1 < maxDepth_ && !model_.isTerminal(s1) ) {`
    # (possibly with further nested blocks in between), or is directly prefixed by that `if`
    pos = calls[0].start()
    guarded = False
    nb = norm(b[:pos])
    if re.search(r'if\(' + GUARD + r'\)(futureRew=)?$', nb):
        guarded = True
    for m2 in re.finditer(r'if\s*\(([^{};]*)\)\s*\{', b[:pos]):
        blk = block_at(b, b.index('{', m2.end() - 1))
        if m2.start() + len(m2.group(0)) - 1 + len(blk) > pos and re.fullmatch(GUARD, norm(m2.group(1))):
            guarded = True
    return off, guarded


def check_recursion(b, what, extra=''):
    calls = list(re.finditer(r'simulate\s*\(\s*(?:it|ot)->second\s*,\s*s1\s*,\s*depth\s*\+\s*1\s*\)', b))
    if len(calls) != 1:
        raise E.ExtractError(f'{what}: expected one recursive simulate(.., s1, depth + 1), found {len(calls)}')
    pos = calls[0].start()
    ok = False
    for m2 in re.finditer(r'if\s*\(([^{};]*)\)\s*\{', b[:pos]):
        blk = block_at(b, b.index('{', m2.end() - 1))
        if m2.start() + len(m2.group(0)) - 1 + len(blk) > pos and re.fullmatch(GUARD + extra, norm(m2.group(1))):
            ok = True
    if not ok:
        raise E.ExtractError(f'{what}: the recursive simulate call is not under `depth + 1 < maxDepth_ && !isTerminal(s1)`')
    if not re.search(r'aNode\.N\s*(\+\+|\+=\s*1)\s*;\s*aNode\.V\s*\+=\s*\(\s*\w+\s*-\s*aNode\.V\s*\)\s*/\s*static_cast<double>\(aNode\.N\)\s*;', b):
        raise E.ExtractError(f'{what}: action update is not the incremental mean')
    if not re.search(r'^\{\s*(sn|b)\.N\+\+\s*;', b):
        raise E.ExtractError(f'{what}: simulate does not start with the node count increment')


def check_runsim(src, cls, what):
    b, _ = body(src, cls + r'::runSimulation\s*\([^)]*\)\s*\{', what + '::runSimulation')
    nb = norm(b)
    if 'maxDepth_=horizon;' not in nb or not re.search(r'for\(unsignedi=0;i<iterations_;\+\+i\)simulate\(graph_,[^;]*,0\);', nb):
        raise E.ExtractError(f'{what}::runSimulation: unexpected shape')


def gen_c19():
    ms = E.strip_comments(E.read(MCTS))
    ps = E.strip_comments(E.read(POMCP))
    rs = E.strip_comments(E.read(RPOMCP))
    ro = E.strip_comments(E.read(ROLL))
    mb, mln = body(ms, r'double\s+MCTS<M,\s*StateHash>::simulate\s*\([^)]*\)\s*\{', 'MCTS::simulate')
    pb, pln = body(ps, r'double\s+POMCP<M>::simulate\s*\([^)]*\)\s*\{', 'POMCP::simulate')
    rb, rln = body(rs, r'double\s+rPOMCP<M,\s*UseEntropy>::simulate\s*\([^)]*\)\s*\{', 'rPOMCP::simulate')
    moff, mguard = roll_call(mb, 'MCTS::simulate')
    poff, pguard = roll_call(pb, 'POMCP::simulate')
    if not mguard:
        raise E.ExtractError('MCTS::simulate: rollout is not under the depth/terminal guard (the model assumes it is)')
    check_recursion(mb, 'MCTS::simulate')
    check_recursion(pb, 'POMCP::simulate')
    check_recursion(rb, 'rPOMCP::simulate', extra=r'&&!newNode')
    if 'rollout' in rb:
        raise E.ExtractError('rPOMCP::simulate: unexpected rollout')
    check_runsim(ms, r'MCTS<M,\s*StateHash>', 'MCTS')
    check_runsim(ps, r'POMCP<M>', 'POMCP')
    check_runsim(rs, r'rPOMCP<M,\s*UseEntropy>', 'rPOMCP')
    nro = norm(ro)
    if nro.count('for(unsigneddepth=0;depth<maxDepth;++depth)') != 2 or nro.count('if(m.isTerminal(s))returntotalRew;') != 2 \
            or nro.count('totalRew+=gamma*rew;') != 2 or nro.count('gamma*=m.getDiscount();') != 2:
        raise E.ExtractError('Rollout.hpp: unexpected loop shape')
    b = lambda x: 'true' if x else 'false'
    i = lambda k: f'({k})' if k < 0 else str(k)
    out = f'''/- GENERATED by tools/extract_c19.py from {MCTS}, {POMCP}, {RPOMCP}, {ROLL} — do not edit. -/
namespace AITB.Gen.C19

/-- {MCTS}:{mln} `MCTS::simulate`: rollout length is `maxDepth_ - depth + mctsRollOff` -/
def mctsRollOff : Int := {i(moff)}
/-- {POMCP}:{pln} `POMCP::simulate`: rollout length is `maxDepth_ - depth + pomcpRollOff` -/
def pomcpRollOff : Int := {i(poff)}
/-- {POMCP}:{pln} `POMCP::simulate`: the rollout is under `depth + 1 < maxDepth_ && !isTerminal(s1)` -/
def pomcpRollGuard : Bool := {b(pguard)}

end AITB.Gen.C19
'''
    E.write_if_changed('C19', out)


GENERATORS = [gen_c19]
