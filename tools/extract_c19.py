#!/usr/bin/env python3
"""C19 translator plug-in: the syntactic facts of MCTS.hpp / POMCP.hpp / rPOMCP.hpp / Rollout.hpp that the
horizon theorems of AITB.Props.C19 depend on (lean/AITB/Gen/C19.lean).

  mctsRollOff / pomcpRollOff : the rollout at a new leaf is called with length `maxDepth_ - depth + k`;
        k = +1 in the code as first read (two steps past the horizon), -1 in the repaired form.
  pomcpRollGuard : POMCP's rollout is inside `if ( depth + 1 < maxDepth_ && !model_.isTerminal(s1) )`
        (repaired) or unconditional (as first read: a rollout is started at the last level and from
        terminal states).
Sanity facts the model hard-codes (any other shape is a broken tie -> ExtractError): MCTS's rollout and both
recursive `simulate` calls are under `depth + 1 < maxDepth_ && !isTerminal(s1)` (rPOMCP: additionally
`!newNode`), the recursion passes `depth + 1`, `runSimulation` starts at depth 0 with `maxDepth_ = horizon`,
`rollout` loops `depth < maxDepth` and returns early on a terminal state, the action update is the
incremental mean.
Round 3 (rPOMCPGraph.hpp, the head node's sampling belief; AITB.Props.C19b):
  sampleWalkStop : `HeadBeliefNode::sampleBelief()` returns the entry at which `pick < sampleWalkStop` after subtracting its
        count (1 in the source); the model's `R.sampleWalk` uses this constant, `R.sampleWalk_spec` needs it to be 1.
  sampleDrawLo : the draw is `uniform_int_distribution<unsigned>(sampleDrawLo, beliefSize_)`.
Sanity facts (ExtractError otherwise): the walk subtracts `sampleBelief_[index].second` before the test and advances `index` by
one; the promotion constructor starts `beliefSize_` at 0, emplaces `(pair.first, pair.second.N)` for every entry of
`trackBelief_` and adds `pair.second.N`; `getMostCommonParticle` starts at count 0 and moves on `pair.second > bestGuessCount`,
assigning both; max-of-belief `updateBeliefAndKnowledge` counts first, moves `maxS_` on strict `>`, divides by `N+1`;
`rPOMCP::simulate` calls `updateBeliefAndKnowledge(s1)` on the child before the depth test and does `ot->second.N += 1` in the
leaf branch; the datapoint passed upwards is `(b.N - 1)*(b.V - oldV) + b.V`; POMCP / the head node sample their particles with
`sampleProbability(S, b, ·)`, `S` being the size of the belief; dense `sampleProbability` returns an index only under
`in[i] > p` (so never a zero entry) or the fallback `d-1`.
  mctsAdvGuard / pomcpAdvGuard : `sampleAction(a, key, horizon)` tests `a >= graph_.children.size()` (and restarts) before it
        indexes `graph_.children[a]` (repaired, fixes/C19-3) or indexes unconditionally (as first read: undefined behaviour on a
        planner that has not been called yet).  Any other opening of the function is an ExtractError.
  rpomcpLeafV : the leaf branch of `rPOMCP::simulate` averages the datapoint it passes upwards into the leaf's own `V`
        (repaired, fixes/C19-4) or leaves `V` alone (as first read: a later descent through the node then adds `N` copies of
        the new value on top of the leaf datapoints, and action values leave the range of achievable returns)."""
import re
import extract as E

MCTS = 'include/AIToolbox/MDP/Algorithms/MCTS.hpp'
POMCP = 'include/AIToolbox/POMDP/Algorithms/POMCP.hpp'
RPOMCP = 'include/AIToolbox/POMDP/Algorithms/rPOMCP.hpp'
ROLL = 'include/AIToolbox/MDP/Algorithms/Utils/Rollout.hpp'
GRAPH = 'include/AIToolbox/POMDP/Algorithms/Utils/rPOMCPGraph.hpp'
PROB = 'include/AIToolbox/Utils/Probability.hpp'


def norm(s):
    return re.sub(r'\s+', '', s)


def block_at(src, i):
    """text of the brace block starting at src[i] == '{'"""
    depth, j = 0, i
    while j < len(src):
        if src[j] == '{':
            depth += 1
        elif src[j] == '}':
            depth -= 1
            if depth == 0:
                return src[i:j + 1]
        j += 1
    raise E.ExtractError('unbalanced braces')


def body(src, header_re, what):
    m = E.find1(header_re, src, what, re.S)
    return block_at(src, src.index('{', m.end() - 1)), E.lineno(src, m.start())


GUARD = r'depth\+1<maxDepth_&&!model_\.isTerminal\(s1\)'


def roll_call(b, what):
    """(offset k, guarded?) of the single `rollout(model_, s1, maxDepth_ - depth ± k, rand_)` call in body b"""
    calls = list(re.finditer(r'(?:MDP::|AIToolbox::MDP::)?rollout\s*\(\s*model_\s*,\s*s1\s*,([^;]*?),\s*rand_\s*\)\s*;', b))
    if len(calls) != 1:
        raise E.ExtractError(f'{what}: expected one rollout call, found {len(calls)}')
    arg = norm(calls[0].group(1))
    m = re.fullmatch(r'maxDepth_-depth([+-])(\d+)', arg) or re.fullmatch(r'maxDepth_-\(depth\+(\d+)\)', arg)
    if not m:
        if arg == 'maxDepth_-depth':
            off = 0
        else:
            raise E.ExtractError(f'{what}: unrecognised rollout length {arg!r}')
    elif len(m.groups()) == 2:
        off = int(m.group(2)) * (1 if m.group(1) == '+' else -1)
    else:
        off = -int(m.group(1))
    # guarded: the call lies inside a block opened by `if ( depth + 1 < maxDepth_ && !model_.isTerminal(s1) ) {`
    # (possibly with further nested blocks in between), or is directly prefixed by that `if`
    pos = calls[0].start()
    guarded = False
    nb = norm(b[:pos])
    if re.search(r'if\(' + GUARD + r'\)(futureRew=)?$', nb):
        guarded = True
    for m2 in re.finditer(r'if\s*\(([^{};]*)\)\s*\{', b[:pos]):
        blk = block_at(b, b.index('{', m2.end() - 1))
        if m2.start() + len(m2.group(0)) - 1 + len(blk) > pos and re.fullmatch(GUARD, norm(m2.group(1))):
            guarded = True
    return off, guarded


def check_recursion(b, what, extra=''):
    calls = list(re.finditer(r'simulate\s*\(\s*(?:it|ot)->second\s*,\s*s1\s*,\s*depth\s*\+\s*1\s*\)', b))
    if len(calls) != 1:
        raise E.ExtractError(f'{what}: expected one recursive simulate(.., s1, depth + 1), found {len(calls)}')
    pos = calls[0].start()
    ok = False
    for m2 in re.finditer(r'if\s*\(([^{};]*)\)\s*\{', b[:pos]):
        blk = block_at(b, b.index('{', m2.end() - 1))
        if m2.start() + len(m2.group(0)) - 1 + len(blk) > pos and re.fullmatch(GUARD + extra, norm(m2.group(1))):
            ok = True
    if not ok:
        raise E.ExtractError(f'{what}: the recursive simulate call is not under `depth + 1 < maxDepth_ && !isTerminal(s1)`')
    if not re.search(r'aNode\.N\s*(\+\+|\+=\s*1)\s*;\s*aNode\.V\s*\+=\s*\(\s*\w+\s*-\s*aNode\.V\s*\)\s*/\s*static_cast<double>\(aNode\.N\)\s*;', b):
        raise E.ExtractError(f'{what}: action update is not the incremental mean')
    if not re.search(r'^\{\s*(sn|b)\.N\+\+\s*;', b):
        raise E.ExtractError(f'{what}: simulate does not start with the node count increment')


def check_runsim(src, cls, what):
    b, _ = body(src, cls + r'::runSimulation\s*\([^)]*\)\s*\{', what + '::runSimulation')
    nb = norm(b)
    if 'maxDepth_=horizon;' not in nb or not re.search(r'for\(unsignedi=0;i<iterations_;\+\+i\)simulate\(graph_,[^;]*,0\);', nb):
        raise E.ExtractError(f'{what}::runSimulation: unexpected shape')


def need(cond, what):
    if not cond:
        raise E.ExtractError(what)


def check_graph(gs, rs, ps, prob):
    """rPOMCPGraph.hpp (+ the call sites in rPOMCP.hpp / POMCP.hpp, sampleProbability): facts AITB.Props.C19b depends on"""
    sb, _ = body(gs, r'size_t\s+HeadBeliefNode<UseEntropy>::sampleBelief\s*\(\s*\)\s*const\s*\{', 'HeadBeliefNode::sampleBelief')
    nb = norm(sb)
    m = re.search(r'std::uniform_int_distribution<unsigned>generator\((\d+),beliefSize_\);intpick=generator\(\*rand_\);', nb)
    need(m, 'HeadBeliefNode::sampleBelief: draw is not uniform_int_distribution<unsigned>(k, beliefSize_)')
    draw_lo = int(m.group(1))
    m = re.search(r'size_tindex=0;while\(true\)\{pick-=sampleBelief_\[index\]\.second;if\(pick<(\d+)\)returnsampleBelief_\[index\]\.first;\+\+index;\}', nb)
    need(m, 'HeadBeliefNode::sampleBelief: the walk is not `pick -= count; if ( pick < k ) return state; ++index;`')
    walk_stop = int(m.group(1))
    # promotion constructor
    m = E.find1(r'HeadBeliefNode<UseEntropy>::HeadBeliefNode\s*\(\s*const\s+size_t\s+A\s*,\s*BeliefNode<UseEntropy>\s*&&\s*bn\s*,[^)]*\)\s*:([^{]*)\{', gs, 'HeadBeliefNode promotion constructor')
    need('beliefSize_(0)' in norm(m.group(1)), 'HeadBeliefNode promotion constructor: beliefSize_ does not start at 0')
    cb = norm(block_at(gs, gs.index('{', m.end() - 1)))
    need('for(auto&pair:this->trackBelief_){sampleBelief_.emplace_back(pair.first,pair.second.N);beliefSize_+=pair.second.N;}' in cb,
         'HeadBeliefNode promotion constructor: not one (state, count) pair per particle-map entry with beliefSize_ += count')
    need(cb.index('for(auto&pair:this->trackBelief_)') < cb.index('swap(this->trackBelief_)'),
         'HeadBeliefNode promotion constructor: the particle map is cleared before it is copied')
    # most common particle
    mb, _ = body(gs, r'size_t\s+HeadBeliefNode<UseEntropy>::getMostCommonParticle\s*\(\s*\)\s*const\s*\{', 'getMostCommonParticle')
    nmb = norm(mb)
    need('unsignedbestGuessCount=0;' in nmb and
         'for(auto&pair:sampleBelief_){if(pair.second>bestGuessCount){bestGuessCount=pair.second;bestGuess=pair.first;}}returnbestGuess;' in nmb,
         'getMostCommonParticle: not the strict-> scan from count 0 assigning count and state')
    # max-of-belief update
    ub, _ = body(gs, r'void\s+BeliefNode<false>::updateBeliefAndKnowledge\s*\(\s*const\s+size_t\s+s\s*\)\s*\{', 'BeliefNode<false>::updateBeliefAndKnowledge')
    need(norm(ub) == '{trackBelief_[s].N+=1;if(trackBelief_[s].N>trackBelief_[maxS_].N)maxS_=s;knowledgeMeasure_=static_cast<double>(trackBelief_[maxS_].N)/static_cast<double>(N+1);}',
         'BeliefNode<false>::updateBeliefAndKnowledge: unexpected shape')
    # the head built from a belief
    need('generatedSamples[AIToolbox::sampleProbability(S,b,*rand_)]+=1;' in norm(gs) and 'size_tS=b.size();' in norm(gs),
         'HeadBeliefNode(belief): particles are not drawn with sampleProbability(b.size(), b, ·)')
    # rPOMCP::simulate: particle first, count afterwards
    rb, _ = body(rs, r'double\s+rPOMCP<M,\s*UseEntropy>::simulate\s*\([^)]*\)\s*\{', 'rPOMCP::simulate')
    nrb = norm(rb)
    need('ot->second.updateBeliefAndKnowledge(s1);' in nrb and nrb.index('ot->second.updateBeliefAndKnowledge(s1);') < nrb.index('if(depth+1<maxDepth_'),
         'rPOMCP::simulate: the child does not receive its particle before the depth test')
    m = re.search(r'else\{ot->second\.N\+=1;if\(depth\+1>=maxDepth_\)immAndFutureRew=ot->second\.getKnowledgeMeasure\(\);'
                  r'(ot->second\.V\+=\(immAndFutureRew-ot->second\.V\)/static_cast<double>\(ot->second\.N\);)?\}', nrb)
    need(m, 'rPOMCP::simulate: leaf branch is not `N += 1; if (depth + 1 >= maxDepth_) datapoint = knowledge measure; [V += (datapoint - V) / N]`')
    leaf_v = m.group(1) is not None
    need('return(b.N-1)*(b.V-oldV)+b.V;' in nrb, 'rPOMCP::simulate: the datapoint passed upwards is not (b.N - 1)*(b.V - oldV) + b.V')
    # POMCP: root belief
    need('belief.push_back(sampleProbability(S,b,rand_));' in norm(ps) and 'S(model_.getS())' in norm(ps),
         'POMCP::makeSampledBelief: particles are not drawn with sampleProbability(S, b, rand_)')
    # dense sampleProbability: an index is returned only where in[i] > p, or the fallback d-1
    m = E.find1(r'size_t\s+sampleProbability\s*\(\s*const\s+size_t\s+d\s*,\s*const\s+T\s*&\s*in\s*,\s*G\s*&\s*generator\s*\)\s*\{', prob, 'dense sampleProbability')
    pb = norm(block_at(prob, prob.index('{', m.end() - 1)))
    need(pb == '{doublep=probabilityDistribution(generator);for(size_ti=0;i<d;++i){if(in[i]>p)returni;p-=in[i];}returnd-1;}',
         'dense sampleProbability: unexpected shape')
    return walk_stop, draw_lo, leaf_v


def adv_guard(src, header_re, guarded_re, plain_re, what):
    b, _ = body(src, header_re, what)
    nb = norm(b)
    if re.match(guarded_re, nb):
        return True
    if re.match(plain_re, nb):
        return False
    raise E.ExtractError(f'{what}: unexpected opening of the advancing sampleAction')


def gen_c19():
    ms = E.strip_comments(E.read(MCTS))
    ps = E.strip_comments(E.read(POMCP))
    rs = E.strip_comments(E.read(RPOMCP))
    ro = E.strip_comments(E.read(ROLL))
    mb, mln = body(ms, r'double\s+MCTS<M,\s*StateHash>::simulate\s*\([^)]*\)\s*\{', 'MCTS::simulate')
    pb, pln = body(ps, r'double\s+POMCP<M>::simulate\s*\([^)]*\)\s*\{', 'POMCP::simulate')
    rb, rln = body(rs, r'double\s+rPOMCP<M,\s*UseEntropy>::simulate\s*\([^)]*\)\s*\{', 'rPOMCP::simulate')
    moff, mguard = roll_call(mb, 'MCTS::simulate')
    poff, pguard = roll_call(pb, 'POMCP::simulate')
    if not mguard:
        raise E.ExtractError('MCTS::simulate: rollout is not under the depth/terminal guard (the model assumes it is)')
    check_recursion(mb, 'MCTS::simulate')
    check_recursion(pb, 'POMCP::simulate')
    check_recursion(rb, 'rPOMCP::simulate', extra=r'&&!newNode')
    if 'rollout' in rb:
        raise E.ExtractError('rPOMCP::simulate: unexpected rollout')
    check_runsim(ms, r'MCTS<M,\s*StateHash>', 'MCTS')
    check_runsim(ps, r'POMCP<M>', 'POMCP')
    check_runsim(rs, r'rPOMCP<M,\s*UseEntropy>', 'rPOMCP')
    nro = norm(ro)
    if nro.count('for(unsigneddepth=0;depth<maxDepth;++depth)') != 2 or nro.count('if(m.isTerminal(s))returntotalRew;') != 2 \
            or nro.count('totalRew+=gamma*rew;') != 2 or nro.count('gamma*=m.getDiscount();') != 2:
        raise E.ExtractError('Rollout.hpp: unexpected loop shape')
    madv = adv_guard(ms, r'size_t\s+MCTS<M,\s*StateHash>::sampleAction\s*\(\s*const\s+size_t\s+a\s*,[^)]*\)\s*\{',
                     r'\{if\(a>=graph_\.children\.size\(\)\)returnsampleAction\(s1,horizon\);auto&states=graph_\.children\[a\]\.children;',
                     r'\{auto&states=graph_\.children\[a\]\.children;', 'MCTS::sampleAction(a, s1, horizon)')
    padv = adv_guard(ps, r'size_t\s+POMCP<M>::sampleAction\s*\(\s*const\s+size_t\s+a\s*,[^)]*\)\s*\{',
                     r'\{if\(a>=graph_\.children\.size\(\)\)\{(AI_LOGGER\([^;]*\);)?autob=Belief\(S\);b\.fill\(1\.0/S\);returnsampleAction\(b,horizon\);\}constauto&obs=graph_\.children\[a\]\.children;',
                     r'\{constauto&obs=graph_\.children\[a\]\.children;', 'POMCP::sampleAction(a, o, horizon)')
    walk_stop, draw_lo, leaf_v = check_graph(E.strip_comments(E.read(GRAPH)), rs, ps, E.strip_comments(E.read(PROB)))
    b = lambda x: 'true' if x else 'false'
    i = lambda k: f'({k})' if k < 0 else str(k)
    out = f'''/- GENERATED by tools/extract_c19.py from {MCTS}, {POMCP}, {RPOMCP}, {ROLL} — do not edit. -/
namespace AITB.Gen.C19

/-- {MCTS}:{mln} `MCTS::simulate`: rollout length is `maxDepth_ - depth + mctsRollOff` -/
def mctsRollOff : Int := {i(moff)}
/-- {POMCP}:{pln} `POMCP::simulate`: rollout length is `maxDepth_ - depth + pomcpRollOff` -/
def pomcpRollOff : Int := {i(poff)}
/-- {POMCP}:{pln} `POMCP::simulate`: the rollout is under `depth + 1 < maxDepth_ && !isTerminal(s1)` -/
def pomcpRollGuard : Bool := {b(pguard)}
/-- {MCTS} `MCTS::sampleAction(a, s1, horizon)` tests `a >= graph_.children.size()` before indexing `graph_.children[a]` -/
def mctsAdvGuard : Bool := {b(madv)}
/-- {POMCP} `POMCP::sampleAction(a, o, horizon)` tests `a >= graph_.children.size()` before indexing `graph_.children[a]` -/
def pomcpAdvGuard : Bool := {b(padv)}
/-- {RPOMCP} `rPOMCP::simulate`, leaf branch: the datapoint passed upwards is also averaged into the leaf's own value
    (`ot->second.V += (immAndFutureRew - ot->second.V) / N`; repaired form, fixes/C19-4) -/
def rpomcpLeafV : Bool := {b(leaf_v)}
/-- {GRAPH} `HeadBeliefNode::sampleBelief`: after `pick -= count` the walk stops when `pick < sampleWalkStop` -/
def sampleWalkStop : Int := {walk_stop}
/-- {GRAPH} `HeadBeliefNode::sampleBelief`: the draw is uniform on `[sampleDrawLo, beliefSize_]` -/
def sampleDrawLo : Int := {draw_lo}

end AITB.Gen.C19
'''
    E.write_if_changed('C19', out)


GENERATORS = [gen_c19]
