#!/usr/bin/env python3
"""Translator plug-in for C09: syntactic facts of the policy sources the Lean model
(lean/AITB/Model/Policies.lean) is parameterised by  ->  lean/AITB/Gen/C09.lean

  thompsonInitLowest : ThompsonSamplingPolicy::sampleAction starts its running maximum at
      numeric_limits<double>::lowest() / -infinity (true) or at numeric_limits<double>::min(),
      the smallest POSITIVE double (false, the code as first read).
  projRepaired : projectToProbability returns mask*v when the clipped sum is ~1 and the uniform vector
      when it is ~0 (true), or the bare 0/1 mask resp. mask + 1/n (false, the code as first read).
  smPolicySmallSumUniform : QSoftmaxPolicyWrapper::getPolicy replaces a row whose exp-sum is within
      equalToleranceSmall of 0 by the uniform row (true, as first read) — getActionProbability / sampleAction have no such branch.
  smSubtractMax : the three QSoftmaxPolicyWrapper members exponentiate (q - max q)/T (true) or q/T (false, as first read).

  esrlProbUsesFind : ESRLPolicy::getActionProbability finds the action among the (swap-and-pop'ed, hence unsorted)
      allowed actions by linear search (true, as first read) or by bisection (false).

Any other shape of these sites is a broken tie (ExtractError)."""
import re
import extract as X

TH = 'src/Bandit/Policies/ThompsonSamplingPolicy.cpp'
PR = 'src/Utils/Probability.cpp'
SM = 'include/AIToolbox/Bandit/Policies/Utils/QSoftmaxPolicyWrapper.hpp'
ES = 'src/Bandit/Policies/ESRLPolicy.cpp'


def block_after(src, pos):
    i = src.index('{', pos)
    depth, j = 0, i
    while j < len(src):
        if src[j] == '{':
            depth += 1
        elif src[j] == '}':
            depth -= 1
            if depth == 0:
                return src[i:j + 1]
        j += 1
    raise X.ExtractError('unbalanced braces')


def thompson_init():
    src = X.strip_comments(X.read(TH))
    m = X.find1(r'ThompsonSamplingPolicy::sampleAction\s*\(\s*\)\s*const\s*\{', src, 'ThompsonSamplingPolicy::sampleAction')
    body = block_after(src, m.end() - 1)
    mi = X.find1(r'double\s+bestValue\s*=\s*([^;]+);', body, 'bestValue initialiser')
    init = re.sub(r'\s+', '', mi.group(1))
    ln = X.lineno(src, m.start())
    if init == 'std::numeric_limits<double>::min()':
        return False, ln
    if init in ('std::numeric_limits<double>::lowest()', '-std::numeric_limits<double>::infinity()',
                '-std::numeric_limits<double>::max()', '-INFINITY'):
        return True, ln
    raise X.ExtractError('ThompsonSamplingPolicy::sampleAction: unknown bestValue initialiser ' + init)


def project_shape():
    src = X.strip_comments(X.read(PR))
    m = X.find1(r'ProbabilityVector\s+projectToProbability\s*\(\s*const\s+Vector\s*&\s*v\s*\)\s*\{', src, 'projectToProbability')
    body = re.sub(r'\s+', ' ', block_after(src, m.end() - 1))
    ln = X.lineno(src, m.start())
    common = (r'if \( ?v\[i\] < 0\.0 ?\) retval\[i\] = 0\.0; else \{ retval\[i\] = 1\.0; \+\+count; sum \+= v\[i\]; \}')
    if not re.search(common, body):
        raise X.ExtractError('projectToProbability: clipping loop has an unknown shape')
    tail = (r'else if \( ?sum > 1\.0 ?\) \{ retval\.array\(\) \*= v\.array\(\) / sum; \} else \{ '
            r'const auto diff = \( ?1\.0 - sum ?\) / count; retval\.array\(\) \*= \( ?v\.array\(\) \+ diff ?\); \}')
    # same branches with the overflow-safe normalisation proposed in fixes/C08-4 (identical in exact arithmetic)
    tail2 = (r'else if \( ?sum > 1\.0 ?\) \{ if \( ?std::isinf\( ?sum ?\) ?\) \{ retval\.array\(\) \*= v\.array\(\) / v\.maxCoeff\(\); retval /= retval\.sum\(\); \} '
             r'else retval\.array\(\) \*= v\.array\(\) / sum; \} else \{ '
             r'const auto diff = \( ?1\.0 - sum ?\) / count; retval\.array\(\) \*= \( ?v\.array\(\) \+ diff ?\); \}')
    if not re.search(tail, body) and not re.search(tail2, body):
        raise X.ExtractError('projectToProbability: normalise / spread branches have an unknown shape')
    old = re.search(r'if \( ?checkEqualSmall\( ?sum, 1\.0 ?\) ?\) return retval; if \( ?checkEqualSmall\( ?sum, 0\.0 ?\) ?\) \{ '
                    r'retval\.array\(\) \+= 1\.0 / v\.size\(\); \} else if', body)
    new = re.search(r'if \( ?checkEqualSmall\( ?sum, 1\.0 ?\) ?\) \{ retval\.array\(\) \*= v\.array\(\); \} else if \( ?checkEqualSmall\( ?sum, 0\.0 ?\) ?\) \{ '
                    r'retval\.fill\( ?1\.0 / v\.size\(\) ?\); \} else if', body)
    if old and not new:
        return False, ln
    if new and not old:
        return True, ln
    raise X.ExtractError('projectToProbability: tolerance branches have an unknown shape')


def softmax_shape():
    src = X.strip_comments(X.read(SM))
    flat = re.sub(r'\s+', ' ', src)
    n_plain = len(re.findall(r'= \( ?q_ / temperature_ ?\)\.array\(\)\.exp\(\);', flat))
    n_shift = len(re.findall(r'= \( ?\( ?q_\.array\(\) - q_\.maxCoeff\(\) ?\) / temperature_ ?\)\.exp\(\);', flat))
    if n_plain == 3 and n_shift == 0:
        shift = False
    elif n_plain == 0 and n_shift == 3:
        shift = True
    else:
        raise X.ExtractError('QSoftmaxPolicyWrapper: the three exp() sites have an unknown shape (%d plain, %d shifted)' % (n_plain, n_shift))
    m = X.find1(r'void QSoftmaxPolicyWrapper<V, Gen>::getPolicy\(P && p\) const \{', flat, 'QSoftmaxPolicyWrapper::getPolicy')
    body = block_after(flat, m.end() - 1)
    uni = re.search(r'else if \( ?checkEqualSmall\( ?sum, 0\.0 ?\) ?\) p\.fill\( ?1\.0 / buffer_\.size\(\) ?\); else p /= sum;', body)
    nouni = re.search(r'if \( ?infinities ?\) p = p\.array\(\)\.isInf\(\)\.template cast<double>\(\) / infinities; else p /= sum;', body)
    if uni and not nouni:
        small = True
    elif nouni and not uni:
        small = False
    else:
        raise X.ExtractError('QSoftmaxPolicyWrapper::getPolicy: normalisation tail has an unknown shape')
    # the other two members must not have a small-sum branch (the model assumes so)
    if len(re.findall(r'checkEqualSmall\( ?sum, 0\.0 ?\)', flat)) != (1 if small else 0):
        raise X.ExtractError('QSoftmaxPolicyWrapper: unexpected small-sum test outside getPolicy')
    return small, shift, X.lineno(src, src.find('getPolicy(P && p) const'))


def esrl_lookup():
    """True: getActionProbability finds the action in allowedActions_ with std::find (linear scan, as first read);
    False: with std::lower_bound + `*it != a` guard (bisection — only right on a sorted list).  stepUpdateP must use std::find."""
    src = X.strip_comments(X.read(ES))
    flat = re.sub(r'\s+', ' ', src)
    m = X.find1(r'double ESRLPolicy::getActionProbability\(const size_t & a\) const \{', flat, 'ESRLPolicy::getActionProbability')
    body = block_after(flat, m.end() - 1)
    find = re.search(r'const auto it = std::find\(std::begin\(allowedActions_\), std::end\(allowedActions_\), a\); if \( ?it == std::end\(allowedActions_\) ?\) return 0\.0;', body)
    lb = re.search(r'const auto it = std::lower_bound\(std::begin\(allowedActions_\), std::end\(allowedActions_\), a\); if \( ?it == std::end\(allowedActions_\) \|\| \*it != a ?\) return 0\.0;', body)
    m2 = X.find1(r'void ESRLPolicy::stepUpdateP\(size_t a, bool result\) \{', flat, 'ESRLPolicy::stepUpdateP')
    body2 = block_after(flat, m2.end() - 1)
    if not re.search(r'const auto it = std::find\(std::begin\(allowedActions_\), std::end\(allowedActions_\), a\);', body2):
        raise X.ExtractError('ESRLPolicy::stepUpdateP: action look-up has an unknown shape')
    if not re.search(r'std::swap\(allowedActions_\[convergedActionLri\], allowedActions_\[allowedActions_\.size\(\) ?- ?1\]\); allowedActions_\.pop_back\(\);', body2):
        raise X.ExtractError('ESRLPolicy::stepUpdateP: removal of the converged action is not swap-with-last + pop_back')
    if find and not lb:
        return True, X.lineno(src, src.find('ESRLPolicy::getActionProbability'))
    if lb and not find:
        return False, X.lineno(src, src.find('ESRLPolicy::getActionProbability'))
    raise X.ExtractError('ESRLPolicy::getActionProbability: action look-up has an unknown shape')


GW = 'include/AIToolbox/Bandit/Policies/Utils/QGreedyPolicyWrapper.hpp'
WO = 'src/MDP/Policies/WoLFPolicy.cpp'
EI = 'include/AIToolbox/EpsilonPolicyInterface.hpp'
CMPS = {'checkEqualGeneral': True, 'checkEqualSmall': False}


def _body(flat, sig, what):
    m = X.find1(sig, flat, what)
    return block_after(flat, m.end() - 1)


def greedy_shape():
    """Form of the three members of QGreedyPolicyWrapper.
    as written (maxFirst = False): running maximum + tolerance test in one scan —
        sampleAction            `if ( CMP(val, bestValue) ) {…} else if ( val > bestValue ) {…}`
        getActionProbability    `if ( CMP(val, max) ) ++count; else if ( val > max ) { return 0.0; }`  with max = q_[a]
        getPolicy               pass 1 `if ( CMP(val, max) ) ++count; else if ( val > max ) { max = val; count = 1; }`, pass 2 `if ( CMP(q_[aa], max) ) p[aa] = 1.0 / count; else p[aa] = 0.0;`
    repaired (maxFirst = True): `q_.maxCoeff()` first, then `CMP(q_[..], max)` only.
    Returns (maxFirst, [cmpSample, cmpProb, cmpPol1, cmpPol2]) with True = checkEqualGeneral, False = checkEqualSmall."""
    src = X.strip_comments(X.read(GW))
    flat = re.sub(r'\s+', ' ', src)
    C = r'(checkEqualGeneral|checkEqualSmall)'
    bs = _body(flat, r'size_t QGreedyPolicyWrapper<V, Gen>::sampleAction\(\) \{', 'QGreedyPolicyWrapper::sampleAction')
    bp = _body(flat, r'double QGreedyPolicyWrapper<V, Gen>::getActionProbability\(const size_t a\) const \{', 'QGreedyPolicyWrapper::getActionProbability')
    bt = _body(flat, r'void QGreedyPolicyWrapper<V, Gen>::getPolicy\(P && p\) const \{', 'QGreedyPolicyWrapper::getPolicy')
    pick = r'auto pickDistribution = std::uniform_int_distribution<unsigned>\(0, bestActionCount ?- ?1\); const unsigned selection = pickDistribution\(rand_\); return buffer_\[selection\];'
    if not re.search(pick, bs):
        raise X.ExtractError('QGreedyPolicyWrapper::sampleAction: uniform pick over the tie list has an unknown shape')
    pass2 = r'for \( ?size_t aa = 0; aa < buffer_\.size\(\); \+\+aa ?\) \{ if \( ?' + C + r'\(q_\[aa\], max\) ?\) p\[aa\] = 1\.0 / count; else p\[aa\] = 0\.0; \}'
    m2 = re.search(pass2, bt)
    if not m2:
        raise X.ExtractError('QGreedyPolicyWrapper::getPolicy: second pass has an unknown shape')
    # as written
    ws = re.search(r'buffer_\[0\] = 0; double bestValue = q_\[0\]; unsigned bestActionCount = 1; for \( ?size_t a = 1; a < buffer_\.size\(\); \+\+a ?\) \{ const double val = q_\[a\]; '
                   r'if \( ?' + C + r'\(val, bestValue\) ?\) \{ buffer_\[bestActionCount\] = a; \+\+bestActionCount; \} '
                   r'else if \( ?val > bestValue ?\) \{ buffer_\[0\] = a; bestActionCount = 1; bestValue = val; \} \}', bs)
    wp = re.search(r'const double max = q_\[a\]; unsigned count = 0; for \( ?size_t aa = 0; aa < buffer_\.size\(\); \+\+aa ?\) \{ const double val = q_\[aa\]; '
                   r'if \( ?' + C + r'\(val, max\) ?\) \+\+count; else if \( ?val > max ?\) \{ return 0\.0; \} \} return 1\.0 / count;', bp)
    wt = re.search(r'double max = q_\[0\]; unsigned count = 1; for \( ?size_t aa = 1; aa < buffer_\.size\(\); \+\+aa ?\) \{ const double val = q_\[aa\]; '
                   r'if \( ?' + C + r'\(val, max\) ?\) \+\+count; else if \( ?val > max ?\) \{ max = val; count = 1; \} \}', bt)
    # repaired: maximum first
    cnt = r'unsigned count = 0; for \( ?size_t aa = 0; aa < buffer_\.size\(\); \+\+aa ?\) if \( ?' + C + r'\(q_\[aa\], max\) ?\) \+\+count;'
    rs = re.search(r'const double bestValue = q_\.maxCoeff\(\); unsigned bestActionCount = 0; for \( ?size_t a = 0; a < buffer_\.size\(\); \+\+a ?\) '
                   r'if \( ?' + C + r'\(q_\[a\], bestValue\) ?\) buffer_\[bestActionCount\+\+\] = a;', bs)
    rp = re.search(r'const double max = q_\.maxCoeff\(\); if \( ?!' + C + r'\(q_\[a\], max\) ?\) return 0\.0; ' + cnt + r' return 1\.0 / count;', bp)
    rt = re.search(r'const double max = q_\.maxCoeff\(\); ' + cnt, bt)
    ln = X.lineno(src, src.find('::sampleAction()'))
    if ws and wp and wt and not (rs or rp or rt):
        return False, [CMPS[ws.group(1)], CMPS[wp.group(1)], CMPS[wt.group(1)], CMPS[m2.group(1)]], ln
    if rs and rp and rt and not (ws or wp or wt):
        if rp.group(1) != rp.group(2):
            raise X.ExtractError('QGreedyPolicyWrapper::getActionProbability: two different tolerance tests')
        return True, [CMPS[rs.group(1)], CMPS[rp.group(1)], CMPS[rt.group(1)], CMPS[m2.group(1)]], ln
    raise X.ExtractError('QGreedyPolicyWrapper: the three scans have an unknown shape')


def other_sites():
    """Further syntactic facts the theorems / driver rely on (pinned; any other shape is a broken tie):
    WoLFPolicy::stepUpdateP's own copy of the greedy scan (comparator returned), the T ~ 0 delegation test of the three softmax members,
    the `u <= epsilon` test and the mixture of both EpsilonPolicyInterface specialisations, Thompson's strict `>` and its unvisited-arm exit."""
    w = re.sub(r'\s+', ' ', X.strip_comments(X.read(WO)))
    m = re.search(r'if \( ?(checkEqualGeneral|checkEqualSmall)\(qsa, bestQValue\) ?\) \{ bestActions\[bestActionCount\] = a; \+\+bestActionCount; \} '
                  r'else if \( ?qsa > bestQValue ?\) \{ bestActions\[0\] = a; bestActionCount = 1; bestQValue = qsa; \}', w)
    if not m:
        raise X.ExtractError('WoLFPolicy::stepUpdateP: best-action scan has an unknown shape')
    if not re.search(r'finalDelta = actualValue > avgValue \? deltaW_ : deltaL_;', w):
        raise X.ExtractError('WoLFPolicy::stepUpdateP: learning-rate choice has an unknown shape')
    sm = re.sub(r'\s+', ' ', X.strip_comments(X.read(SM)))
    if len(re.findall(r'if \( ?checkEqualSmall\(temperature_, 0\.0\) ?\) \{ auto wrap = QGreedyPolicyWrapper\(q_, buffer_, rand_\); return wrap\.', sm)) != 3:
        raise X.ExtractError('QSoftmaxPolicyWrapper: the T ~ 0 delegation to QGreedyPolicyWrapper has an unknown shape')
    e = re.sub(r'\s+', ' ', X.strip_comments(X.read(EI)))
    if len(re.findall(r'if \( ?probabilityDistribution\(this->rand_\) <= epsilon_ ?\) return sampleRandomAction\(\); return policy_\.sampleAction\(s?\);', e)) != 2:
        raise X.ExtractError('EpsilonPolicyInterface::sampleAction: unknown shape')
    if len(re.findall(r'return \( ?1\.0 - epsilon_ ?\) \* policy_\.getActionProbability\((?:s, ?)?a\) \+ epsilon_ \* getRandomActionProbability\(\);', e)) != 2:
        raise X.ExtractError('EpsilonPolicyInterface::getActionProbability: unknown shape')
    if len(re.findall(r'if \( ?e < 0\.0 \|\| e > 1\.0 ?\) throw std::invalid_argument', e)) != 2:
        raise X.ExtractError('EpsilonPolicyInterface::setEpsilon: range guard has an unknown shape')
    t = re.sub(r'\s+', ' ', X.strip_comments(X.read(TH)))
    if not re.search(r'if \( ?counts\[a\] < 2 ?\) return a;', t) or not re.search(r'if \( ?val > bestValue ?\) \{ bestAction = a; bestValue = val; \}', t):
        raise X.ExtractError('ThompsonSamplingPolicy::sampleAction: selection loop has an unknown shape')
    return CMPS[m.group(1)]


CORE = 'include/AIToolbox/Utils/Core.hpp'


def core_shape():
    """The two tolerance comparisons the model's `ceS` / `ceG` transcribe (the constants come from tools/extract.py)."""
    c = re.sub(r'\s+', ' ', X.strip_comments(X.read(CORE)))
    if not re.search(r'inline bool checkEqualSmall\(const double a, const double b\) \{ return \( ?std::fabs\(a - b\) <= equalToleranceSmall ?\); \}', c):
        raise X.ExtractError('checkEqualSmall(double,double): unknown shape')
    if not re.search(r'inline bool checkEqualGeneral\(const double a, const double b\) \{ if \( ?checkEqualSmall\(a, ?b\) ?\) return true; '
                     r'return \( ?std::fabs\(a - b\) <= std::min\(std::fabs\(a\), std::fabs\(b\)\) \* equalToleranceGeneral ?\); \}', c):
        raise X.ExtractError('checkEqualGeneral(double,double): unknown shape')


def gen_c09():
    core_shape()
    gmf, gc, gln = greedy_shape()
    wolfG = other_sites()
    ef, efl = esrl_lookup()
    th, thl = thompson_init()
    pr, prl = project_shape()
    small, shift, sml = softmax_shape()
    b = lambda x: 'true' if x else 'false'
    body = ['/- GENERATED by tools/extract_c09.py from the library source — do not edit. -/', 'namespace AITB.Gen.C09', '',
            f'/-- {TH}:{thl} — running maximum of sampleAction starts below every double (lowest / -inf) -/',
            f'def thompsonInitLowest : Bool := {b(th)}',
            f'/-- {PR}:{prl} — projectToProbability: sum~1 returns mask*v, sum~0 returns the uniform vector -/',
            f'def projRepaired : Bool := {b(pr)}',
            f'/-- {SM}:{sml} — getPolicy (only) replaces a row whose exp-sum is within equalToleranceSmall of 0 by the uniform row -/',
            f'def smPolicySmallSumUniform : Bool := {b(small)}',
            f'/-- {SM} — the softmax members exponentiate (q - max q)/T instead of q/T -/',
            f'def smSubtractMax : Bool := {b(shift)}',
            f'/-- {ES}:{efl} — getActionProbability looks the action up with std::find (true) / std::lower_bound (false) -/',
            f'def esrlProbUsesFind : Bool := {b(ef)}',
            f'/-- {GW}:{gln} — the three members look for the maximum first (q_.maxCoeff()) and tie-test against it (true), or keep a running maximum (false, as first read) -/',
            f'def greedyMaxFirst : Bool := {b(gmf)}',
            f'/-- {GW} — tolerance test at the four sites (sampleAction, getActionProbability, getPolicy pass 1, pass 2): true = checkEqualGeneral, false = checkEqualSmall -/',
            f'def greedyCmpSampleG : Bool := {b(gc[0])}',
            f'def greedyCmpProbG : Bool := {b(gc[1])}',
            f'def greedyCmpPol1G : Bool := {b(gc[2])}',
            f'def greedyCmpPol2G : Bool := {b(gc[3])}',
            f'/-- {WO} — tolerance test of stepUpdateP\'s own greedy scan: true = checkEqualGeneral -/',
            f'def wolfCmpG : Bool := {b(wolfG)}',
            '', 'end AITB.Gen.C09', '']
    X.write_if_changed('C09', '\n'.join(body))


GENERATORS = [gen_c09]
