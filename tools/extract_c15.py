"""C15 translator plug-in: syntactic facts of the two factored-LP builders that the Lean model of the
constraint generation (AITB.Model.FLPGen) and its theorems depend on.  Writes lean/AITB/Gen/C15Facts.lean.
Fails loudly (ExtractError) if a site has an unknown shape — that is a broken tie, not a pass."""
import re
import extract as E

FLP = 'src/Factored/MDP/Algorithms/Utils/FactoredLP.cpp'
MLP = 'src/Factored/MDP/Algorithms/LinearProgramming.cpp'
GVE = 'include/AIToolbox/Factored/Utils/GenericVariableElimination.hpp'
LPW = 'src/Utils/LP/LpSolveWrapper.cpp'
LPLIB = '/usr/include/lpsolve/lp_lib.h'


def _body(src, header_re, what):
    m = E.find1(header_re, src, what)
    i = src.index('{', m.end() - 1)
    depth, j = 0, i
    while j < len(src):
        if src[j] == '{':
            depth += 1
        elif src[j] == '}':
            depth -= 1
            if depth == 0:
                return src[i + 1:j], E.lineno(src, m.start())
        j += 1
    raise E.ExtractError('unbalanced braces: ' + what)


def _for_body(body, what):
    """text of the (first) range-for over finalFactors: braces or single statement"""
    m = re.search(r'for\s*\(\s*(?:const\s+)?auto\s*&?\s*\w+\s*:\s*finalFactors\s*\)\s*', body)
    if not m:
        raise E.ExtractError(what + ': no loop over finalFactors')
    rest = body[m.end():]
    if rest.startswith('{'):
        depth = 0
        for j, ch in enumerate(rest):
            if ch == '{':
                depth += 1
            elif ch == '}':
                depth -= 1
                if depth == 0:
                    return rest[1:j], rest[j + 1:]
        raise E.ExtractError(what + ': unbalanced loop')
    j = rest.index(';')
    return rest[:j + 1], rest[j + 1:]


def _lp_code(tok, what):
    """numeric value of an lp_solve result code written as a literal or as a macro of lp_lib.h"""
    tok = tok.strip()
    if re.fullmatch(r'-?\d+', tok):
        return int(tok)
    hdr = open(LPLIB).read()
    m = re.search(r'^#define\s+' + re.escape(tok) + r'\s+(-?\d+)\s*$', hdr, re.M)
    if not m:
        raise E.ExtractError('%s: unknown lp_solve result code %r' % (what, tok))
    return int(m.group(1))


def _code_list(cond, what):
    """`result == A || result == B …` -> [A, B, …]"""
    parts = [p.strip() for p in cond.split('||')]
    out = []
    for p in parts:
        m = re.fullmatch(r'result\s*==\s*(\w+)', p)
        if not m:
            raise E.ExtractError('%s: unknown test %r' % (what, p))
        out.append(_lp_code(m.group(1), what))
    return out


def lp_solve_facts():
    """LP::solve: [first ::solve] [if (result in RETRY) { …; result = ::solve(lp); … }] [if (result in ACCEPT) solution = …]"""
    src = E.strip_comments(E.read(LPW))
    body, ln = _body(src, r'std::optional<Vector>\s+LP::solve\s*\([^)]*\)\s*\{', LPW + ' LP::solve')
    calls = [m.start() for m in re.finditer(r'::solve\s*\(\s*lp\s*\)', body)]
    if len(calls) != 2:
        raise E.ExtractError(LPW + ': LP::solve is expected to call ::solve(lp) twice (first attempt, guarded retry), found %d' % len(calls))
    between = body[calls[0]:calls[1]]
    m = re.search(r'if\s*\(([^{};]*)\)\s*\{', between)
    if not m or re.search(r'\belse\b|\bwhile\b|\bfor\b', between):
        raise E.ExtractError(LPW + ': LP::solve: the retry is not a single `if (result == …) {` block')
    retry = _code_list(m.group(1), LPW + ' LP::solve retry test')
    after = body[calls[1]:]
    m2 = re.search(r'if\s*\(([^{};]*)\)\s*solution\s*=', after)
    if not m2 or len(re.findall(r'solution\s*=', body)) != 1:
        raise E.ExtractError(LPW + ': LP::solve: `if (result == …) solution = …` not found exactly once after the retry')
    accept = _code_list(m2.group(1), LPW + ' LP::solve accept test')
    # the scaling mode may only be changed on an UNSCALED model: set_scaling after a solve rescales the already scaled data and lp_solve
    # then reports wrong optima with result 0 (measured); `unscale(lp); set_scaling(lp, …)` is the safe form
    flatb = re.sub(r'\s+', '', between)
    for m3 in re.finditer(r'set_scaling\(lp,([^;]*)\);', flatb):
        pre = flatb[:m3.start()]
        if not pre.endswith('unscale(lp);') and 'unscale(lp);' not in pre:
            raise E.ExtractError(LPW + ': LP::solve changes the scaling between attempts without unscale(lp) first (lp_solve then rescales the scaled model)')
    if re.search(r'\bset_scalemode\b', body) or re.search(r'\bset_scaling\b', body[:calls[0]]):
        raise E.ExtractError(LPW + ': LP::solve touches the scaling mode outside the retry block')
    return retry, accept, ln


# ---------------------------------------------------------------- shared helpers one level below the two builders
UCORE = 'include/AIToolbox/Utils/Core.hpp'
FCORE = 'src/Factored/Utils/Core.cpp'
_HELPERS = [
    # (fact name, file, header regex, expected body with all whitespace removed, what the model assumes)
    ('helperCheckEqualSmallIsAbsLe', UCORE, r'inline\s+bool\s+checkEqualSmall\s*\(\s*const\s+double\s+a\s*,\s*const\s+double\s+b\s*\)\s*\{',
     'return(std::fabs(a-b)<=equalToleranceSmall);',
     'checkEqualSmall(a, b) is |a - b| <= equalToleranceSmall (model: isZeroSmall)'),
    ('helperJoinKeysOffsetsByS', FCORE, r'PartialKeys\s+join\s*\(\s*const\s+size_t\s+S\s*,\s*const\s+PartialKeys\s*&\s*lhs\s*,\s*const\s+PartialKeys\s*&\s*rhs\s*\)\s*\{',
     'PartialKeysretval;retval.reserve(lhs.size()+rhs.size());retval.insert(std::end(retval),std::begin(lhs),std::end(lhs));'
     'std::transform(std::begin(rhs),std::end(rhs),std::back_inserter(retval),[S](constsize_ta){returna+S;});returnretval;',
     'join(S, tag, actionTag) = tag ++ actionTag.map (+S) (model: joinTag)'),
    ('helperToIndexPartialPF', FCORE, r'size_t\s+toIndexPartial\s*\(\s*const\s+PartialKeys\s*&\s*ids\s*,\s*const\s+Factors\s*&\s*space\s*,\s*const\s+PartialFactors\s*&\s*pf\s*\)\s*\{',
     'size_tresult=0;size_tmultiplier=1;size_tj=0;for(autoid:ids){while(pf.first[j]!=id)++j;result+=multiplier*pf.second[j];multiplier*=space[id];}returnresult;',
     'toIndexPartial(keys, space, partial factors) is the little-endian mixed-radix index over the keys (model: toIndexPartial)'),
    ('helperEnumeratorAdvance', FCORE, r'void\s+PartialFactorsEnumerator::advance\s*\(\s*\)\s*\{',
     'size_tid=!factorToSkipId_;while(id<factors_.second.size()){++factors_.second[id];if(factors_.second[id]==F[factors_.first[id]]){factors_.second[id]=0;'
     'if(++id==factorToSkipId_)++id;}elsereturn;}factors_.second.clear();',
     'PartialFactorsEnumerator::advance counts little-endian over the keys, skipping the eliminated one (model: toFactors (sel nb A) jvID)'),
]


def helper_facts():
    rows = []
    for nm, rel, hdr, expect, doc in _HELPERS:
        src = E.strip_comments(E.read(rel))
        body, ln = _body(src, hdr, rel + ' ' + nm)
        flat = re.sub(r'\s+', '', body)
        rows.append((nm, 'Bool', 'true' if flat == expect else 'false', rel, ln, doc))
    return rows


def gen_c15facts():
    rows = []
    # columns taken per new factor = addColumn() calls in initNewFactor
    for rel, nm, expect in ((FLP, 'flpColumnsPerFactor', 2), (MLP, 'mdpColumnsPerFactor', 1)):
        src = E.strip_comments(E.read(rel))
        body, ln = _body(src, r'void\s+Global::initNewFactor\s*\(\s*\)\s*\{', rel + ' Global::initNewFactor')
        k = len(re.findall(r'lp\.addColumn\s*\(\s*\)', body))
        if k == 0 or not re.search(r'newFactor\s*=\s*lp\.row\.size\s*\(\s*\)', body):
            raise E.ExtractError(rel + ': Global::initNewFactor has an unknown shape')
        rows.append((nm, 'Nat', str(k), rel, ln, 'LP columns taken by each new factor (addColumn calls in initNewFactor)'))
    # crossSum writes a coefficient 1 (overwrite) into the row buffer
    for rel, nm in ((FLP, 'flpCrossSumSetsOne'), (MLP, 'mdpCrossSumSetsOne')):
        src = E.strip_comments(E.read(rel))
        body, ln = _body(src, r'void\s+Global::crossSum\s*\(\s*const\s+Factor\s*&\s*f\s*\)\s*\{', rel + ' Global::crossSum')
        flat = re.sub(r'\s+', '', body)
        if flat == 'lp.row[f]=1.0;':
            val = 'true'
        elif re.fullmatch(r'lp\.row\[f\]\+=1\.0;', flat):
            val = 'false'
        else:
            raise E.ExtractError(rel + ': Global::crossSum has an unknown shape: ' + flat[:80])
        rows.append((nm, 'Bool', val, rel, ln, 'crossSum stores the coefficient 1.0 for the rule column (overwrite, not accumulate)'))
    # MDP makeResult: one row per final factor (pushRow inside the loop) or one row for their sum (pushRow after it)
    src = E.strip_comments(E.read(MLP))
    body, ln = _body(src, r'void\s+Global::makeResult\s*\(', MLP + ' Global::makeResult')
    inner, after = _for_body(body, MLP + ' Global::makeResult')
    in_loop = 'pushRow' in inner
    after_loop = 'pushRow' in after
    if in_loop == after_loop:
        raise E.ExtractError(MLP + ': Global::makeResult has an unknown shape (pushRow inside and after the loop: %s/%s)' % (in_loop, after_loop))
    rows.append(('mdpJoinsFinals', 'Bool', 'true' if after_loop else 'false', MLP, ln,
                 'makeResult pushes ONE row for the sum of all final factors (false: one row per final factor)'))
    # FactoredLP makeResult: pushRow only after the loops (two rows)
    src = E.strip_comments(E.read(FLP))
    body, ln = _body(src, r'void\s+Global::makeResult\s*\(', FLP + ' Global::makeResult')
    inner, after = _for_body(body, FLP + ' Global::makeResult')
    if 'pushRow' in inner or len(re.findall(r'pushRow', body)) != 2:
        raise E.ExtractError(FLP + ': Global::makeResult has an unknown shape')
    rows.append(('flpJoinsFinals', 'Bool', 'true', FLP, ln, 'FactoredLP makeResult pushes one row per side for the sum of all final factors'))
    # FactoredLP: does operator() delegate (no basis, constant requested) to (one all-ones basis, no constant)?  (fixes/C15-4)
    src = E.strip_comments(E.read(FLP))
    guard = r'if\s*\(\s*addConstantBasis\s*&&\s*C\.bases\.empty\(\)\s*\)\s*\{'
    ln = 0
    if re.search(guard, src):
        inner, ln = _body(src, guard, FLP + ' empty-basis guard')
        flat = re.sub(r'\s+', ' ', inner)
        if not (re.search(r'return \(\*this\)\( ?\w+, b, false ?\)', flat) and re.search(r'Ones\( ?S\[0\] ?\)', flat) and re.search(r'\{ ?\{ ?0 ?\}', flat)):
            raise E.ExtractError(FLP + ': the empty-basis guard of operator() has an unknown shape: ' + flat[:160])
        deleg = True
    else:
        if re.search(r'C\.bases\.empty\(\)', src):
            raise E.ExtractError(FLP + ': operator() tests C.bases.empty() in an unknown way')
        deleg = False
    rows.append(('flpEmptyConstDelegates', 'Bool', 'true' if deleg else 'false', FLP, ln,
                 'operator() solves (no basis, constant requested) as (one all-ones basis over factor 0, no constant)'))
    # zero entries are skipped in the three MDP setup loops
    src = E.strip_comments(E.read(MLP))
    k = len(re.findall(r'if\s*\(\s*checkEqualSmall\s*\([^;{}]*,\s*0\.0\s*\)\s*\)\s*continue\s*;', src))
    if k != 3:
        raise E.ExtractError(MLP + ': expected 3 `if (checkEqualSmall(x, 0.0)) continue;` sites, found %d' % k)
    rows.append(('mdpZeroSkipSites', 'Nat', str(k), MLP, 0, 'setup loops that skip entries equal to zero within equalToleranceSmall'))
    # GVE without mergeFactors appends the new rule and sums EVERY matching rule
    src = E.strip_comments(E.read(GVE))
    m1 = E.find1(r'for\s*\(\s*const\s+auto\s*&\s*rule\s*:\s*factor->getData\(\)\s*\)\s*if\s*\(\s*jvPartialIndex\s*==\s*rule\.first\s*\)\s*global\.crossSum\(rule\.second\)', src, 'GVE non-merge lookup loop')
    E.find1(r'oldRules\.emplace_back\(\s*jvID\s*,', src, 'GVE non-merge append')
    rows.append(('gveAppendsAndSumsAllMatches', 'Bool', 'true', GVE, E.lineno(src, m1.start()), 'without mergeFactors: new rules are appended, every rule with the wanted index is cross-summed'))
    rows += helper_facts()
    retry, accept, ln = lp_solve_facts()
    rows.append(('lpRetryCodes', 'List Int', '[' + ', '.join(map(str, retry)) + ']', LPW, ln, 'lp_solve result codes after which LP::solve calls ::solve a second time (first-index pricing)'))
    rows.append(('lpAcceptCodes', 'List Int', '[' + ', '.join(map(str, accept)) + ']', LPW, ln, 'lp_solve result codes with which LP::solve hands the point back'))
    out = ['/- GENERATED by tools/extract_c15.py from the library source — do not edit. -/', 'namespace AITB.Gen', '']
    for nm, ty, val, rel, ln, doc in rows:
        out.append(f'/-- {doc} ({rel}:{ln}) -/')
        out.append(f'def {nm} : {ty} := {val}')
    out += ['', 'end AITB.Gen', '']
    E.write_if_changed('C15Facts', '\n'.join(out))


# ---------------------------------------------------------------- callback bodies -> statement lists (AITB.Model.FLPBuf.BStmt)
_IX = {'newFactor': '.newFactor', 'f': '.f', 'phiId': '.phi', 'ruleId': '.rule', 'ruleId+1': '.rule1'}
_SHIFT = re.compile(r'for\(inti=lp\.row\.size\(\)-2;i>=0;--i\)\{?if\(lp\.row\[i\]!=0\.0\)\{lp\.row\[i\+1\]=lp\.row\[i\];lp\.row\[i\]=0\.0;\}\}?')
_WRITE = re.compile(r'lp\.row\[([A-Za-z0-9_+]+)\]=([+-]?[0-9.]+);')
_PUSH = re.compile(r'lp\.pushRow\(LP::Constraint::LessEqual,0\.0\);')
_FORF = re.compile(r'for\((?:const)?auto&?ruleId:finalFactors\)')


def _write_stmt(m, what, in_loop):
    ix = m.group(1)
    if ix not in _IX or (ix.startswith('ruleId') and not in_loop):
        raise E.ExtractError('%s: unknown index expression lp.row[%s]' % (what, ix))
    return _IX[ix], E.lean_rat(E.lit_to_rat(m.group(2)))


def _stmts(flat, what):
    """flat = body with all whitespace removed"""
    out, i = [], 0
    while i < len(flat):
        rest = flat[i:]
        if rest.startswith('lp.row.setZero();'):
            out.append('.setZero'); i += len('lp.row.setZero();'); continue
        m = _PUSH.match(rest)
        if m:
            out.append('.pushLe'); i += m.end(); continue
        m = _SHIFT.match(rest)
        if m:
            if m.group(0).count('{') != m.group(0).count('}'):
                raise E.ExtractError(what + ': unbalanced shift loop')
            out.append('.shiftRight'); i += m.end(); continue
        m = _FORF.match(rest)
        if m:
            j = i + m.end()
            ws = []
            if flat[j] == '{':
                k = flat.index('}', j)
                inner = flat[j + 1:k]; nxt = k + 1
            else:
                k = flat.index(';', j)
                inner = flat[j:k + 1]; nxt = k + 1
            pos = 0
            while pos < len(inner):
                mw = _WRITE.match(inner[pos:])
                if not mw:
                    raise E.ExtractError('%s: statement inside the finalFactors loop is not `lp.row[..] = literal;`: %s' % (what, inner[pos:pos + 60]))
                ix, q = _write_stmt(mw, what, True)
                ws.append('(%s, %s)' % (ix, q)); pos += mw.end()
            out.append('.forFinals [' + ', '.join(ws) + ']'); i = nxt; continue
        m = _WRITE.match(rest)
        if m:
            ix, q = _write_stmt(m, what, False)
            out.append('.write %s %s' % (ix, q)); i += m.end(); continue
        raise E.ExtractError('%s: statement of unknown shape: %s' % (what, rest[:80]))
    return out


def gen_c15callbacks():
    out = ['/- GENERATED by tools/extract_c15.py from the library source — do not edit.',
           '   The bodies of Global::beginCrossSum / crossSum / endCrossSum / makeResult of the two LP builders, statement by statement. -/',
           'import AITB.Model.FLPBuf', 'namespace AITB.Gen', 'open AITB.FLP', '']
    for rel, nm in ((FLP, 'flpCallbacks'), (MLP, 'mdpCallbacks')):
        src = E.strip_comments(E.read(rel))
        fields = []
        for cb, hdr in (('beginCrossSum', r'void\s+Global::beginCrossSum\s*\(\s*\)\s*\{'),
                        ('crossSum', r'void\s+Global::crossSum\s*\(\s*const\s+Factor\s*&\s*f\s*\)\s*\{'),
                        ('endCrossSum', r'void\s+Global::endCrossSum\s*\(\s*\)\s*\{'),
                        ('makeResult', r'void\s+Global::makeResult\s*\(\s*VE::FinalFactors\s*&&\s*finalFactors\s*\)\s*\{')):
            body, ln = _body(src, hdr, rel + ' Global::' + cb)
            st = _stmts(re.sub(r'\s+', '', body), '%s:%d Global::%s' % (rel, ln, cb))
            fields.append('  %s := [%s]' % (cb, ', '.join(st)))
        out.append('/-- %s -/' % rel)
        out.append('def %s : Callbacks := {\n%s }' % (nm, ',\n'.join(fields)))
        out.append('')
    out += ['end AITB.Gen', '']
    E.write_if_changed('C15Callbacks', '\n'.join(out))


# ---------------------------------------------------------------- FactoredLP setup loops -> statement lists (AITB.Model.FLPBuf.SStmt)
_SIX = {'currentRule': '.rule', 'currentRule+1': '.rule1', 'currentWeight': '.weight', 'constBasisId': '.const'}
_SWRITE = re.compile(r'(if\(addConstantBasis\))?lp\.row\[([A-Za-z0-9_+]+)\]=([^;]+);')
_SPUSH = re.compile(r'lp\.pushRow\(LP::Constraint::Equal,([^;]+)\);')
_TAIL = 'newFactor->getData().emplace_back(i,currentRule);currentRule+=2;'


def _sval(tok, what):
    if tok == 'f.values[i]':
        return '.val'
    if tok == '-f.values[i]':
        return '.negVal'
    if tok == 'constBasisCoeff':
        return '.cc'
    if tok == '-constBasisCoeff':
        return '.negCc'
    if re.fullmatch(r'[+-]?[0-9.]+', tok):
        return '(.lit %s)' % E.lean_rat(E.lit_to_rat(tok))
    raise E.ExtractError('%s: unknown value expression %r' % (what, tok))


def _setup_body(flat, what):
    if not flat.endswith(_TAIL):
        raise E.ExtractError(what + ': the entry loop does not end with `emplace_back(i, currentRule); currentRule += 2;`')
    flat = flat[:-len(_TAIL)]
    out, i = [], 0
    while i < len(flat):
        rest = flat[i:]
        m = _SPUSH.match(rest)
        if m:
            out.append('.pushEq ' + _sval(m.group(1), what)); i += m.end(); continue
        m = _SWRITE.match(rest)
        if m:
            if m.group(2) not in _SIX:
                raise E.ExtractError('%s: unknown index expression lp.row[%s]' % (what, m.group(2)))
            out.append(('.writeIfConst ' if m.group(1) else '.write ') + _SIX[m.group(2)] + ' ' + _sval(m.group(3), what)); i += m.end(); continue
        raise E.ExtractError('%s: statement of unknown shape: %s' % (what, rest[:80]))
    return out


def _block_after(src, header_re, what):
    """body of the braced block that starts at the match of header_re, and the text after it"""
    m = E.find1(header_re, src, what)
    i = src.index('{', m.end() - 1)
    depth = 0
    for j in range(i, len(src)):
        if src[j] == '{':
            depth += 1
        elif src[j] == '}':
            depth -= 1
            if depth == 0:
                return src[i + 1:j], src[j + 1:]
    raise E.ExtractError('unbalanced braces: ' + what)


_MW = re.compile(r'lp\.row\[(currentRule|currentWeight)\]=([^;]+);')
_MP = re.compile(r'lp\.pushRow\(LP::Constraint::Equal,([^;]+)\);')

def _mval(tok, what):
    t = tok
    if t in ('-f.values[sId]',):
        return '.negVal'
    if t in ('+discount*f.values(sId,aId)', 'discount*f.values(sId,aId)'):
        return '.discVal'
    if t in ('f.values(sId,aId)',):
        return '.val'
    if re.fullmatch(r'[+-]?[0-9.]+', t):
        return '(.lit %s)' % E.lean_rat(E.lit_to_rat(t))
    raise E.ExtractError('%s: unknown value expression %r' % (what, tok))

def mdp_loop_body(flat, guard, tail, what):
    if not flat.startswith(guard):
        raise E.ExtractError(what + ': the entry loop does not start with the zero-skip guard ' + guard)
    if not flat.endswith(tail):
        raise E.ExtractError(what + ': the entry loop does not end with ' + tail)
    flat = flat[len(guard):len(flat) - len(tail)]
    out, i = [], 0
    while i < len(flat):
        rest = flat[i:]
        if rest.startswith('lp.addColumn();'):
            out.append('.addColumn'); i += len('lp.addColumn();'); continue
        if rest.startswith('lp.row.setZero();'):
            out.append('.setZero'); i += len('lp.row.setZero();'); continue
        m = _MP.match(rest)
        if m:
            out.append('.pushEq ' + _mval(m.group(1), what)); i += m.end(); continue
        m = _MW.match(rest)
        if m:
            out.append('.write %s %s' % ('.rule' if m.group(1) == 'currentRule' else '.weight', _mval(m.group(2), what))); i += m.end(); continue
        raise E.ExtractError('%s: statement of unknown shape: %s' % (what, rest[:80]))
    return out

def mdp_setup_bodies():
    src = E.strip_comments(E.read(MLP))
    body, _ = _body(src, r'std::optional<Vector>\s+LinearProgramming::solveLP\s*\([^)]*\)\s*const\s*\{', MLP + ' solveLP')
    res = {}
    outH, after = _block_after(body, r'for\s*\(\s*const\s+auto\s*&\s*f\s*:\s*h\.bases\s*\)\s*\{', MLP + ' loop over h.bases')
    inH, _ = _block_after(outH, r'for\s*\(\s*int\s+sId\s*=\s*0\s*;\s*sId\s*<\s*f\.values\.size\(\)\s*;\s*\+\+sId\s*\)\s*\{', MLP + ' entry loop of h')
    res['mdpSetupHBody'] = mdp_loop_body(re.sub(r'\s+', '', inH), 'if(checkEqualSmall(f.values[sId],0.0))continue;',
                                         'newFactor->getData().emplace_back(sId,currentRule);currentRule+=1;', MLP + ' entry loop of h')
    for nm, hdr in (('mdpSetupGBody', r'for\s*\(\s*const\s+auto\s*&\s*f\s*:\s*g\.bases\s*\)\s*\{'), ('mdpSetupRBody', r'for\s*\(\s*const\s+auto\s*&\s*f\s*:\s*R\.bases\s*\)\s*\{')):
        outer, after = _block_after(after, hdr, MLP + ' ' + nm)
        flat_outer = re.sub(r'\s+', '', outer)
        if not flat_outer.startswith('autonewFactor=graph.getFactor(join(S.size(),f.tag,f.actionTag));autoaMult=1;for(autoid:f.tag)aMult*=S[id];for(intsId=0;sId<f.values.rows();++sId){for(intaId=0;aId<f.values.cols();++aId){'):
            raise E.ExtractError(MLP + ': ' + nm + ': unknown prologue (join tag, aMult = prod S[id], sId-major double loop)')
        l1, _ = _block_after(outer, r'for\s*\(\s*int\s+sId\s*=\s*0\s*;\s*sId\s*<\s*f\.values\.rows\(\)\s*;\s*\+\+sId\s*\)\s*\{', MLP + ' ' + nm + ' sId loop')
        l2, _ = _block_after(l1, r'for\s*\(\s*int\s+aId\s*=\s*0\s*;\s*aId\s*<\s*f\.values\.cols\(\)\s*;\s*\+\+aId\s*\)\s*\{', MLP + ' ' + nm + ' aId loop')
        res[nm] = mdp_loop_body(re.sub(r'\s+', '', l2), 'if(checkEqualSmall(f.values(sId,aId),0.0))continue;',
                                'newFactor->getData().emplace_back(sId+aMult*aId,currentRule);currentRule+=1;', MLP + ' ' + nm)
    return res


def gen_c15setup():
    src = E.strip_comments(E.read(FLP))
    opbody, _ = _body(src, r'std::optional<Vector>\s+FactoredLP::operator\(\)\s*\([^)]*\)\s*\{', FLP + ' FactoredLP::operator()')
    flat_all = re.sub(r'\s+', '', opbody)
    # the buffer is cleared once before the loops, the weight column after every basis, the constant column after the first loop
    for need, what in (('lp.setObjective(phiId,false);lp.row.setZero();', 'row buffer cleared after setObjective'),):
        if need not in flat_all:
            raise E.ExtractError(FLP + ': operator(): expected `%s` (%s)' % (need, what))
    outC, afterC = _block_after(opbody, r'for\s*\(\s*const\s+auto\s*&\s*f\s*:\s*C\.bases\s*\)\s*\{', FLP + ' loop over C.bases')
    inC, restC = _block_after(outC, r'for\s*\(\s*int\s+i\s*=\s*0\s*;\s*i\s*<\s*f\.values\.size\(\)\s*;\s*\+\+i\s*\)\s*\{', FLP + ' entry loop of C')
    if re.sub(r'\s+', '', restC) != 'lp.row[currentWeight++]=0.0;':
        raise E.ExtractError(FLP + ': after the entry loop of C expected exactly `lp.row[currentWeight++] = 0.0;`, found ' + re.sub(r'\s+', '', restC)[:80])
    if not re.sub(r'\s+', '', outC).startswith('autonewFactor=graph.getFactor(f.tag);for('):
        raise E.ExtractError(FLP + ': loop over C.bases has an unknown prologue')
    if not re.sub(r'\s+', '', afterC).startswith('if(addConstantBasis)lp.row[constBasisId]=0.0;'):
        raise E.ExtractError(FLP + ': after the loop over C.bases expected `if (addConstantBasis) lp.row[constBasisId] = 0.0;`')
    outB, _ = _block_after(afterC, r'for\s*\(\s*const\s+auto\s*&\s*f\s*:\s*b\.bases\s*\)\s*\{', FLP + ' loop over b.bases')
    inB, restB = _block_after(outB, r'for\s*\(\s*int\s+i\s*=\s*0\s*;\s*i\s*<\s*f\.values\.size\(\)\s*;\s*\+\+i\s*\)\s*\{', FLP + ' entry loop of b')
    if re.sub(r'\s+', '', restB) != '':
        raise E.ExtractError(FLP + ': unexpected statements after the entry loop of b')
    bodyC = _setup_body(re.sub(r'\s+', '', inC), FLP + ' entry loop of C')
    bodyB = _setup_body(re.sub(r'\s+', '', inB), FLP + ' entry loop of b')
    out = ['/- GENERATED by tools/extract_c15.py from the library source — do not edit.',
           '   The bodies of the two entry loops of FactoredLP::operator() (one iteration: two pushes), statement by statement;',
           '   the translator also checks: `lp.row.setZero()` before the loops, `lp.row[currentWeight++] = 0.0` after every basis of C,',
           '   `if (addConstantBasis) lp.row[constBasisId] = 0.0` after the loop over C. -/',
           'import AITB.Model.FLPBuf', 'namespace AITB.Gen', 'open AITB.FLP', '',
           'def flpSetupCBody : List SStmt := [%s]' % ', '.join(bodyC), '',
           'def flpSetupBBody : List SStmt := [%s]' % ', '.join(bodyB), '']
    out.append('/-- the three entry loops of LinearProgramming::solveLP (after the zero-skip guard, before `emplace_back(index, currentRule); currentRule += 1`;')
    out.append('    the translator also checks the guard, the tail, the join tag and `aMult = prod S[id]` with the sId-major double loop) -/')
    for nm, st in mdp_setup_bodies().items():
        out.append('def %s : List MStmt := [%s]' % (nm, ', '.join(st)))
    out += ['', 'end AITB.Gen', '']
    E.write_if_changed('C15Setup', '\n'.join(out))


GENERATORS = [gen_c15facts, gen_c15callbacks, gen_c15setup]
