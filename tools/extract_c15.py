"""C15 translator plug-in: syntactic facts of the two factored-LP builders that the Lean model of the
constraint generation (AITB.Model.FLPGen) and its theorems depend on.  Writes lean/AITB/Gen/C15Facts.lean.
Fails loudly (ExtractError) if a site has an unknown shape — that is a broken tie, not a pass."""
import re
import extract as E

FLP = 'src/Factored/MDP/Algorithms/Utils/FactoredLP.cpp'
MLP = 'src/Factored/MDP/Algorithms/LinearProgramming.cpp'
GVE = 'include/AIToolbox/Factored/Utils/GenericVariableElimination.hpp'
LPW = 'src/Utils/LP/LpSolveWrapper.cpp'
LPLIB = '/usr/include/lpsolve/lp_lib.h'


def _body(src, header_re, what):
    m = E.find1(header_re, src, what)
    i = src.index('{', m.end() - 1)
    depth, j = 0, i
    while j < len(src):
        if src[j] == '{':
            depth += 1
        elif src[j] == '}':
            depth -= 1
            if depth == 0:
                return src[i + 1:j], E.lineno(src, m.start())
        j += 1
    raise E.ExtractError('unbalanced braces: ' + what)


def _for_body(body, what):
    """text of the (first) range-for over finalFactors: braces or single statement"""
    m = re.search(r'for\s*\(\s*(?:const\s+)?auto\s*&?\s*\w+\s*:\s*finalFactors\s*\)\s*', body)
    if not m:
        raise E.ExtractError(what + ': no loop over finalFactors')
    rest = body[m.end():]
    if rest.startswith('{'):
        depth = 0
        for j, ch in enumerate(rest):
            if ch == '{':
                depth += 1
            elif ch == '}':
                depth -= 1
                if depth == 0:
                    return rest[1:j], rest[j + 1:]
        raise E.ExtractError(what + ': unbalanced loop')
    j = rest.index(';')
    return rest[:j + 1], rest[j + 1:]


def _lp_code(tok, what):
    """numeric value of an lp_solve result code written as a literal or as a macro of lp_lib.h"""
    tok = tok.strip()
    if re.fullmatch(r'-?\d+', tok):
        return int(tok)
    hdr = open(LPLIB).read()
    m = re.search(r'^#define\s+' + re.escape(tok) + r'\s+(-?\d+)\s*$', hdr, re.M)
    if not m:
        raise E.ExtractError('%s: unknown lp_solve result code %r' % (what, tok))
    return int(m.group(1))


def _code_list(cond, what):
    """`result == A || result == B …` -> [A, B, …]"""
    parts = [p.strip() for p in cond.split('||')]
    out = []
    for p in parts:
        m = re.fullmatch(r'result\s*==\s*(\w+)', p)
        if not m:
            raise E.ExtractError('%s: unknown test %r' % (what, p))
        out.append(_lp_code(m.group(1), what))
    return out


def lp_solve_facts():
    """LP::solve: [first ::solve] [if (result in RETRY) { …; result = ::solve(lp); … }] [if (result in ACCEPT) solution = …]"""
    src = E.strip_comments(E.read(LPW))
    body, ln = _body(src, r'std::optional<Vector>\s+LP::solve\s*\([^)]*\)\s*\{', LPW + ' LP::solve')
    calls = [m.start() for m in re.finditer(r'::solve\s*\(\s*lp\s*\)', body)]
    if len(calls) != 2:
        raise E.ExtractError(LPW + ': LP::solve is expected to call ::solve(lp) twice (first attempt, guarded retry), found %d' % len(calls))
    between = body[calls[0]:calls[1]]
    m = re.search(r'if\s*\(([^{};]*)\)\s*\{', between)
    if not m or re.search(r'\belse\b|\bwhile\b|\bfor\b', between):
        raise E.ExtractError(LPW + ': LP::solve: the retry is not a single `if (result == …) {` block')
    retry = _code_list(m.group(1), LPW + ' LP::solve retry test')
    after = body[calls[1]:]
    m2 = re.search(r'if\s*\(([^{};]*)\)\s*solution\s*=', after)
    if not m2 or len(re.findall(r'solution\s*=', body)) != 1:
        raise E.ExtractError(LPW + ': LP::solve: `if (result == …) solution = …` not found exactly once after the retry')
    accept = _code_list(m2.group(1), LPW + ' LP::solve accept test')
    if re.search(r'\bset_scaling\b|\bset_scalemode\b', body):
        raise E.ExtractError(LPW + ': LP::solve changes the scaling between attempts (lp_solve then rescales the scaled model)')
    return retry, accept, ln


def gen_c15facts():
    rows = []
    # columns taken per new factor = addColumn() calls in initNewFactor
    for rel, nm, expect in ((FLP, 'flpColumnsPerFactor', 2), (MLP, 'mdpColumnsPerFactor', 1)):
        src = E.strip_comments(E.read(rel))
        body, ln = _body(src, r'void\s+Global::initNewFactor\s*\(\s*\)\s*\{', rel + ' Global::initNewFactor')
        k = len(re.findall(r'lp\.addColumn\s*\(\s*\)', body))
        if k == 0 or not re.search(r'newFactor\s*=\s*lp\.row\.size\s*\(\s*\)', body):
            raise E.ExtractError(rel + ': Global::initNewFactor has an unknown shape')
        rows.append((nm, 'Nat', str(k), rel, ln, 'LP columns taken by each new factor (addColumn calls in initNewFactor)'))
    # crossSum writes a coefficient 1 (overwrite) into the row buffer
    for rel, nm in ((FLP, 'flpCrossSumSetsOne'), (MLP, 'mdpCrossSumSetsOne')):
        src = E.strip_comments(E.read(rel))
        body, ln = _body(src, r'void\s+Global::crossSum\s*\(\s*const\s+Factor\s*&\s*f\s*\)\s*\{', rel + ' Global::crossSum')
        flat = re.sub(r'\s+', '', body)
        if flat == 'lp.row[f]=1.0;':
            val = 'true'
        elif re.fullmatch(r'lp\.row\[f\]\+=1\.0;', flat):
            val = 'false'
        else:
            raise E.ExtractError(rel + ': Global::crossSum has an unknown shape: ' + flat[:80])
        rows.append((nm, 'Bool', val, rel, ln, 'crossSum stores the coefficient 1.0 for the rule column (overwrite, not accumulate)'))
    # MDP makeResult: one row per final factor (pushRow inside the loop) or one row for their sum (pushRow after it)
    src = E.strip_comments(E.read(MLP))
    body, ln = _body(src, r'void\s+Global::makeResult\s*\(', MLP + ' Global::makeResult')
    inner, after = _for_body(body, MLP + ' Global::makeResult')
    in_loop = 'pushRow' in inner
    after_loop = 'pushRow' in after
    if in_loop == after_loop:
        raise E.ExtractError(MLP + ': Global::makeResult has an unknown shape (pushRow inside and after the loop: %s/%s)' % (in_loop, after_loop))
    rows.append(('mdpJoinsFinals', 'Bool', 'true' if after_loop else 'false', MLP, ln,
                 'makeResult pushes ONE row for the sum of all final factors (false: one row per final factor)'))
    # FactoredLP makeResult: pushRow only after the loops (two rows)
    src = E.strip_comments(E.read(FLP))
    body, ln = _body(src, r'void\s+Global::makeResult\s*\(', FLP + ' Global::makeResult')
    inner, after = _for_body(body, FLP + ' Global::makeResult')
    if 'pushRow' in inner or len(re.findall(r'pushRow', body)) != 2:
        raise E.ExtractError(FLP + ': Global::makeResult has an unknown shape')
    rows.append(('flpJoinsFinals', 'Bool', 'true', FLP, ln, 'FactoredLP makeResult pushes one row per side for the sum of all final factors'))
    # FactoredLP: does operator() delegate (no basis, constant requested) to (one all-ones basis, no constant)?  (fixes/C15-4)
    src = E.strip_comments(E.read(FLP))
    guard = r'if\s*\(\s*addConstantBasis\s*&&\s*C\.bases\.empty\(\)\s*\)\s*\{'
    ln = 0
    if re.search(guard, src):
        inner, ln = _body(src, guard, FLP + ' empty-basis guard')
        flat = re.sub(r'\s+', ' ', inner)
        if not (re.search(r'return \(\*this\)\( ?\w+, b, false ?\)', flat) and re.search(r'Ones\( ?S\[0\] ?\)', flat) and re.search(r'\{ ?\{ ?0 ?\}', flat)):
            raise E.ExtractError(FLP + ': the empty-basis guard of operator() has an unknown shape: ' + flat[:160])
        deleg = True
    else:
        if re.search(r'C\.bases\.empty\(\)', src):
            raise E.ExtractError(FLP + ': operator() tests C.bases.empty() in an unknown way')
        deleg = False
    rows.append(('flpEmptyConstDelegates', 'Bool', 'true' if deleg else 'false', FLP, ln,
                 'operator() solves (no basis, constant requested) as (one all-ones basis over factor 0, no constant)'))
    # zero entries are skipped in the three MDP setup loops
    src = E.strip_comments(E.read(MLP))
    k = len(re.findall(r'if\s*\(\s*checkEqualSmall\s*\([^;{}]*,\s*0\.0\s*\)\s*\)\s*continue\s*;', src))
    if k != 3:
        raise E.ExtractError(MLP + ': expected 3 `if (checkEqualSmall(x, 0.0)) continue;` sites, found %d' % k)
    rows.append(('mdpZeroSkipSites', 'Nat', str(k), MLP, 0, 'setup loops that skip entries equal to zero within equalToleranceSmall'))
    # GVE without mergeFactors appends the new rule and sums EVERY matching rule
    src = E.strip_comments(E.read(GVE))
    m1 = E.find1(r'for\s*\(\s*const\s+auto\s*&\s*rule\s*:\s*factor->getData\(\)\s*\)\s*if\s*\(\s*jvPartialIndex\s*==\s*rule\.first\s*\)\s*global\.crossSum\(rule\.second\)', src, 'GVE non-merge lookup loop')
    E.find1(r'oldRules\.emplace_back\(\s*jvID\s*,', src, 'GVE non-merge append')
    rows.append(('gveAppendsAndSumsAllMatches', 'Bool', 'true', GVE, E.lineno(src, m1.start()), 'without mergeFactors: new rules are appended, every rule with the wanted index is cross-summed'))
    retry, accept, ln = lp_solve_facts()
    rows.append(('lpRetryCodes', 'List Int', '[' + ', '.join(map(str, retry)) + ']', LPW, ln, 'lp_solve result codes after which LP::solve calls ::solve a second time (first-index pricing)'))
    rows.append(('lpAcceptCodes', 'List Int', '[' + ', '.join(map(str, accept)) + ']', LPW, ln, 'lp_solve result codes with which LP::solve hands the point back'))
    out = ['/- GENERATED by tools/extract_c15.py from the library source — do not edit. -/', 'namespace AITB.Gen', '']
    for nm, ty, val, rel, ln, doc in rows:
        out.append(f'/-- {doc} ({rel}:{ln}) -/')
        out.append(f'def {nm} : {ty} := {val}')
    out += ['', 'end AITB.Gen', '']
    E.write_if_changed('C15Facts', '\n'.join(out))


GENERATORS = [gen_c15facts]
