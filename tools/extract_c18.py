#!/usr/bin/env python3
"""C18 translator plug-in: syntactic facts of src/Tools/CassandraParser.cpp the C18 model and theorems use.

  preambleKeywords            keys of initMap_ (the preamble pass consumes lines starting with one of them)
  mdpLetters / pomdpLetters   first letters dispatched by parseMDP / parsePOMDP, in source order
  matrixColonCounts / rewardColonCounts
                              the `case N:` labels of the switch on the number of ':' in processMatrix / processReward
  defaultThrows               both switches end in `default: throw …`
  vectorLenThrows             parseVector's wrong-count test is followed by a `throw` statement
  rowLenThrows                the final `else` of the two-colon form (inline count neither 0 nor D3) is a `throw`
                              statement (a constructed-but-not-thrown exception is an expression statement)
  uncheckedTokenAccess        some `tokens[…]` / `split[…]` access bypasses `.at()`
  nextLineChecked             every next-line read goes through `lines_.at(++i_)`
  strictNumbers / exactCounts the conversions check std::stoul/std::stod's `pos` against the token length; the entry forms check the token count
  nanDiscountRejected         MDP::Model::setDiscount's guard is written so that NaN fails it (src/MDP/Model.cpp)
  tokenizeDelims / indexSites / valueSites / writeSites / resolutionOrder / nameLastWins / singleTokenNumeric
                              (round 3) the call sites the model hard-codes: delimiters, token positions, name tables and bounds of every
                              index position, index order of the table writes, `*` → name table → number, `map[name] = i`
  sizeGuard                   parseMDP / parsePOMDP call `checkExtent(S, A, S)` (and `(S, A, O)`) before resizing the
                              tables, and checkExtent has the overflow-safe shape the model assumes

The model (AITB.Model.Cassandra) is parameterised by `flags`; AITB.Props.C18 proves the obligations about the
table data by `decide`, so any change of these facts re-opens a proof obligation on the next run."""
import re
import extract as E

REL = 'src/Tools/CassandraParser.cpp'


def body_of(src, header_re, what):
    m = E.find1(header_re, src, what)
    i = src.index('{', m.end() - 1)
    depth, j = 0, i
    while j < len(src):
        if src[j] == '{':
            depth += 1
        elif src[j] == '}':
            depth -= 1
            if depth == 0:
                return src[i:j + 1], E.lineno(src, m.start())
        j += 1
    raise E.ExtractError('unbalanced body: ' + what)


def norm(s):
    return re.sub(r'\s+', '', s)


def block_after(src, pos):
    """the statement or braced block starting at/after pos; returns text"""
    j = pos
    while src[j].isspace():
        j += 1
    if src[j] == '{':
        depth, k = 0, j
        while True:
            if src[k] == '{':
                depth += 1
            elif src[k] == '}':
                depth -= 1
                if depth == 0:
                    return src[j + 1:k]
            k += 1
    k = src.index(';', j)
    return src[j:k + 1]


def only_throw(block, what):
    """True if the block is exactly one `throw …;` statement, False if it is an expression statement
    constructing an exception; anything else is not understood."""
    b = block.strip()
    stmts = [s.strip() for s in re.split(r';\s*', b) if s.strip()]
    if len(stmts) != 1:
        raise E.ExtractError(f'{what}: expected a single statement, found {stmts!r}')
    s = stmts[0]
    if re.match(r'throw\b', s):
        return True
    if re.match(r'std::\w+(_error|_argument|exception)\s*\(', s):
        return False
    raise E.ExtractError(f'{what}: unrecognised statement {s!r}')


def case_labels(body, what):
    labs = [int(x) for x in re.findall(r'\bcase\s+(\d+)\s*:', body)]
    if not labs:
        raise E.ExtractError(what + ': no case labels')
    m = E.find1(r'\bdefault\s*:\s*(\w+)', body, what + ' default branch')
    return labs, m.group(1) == 'throw'


def letters(body, what):
    ls = re.findall(r'starts_with\s*\(\s*line\s*,\s*"(\w)"\s*\)', body)
    if not ls:
        raise E.ExtractError(what + ': no dispatch letters')
    return ls


def gen_c18():
    src = E.strip_comments(E.read(REL))
    ctor, _ = body_of(src, r'CassandraParser::CassandraParser\s*\(\s*\)\s*\{', 'constructor')
    kws = re.findall(r'initMap_\s*\[\s*"(\w+)"\s*\]', ctor)
    if not kws:
        raise E.ExtractError('no initMap_ keywords')
    mdp, mdp_ln = body_of(src, r'CassandraParser::parseMDP\s*\(\s*std::istream\s*&\s*input\s*\)\s*\{', 'parseMDP')
    pom, pom_ln = body_of(src, r'CassandraParser::parsePOMDP\s*\(\s*std::istream\s*&\s*input\s*\)\s*\{', 'parsePOMDP')
    pm, pm_ln = body_of(src, r'void\s+CassandraParser::processMatrix\s*\([^)]*\)\s*\{', 'processMatrix')
    pr, pr_ln = body_of(src, r'void\s+CassandraParser::processReward\s*\([^)]*\)\s*\{', 'processReward')
    pv, pv_ln = body_of(src, r'CassandraParser::parseVector\s*\(\s*Tokens::const_iterator[^)]*\)\s*\{', 'parseVector')
    pi, pi_ln = body_of(src, r'CassandraParser::parseIndeces\s*\([^)]*\)\s*\{', 'parseIndeces')

    mlabs, mdef = case_labels(pm, 'processMatrix')
    rlabs, rdef = case_labels(pr, 'processReward')

    # parseVector: `if (distance != N) throw`
    m = E.find1(r'if\s*\(\s*std::distance\s*\(\s*begin\s*,\s*end\s*\)\s*!=\s*\(\s*int\s*\)\s*N\s*\)', pv, 'parseVector count test')
    vec_throws = only_throw(block_after(pv, m.end()), 'parseVector wrong-count branch')

    # parseIndeces: range test throws
    m = E.find1(r'if\s*\(\s*val\s*>=\s*max\s*\)', pi, 'parseIndeces range test')
    idx_throws = only_throw(block_after(pi, m.end()), 'parseIndeces range branch')

    # two-colon form: if (size == 3 + D3) … else if (size == 3) … else <branch>
    m = E.find1(r'if\s*\(\s*tokens\.size\(\)\s*==\s*3\s*\+\s*D3\s*\)', pm, 'row form: inline test')
    m2 = E.find1(r'else\s+if\s*\(\s*tokens\.size\(\)\s*==\s*3\s*\)', pm[m.end():], 'row form: next-line test')
    after = pm[m.end() + m2.end():]
    blk = block_after(after, 0)                      # the next-line branch
    k = after.index(blk) + len(blk)
    m3 = E.find1(r'\}?\s*else\b', after[k:], 'row form: final else')
    row_throws = only_throw(block_after(after, k + m3.end()), 'row form malformed-length branch')

    unchecked = bool(re.search(r'\b(tokens|split)\s*\[', pm + pr + src))
    nl = re.findall(r'lines_\s*(\.at\s*\(|\[)\s*([^)\]]*)', pm + pr)
    # the model consumes one line per read: exactly the two read sites (next-line row, matrix rows) must be `lines_.at(++i_)`,
    # and the only other use of lines_ in these functions is `lines_[i_]` under the loop guard
    reads = [(a, norm(b)) for a, b in nl if not (a == '[' and norm(b) == 'i_')]
    if len(reads) != 2:
        raise E.ExtractError('processMatrix: expected two next-line read sites, found ' + repr(reads))
    next_checked = all(a.startswith('.at') and b == '++i_' for a, b in reads)
    if not next_checked and not all(a.startswith('.at') for a, b in reads):
        pass  # unchecked read: reported through nextLineChecked = false
    elif not next_checked:
        raise E.ExtractError('processMatrix: next-line reads no longer advance the shared cursor as `lines_.at(++i_)`: ' + repr(reads))

    # size guard (the repaired form): checkExtent(S, A, S) [and (S, A, O)] before the first resize
    def guarded(body, triples, what):
        pre = body[:body.index('.resize')] if '.resize' in body else body
        hits = [norm(t) for t in re.findall(r'checkExtent\s*\(([^)]*)\)', pre)]
        if not hits:
            return False
        if all(t in hits for t in triples):
            return True
        raise E.ExtractError(f'{what}: checkExtent calls {hits!r} do not cover {triples!r}')
    g_mdp = guarded(mdp, ['S,A,S'], 'parseMDP')
    g_pom = guarded(pom, ['S,A,S', 'S,A,O'], 'parsePOMDP')
    if g_mdp != g_pom:
        raise E.ExtractError('size guard present in only one of parseMDP / parsePOMDP')
    if g_mdp:
        ce, _ = body_of(src, r'void\s+checkExtent\s*\(\s*(?:const\s+)?size_t\s+d1\s*,\s*(?:const\s+)?size_t\s+d2\s*,\s*(?:const\s+)?size_t\s+d3\s*\)\s*\{', 'checkExtent')
        n = norm(ce)
        if 'std::numeric_limits<size_t>::max()/sizeof(double)' not in n or \
           not re.search(r'if\(d1>(\w+)/d2\|\|d1\*d2>\1/d3\)throw', n):
            raise E.ExtractError('checkExtent: unrecognised shape ' + n[:200])

    # entry points: which tuple components go where in the model constructors
    mio = E.strip_comments(E.read('src/MDP/IO.cpp'))
    pio = E.strip_comments(E.read('src/POMDP/IO.cpp'))
    mb, mio_ln = body_of(mio, r'Model\s+parseCassandra\s*\(\s*std::istream\s*&\s*input\s*\)\s*\{', 'MDP::parseCassandra')
    pb, pio_ln = body_of(pio, r'Model<MDP::Model>\s+parseCassandra\s*\(\s*std::istream\s*&\s*input\s*\)\s*\{', 'POMDP::parseCassandra')
    def ctor(body, bind_re, call_re, what):
        mbind = E.find1(bind_re, body, what + ' structured binding')
        mcall = E.find1(call_re, body, what + ' constructor call')
        return [x.strip() for x in mbind.group(1).split(',')], [x.strip() for x in mcall.group(1).split(',')]
    m_bind, m_call = ctor(mb, r'\[([^\]]*)\]\s*=\s*parser\.parseMDP\s*\(\s*input\s*\)', r'return\s+Model\s*\(([^)]*)\)', 'MDP::parseCassandra')
    p_bind, p_call = ctor(pb, r'\[([^\]]*)\]\s*=\s*parser\.parsePOMDP\s*\(\s*input\s*\)', r'return\s+Model<MDP::Model>\s*\(([^)]*)\)', 'POMDP::parseCassandra')

    # the discount guard reached through the Model constructor
    mm = E.strip_comments(E.read('src/MDP/Model.cpp'))
    sd, sd_ln = body_of(mm, r'void\s+Model::setDiscount\s*\(\s*const\s+double\s+d\s*\)\s*\{', 'MDP::Model::setDiscount')
    mg = E.find1(r'if\s*\((.*?)\)\s*throw\s+std::invalid_argument', sd, 'setDiscount guard', re.S)
    g = norm(mg.group(1))
    if g in ('d<=0.0||d>1.0', 'd<=0||d>1'):
        nan_rej = False
    elif re.fullmatch(r'!\(d>0(\.0)?&&d<=1(\.0)?\)', g) or re.fullmatch(r'std::isnan\(d\)\|\|d<=0(\.0)?\|\|d>1(\.0)?', g) or re.fullmatch(r'!\(d>0(\.0)?\)\|\|!\(d<=1(\.0)?\)', g):
        nan_rej = True
    else:
        raise E.ExtractError('MDP::Model::setDiscount: unrecognised guard ' + g)

    # number conversions: whole-token (pos checked) or longest-prefix
    convs = re.findall(r'std::(stoul|stod)\s*\(([^;]*?)\)\s*;', src)
    if not convs:
        raise E.ExtractError('no std::stoul / std::stod conversion found')
    with_pos = [c for c in convs if re.search(r',\s*&\s*pos\b', c[1])]
    if len(with_pos) == 0:
        strict = False
    elif len(with_pos) == len(convs):
        # every conversion sits in a helper that compares pos with the token length and throws
        helpers = re.findall(r'(?:size_t|double)\s+(\w+)\s*\(\s*const\s+std::string\s*&\s*(\w+)\s*\)\s*\{(.*?)\n        \}', src, re.S)
        good = [h for h in helpers if re.search(r'std::(stoul|stod)\s*\(\s*' + h[1] + r'\s*,\s*&\s*pos\s*\)', h[2])
                and re.search(r'if\s*\(\s*pos\s*!=\s*' + h[1] + r'\.size\(\)\s*\)\s*throw', h[2])]
        if len(good) != len(convs):
            raise E.ExtractError('conversions use &pos but not all sit in a helper that throws on pos != size: ' + repr([h[0] for h in helpers]))
        strict = True
    else:
        raise E.ExtractError('mixed use of std::stoul/std::stod with and without the pos check')
    ex_m = bool(re.search(r'if\s*\(\s*tokens\.size\(\)\s*!=\s*5\s*\)\s*throw', pm))
    ex_r = bool(re.search(r'if\s*\(\s*tokens\.size\(\)\s*!=\s*6\s*\)\s*throw', pr))
    if ex_m != ex_r:
        raise E.ExtractError('exact token count checked in only one of processMatrix / processReward')

    # what a parse resets on the parser object (the model's `resetPre` / `parseWith`)
    pmi, pmi_ln = body_of(src, r'void\s+CassandraParser::parseModelInfo\s*\(\s*std::istream\s*&\s*input\s*\)\s*\{', 'parseModelInfo')
    head = pmi[:pmi.index('getline')] if 'getline' in pmi else pmi
    resets_lines = bool(re.search(r'lines_\s*\.\s*clear\s*\(\s*\)', head))
    resets_sizes = all(re.search(r'\b' + v + r'\s*=\s*0\b', head) for v in ('S_', 'A_', 'O_'))
    resets_disc = bool(re.search(r'discount_\s*=\s*1\.0\b', head))
    ex, ex_ln = body_of(src, r'size_t\s+CassandraParser::extractIDs\s*\([^)]*\)\s*\{', 'extractIDs')
    first_stmt = ex.strip('{} \n\t').split(';')[0]
    clears_map = norm(first_stmt) == 'map.clear()'

    # round 3: the call sites the model hard-codes — delimiters of every tokenize call, which token / name table / bound each index
    # position uses, which token holds the value, the index order of every table write, the resolution order of parseIndeces
    # (`*`, then the name table, then the number) and the last-wins binding of declared names
    tok_delims = re.findall(r'tokenize\s*\(\s*[^,()]+(?:\([^)]*\))?\s*,\s*"([^"]*)"\s*\)', src)
    idx_sites = re.findall(r'parseIndeces\s*\(\s*tokens\.at\((\d)\)\s*,\s*(\w+)\s*,\s*(\w+)\s*\)', src)
    val_sites = re.findall(r'std::stod\s*\(\s*tokens\.at\((\d)\)\s*\)', src)
    write_sites = [norm(w) for w in re.findall(r'\b[MR]\s*\[\w+\]\s*\[\w+\]\s*\[\w+\]\s*=\s*[\w\[\]]+\s*;', src)]
    if not tok_delims or not idx_sites or not val_sites or not write_sites:
        raise E.ExtractError('call sites of tokenize / parseIndeces / stod(tokens.at) / table writes not found')
    try:
        order = sorted([(pi.index('str == "*"'), 'star'), (pi.index('map.find(str)'), 'map'), (pi.index('std::stoul(str)'), 'number')])
    except ValueError:
        raise E.ExtractError('parseIndeces: the three resolution steps (`str == "*"`, `map.find(str)`, `std::stoul(str)`) not found')
    res_order = [o[1] for o in order]
    name_last_wins = bool(re.search(r'map\s*\[\s*boost::trim_copy\s*\(\s*ids\[i\]\s*\)\s*\]\s*=\s*i\s*;', ex))
    single_numeric = bool(re.search(r'if\s*\(\s*ids\.size\(\)\s*==\s*1\s*\)', ex))

    b = lambda x: 'true' if x else 'false'
    strs = lambda l: '[' + ', '.join('"%s"' % x for x in l) + ']'
    body = f'''/- GENERATED by tools/extract_c18.py from {REL} — do not edit. -/
import AITB.Model.Cassandra
namespace AITB.Gen.Dispatch

/-- keys of `initMap_` (constructor) -/
def preambleKeywords : List String := {strs(kws)}
/-- {REL}:{mdp_ln} first letters dispatched by parseMDP -/
def mdpLetters : List String := {strs(letters(mdp, 'parseMDP'))}
/-- {REL}:{pom_ln} first letters dispatched by parsePOMDP -/
def pomdpLetters : List String := {strs(letters(pom, 'parsePOMDP'))}
/-- {REL}:{pm_ln} `case` labels of the colon-count switch in processMatrix -/
def matrixColonCounts : List Nat := {mlabs}
/-- {REL}:{pr_ln} `case` labels of the colon-count switch in processReward -/
def rewardColonCounts : List Nat := {rlabs}
/-- both switches end in `default: throw` -/
def defaultThrows : Bool := {b(mdef and rdef)}
/-- {REL}:{pv_ln} parseVector: wrong element count is followed by a `throw` statement -/
def vectorLenThrows : Bool := {b(vec_throws)}
/-- {REL}:{pi_ln} parseIndeces: `val >= max` is followed by a `throw` statement -/
def indexRangeThrows : Bool := {b(idx_throws)}
/-- {REL}:{pm_ln} two-colon form: the malformed-length `else` branch is a `throw` statement -/
def rowLenThrows : Bool := {b(row_throws)}
/-- some `tokens[…]` access bypasses `.at()` -/
def uncheckedTokenAccess : Bool := {b(unchecked)}
/-- next-line reads go through `lines_.at(++i_)` -/
def nextLineChecked : Bool := {b(next_checked)}
/-- parseMDP / parsePOMDP reject sizes whose table extent overflows `size_t` (checkExtent) -/
def sizeGuard : Bool := {b(g_mdp)}

/-- src/MDP/IO.cpp:{mio_ln} names bound to the tuple of parseMDP, and the arguments of the Model constructor call -/
def mdpBinding : List String := {strs(m_bind)}
def mdpCtorArgs : List String := {strs(m_call)}
/-- src/POMDP/IO.cpp:{pio_ln} same for parsePOMDP / Model<MDP::Model> (observation count and table first) -/
def pomdpBinding : List String := {strs(p_bind)}
def pomdpCtorArgs : List String := {strs(p_call)}

/-- src/MDP/Model.cpp:{sd_ln} the guard of `Model::setDiscount` is false for NaN (`{g}`) -/
def nanDiscountRejected : Bool := {b(nan_rej)}

/-- every std::stoul / std::stod sits in a helper that throws unless the whole token was converted (`pos == size`) -/
def strictNumbers : Bool := {b(strict)}
/-- the single-entry forms check `tokens.size() != 5` (T/O) and `!= 6` (R) -/
def exactCounts : Bool := {b(ex_m)}

/-- {REL}:{pmi_ln} parseModelInfo resets, before reading, `lines_` / the three sizes / the discount (the name tables are not touched there) -/
def resetsLines : Bool := {b(resets_lines)}
def resetsSizes : Bool := {b(resets_sizes)}
def resetsDiscount : Bool := {b(resets_disc)}
/-- {REL}:{ex_ln} extractIDs starts with `map.clear()`: a declaration line replaces the whole name table -/
def extractClearsMap : Bool := {b(clears_map)}

/-- delimiter argument of every `tokenize(…, "…")` call, in source order (preamble discount, extractIDs ×2, parseVector, processMatrix ×3, processReward) -/
def tokenizeDelims : List String := {strs(tok_delims)}
/-- every `parseIndeces(tokens.at(i), map, bound)` call: token position, name table, bound -/
def indexSites : List (String × String × String) := [{', '.join('("%s", "%s", "%s")' % t for t in idx_sites)}]
/-- token position of the value in the single-entry forms (`std::stod(tokens.at(i))`): T/O, then R -/
def valueSites : List String := {strs(val_sites)}
/-- every table write, normalised -/
def writeSites : List String := {strs(write_sites)}
/-- parseIndeces: order of the three readings of an index token -/
def resolutionOrder : List String := {strs(res_order)}
/-- extractIDs binds names with `map[name] = i` (a repeated name keeps its LAST position) and takes the number path only for a single token -/
def nameLastWins : Bool := {b(name_last_wins)}
def singleTokenNumeric : Bool := {b(single_numeric)}

/-- the flags the operational model runs with -/
def flags : AITB.Cassandra.Flags := ⟨rowLenThrows, sizeGuard, nanDiscountRejected, strictNumbers, exactCounts⟩

end AITB.Gen.Dispatch
'''
    E.write_if_changed('Dispatch', body)


GENERATORS = [gen_c18]
