"""Mutation trials for C04 (documentation of what was tried; run manually): applies each mutation to the scratch
library copy $AITB_REPO, runs tools/check.py C04 --tier quick, prints the outcome, reverts the copy.
Usage: python3 tools/mutations_c04.py [M1 M3 ...]"""
import subprocess, os, sys, json
REPO=os.environ.get('AITB_REPO','/var/tmp/rp/c04'); WT=os.path.dirname(os.path.dirname(os.path.abspath(__file__)))
env=dict(os.environ, AITB_REPO=REPO)
M=[
 ('M1 IncrementalPruning merge passes the order flag as constant true (backward passes concatenate links reversed; only O>=3)',
  'include/AIToolbox/POMDP/Algorithms/IncrementalPruning.hpp',
  "projs[a][i] = crossSum(projs[a][i], projs[a][i + diff], a, stepsize > 0);",
  "projs[a][i] = crossSum(projs[a][i], projs[a][i + diff], a, true);"),
 ('M2 Projecter tags every projection with parent id 0',
  'include/AIToolbox/POMDP/Algorithms/Utils/Projecter.hpp',
  "projections[o].emplace_back(vproj * discount_ + immediateRewards_.row(a).transpose(), a, VObs(1,i));",
  "projections[o].emplace_back(vproj * discount_ + immediateRewards_.row(a).transpose(), a, VObs(1,0));"),
 ('M3 Policy::sampleAction(id,o,h) reports the action of the OLD id at the new horizon',
  'src/POMDP/Policies/Policy.cpp',
  "const size_t action = policy_[horizon][newId].action;",
  "const size_t action = policy_[horizon][std::min(id, policy_[horizon].size()-1)].action;"),
 ('M4 crossSumBestAtBelief stores the position in the (possibly pruned) projection list instead of the parent id',
  'include/AIToolbox/POMDP/Utils.hpp',
  "out.observations[o] = bestMatch->observations[0];",
  "out.observations[o] = bestMatch - &(*begin);"),
 ('M10 merge schedule passes order = (stepsize < 0) (caught twice: the translator flips Gen.C04.orderWhenForward and the schedule theorems no longer check; the harness finds failing inputs)',
  'include/AIToolbox/POMDP/Algorithms/IncrementalPruning.hpp',
  "projs[a][i] = crossSum(projs[a][i], projs[a][i + diff], a, stepsize > 0);",
  "projs[a][i] = crossSum(projs[a][i], projs[a][i + diff], a, stepsize < 0);"),
 ('M11 crossSum concatenates the second operand first when order is true (and vice versa)',
  'src/POMDP/Algorithms/IncrementalPruning.cpp',
  """                if ( order ) {
                    obs.insert(std::end(obs), O1begin, O1end);
                    obs.insert(std::end(obs), O2begin, O2end);
                } else {
                    obs.insert(std::end(obs), O2begin, O2end);
                    obs.insert(std::end(obs), O1begin, O1end);
                }""",
  """                if ( order ) {
                    obs.insert(std::end(obs), O2begin, O2end);
                    obs.insert(std::end(obs), O1begin, O1end);
                } else {
                    obs.insert(std::end(obs), O1begin, O1end);
                    obs.insert(std::end(obs), O2begin, O2end);
                }"""),
 ('H2 harmless reformatting of the schedule statements (spacing, const dropped, braces added): translator must still read them',
  'include/AIToolbox/POMDP/Algorithms/IncrementalPruning.hpp',
  """                    const int tmp   = back;
                    back      = front - ( oddNew ? 0 : stepsize );
                    front     = tmp   - ( oddOld ? 0 : stepsize );
                    stepsize *= -2;
                    diff     *= -2;""",
  """                    int tmp = back;
                    back = front - (oddNew ? 0 : stepsize);
                    front = tmp - (oddOld ? 0 : stepsize);
                    stepsize *= -2; diff *= -2;"""),
 ('M5 crossSumBestAtBelief over actions keeps the best values/links but forgets to take the action along',
  'include/AIToolbox/POMDP/Utils.hpp',
  """                bestValue = tmp;
                std::swap(entry, helper);""",
  """                bestValue = tmp;
                std::swap(entry.values, helper.values); std::swap(entry.observations, helper.observations);"""),
 ('M6 extractDominated swaps only the values of dominated entries (action and links stay behind)',
  'include/AIToolbox/Utils/Prune.hpp',
  """                    if (dominates(std::invoke(p, *helper), std::invoke(p, *target))) {
                        std::iter_swap(target, --end);""",
  """                    if (dominates(std::invoke(p, *helper), std::invoke(p, *target))) {
                        --end; { auto & x = const_cast<std::remove_cvref_t<decltype(std::invoke(p, *target))>&>(std::invoke(p, *target)); auto & y = const_cast<std::remove_cvref_t<decltype(std::invoke(p, *end))>&>(std::invoke(p, *end)); std::swap(x, y); }"""),
 ('M7 IncrementalPruning does not move the merged list to slot 0 when the schedule ends elsewhere',
  'include/AIToolbox/POMDP/Algorithms/IncrementalPruning.hpp',
  """                if (front != 0)
                    projs[a][0] = std::move(projs[a][front]);""",
  """                if (front != 0 && O < 3)
                    projs[a][0] = std::move(projs[a][front]);"""),
 ('M8 Projecter forgets the discount on projected vectors',
  'include/AIToolbox/POMDP/Algorithms/Utils/Projecter.hpp',
  "projections[o].emplace_back(vproj * discount_ + immediateRewards_.row(a).transpose(), a, VObs(1,i));",
  "projections[o].emplace_back(vproj + immediateRewards_.row(a).transpose(), a, VObs(1,i));"),
 ('M9 Policy::sampleAction(b,h) returns the id of the last entry instead of the best one',
  'src/POMDP/Policies/Policy.cpp',
  """        const size_t action = bestMatch->action;
        const size_t id     = std::distance(std::begin(vlist), bestMatch);""",
  """        const size_t action = bestMatch->action;
        const size_t id     = vlist.size() - 1;"""),
 ('P1 harmless in effect: PBVI::crossSum no longer drops dominated entries (the final per-belief selection returns the same lists; check passes)',
  'include/AIToolbox/POMDP/Algorithms/PBVI.hpp',
  "result.erase(extractDominated(rbegin, rend, unwrap), rend);",
  "(void)rbegin; (void)rend;"),
 ('P2 correspondence only: findBestAtPoint breaks ties towards the lexicographically smaller vector (property still holds: V3 "no-failing-input-found", PBVI run differs from pbviRun)',
  'include/AIToolbox/Utils/Polytope.hpp',
  "if ( currValue > bestValue || ( currValue == bestValue && veccmp(std::invoke(p, *begin), std::invoke(p, *bestMatch)) > 0 ) ) {\n                bestMatch = begin;\n                bestValue = currValue;\n            }\n        }\n        if ( value ) *value = bestValue;\n        return bestMatch;\n    }\n\n    /**\n     * @brief This function returns an iterator pointing to the best Hyperplane for the specified corner",
  "if ( currValue > bestValue || ( currValue == bestValue && veccmp(std::invoke(p, *begin), std::invoke(p, *bestMatch)) < 0 ) ) {\n                bestMatch = begin;\n                bestValue = currValue;\n            }\n        }\n        if ( value ) *value = bestValue;\n        return bestMatch;\n    }\n\n    /**\n     * @brief This function returns an iterator pointing to the best Hyperplane for the specified corner"),
 ('W1 Witness::addVariations forgets to subtract the replaced projection (wv op: model differs; and the real Witness then runs for minutes: reported as hangs)',
  'include/AIToolbox/POMDP/Algorithms/Witness.hpp',
  "auto v = vValues - projs[o][skip].values + projs[o][i].values;",
  "auto v = vValues + projs[o][i].values;"),
 ('PS1 PERSEUS skips a belief only when strictly improved (since the decisive whole-run comparison: diff PERSEUS model_differs, see tools/mutations_c04_fast.py)',
  'include/AIToolbox/POMDP/Algorithms/PERSEUS.hpp',
  "if ( currentValue >= oldValue ) continue;",
  "if ( currentValue > oldValue ) continue;"),
 ('H1 harmless: PBVI builds the per-action lists in reverse belief order',
  'include/AIToolbox/POMDP/Algorithms/PBVI.hpp',
  """        for ( const auto & b : bl )
            result.emplace_back(crossSumBestAtBelief(b, projs, a));""",
  """        for ( auto it = bl.rbegin(); it != bl.rend(); ++it )
            result.emplace_back(crossSumBestAtBelief(*it, projs, a));"""),
]
sel = sys.argv[1:]
for name, f, a, b in M:
    if sel and name.split()[0] not in sel: continue
    p=os.path.join(REPO,f); s=open(p).read()
    if s.count(a)!=1:
        print(name, 'PATTERN COUNT', s.count(a)); continue
    open(p,'w').write(s.replace(a,b))
    try:
        r=subprocess.run(['python3','tools/check.py','C04','--tier','quick'],cwd=WT,env=env,capture_output=True,text=True)
        lines=[l for l in r.stdout.splitlines() if l.startswith('VIOLATION') or l.startswith('[C04]')]
        print('==',name,'exit',r.returncode)
        for l in lines[:5]: print('   ',l[:200])
        for l in lines:
            if l.startswith('VIOLATION'):
                rp=l.split('replay=')[1].split()[0]
                d=json.load(open(rp)); print('    :', (d.get('verdict') or d.get('detail') or str(d.get('broken'))[:300])[:200])
    finally:
        subprocess.run(['git','-C',REPO,'checkout','--','.'])
