#!/usr/bin/env python3
"""Gen/Solvers (C16): per-class inventory of what a call can carry over to the next call.

For every class (templates included) under include/AIToolbox that offers `operator()`, `sampleAction`,
`stepUpdateQ`/`stepUpdateP` or `sync`-free planning entry points, the clang-14 JSON AST gives
  * whether every `operator()` overload is `const`,
  * the `mutable` data members,
  * the data members through which a const call could still reach writable state (raw/smart pointers and
    non-const references),
  * all data members (name : type).
`const_cast` occurrences in include/ and src/ are counted as well (the const argument of the Lean theorem
trusts the compiler's const-correctness; a const_cast would void it).
Cached by the hash of the include tree."""
import json, os, re, subprocess, sys
from concurrent.futures import ThreadPoolExecutor

sys.path.insert(0, os.path.dirname(os.path.abspath(__file__)))
import common as C
import extract

ENTRY = {'operator()'}


def qual_is_const_method(node):
    qt = node.get('type', {}).get('qualType', '')
    return bool(re.search(r'\)\s*const(\s*(noexcept|&|&&))*\s*$', qt))


def indirect(t):
    """a member through which a const method can reach writable state"""
    t0 = t.strip()
    if re.search(r'\bunique_ptr\b|\bshared_ptr\b', t0):
        return True
    if t0.endswith('*') or re.search(r'\*\s*const$', t0):
        return not re.match(r'^const\b', t0)
    if t0.endswith('&'):
        return not re.match(r'^const\b', t0)
    if 'reference_wrapper<' in t0:
        return not re.search(r'reference_wrapper<\s*const\b', t0)
    return False


def scan_record(rec, scope, out):
    name = rec.get('name', '')
    if not name or not rec.get('completeDefinition'):
        return
    full = '::'.join(scope + [name])
    calls, fields = [], []
    for ch in rec.get('inner', []) or []:
        k = ch.get('kind')
        tgt = ch
        if k == 'FunctionTemplateDecl':
            inner = [x for x in ch.get('inner', []) if x.get('kind') == 'CXXMethodDecl']
            if not inner:
                continue
            tgt, k = inner[0], 'CXXMethodDecl'
        if k == 'CXXMethodDecl' and tgt.get('name') in ENTRY and not tgt.get('isImplicit'):
            calls.append(qual_is_const_method(tgt))
        elif k == 'FieldDecl':
            fields.append((ch.get('name', ''), ch.get('type', {}).get('qualType', ''), bool(ch.get('mutable'))))
        elif k == 'CXXRecordDecl' and ch.get('completeDefinition') and not ch.get('isImplicit'):
            scan_record(ch, scope + [name], out)
        elif k == 'ClassTemplateDecl':
            for x in ch.get('inner', []):
                if x.get('kind') == 'CXXRecordDecl':
                    scan_record(x, scope + [name], out)
    if calls:
        r = out.setdefault(full, {'const': True, 'mutable': set(), 'indirect': set(), 'fields': set()})
        r['const'] = r['const'] and all(calls)
        for n, t, m in fields:
            r['fields'].add(n + ' : ' + ' '.join(t.split()))
            if m:
                r['mutable'].add(n)
            if indirect(t):
                r['indirect'].add(n)


def walk(node, scope, out):
    k = node.get('kind')
    if k == 'NamespaceDecl':
        sc = scope + [node.get('name', '')] if node.get('name') else scope
        for ch in node.get('inner', []) or []:
            walk(ch, sc, out)
    elif k == 'CXXRecordDecl':
        scan_record(node, scope, out)
    elif k == 'ClassTemplateDecl':
        for x in node.get('inner', []):
            if x.get('kind') == 'CXXRecordDecl':
                scan_record(x, scope, out)
    elif k == 'TranslationUnitDecl':
        for ch in node.get('inner', []) or []:
            walk(ch, scope, out)


def dump_header(rel):
    src = '#include <%s>\n' % rel
    p = subprocess.run(['clang++-14', '-std=c++20', '-fsyntax-only', '-w', '-D' + C.GUARD, '-I' + os.path.join(C.REPO, 'include'), '-I/usr/include/eigen3',
                        '-Xclang', '-ast-dump=json', '-Xclang', '-ast-dump-filter=AIToolbox', '-x', 'c++', '-'],
                       input=src, stdout=subprocess.PIPE, stderr=subprocess.DEVNULL, text=True)
    out = {}
    dec = json.JSONDecoder()
    txt = p.stdout
    i, n = 0, len(txt)
    while i < n:
        while i < n and txt[i] != '{':
            i += 1
        if i >= n:
            break
        try:
            obj, j = dec.raw_decode(txt, i)
        except json.JSONDecodeError:
            break
        # a filtered dump prints each match as its own document without the enclosing namespaces; a NamespaceDecl document
        # named AIToolbox carries the nested ones
        if obj.get('kind') == 'NamespaceDecl' and obj.get('name') == 'AIToolbox':
            walk(obj, [], out)
        i = j
    return out


def solver_table():
    key = C.sha(C.include_hash(), 'solvers-v2')
    cache = os.path.join(C.CACHE, 'solvers-' + key + '.json')
    if os.path.exists(cache):
        return json.load(open(cache))
    root = os.path.join(C.REPO, 'include')
    headers = []
    for dp, dn, fn in sorted(os.walk(os.path.join(root, 'AIToolbox'))):
        for f in sorted(fn):
            if f.endswith('.hpp'):
                headers.append(os.path.relpath(os.path.join(dp, f), root))
    table = {}
    with ThreadPoolExecutor(max_workers=C.NPROC) as ex:
        for out in ex.map(dump_header, headers):
            for n, r in out.items():
                t = table.setdefault(n, {'const': True, 'mutable': set(), 'indirect': set(), 'fields': set()})
                t['const'] = t['const'] and r['const']
                for k in ('mutable', 'indirect', 'fields'):
                    t[k] |= r[k]
    ccast = 0
    for sub in ('include', 'src'):
        for dp, dn, fn in os.walk(os.path.join(C.REPO, sub)):
            for f in fn:
                if f.endswith(('.hpp', '.cpp')):
                    ccast += len(re.findall(r'\bconst_cast\s*<', extract.strip_comments(open(os.path.join(dp, f), errors='replace').read())))
    res = {'headers': len(headers), 'const_cast': ccast,
           'classes': {n: {'const': r['const'], 'mutable': sorted(r['mutable']), 'indirect': sorted(r['indirect']), 'fields': sorted(r['fields'])} for n, r in sorted(table.items())}}
    os.makedirs(C.CACHE, exist_ok=True)
    json.dump(res, open(cache, 'w'))
    return res


RESET_FORMS = [r'(?:^|\)\s|=\s)\s*(?:this->)?%s\s*=(?!=)', r'\b%s\s*\.\s*(?:clear|setZero|reset|setConstant|fill|assign)\s*\(', r'std::(?:fill|iota|fill_n)\s*\(\s*std::begin\(\s*%s\s*\)',
               r'std::(?:fill|iota)\s*\(\s*%s\.begin\(\)']
SIZING = r'\b%s\s*\.\s*(?:resize|reserve)\s*\('


def class_files(cls):
    """source files that may hold the member functions of `cls` (basename = last component of the class name)"""
    base = cls.split('::')[-1]
    out = []
    for sub in ('include', 'src'):
        for dp, dn, fn in os.walk(os.path.join(C.REPO, sub)):
            for f in sorted(fn):
                if os.path.splitext(f)[0] == base and f.endswith(('.hpp', '.cpp')):
                    out.append(os.path.join(dp, f))
    return sorted(out)


def first_use(cls, field):
    """the first statement, in textual order after the first out-of-class or in-class definition of operator(), that
    mentions `field` other than to size it; returns (is_reset_form, statement text)"""
    for f in class_files(cls):
        src = extract.strip_comments(open(f, errors='replace').read())
        for m in re.finditer(r'operator\(\)\s*\(', src):
            # a definition: the parameter list is followed (possibly after const/noexcept) by '{'
            i, depth = m.end() - 1, 0
            while i < len(src):
                if src[i] == '(':
                    depth += 1
                elif src[i] == ')':
                    depth -= 1
                    if depth == 0:
                        break
                i += 1
            tail = re.match(r'\s*(?:const\s*)?(?:noexcept\s*)?\{', src[i + 1:i + 40])
            if not tail:
                continue
            body = src[i + 1:]
            for u in re.finditer(r'\b' + re.escape(field) + r'\b', body):
                a = max(body.rfind(';', 0, u.start()), body.rfind('{', 0, u.start()), body.rfind('}', 0, u.start())) + 1
                b = body.find(';', u.end())
                st = ' '.join(body[a:b if b >= 0 else len(body)].split())
                if re.search(SIZING % re.escape(field), st):
                    continue
                return any(re.search(p % re.escape(field), st) for p in RESET_FORMS), st[:160]
    return False, ''


def lstr(s):
    return '"' + s.replace('\\', '\\\\').replace('"', '\\"') + '"'


def gen_solvers():
    try:
        res = solver_table()
    except FileNotFoundError as e:
        raise extract.ExtractError('clang++-14 not available: ' + str(e))
    cl = res['classes']
    if len(cl) < 30 or 'AIToolbox::MDP::ValueIteration' not in cl:
        raise extract.ExtractError('solver inventory suspiciously small (%d classes)' % len(cl))
    body = ['/- GENERATED by tools/extract_solvers.py from the clang AST of every header under include/AIToolbox — do not edit. -/',
            'namespace AITB.Gen.Solvers', '',
            '/-- class offering `operator()` ↦ (every overload is `const`, `mutable` members, members giving a const call access to writable state) -/',
            'def solvers : List (String × Bool × List String × List String) := [']
    body.append(',\n'.join('  (%s, %s, [%s], [%s])' % (lstr(n), 'true' if r['const'] else 'false', ', '.join(map(lstr, r['mutable'])), ', '.join(map(lstr, r['indirect'])))
                           for n, r in cl.items()))
    body += [']', '', '/-- (class, data member) of every class above that is not (const call ∧ no mutable member ∧ no indirect member) -/',
             'def fields : List (String × String) := [']
    fl = []
    for n, r in cl.items():
        if r['const'] and not r['mutable'] and not r['indirect']:
            continue
        for f in r['fields']:
            fl.append((n, f.split(' : ')[0]))
    body.append(',\n'.join('  (%s, %s)' % (lstr(a), lstr(b)) for a, b in fl))
    body += [']', '', '/-- (class, data member, first statement after `operator()` that uses the member other than to size it) for the members whose first such use (re)initialises the member -/',
             'def resetAtCall : List (String × String × String) := [']
    rs = []
    for a, b in fl:
        ok, st = first_use(a, b)
        if ok:
            rs.append((a, b, st))
    body.append(',\n'.join('  (%s, %s, %s)' % (lstr(a), lstr(b), lstr(c)) for a, b, c in rs))
    body += [']', '', '/-- `const_cast` occurrences in include/ and src/ (comments stripped) -/', 'def constCasts : Nat := %d' % res['const_cast'], '',
             'end AITB.Gen.Solvers', '']
    extract.write_if_changed('Solvers', '\n'.join(body))
    return res


GENERATORS = [gen_solvers]

if __name__ == '__main__':
    r = gen_solvers()
    for n, c in r['classes'].items():
        print(('const   ' if c['const'] else 'NONCONST'), n, 'mutable=' + str(c['mutable']), 'indirect=' + str(c['indirect']))
    print(len(r['classes']), 'classes; const_cast:', r['const_cast'])
