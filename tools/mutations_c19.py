"""Mutation trials for C19 (documentation of what was tried; run manually): applies each mutation to the scratch
library copy $AITB_REPO, runs tools/check.py C19 --tier quick, prints the outcome, reverts the copy.
Usage: AITB_REPO=/var/tmp/rp/c19 python3 tools/mutations_c19.py [--unit] [M1 M3 ...]
--unit additionally builds and runs the repository's own unit tests of the planners (test/MDP/MCTSTests.cpp,
test/POMDP/POMCPTests.cpp, test/POMDP/rPOMCPTests.cpp, test/UtilsProbabilityTests.cpp) against the mutated tree."""
import subprocess, os, sys, json
REPO = os.environ.get('AITB_REPO', '/var/tmp/rp/c19'); WT = os.path.dirname(os.path.dirname(os.path.abspath(__file__)))
env = dict(os.environ, AITB_REPO=REPO)
MCTS = 'include/AIToolbox/MDP/Algorithms/MCTS.hpp'
POMCP = 'include/AIToolbox/POMDP/Algorithms/POMCP.hpp'
RPOMCP = 'include/AIToolbox/POMDP/Algorithms/rPOMCP.hpp'
ROLL = 'include/AIToolbox/MDP/Algorithms/Utils/Rollout.hpp'
GRAPH = 'include/AIToolbox/POMDP/Algorithms/Utils/rPOMCPGraph.hpp'
PROB = 'include/AIToolbox/Utils/Probability.hpp'
M = [
 ('M1 MCTS descends one level too deep (depth test off by one)', MCTS,
  'if ( depth + 1 < maxDepth_ && !model_.isTerminal(s1) ) {', 'if ( depth < maxDepth_ && !model_.isTerminal(s1) ) {'),
 ('M2 POMCP pushes the pre-transition state as particle', POMCP,
  'ot->second.belief.push_back(s1);', 'ot->second.belief.push_back(s);'),
 ('M3 MCTS mean divided by the node count instead of the action count', MCTS,
  'aNode.V += ( rew - aNode.V ) / static_cast<double>(aNode.N);', 'aNode.V += ( rew - aNode.V ) / static_cast<double>(sn.N);'),
 ('M4 POMCP node count incremented only on descents below the root', POMCP,
  '        b.N++;\n', '        if (depth) b.N++;\n'),
 ('M5 POMCP promotes the child of action 0 instead of a', POMCP,
  'const auto & obs = graph_.children[a].children;', 'const auto & obs = graph_.children[0].children;'),
 ('M6 rollout discounts one step early', ROLL,
  None, None),
 ('M7 rollout ignores terminal states (variable-action branch only)', ROLL,
  None, None),
 ('M8 MCTS rollout even longer (+2)', MCTS,
  'maxDepth_ - depth + 1, rand_', 'maxDepth_ - depth + 2, rand_'),
 ('M9 MCTS returns the last best action', MCTS,
  'return lhs.V < rhs.V; });', 'return lhs.V <= rhs.V; });'),
 ('M10 MCTS promotion keeps the old tree (assignment dropped)', MCTS,
  '{ auto tmp = std::move(it->second); graph_ = std::move(tmp); }', '{ auto tmp = std::move(it->second); (void)tmp; }'),
 ('M11 POMCP does not discount the future reward', POMCP,
  'rew += model_.getDiscount() * futureRew;', 'rew += futureRew;'),
 ('M12 rPOMCP descends one level too deep', RPOMCP,
  'if ( depth + 1 < maxDepth_ && !model_.isTerminal(s1) && !newNode) {', 'if ( depth < maxDepth_ && !model_.isTerminal(s1) && !newNode) {'),
 ('M13 rPOMCP action count not incremented at leaves', RPOMCP,
  '        aNode.N += 1;\n', '        if (immAndFutureRew != 0.0 || depth) aNode.N += 1;\n'),
 ('N1 MCTS UCT bonus sqrt(log)/N instead of sqrt(log/N)', MCTS,
  'return an.V + exploration_ * std::sqrt( logCount / an.N );', 'return an.V + exploration_ * std::sqrt( logCount ) / an.N;'),
 ('N2 rPOMCP entropy: old term not removed from the running sum', 'include/AIToolbox/POMDP/Algorithms/Utils/rPOMCPGraph.hpp',
  '        knowledgeMeasure_ -= trackBelief_[s].negativeEntropy;\n', '        (void)0;\n'),
 ('N3 rPOMCP node value not discounted', RPOMCP,
  'b.V = model_.getDiscount() * b.actionsV + b.getKnowledgeMeasure();', 'b.V = b.actionsV + b.getKnowledgeMeasure();'),
 ('N4 POMCP UCT uses log(count + 2)', POMCP,
  'const double logCount = std::log(count + 1.0);', 'const double logCount = std::log(count + 2.0);'),
 ('N5 rPOMCP max-of-belief: maxS_ moves on ties', 'include/AIToolbox/POMDP/Algorithms/Utils/rPOMCPGraph.hpp',
  'if ( trackBelief_[s].N > trackBelief_[maxS_].N )', 'if ( trackBelief_[s].N >= trackBelief_[maxS_].N )'),
 ('N6 rPOMCP maxBeliefNodeUpdate never recomputes when the best action value goes down', RPOMCP,
  'else if ( a == b.bestAction ) {', 'else if ( false && a == b.bestAction ) {'),
 ('M14 MCTS UCT prefers the last untried action', MCTS,
  'if ( actionValue > bestValue ) {', 'if ( actionValue >= bestValue ) {'),
 # ---- round 3
 ('X1 rPOMCP promotion: beliefSize_ counts map entries instead of particles', GRAPH,
  '            beliefSize_ += pair.second.N;\n', '            beliefSize_ += 1;\n'),
 ('X2 rPOMCP sampleBelief walk stops one entry early (pick <= 1)', GRAPH,
  'if ( pick < 1 ) return sampleBelief_[index].first;', 'if ( pick <= 1 ) return sampleBelief_[index].first;'),
 ('X3 getMostCommonParticle forgets to raise the best count', GRAPH,
  '                bestGuessCount = pair.second;\n', ''),
 ('X4 rPOMCP head built from a belief: particle count passed as the dimension of the belief', GRAPH,
  'generatedSamples[AIToolbox::sampleProbability(S, b, *rand_)] += 1;', 'generatedSamples[AIToolbox::sampleProbability(beliefSize_, b, *rand_)] += 1;'),
 ('X5 POMCP makeSampledBelief: particle count passed as the dimension of the belief', POMCP,
  'belief.push_back(sampleProbability(S, b, rand_));', 'belief.push_back(sampleProbability(beliefSize_, b, rand_));'),
 ('X8 rollout, variable action space: the action distribution is built once, for the first state', ROLL,
  None, None),
 ('X7 rPOMCP promotion: the particle map is cleared before it is copied into the sampling belief', GRAPH,
  None, None),
]


def special(name, s):
    if name.startswith('M6'):
        a = 'totalRew += gamma * rew;\n\n                if (m.isTerminal(s))\n                    return totalRew;\n\n                gamma *= m.getDiscount();'
        b = 'gamma *= m.getDiscount();\n                totalRew += gamma * rew;\n\n                if (m.isTerminal(s))\n                    return totalRew;\n'
        return s.replace(a, b), s.count(a)
    if name.startswith('M7'):
        a = '                if (m.isTerminal(s))\n                    return totalRew;\n'
        i = s.rfind(a)
        return (s[:i] + s[i + len(a):], 1) if i >= 0 else (s, 0)
    if name.startswith('X8'):
        a = ('            for (unsigned depth = 0; depth < maxDepth; ++depth ) {\n                std::uniform_int_distribution<size_t> dist(0, m.getA(s)-1);\n')
        b = ('            std::uniform_int_distribution<size_t> dist(0, m.getA(s)-1);\n            for (unsigned depth = 0; depth < maxDepth; ++depth ) {\n')
        return s.replace(a, b), s.count(a)
    if name.startswith('X7'):
        a = '        TrackBelief<UseEntropy>().swap(this->trackBelief_); // Clear belief memory\n'
        i = s.find(a)
        j = s.find('        sampleBelief_.reserve(this->trackBelief_.size());')
        if i < 0 or j < 0: return s, 0
        s2 = s[:i] + s[i + len(a):]
        return s2.replace('        sampleBelief_.reserve(this->trackBelief_.size());', a + '        sampleBelief_.reserve(this->trackBelief_.size());'), 1
    return s, 0


def unit_tests():
    """build + run the repository's own unit tests of the planners against the (mutated) tree; returns a summary string"""
    sys.path.insert(0, os.path.join(WT, 'tools'))
    os.environ['AITB_REPO'] = REPO
    import common as C
    lib, log = C.build_lib()
    if not lib:
        return 'library does not build'
    out = []
    scratch = '/var/tmp/scratch-c19'; os.makedirs(scratch, exist_ok=True)
    for t in ['test/MDP/MCTSTests.cpp', 'test/POMDP/POMCPTests.cpp', 'test/POMDP/rPOMCPTests.cpp', 'test/UtilsProbabilityTests.cpp']:
        exe = os.path.join(scratch, 'ut-' + os.path.basename(t)[:-4])
        cmd = [C.CXX] + C.CXXFLAGS + ['-I' + os.path.join(REPO, 'test'), os.path.join(REPO, t), lib] + C.LDLIBS + ['-lboost_unit_test_framework', '-o', exe]
        r = subprocess.run(cmd, capture_output=True, text=True)
        if r.returncode != 0:
            out.append(os.path.basename(t) + ': does not compile'); continue
        try:
            r = subprocess.run(['timeout', '900', exe], capture_output=True, text=True, env=dict(os.environ, **C.SAN_ENV))
            out.append(os.path.basename(t) + (': pass' if r.returncode == 0 else ': FAIL rc=%d %s' % (r.returncode, (r.stdout + r.stderr)[-300:].replace('\n', ' | '))))
        finally:
            if os.path.exists(exe): os.remove(exe)
    return '; '.join(out)


UNIT = '--unit' in sys.argv
sel = [x for x in sys.argv[1:] if x != '--unit']
for name, f, a, b in M:
    if sel and name.split()[0] not in sel:
        continue
    p = os.path.join(REPO, f); s = open(p).read()
    if a is None:
        s2, n = special(name, s)
        if n < 1:
            print(name, 'PATTERN NOT FOUND'); continue
    else:
        if s.count(a) != 1:
            print(name, 'PATTERN COUNT', s.count(a)); continue
        s2 = s.replace(a, b)
    open(p, 'w').write(s2)
    if UNIT:
        print('== ', name.split()[0], 'unit tests:', unit_tests(), flush=True)
    r = subprocess.run(['python3', 'tools/check.py', 'C19', '--tier', 'quick'], cwd=WT, env=env, capture_output=True, text=True)
    lines = [l for l in r.stdout.splitlines() if l.startswith('VIOLATION') or l.startswith('[C19]')]
    print('==', name, 'exit', r.returncode, flush=True)
    for l in lines[:4]:
        print('   ', l[:200])
    for l in lines:
        if l.startswith('VIOLATION'):
            rp = l.split('replay=')[1].split()[0]
            d = json.load(open(rp)); print('    first:', (d.get('verdict') or d.get('detail') or str(d.get('broken'))[:300])[:260]); break
    open(p, 'w').write(s)   # restore the file (works for a plain copy too)
    if os.path.exists(os.path.join(REPO, '.git')):
        subprocess.run(['git', '-C', REPO, 'checkout', '--', '.'])
