#!/usr/bin/env python3
"""Gen/Concepts (C10a): what each concept of the TypeTraits headers guarantees, and which members every
constrained template invokes on values of its constrained parameter type, with the `if constexpr (IsX<P>)`
guards in force at the call site.  Brace/regex scanner over the comment-stripped headers (the library's
style is regular enough); anything it cannot classify is counted and listed, never guessed."""
import os, re, sys
sys.path.insert(0, os.path.dirname(os.path.abspath(__file__)))
import extract as X

INC = 'include/AIToolbox'
TRAITS = [('', INC + '/TypeTraits.hpp'), ('MDP', INC + '/MDP/TypeTraits.hpp'), ('POMDP', INC + '/POMDP/TypeTraits.hpp')]


def match_brace(s, i, open_='{', close='}'):
    """s[i] == open_; return index of the matching close"""
    d = 0
    while i < len(s):
        if s[i] == open_:
            d += 1
        elif s[i] == close:
            d -= 1
            if d == 0:
                return i
        i += 1
    raise X.ExtractError('unbalanced ' + open_)


def qualify(name, ns):
    """resolve a concept name as written inside namespace AIToolbox::<ns>"""
    if name.startswith('AIToolbox::'):
        return name[len('AIToolbox::'):]          # explicitly rooted
    if '::' in name:
        return name
    return (ns + '::' + name) if ns else name


def parse_concepts():
    defs = {}       # qualified name -> (refines[], members[])
    for ns, rel in TRAITS:
        src = X.strip_comments(X.read(rel))
        for m in re.finditer(r'template\s*<\s*typename\s+(\w+)\s*>\s*concept\s+(\w+)\s*=', src):
            P, name = m.group(1), m.group(2)
            end = src.index(';', m.end())
            # a requires-body contains ';' — extend to the ';' that closes at depth 0
            i, depth = m.end(), 0
            while True:
                c = src[i]
                if c in '({':
                    depth += 1
                elif c in ')}':
                    depth -= 1
                elif c == ';' and depth == 0:
                    break
                i += 1
            body = src[m.end():i]
            refines, members = [], []
            if '||' in re.sub(r'requires\s*\{.*?\}', '', body, flags=re.S) and 'requires' not in body.split('||')[0]:
                # a disjunction of concepts guarantees nothing by name (HasActionSpace)
                defs[qualify(name, ns)] = ([], [])
                continue
            for r in re.finditer(r'((?:\w+::)*\w+)\s*<\s*' + P + r'\s*>', body):
                q = r.group(1)
                if q.startswith('std::') or q in ('IsDerivedFromEigen',):
                    continue
                # resolve relative to this namespace, falling back to the root namespace
                refines.append((q, ns))
            for rq in re.finditer(r'requires\s*\(([^)]*)\)\s*\{', body):
                vars_ = re.findall(r'(?:const\s+)?' + P + r'\s+(\w+)', rq.group(1))
                b0 = body.index('{', rq.end() - 1)
                b1 = match_brace(body, b0)
                rb = body[b0:b1]
                for v in vars_:
                    members += re.findall(r'\b' + v + r'\.(\w+)\s*\(', rb)
            defs[qualify(name, ns)] = (refines, sorted(set(members)))
    # resolve refinements and close
    def resolve(q, ns):
        for cand in ([qualify(q, ns)] if '::' in q else [qualify(q, ns), q]):
            if q.startswith('AIToolbox::'):
                cand = q[len('AIToolbox::'):]
            if cand in defs:
                return cand
        return None
    closed = {}

    def close(name, seen=()):
        if name in closed:
            return closed[name]
        refs, mem = defs[name]
        out = set(mem)
        for q, ns in refs:
            r = resolve(q, ns)
            if r and r not in seen and r != name:
                out |= close(r, seen + (name,))
        closed[name] = out
        return out
    for n in defs:
        close(n)
    return {n: sorted(v) for n, v in closed.items()}, resolve


def ns_of(rel):
    if '/POMDP/' in rel:
        return 'POMDP'
    if '/Factored/' in rel:
        return 'Factored'
    if '/MDP/' in rel or rel.endswith('MDP/Utils.hpp'):
        return 'MDP'
    return ''


def parse_uses(provides, resolve):
    uses, skipped = [], []
    root = os.path.join(X.REPO, INC)
    for dp, dn, fn in sorted(os.walk(root)):
        dn.sort()
        for f in sorted(fn):
            if not f.endswith('.hpp') or f == 'TypeTraits.hpp':
                continue
            rel = os.path.relpath(os.path.join(dp, f), X.REPO)
            src = X.strip_comments(X.read(rel))
            ns = ns_of(rel)
            # entities introduced by a constrained template header
            for m in re.finditer(r'template\s*<([^<>]*(?:<[^<>]*>[^<>]*)*)>', src):
                params = m.group(1)
                cons = []     # (P, conceptname)
                for pm in re.finditer(r'((?:\w+::)*Is\w+)\s+(\w+)', params):
                    cons.append((pm.group(2), pm.group(1)))
                # trailing requires-clause
                after = src[m.end():m.end() + 300]
                rq = re.match(r'\s*requires\s+([^{;]*?)(?=\s*(?:class|struct|[\w:<>,\s\*&]+\())', after, re.S)
                if rq:
                    for pm in re.finditer(r'((?:\w+::)*Is\w+)\s*<\s*(\w+)\s*>', rq.group(1)):
                        cons.append((pm.group(2), pm.group(1)))
                if not cons:
                    continue
                # extent of the entity: up to the first ';' at depth 0 or the matching '}' of the first '{'
                i, depth, end = m.end(), 0, None
                while i < len(src):
                    c = src[i]
                    if c == '{':
                        end = match_brace(src, i); break
                    if c == '(':
                        i = match_brace(src, i, '(', ')')
                    elif c == ';':
                        end = i; break
                    i += 1
                if end is None:
                    continue
                ent = src[m.start():end + 1]
                base = m.start()
                for P, cname in cons:
                    cq = resolve(cname, ns if ns != 'Factored' else '')
                    if cq is None:
                        skipped.append(f'{rel}:{X.lineno(src, base)} unknown concept {cname}')
                        continue
                    # variables of type P visible in this file (members are declared in the class entity)
                    vars_ = set(re.findall(r'\b(?:const\s+)?' + P + r'\s*(?:&&|&)?\s*(\w+)\s*(?=[;,)=])', src))
                    vars_ -= {P, 'const'}
                    if not vars_:
                        continue
                    # guard intervals
                    guards = []
                    for g in re.finditer(r'if\s+constexpr\s*\(', ent):
                        c0 = g.end() - 1
                        c1 = match_brace(ent, c0, '(', ')')
                        cond = ent[c0 + 1:c1]
                        pos = [resolve(x.group(1), ns if ns != 'Factored' else '') for x in re.finditer(r'(?<![!\w:])((?:\w+::)*Is\w+)\s*<\s*' + P + r'\s*>', cond)]
                        pos = [p for p in pos if p]
                        if not pos:
                            continue
                        j = c1 + 1
                        while ent[j].isspace():
                            j += 1
                        if ent[j] == '{':
                            k = match_brace(ent, j)
                        else:
                            k = ent.index(';', j)
                        guards.append((c0, k, pos))     # from the condition itself (short-circuit) to the end of the true branch
                    for u in re.finditer(r'\b(' + '|'.join(map(re.escape, sorted(vars_))) + r')\s*\.\s*(?:template\s+)?(\w+)\s*\(', ent):
                        g = sorted({p for (a, b, ps) in guards if a <= u.start() <= b for p in ps})
                        uses.append((f'{rel}:{X.lineno(src, base + u.start())}', cq, g, u.group(2)))
    return uses, skipped


def lean_str(s):
    return '"' + s.replace('\\', '\\\\').replace('"', '\\"') + '"'


def gen_concepts():
    provides, resolve = parse_concepts()
    if not provides.get('MDP::IsModel') or 'getTransitionProbability' not in provides['MDP::IsModel']:
        raise X.ExtractError('concept MDP::IsModel not recognised in TypeTraits.hpp')
    uses, skipped = parse_uses(provides, resolve)
    if len(uses) < 50:
        raise X.ExtractError('suspiciously few member uses found (%d)' % len(uses))
    # de-duplicate by (concept, guards, member), keep the first site as witness
    seen, rows = set(), []
    for site, c, g, mem in uses:
        key = (c, tuple(g), mem)
        if key in seen:
            continue
        seen.add(key); rows.append((site, c, g, mem))
    L = ['/- GENERATED by tools/extract_c10.py from the headers under include/AIToolbox — do not edit. -/', 'namespace AITB.Gen.Concepts', '',
         '/-- concept ↦ member functions it guarantees (closed under the concepts it refines) -/',
         'def provides : List (String × List String) := [']
    L.append(',\n'.join('  (' + lean_str(n) + ', [' + ', '.join(lean_str(m) for m in ms) + '])' for n, ms in sorted(provides.items())))
    L += [']', '', '/-- (site, declared concept, concepts of the enclosing `if constexpr` guards, member invoked on a value of the constrained type) -/',
          'def uses : List (String × String × List String × String) := [']
    L.append(',\n'.join('  (' + lean_str(s) + ', ' + lean_str(c) + ', [' + ', '.join(lean_str(x) for x in g) + '], ' + lean_str(m) + ')' for s, c, g, m in rows))
    L += [']', '', f'def skippedSites : Nat := {len(skipped)}', '', 'end AITB.Gen.Concepts', '']
    X.write_if_changed('Concepts', '\n'.join(L))
    return provides, rows, skipped


# ---------------------------------------------------------------------------------------------------------------
# Pinned source sites (round 4): every statement that AITB.Model.Cursor / AITB.Model.CursorUtil transcribes, as a literal of
# the comment-free, whitespace-free source text with the number of times it must occur.  A missing site means the cursor
# model no longer transcribes the code: ExtractError + the obligation `c10_sites_as_modelled` re-opens.  The capacity that
# `set_union_inplace` reserves is TRANSLATED (not just pinned): `Gen.C10Sites.unionReserve` is the expression as written,
# and `unionReserve_sufficient` (Props.C10Sites) is the hypothesis of `setUnion_no_realloc`.
FCORE = 'src/Factored/Utils/Core.cpp'
UCORE = 'include/AIToolbox/Utils/Core.hpp'
COMBH = 'include/AIToolbox/Utils/Combinatorics.hpp'
COMBC = 'src/Utils/Combinatorics.cpp'
FGH = 'include/AIToolbox/Factored/Utils/FactorGraph.hpp'
POLY = 'include/AIToolbox/Utils/Polytope.hpp'
BG = 'include/AIToolbox/POMDP/Algorithms/Utils/BeliefGenerator.hpp'

SITES = [
    # ---- Factored::match(keys, values, keys, values)  (Cursor.matchLoop / matchPartial)
    (FCORE, 'match_swap', 'const PartialKeys * smallerK = &lhsK, * biggerK = &rhsK; const PartialValues * smallerV = &lhs, * biggerV = &rhs; if (lhsK.size() > rhsK.size()) { std::swap(smallerK, biggerK); std::swap(smallerV, biggerV); }', 1),
    (FCORE, 'match_loop', 'size_t i = 0, j = 0; while (j < smallerK->size() && i < biggerK->size()) { if ((*biggerK)[i] < (*smallerK)[j]) ++i; else if ((*biggerK)[i] > (*smallerK)[j]) ++j; else { if ((*biggerV)[i] != (*smallerV)[j]) return false; ++i; ++j; } } return true;', 1),
    # ---- SubsetEnumerator (CursorUtil.scanDown / fillUp / advance / isValid / reset)
    (COMBH, 'subset_ctor', 'lowerBound_(lowerBound), upperBound_(upperBound), ids_(elementsN)', 1),
    (COMBH, 'subset_advance', 'auto advance() { auto current = ids_.size() - 1; auto ub = upperBound_ - 1; while (current && ids_[current] == ub) --current, --ub; auto lowest = current; ub = ++ids_[current]; while (++current != ids_.size()) ids_[current] = ++ub; return lowest; }', 1),
    (COMBH, 'subset_isValid', 'bool isValid() const { return ids_.back() < upperBound_; }', 1),
    (COMBH, 'subset_reset', 'void reset() { std::iota(std::begin(ids_), std::end(ids_), lowerBound_); }', 1),
    (COMBH, 'subset_subsetsSize', 'return nChooseK(upperBound_ - lowerBound_, ids_.size());', 1),
    # ---- nChooseK (CursorUtil.chooseLoop / nChooseK)
    (COMBC, 'nChooseK', 'unsigned nChooseK(const unsigned n, unsigned k) { if (k > n) return 0; if (k * 2 > n) k = n-k; if (k == 0) return 1; auto result = n; for (unsigned i = 2; i <= k; ++i) { result *= (n-i+1); result /= i; } return result; }', 1),
    (COMBC, 'starsBars', 'return nChooseK(stars + bars, bars);', 1),
    (COMBC, 'nonZeroStarsBars', 'return nChooseK(stars - 1, bars);', 1),
    # ---- set_union_inplace (CursorUtil.setDiffLoop / inplaceMerge); the reserve argument is translated below
    (UCORE, 'union_mid', 'const auto mid = lhs.size();', 1),
    (UCORE, 'union_difference_into_lhs', 'std::set_difference(std::begin(rhs), std::end(rhs), std::begin(lhs), std::end(lhs), std::back_inserter(lhs));', 1),
    (UCORE, 'union_merge', 'std::inplace_merge(std::begin(lhs), std::begin(lhs)+mid, std::end(lhs));', 1),
    (FGH, 'getVariables_list_uses_union', 'set_union_inplace(retval, factor->variables_);', 1),
    # ---- FactorGraph neighbour bookkeeping (FGCursor.nbLoop / mergeNeighbours / addAll / eraseAll / eraseVar)
    (FGH, 'getFactor_per_variable', 'it->variables_ = variables; for (const auto a : variables) { auto & va = variableAdjacencies_[a]; va.factors.push_back(it); const auto mid = va.vNeighbors.size(); va.vNeighbors.reserve(mid + variables.size() - 1);', 1),
    (FGH, 'getFactor_neighbour_loop', 'for (size_t i = 0, j = 0; i < variables.size(); ) { if (variables[i] == a) { ++i; } else if (j == mid || variables[i] < va.vNeighbors[j]) { va.vNeighbors.push_back(variables[i]); ++i; } else { if (variables[i] == va.vNeighbors[j]) ++i; ++j; } } std::inplace_merge(std::begin(va.vNeighbors), std::begin(va.vNeighbors)+mid, std::end(va.vNeighbors));', 1),
    (FGH, 'erase_inactive_returns', 'auto & va = variableAdjacencies_[a]; if (!va.active) return;', 1),
    (FGH, 'erase_from_neighbours', 'for (const auto aa : va.vNeighbors) { auto & vaa = variableAdjacencies_[aa]; vaa.vNeighbors.erase(std::find(std::begin(vaa.vNeighbors), std::end(vaa.vNeighbors), a)); }', 1),
    (FGH, 'erase_clear', 'va.factors.clear(); va.vNeighbors.clear(); va.active = false; --activeVariables_;', 1),
    # ---- sequential_sorted_contains(v, elems), sequential_sorted_find, veccmp (CursorUtil.containsLoop / skipLess / veccmpLoop)
    (UCORE, 'contains_equal_size', 'assert(elems.size() <= v.size()); if (v.size() == elems.size()) return veccmp(v, elems) == 0;', 1),
    (UCORE, 'contains_loop', 'decltype(v.size()) i = 0, j = 0; while (j < elems.size()) { while (i < v.size() && v[i] < elems[j]) ++i; if (i == v.size() || v[i] > elems[j]) return false; ++i, ++j; } return j == elems.size();', 1),
    (UCORE, 'sorted_find', 'while (begin != end && *begin < elem) ++begin; return begin;', 1),
    (UCORE, 'sorted_contains_elem', 'const auto it = sequential_sorted_find(begin, end, elem); if (it != end && *it == elem) return true; return false;', 1),
    (UCORE, 'veccmp', 'assert(lhs.size() == rhs.size()); for (decltype(lhs.size()) i = 0; i < lhs.size(); ++i) { if (lhs[i] == rhs[i]) continue; return lhs[i] > rhs[i] ? std::strong_ordering::greater : std::strong_ordering::less; } return std::strong_ordering::equal;', 1),
    (UCORE, 'veccmpSmall', 'if (checkEqualSmall(lhs[i], rhs[i])) continue; return lhs[i] <=> rhs[i];', 1),
    (UCORE, 'veccmpGeneral', 'if (checkEqualGeneral(lhs[i], rhs[i])) continue; return lhs[i] <=> rhs[i];', 1),
    (UCORE, 'checkEqualSmall', 'return ( std::fabs(a - b) <= equalToleranceSmall );', 1),
    (UCORE, 'checkEqualGeneral', 'if ( checkEqualSmall(a,b) ) return true; return ( std::fabs(a - b) <= std::min(std::fabs(a), std::fabs(b)) * equalToleranceGeneral );', 1),
    (UCORE, 'max_element_unary', 'if (begin == end) return std::make_pair(end, 0.0); auto retval = begin; double max = std::invoke(unary_converter, *begin); while (++begin != end) { auto newV = std::invoke(unary_converter, *begin); if (newV > max) { retval = begin; max = newV; } } return std::make_pair(retval, max);', 1),
    # ---- BeliefGenerator::expandBeliefList selection loop (BGCursor.selectStep / selectLoop / argmaxFirst)
    (BG, 'select_bound', 'beliefsToAdd = std::min(beliefsToAdd, allBeliefsSize_ - goodBeliefsSize_); for (size_t i = 0; i < beliefsToAdd; ++i) {', 1),
    (BG, 'select_argmax', 'auto dBegin = std::begin(distances), dEnd = std::end(distances); size_t id = std::distance( dBegin, std::max_element(dBegin, dEnd) );', 1),
    (BG, 'select_double_swap', 'std::swap(distances[id], distances.back()); std::swap(bl[goodBeliefsSize_ + id], bl[allBeliefsSize_ - 1]); std::swap(bl[goodBeliefsSize_], bl[allBeliefsSize_ - 1]);', 1),
    (BG, 'select_break', '++goodBeliefsSize_; if (goodBeliefsSize_ >= max) break;', 1),
    (BG, 'select_pop_and_recompute', 'distances.pop_back(); seenObservations.emplace_back(); unproductiveBeliefs.emplace_back(); ++productiveBeliefs_; for (size_t k = 0; k < distances.size(); ++k) { distances[k] = std::min(distances[k], computeDistance(bl[goodBeliefsSize_ - 1], bl[goodBeliefsSize_ + k])); }', 1),
    # ---- the caller that relies on `advance()`'s return value and on isValid()/reset()
    (POLY, 'naive_enumerator', 'SubsetEnumerator enumerator(S - 1, 0ul, alphasSize + S);', 1),
    (POLY, 'naive_uses_lowest', 'last = enumerator.advance();', 1),
    (POLY, 'naive_last_starts_at_zero', 'enumerator.reset(); size_t last = 0; while (enumerator.isValid()) { for (auto i = last; i < enumerator->size(); ++i) {', 1),
    (POLY, 'naive_row_of_id', 'const auto index = (*enumerator)[i]; if (index < alphasSize) { m.row(i + 1).head(S) = std::invoke(p2, *std::next(alphasBegin, index)) * scale; m.row(i + 1)[S] = -1; } else { m.row(i + 1).setZero(); m.row(i + 1)[index - alphasSize] = 1.0; }', 1),
]


def _norm(s):
    return re.sub(r'\s+', '', s)


def _reserve_to_lean(expr):
    """translate the (size arithmetic) argument of `lhs.reserve(...)` into a Lean Nat expression in `l` (lhs.size()) and `r` (rhs.size())"""
    e = expr.replace('lhs.size()', 'l').replace('rhs.size()', 'r').replace('mid', 'l')
    e = re.sub(r'std::max\(([^,()]+),([^,()]+)\)', r'(max (\1) (\2))', e)
    if not re.fullmatch(r'[lr0-9+\-*/() maxin]+', e):
        raise X.ExtractError('set_union_inplace: cannot translate the reserve argument `%s`' % expr)
    return re.sub(r'([+\-*/])', r' \1 ', e)


def gen_c10sites():
    texts, bad, rows = {}, [], []
    for rel, name, lit, n in SITES:
        if rel not in texts:
            texts[rel] = _norm(X.strip_comments(X.read(rel)))
        c = texts[rel].count(_norm(lit))
        if c != n:
            bad.append(f'{rel}:{name} (found {c}, expected {n})')
        rows.append(f'  ("{rel.split("/")[-1]}", "{name}", {c}, {n})')
    # set_union_inplace: the reserve statement between `mid` and `set_difference`
    src = X.strip_comments(X.read(UCORE))
    m = re.search(r'void\s+set_union_inplace\s*\([^)]*\)\s*\{(.*?)std::set_difference', src, re.S)
    if not m:
        raise X.ExtractError('set_union_inplace not found in ' + UCORE)
    res = re.findall(r'lhs\s*\.\s*reserve\s*\((.*?)\)\s*;', m.group(1), re.S)
    if len(res) == 0:
        reserve = '0'           # no reserve before the difference pass: nothing is guaranteed (push_back grows as it likes)
    elif len(res) == 1:
        reserve = _reserve_to_lean(_norm(res[0]))
    else:
        raise X.ExtractError('set_union_inplace: more than one reserve before set_difference')
    body = ('/- GENERATED by tools/extract_c10.py — do not edit.  Source sites the C10 cursor models transcribe '
            '(file, site, occurrences found, occurrences the model assumes). -/\n'
            'namespace AITB.Gen.C10Sites\n\ndef sites : List (String × String × Nat × Nat) := [\n' + ',\n'.join(rows) + '\n]\n\n'
            f'def pinned : Nat := {len(SITES)}\n\n'
            '/-- the capacity `set_union_inplace` reserves before its difference pass, as written (l = lhs.size(), r = rhs.size()) -/\n'
            f'def unionReserve (l r : Nat) : Nat := {reserve}\n\nend AITB.Gen.C10Sites\n')
    X.write_if_changed('C10Sites', body)
    if bad:
        raise X.ExtractError('C10: source sites the cursor models transcribe have changed: ' + '; '.join(bad))


GENERATORS = [gen_concepts, gen_c10sites]

if __name__ == '__main__':
    p, r, s = gen_concepts()
    for n, ms in sorted(p.items()):
        print(n, ms)
    print(len(r), 'distinct uses;', len(s), 'skipped')
    bad = [(site, c, g, m) for site, c, g, m in r if m not in set(p[c]).union(*[p[x] for x in g])]
    for b in bad:
        print('NOT PROVIDED', b)
