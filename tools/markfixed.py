#!/usr/bin/env python3
"""markfixed.py <known_findings.d/Cxx.json> <finding-id>=<commit> ...  : turn open findings into 'fixed' records"""
import json, sys
p = sys.argv[1]
k = json.load(open(p))
m = dict(a.split('=') for a in sys.argv[2:])
for f in k['findings']:
    if f['id'] in m:
        f['status'] = 'fixed'; f['commit'] = m[f['id']]
        if not f['what'].startswith('fixed:'):
            f['what'] = 'fixed: property=%s %s %s' % (f['property'], m[f['id']], f['what'])
json.dump(k, open(p, 'w'), indent=1)
print([(f['id'], f['status']) for f in k['findings']])
