"""Round-4 mutation trials for C04 (indirect ones: sites that cold-start / Eigen-model / top-horizon runs never reach).
Each is applied to the scratch library copy $AITB_REPO, `tools/check.py C04 --tier quick` is run, the scratch copy is reverted.
Usage: python3 tools/mutations_c04_r4.py [N1 N2 ...]"""
import subprocess, os, sys, json
REPO = os.environ.get('AITB_REPO', '/var/tmp/rp/c04'); WT = os.path.dirname(os.path.dirname(os.path.abspath(__file__)))
env = dict(os.environ, AITB_REPO=REPO)
M = [
 ('N1 PBVI projects v[timestep-1] like the other solvers do (identical on a cold start; a warm-started run links its new levels into the wrong list)',
  'include/AIToolbox/POMDP/Algorithms/PBVI.hpp',
  "auto projs = projecter(v.back());", "auto projs = projecter(v[timestep-1]);"),
 ('N2 Policy::sampleAction(b, horizon) searches the last horizon\'s list whatever horizon is asked',
  'src/POMDP/Policies/Policy.cpp',
  "        const auto & vlist = policy_[horizon];\n\n        const auto bestMatch", "        const auto & vlist = policy_.back();\n\n        const auto bestMatch"),
 ('N3 Projecter, element-wise branch (models without Eigen matrices): observation probability read at the source state s instead of s1',
  'include/AIToolbox/POMDP/Algorithms/Utils/Projecter.hpp',
  "model_.getTransitionProbability(s,a,s1) * model_.getObservationProbability(s1,a,o) * v[s1];",
  "model_.getTransitionProbability(s,a,s1) * model_.getObservationProbability(s,a,o) * v[s1];"),
 ('N4 Policy::getActionProbability(b, a, horizon) ignores the horizon',
  'src/POMDP/Policies/Policy.cpp',
  "const size_t trueA = std::get<0>(sampleAction(b, horizon));", "const size_t trueA = sampleAction(b);"),
 ('N5 IncrementalPruning re-prunes the previous horizon\'s list after the new one has been linked to it (stale positions)',
  'include/AIToolbox/POMDP/Algorithms/IncrementalPruning.hpp',
  "            v.emplace_back(std::move(w));\n",
  "            v.emplace_back(std::move(w));\n            { auto & pv = v[timestep-1]; pv.erase(extractDominated(std::begin(pv), std::end(pv), unwrap), std::end(pv)); }\n"),
 ('N6 the Policy loader accepts links one past the previous list and stores the link of observation o at o-1 (rotated links)',
  'src/POMDP/IO.cpp',
  "            vf.back().emplace_back(std::move(values), action, std::move(obs));",
  "            std::rotate(obs.begin(), obs.begin() + (obs.size() > 1), obs.end());\n            vf.back().emplace_back(std::move(values), action, std::move(obs));"),
 ('N7 Witness skips a witness point when ANY component of its best vector is already present in U[a] (sameValues too weak: entries are lost, links intact)',
  'include/AIToolbox/POMDP/Algorithms/Witness.hpp',
  "return e.values == best.values;", "return e.values[0] == best.values[0];"),
 ('N8 QMDP::fromQFunction stores the Q column of the mirrored action under tag a (was masked by the open QMDP finding until the VI-horizon-1 regime got its own kind)',
  'src/POMDP/Algorithms/QMDP.cpp',
  "w.emplace_back(qfun.col(a), a, VObs(O, 0u));", "w.emplace_back(qfun.col(A-1-a), a, VObs(O, 0u));"),
 ('N9 property-preserving: IncrementalPruning skips the final prune of a timestep (the list is no longer parsimonious; every entry still a plan)',
  'include/AIToolbox/POMDP/Algorithms/IncrementalPruning.hpp',
  "            w.erase(prune(begin, end, unwrap), end);\n\n            v.emplace_back(std::move(w));", "            (void)begin; (void)end;\n\n            v.emplace_back(std::move(w));"),
]
sel = sys.argv[1:]
for name, f, a, b in M:
    if sel and name.split()[0] not in sel: continue
    p = os.path.join(REPO, f); s = open(p).read()
    if s.count(a) != 1:
        print(name, 'PATTERN COUNT', s.count(a)); continue
    open(p, 'w').write(s.replace(a, b))
    try:
        r = subprocess.run(['python3', 'tools/check.py', 'C04', '--tier', 'quick'], cwd=WT, env=env, capture_output=True, text=True)
        lines = [l for l in r.stdout.splitlines() if l.startswith('VIOLATION') or l.startswith('[C04]')]
        print('==', name, 'exit', r.returncode, flush=True)
        for l in lines[:6]: print('   ', l[:220])
        for l in lines[:6]:
            if l.startswith('VIOLATION') and 'replay=' in l:
                rp = l.split('replay=')[1].split()[0]
                d = json.load(open(rp)); print('    :', (d.get('verdict') or d.get('detail') or str(d.get('broken'))[:300])[:220], flush=True)
    finally:
        subprocess.run(['git', '-C', REPO, 'checkout', '--', '.'])
