#!/usr/bin/env python3
"""MANIFEST.setup_cmd: build everything from files on disk (offline): translator output,
the sanitized object cache of /repo's sources, every harness, the generated Lean tables that
depend on compiled objects, the whole Lean library and the driver."""
import os, sys, glob, importlib
from concurrent.futures import ThreadPoolExecutor
HERE = os.path.dirname(os.path.abspath(__file__))
sys.path.insert(0, HERE)
import common as C

ok, log = C.run_extract()
print('extract', ok, log[-500:])
lib, blog = C.build_lib()
print('lib', lib, blog[-1500:] if lib is None else '')
specs = []
for f in sorted(glob.glob(os.path.join(HERE, 'props', 'c[0-9][0-9].py'))):
    specs.append(importlib.import_module('props.' + os.path.splitext(os.path.basename(f))[0]).SPEC)


def bh(spec):
    if not spec.get('harness'):
        return spec, None, ''
    exe, hl = C.build_harness(spec['harness'], lib if spec.get('needs_lib', True) else None, extra_flags=spec.get('harness_flags', ()))
    return spec, exe, hl


allok = ok and lib is not None
if lib is not None:
    with ThreadPoolExecutor(max_workers=8) as ex:
        for spec, exe, hl in ex.map(bh, specs):
            print('harness', spec['id'], bool(exe) or not spec.get('harness'), hl[-800:] if (spec.get('harness') and not exe) else '')
            if spec.get('harness') and not exe:
                allok = False
            if spec.get('post_build'):
                try:
                    spec['post_build'](C, lib, exe)
                except Exception as e:
                    print('post_build failed', spec['id'], e); allok = False
ok2, log2 = C.lean_build(['AITB', 'aitb-driver'], timeout=3000)
print('lean build', ok2, log2[-2500:] if not ok2 else '')
sys.exit(0 if (allok and ok2) else 1)
