#!/usr/bin/env python3
"""MANIFEST.setup_cmd: build everything from files on disk (offline): translator output,
the whole Lean library + driver, and the sanitized object cache of /repo's sources."""
import os, sys, subprocess
HERE = os.path.dirname(os.path.abspath(__file__))
sys.path.insert(0, HERE)
import common as C
ok, log = C.run_extract()
print('extract', ok, log[-500:])
ok2, log2 = C.lean_build(['AITB', 'aitb-driver'], timeout=3000)
print('lean build', ok2, log2[-1500:] if not ok2 else '')
lib, blog = C.build_lib()
print('lib', lib, blog[-1500:] if lib is None else '')
sys.exit(0 if (ok and ok2 and lib) else 1)
