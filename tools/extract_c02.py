"""C02 translator plug-in: syntactic facts of RTBSS and the Projecter that the Lean model is parameterised by / hard-codes.

Writes lean/AITB/Gen/C02Sites.lean:
  rtbssGeometricBound      : Bool   RTBSS::upperBound is  sum_{t=1..h} discount^t * maxR  (true)  or  discount * maxR * horizon  (false)
  rtbssCompareInsidePrune  : Bool   `if ( rew > max )` sits inside the `if ( uBound > max ) { … }` block (true) or after it (false)
  rtbssSites / projecterSites      the statements the model hard-codes, located in order (fails loudly when one is missing)
`AITB.Props.C02.rtbss_as_extracted` is stated over these flags, so that a source change re-opens the obligation: with both flags
true the full-strength theorem applies, with both false the `_partial` one (0 <= maxR) and the counterexample."""
import re
import extract as E


def _order(src, pats, what):
    pos, lines = 0, []
    for p in pats:
        m = re.compile(p).search(src, pos)
        if not m:
            raise E.ExtractError(f'site not found or out of order in {what}: {p}')
        lines.append(E.lineno(src, m.start())); pos = m.end()
    return lines


def _block_end(src, open_pos):
    """index just after the brace matching the '{' at open_pos"""
    depth = 0
    for i in range(open_pos, len(src)):
        if src[i] == '{':
            depth += 1
        elif src[i] == '}':
            depth -= 1
            if depth == 0:
                return i + 1
    raise E.ExtractError('unbalanced braces')


def _body(src, header_re, what):
    m = re.search(header_re, src)
    if not m:
        raise E.ExtractError(f'{what}: definition not found')
    o = src.index('{', m.end())
    return src[o:_block_end(src, o)], E.lineno(src, m.start())


def gen_c02_sites():
    rel = 'include/AIToolbox/POMDP/Algorithms/RTBSS.hpp'
    s = E.strip_comments(E.read(rel))
    ub, ub_line = _body(s, r'double\s+RTBSS<M>::upperBound\s*\(', 'RTBSS::upperBound')
    if re.search(r'return\s+model_\.getDiscount\(\)\s*\*\s*maxR_\s*\*\s*horizon\s*;', ub):
        geometric = False
    elif re.search(r'double\s+bound\s*=\s*0\.0\s*,\s*d\s*=\s*1\.0\s*;\s*for\s*\(\s*unsigned\s+t\s*=\s*0\s*;\s*t\s*<\s*horizon\s*;\s*\+\+t\s*\)\s*\{\s*'
                   r'd\s*\*=\s*model_\.getDiscount\(\)\s*;\s*bound\s*\+=\s*d\s*\*\s*maxR_\s*;\s*\}\s*return\s+bound\s*;', ub):
        # discount first, then accumulate: sum_{t=1..h} discount^t * maxR (the order matters: the model's rtGeoLoop does the same)
        geometric = True
    else:
        raise E.ExtractError('RTBSS::upperBound has neither the linear nor the geometric form the model knows')
    sim, sim_line = _body(s, r'double\s+RTBSS<M>::simulate\s*\(', 'RTBSS::simulate')
    _order(sim, [r'if\s*\(\s*horizon\s*==\s*0\s*\)\s*return\s+0\s*;',
                 r'std::iota\s*\(',
                 r'double\s+max\s*=\s*-std::numeric_limits<double>::infinity\(\)\s*;',
                 r'for\s*\(\s*auto\s+a\s*:\s*actionList\s*\)',
                 r'double\s+rew\s*=\s*beliefExpectedReward\s*\(\s*model_\s*,\s*b\s*,\s*a\s*\)\s*;',
                 r'const\s+double\s+uBound\s*=\s*rew\s*\+\s*upperBound\s*\(\s*b\s*,\s*a\s*,\s*horizon\s*-\s*1\s*\)\s*;',
                 r'if\s*\(\s*uBound\s*>\s*max\s*\)\s*\{',
                 r'for\s*\(\s*size_t\s+o\s*=\s*0\s*;\s*o\s*<\s*O\s*;\s*\+\+o\s*\)',
                 r'updateBeliefUnnormalized\s*\(\s*model_\s*,\s*b\s*,\s*a\s*,\s*o\s*\)',
                 r'if\s*\(\s*checkDifferentSmall\s*\(\s*sum\s*,\s*0\.0\s*\)\s*\)',
                 r'rew\s*\+=\s*model_\.getDiscount\(\)\s*\*\s*sum\s*\*\s*simulate\s*\(\s*nextBelief\s*/\s*sum\s*,\s*horizon\s*-\s*1\s*\)\s*;',
                 r'if\s*\(\s*rew\s*>\s*max\s*\)',
                 r'max\s*=\s*rew\s*;',
                 r'if\s*\(\s*horizon\s*==\s*maxDepth_\s*\)\s*maxA_\s*=\s*a\s*;',
                 r'return\s+max\s*;'], 'RTBSS::simulate')
    m1 = re.search(r'if\s*\(\s*uBound\s*>\s*max\s*\)\s*\{', sim)
    end1 = _block_end(sim, m1.end() - 1)
    m2 = re.search(r'if\s*\(\s*rew\s*>\s*max\s*\)', sim)
    inside = m2.start() < end1
    sa, _ = _body(s, r'RTBSS<M>::sampleAction\s*\(', 'RTBSS::sampleAction')
    _order(sa, [r'maxA_\s*=\s*0\s*;\s*maxDepth_\s*=\s*horizon\s*;', r'simulate\s*\(\s*b\s*,\s*horizon\s*\)', r'std::make_tuple\s*\(\s*maxA_\s*,\s*value\s*\)'], 'RTBSS::sampleAction')

    relp = 'include/AIToolbox/POMDP/Algorithms/Utils/Projecter.hpp'
    p = E.strip_comments(E.read(relp))
    pl = _order(p, [r'if\s*\(\s*!possibleObservations_\[a\]\[o\]\s*\)',
                    r'projections\[o\]\.emplace_back\s*\(\s*immediateRewards_\.row\(a\)\s*,\s*a\s*,\s*VObs\(1,0\)\s*\)\s*;',
                    r'vproj\s*=\s*model_\.getTransitionFunction\(a\)\s*\*\s*\(\s*v\.cwiseProduct\(\s*model_\.getObservationFunction\(a\)\.col\(o\)\s*\)\s*\)\s*;',
                    r'projections\[o\]\.emplace_back\s*\(\s*vproj\s*\*\s*discount_\s*\+\s*immediateRewards_\.row\(a\)\.transpose\(\)\s*,\s*a\s*,\s*VObs\(1,i\)\s*\)\s*;',
                    r'immediateRewards_\s*/=\s*static_cast<double>\(O\)\s*;',
                    r'if\s*\(\s*checkDifferentSmall\s*\(\s*model_\.getObservationProbability\(s,a,o\)\s*,\s*0\.0\s*\)\s*\)\s*\{\s*possibleObservations_\[a\]\[o\]\s*=\s*true\s*;'], relp)

    reli = 'include/AIToolbox/POMDP/Algorithms/IncrementalPruning.hpp'
    ip = E.strip_comments(E.read(reli))
    il = _order(ip, [r'projs\[a\]\[o\]\.erase\s*\(\s*prune\s*\(\s*begin\s*,\s*end\s*,\s*unwrap\s*\)\s*,\s*end\s*\)\s*;',
                     r'bool\s+oddOld\s*=\s*O\s*%\s*2\s*;',
                     r'int\s+i\s*,\s*front\s*=\s*0\s*,\s*back\s*=\s*O\s*-\s*oddOld\s*,\s*stepsize\s*=\s*2\s*,\s*diff\s*=\s*1\s*,\s*elements\s*=\s*O\s*;',
                     r'while\s*\(\s*elements\s*>\s*1\s*\)',
                     r'for\s*\(\s*i\s*=\s*front\s*;\s*i\s*!=\s*back\s*;\s*i\s*\+=\s*stepsize\s*\)',
                     r'projs\[a\]\[i\]\s*=\s*crossSum\s*\(\s*projs\[a\]\[i\]\s*,\s*projs\[a\]\[i\s*\+\s*diff\]\s*,\s*a\s*,\s*stepsize\s*>\s*0\s*\)\s*;',
                     r'projs\[a\]\[i\]\.erase\s*\(\s*prune\s*\(',
                     r'--elements\s*;',
                     r'const\s+bool\s+oddNew\s*=\s*elements\s*%\s*2\s*;',
                     r'const\s+int\s+tmp\s*=\s*back\s*;',
                     r'back\s*=\s*front\s*-\s*\(\s*oddNew\s*\?\s*0\s*:\s*stepsize\s*\)\s*;',
                     r'front\s*=\s*tmp\s*-\s*\(\s*oddOld\s*\?\s*0\s*:\s*stepsize\s*\)\s*;',
                     r'stepsize\s*\*=\s*-2\s*;', r'diff\s*\*=\s*-2\s*;', r'oddOld\s*=\s*oddNew\s*;',
                     r'if\s*\(\s*front\s*!=\s*0\s*\)\s*projs\[a\]\[0\]\s*=\s*std::move\s*\(\s*projs\[a\]\[front\]\s*\)\s*;',
                     r'w\.insert\s*\(\s*std::end\(w\)',
                     r'w\.erase\s*\(\s*prune\s*\(\s*begin\s*,\s*end\s*,\s*unwrap\s*\)\s*,\s*end\s*\)\s*;'], reli)
    relc = 'src/POMDP/Algorithms/IncrementalPruning.cpp'
    cs = E.strip_comments(E.read(relc))
    _order(cs, [r'if\s*\(\s*!\(l1\.size\(\)\s*&&\s*l2\.size\(\)\)\s*\)\s*return\s+c\s*;', r'for\s*\(\s*const\s+auto\s*&\s*v1\s*:\s*l1\s*\)',
                r'for\s*\(\s*const\s+auto\s*&\s*v2\s*:\s*l2\s*\)', r'auto\s+v\s*=\s*v1\.values\s*\+\s*v2\.values\s*;'], relc)

    relv = 'include/AIToolbox/Utils/Polytope.hpp'
    pv = E.strip_comments(E.read(relv))
    mh = re.search(r'PointSurface\s+findVerticesNaive\s*\(\s*NewIt\s+beginNew', pv)
    if not mh:
        raise E.ExtractError('findVerticesNaive: definition not found')
    mo = re.compile(r'\)\s*\{').search(pv, mh.end())      # the parameter list has `P1{}` defaults: the body starts at `) {`
    if not mo:
        raise E.ExtractError('findVerticesNaive: body not found')
    fb = pv[mo.end() - 1:_block_end(pv, mo.end() - 1)]
    fv_line = E.lineno(pv, mh.start())
    if re.search(r'boundary\[\s*index\s*-\s*alphasSize\s*\]\s*=\s*0\.0\s*;', fb) and re.search(r'm\.row\(counter\)\s*=\s*boundary\s*;', fb):
        fvn_rows = False
    elif (re.search(r'm\.row\(i\s*\+\s*1\)\.setZero\(\)\s*;', fb) and re.search(r'm\.row\(i\s*\+\s*1\)\[\s*index\s*-\s*alphasSize\s*\]\s*=\s*1\.0\s*;', fb)
          and re.search(r'm\.row\(S\)\.head\(S\)\.fill\(1\.0\)\s*;', fb) and re.search(r'b\[S\]\s*=\s*1\.0\s*;', fb)):
        fvn_rows = True
    else:
        raise E.ExtractError('findVerticesNaive: neither the merged-boundary-row form nor the row-per-boundary form the model knows')
    _order(fb, [r'm\.row\(0\)\[S\]\s*=\s*-1\s*;', r'm\.row\(0\)\.head\(S\)\s*=\s*std::invoke\(p1,\s*\*newVIt\)\s*;',
                r'if\s*\(\s*index\s*<\s*alphasSize\s*\)', r'colPivHouseholderQr\(\)\.solve\('], relv)

    out = ['/- GENERATED by tools/extract_c02.py from the library source — do not edit. -/', 'namespace AITB.Gen.C02', '',
           f'/-- {rel}:{ub_line} -/', f'def rtbssGeometricBound : Bool := {"true" if geometric else "false"}',
           f'/-- {rel}:{sim_line} -/', f'def rtbssCompareInsidePrune : Bool := {"true" if inside else "false"}',
           f'/-- {relv}:{fv_line} -/', f'def fvnBoundaryRows : Bool := {"true" if fvn_rows else "false"}',
           f'/-- {rel}:{sim_line} -/', 'def rtbssSites : List String := ["h0", "iota", "negInf", "forA", "rew", "uBound", "prune", "forO", "update", "diffSmall", "recurse", "cmp", "setMax", "topOnly", "ret"]',
           f'/-- {relp}:{pl[0]} -/', 'def projecterSites : List String := ["impossible", "rewardOnly", "TxVO", "timesGammaPlusR", "overO", "possibleSmall"]',
           f'/-- {reli}:{il[1]} -/', 'def ipScheduleSites : List String := ["pruneEach", "oddOld", "init", "while", "for", "merge", "pruneMerged", "dec", "oddNew", "tmp", "back", "front", "step", "diff", "odd", "moveFront", "union", "pruneUnion"]',
           '', 'end AITB.Gen.C02', '']
    E.write_if_changed('C02Sites', '\n'.join(out))


GENERATORS = [gen_c02_sites]
