"""C02 translator plug-in: syntactic facts of RTBSS and the Projecter that the Lean model is parameterised by / hard-codes.

Writes lean/AITB/Gen/C02Sites.lean:
  rtbssGeometricBound      : Bool   RTBSS::upperBound is  sum_{t=1..h} discount^t * maxR  (true)  or  discount * maxR * horizon  (false)
  rtbssCompareInsidePrune  : Bool   `if ( rew > max )` sits inside the `if ( uBound > max ) { … }` block (true) or after it (false)
  rtbssSites / projecterSites      the statements the model hard-codes, located in order (fails loudly when one is missing)
`AITB.Props.C02.rtbss_as_extracted` is stated over these flags, so that a source change re-opens the obligation: with both flags
true the full-strength theorem applies, with both false the `_partial` one (0 <= maxR) and the counterexample."""
import re
import extract as E


def _order(src, pats, what):
    pos, lines = 0, []
    for p in pats:
        m = re.compile(p).search(src, pos)
        if not m:
            raise E.ExtractError(f'site not found or out of order in {what}: {p}')
        lines.append(E.lineno(src, m.start())); pos = m.end()
    return lines


def _block_end(src, open_pos):
    """index just after the brace matching the '{' at open_pos"""
    depth = 0
    for i in range(open_pos, len(src)):
        if src[i] == '{':
            depth += 1
        elif src[i] == '}':
            depth -= 1
            if depth == 0:
                return i + 1
    raise E.ExtractError('unbalanced braces')


def _body(src, header_re, what):
    m = re.search(header_re, src)
    if not m:
        raise E.ExtractError(f'{what}: definition not found')
    o = src.index('{', m.end())
    return src[o:_block_end(src, o)], E.lineno(src, m.start())


def gen_c02_sites():
    rel = 'include/AIToolbox/POMDP/Algorithms/RTBSS.hpp'
    s = E.strip_comments(E.read(rel))
    ub, ub_line = _body(s, r'double\s+RTBSS<M>::upperBound\s*\(', 'RTBSS::upperBound')
    if re.search(r'return\s+model_\.getDiscount\(\)\s*\*\s*maxR_\s*\*\s*horizon\s*;', ub):
        geometric = False
    elif re.search(r'double\s+bound\s*=\s*0\.0\s*,\s*d\s*=\s*1\.0\s*;\s*for\s*\(\s*unsigned\s+t\s*=\s*0\s*;\s*t\s*<\s*horizon\s*;\s*\+\+t\s*\)\s*\{\s*'
                   r'd\s*\*=\s*model_\.getDiscount\(\)\s*;\s*bound\s*\+=\s*d\s*\*\s*maxR_\s*;\s*\}\s*return\s+bound\s*;', ub):
        # discount first, then accumulate: sum_{t=1..h} discount^t * maxR (the order matters: the model's rtGeoLoop does the same)
        geometric = True
    else:
        raise E.ExtractError('RTBSS::upperBound has neither the linear nor the geometric form the model knows')
    sim, sim_line = _body(s, r'double\s+RTBSS<M>::simulate\s*\(', 'RTBSS::simulate')
    _order(sim, [r'if\s*\(\s*horizon\s*==\s*0\s*\)\s*return\s+0\s*;',
                 r'std::iota\s*\(',
                 r'double\s+max\s*=\s*-std::numeric_limits<double>::infinity\(\)\s*;',
                 r'for\s*\(\s*auto\s+a\s*:\s*actionList\s*\)',
                 r'double\s+rew\s*=\s*beliefExpectedReward\s*\(\s*model_\s*,\s*b\s*,\s*a\s*\)\s*;',
                 r'const\s+double\s+uBound\s*=\s*rew\s*\+\s*upperBound\s*\(\s*b\s*,\s*a\s*,\s*horizon\s*-\s*1\s*\)\s*;',
                 r'if\s*\(\s*uBound\s*>\s*max\s*\)\s*\{',
                 r'for\s*\(\s*size_t\s+o\s*=\s*0\s*;\s*o\s*<\s*O\s*;\s*\+\+o\s*\)',
                 r'updateBeliefUnnormalized\s*\(\s*model_\s*,\s*b\s*,\s*a\s*,\s*o\s*\)',
                 r'if\s*\(\s*checkDifferentSmall\s*\(\s*sum\s*,\s*0\.0\s*\)\s*\)',
                 r'rew\s*\+=\s*model_\.getDiscount\(\)\s*\*\s*sum\s*\*\s*simulate\s*\(\s*nextBelief\s*/\s*sum\s*,\s*horizon\s*-\s*1\s*\)\s*;',
                 r'if\s*\(\s*rew\s*>\s*max\s*\)',
                 r'max\s*=\s*rew\s*;',
                 r'if\s*\(\s*horizon\s*==\s*maxDepth_\s*\)\s*maxA_\s*=\s*a\s*;',
                 r'return\s+max\s*;'], 'RTBSS::simulate')
    m1 = re.search(r'if\s*\(\s*uBound\s*>\s*max\s*\)\s*\{', sim)
    end1 = _block_end(sim, m1.end() - 1)
    m2 = re.search(r'if\s*\(\s*rew\s*>\s*max\s*\)', sim)
    inside = m2.start() < end1
    sa, _ = _body(s, r'RTBSS<M>::sampleAction\s*\(', 'RTBSS::sampleAction')
    _order(sa, [r'maxA_\s*=\s*0\s*;\s*maxDepth_\s*=\s*horizon\s*;', r'simulate\s*\(\s*b\s*,\s*horizon\s*\)', r'std::make_tuple\s*\(\s*maxA_\s*,\s*value\s*\)'], 'RTBSS::sampleAction')

    relp = 'include/AIToolbox/POMDP/Algorithms/Utils/Projecter.hpp'
    p = E.strip_comments(E.read(relp))
    pl = _order(p, [r'if\s*\(\s*!possibleObservations_\[a\]\[o\]\s*\)',
                    r'projections\[o\]\.emplace_back\s*\(\s*immediateRewards_\.row\(a\)\s*,\s*a\s*,\s*VObs\(1,0\)\s*\)\s*;',
                    r'vproj\s*=\s*model_\.getTransitionFunction\(a\)\s*\*\s*\(\s*v\.cwiseProduct\(\s*model_\.getObservationFunction\(a\)\.col\(o\)\s*\)\s*\)\s*;',
                    r'projections\[o\]\.emplace_back\s*\(\s*vproj\s*\*\s*discount_\s*\+\s*immediateRewards_\.row\(a\)\.transpose\(\)\s*,\s*a\s*,\s*VObs\(1,i\)\s*\)\s*;',
                    r'immediateRewards_\s*/=\s*static_cast<double>\(O\)\s*;',
                    r'if\s*\(\s*checkDifferentSmall\s*\(\s*model_\.getObservationProbability\(s,a,o\)\s*,\s*0\.0\s*\)\s*\)\s*\{\s*possibleObservations_\[a\]\[o\]\s*=\s*true\s*;'], relp)

    reli = 'include/AIToolbox/POMDP/Algorithms/IncrementalPruning.hpp'
    ip = E.strip_comments(E.read(reli))
    il = _order(ip, [r'projs\[a\]\[o\]\.erase\s*\(\s*prune\s*\(\s*begin\s*,\s*end\s*,\s*unwrap\s*\)\s*,\s*end\s*\)\s*;',
                     r'bool\s+oddOld\s*=\s*O\s*%\s*2\s*;',
                     r'int\s+i\s*,\s*front\s*=\s*0\s*,\s*back\s*=\s*O\s*-\s*oddOld\s*,\s*stepsize\s*=\s*2\s*,\s*diff\s*=\s*1\s*,\s*elements\s*=\s*O\s*;',
                     r'while\s*\(\s*elements\s*>\s*1\s*\)',
                     r'for\s*\(\s*i\s*=\s*front\s*;\s*i\s*!=\s*back\s*;\s*i\s*\+=\s*stepsize\s*\)',
                     r'projs\[a\]\[i\]\s*=\s*crossSum\s*\(\s*projs\[a\]\[i\]\s*,\s*projs\[a\]\[i\s*\+\s*diff\]\s*,\s*a\s*,\s*stepsize\s*>\s*0\s*\)\s*;',
                     r'projs\[a\]\[i\]\.erase\s*\(\s*prune\s*\(',
                     r'--elements\s*;',
                     r'const\s+bool\s+oddNew\s*=\s*elements\s*%\s*2\s*;',
                     r'const\s+int\s+tmp\s*=\s*back\s*;',
                     r'back\s*=\s*front\s*-\s*\(\s*oddNew\s*\?\s*0\s*:\s*stepsize\s*\)\s*;',
                     r'front\s*=\s*tmp\s*-\s*\(\s*oddOld\s*\?\s*0\s*:\s*stepsize\s*\)\s*;',
                     r'stepsize\s*\*=\s*-2\s*;', r'diff\s*\*=\s*-2\s*;', r'oddOld\s*=\s*oddNew\s*;',
                     r'if\s*\(\s*front\s*!=\s*0\s*\)\s*projs\[a\]\[0\]\s*=\s*std::move\s*\(\s*projs\[a\]\[front\]\s*\)\s*;',
                     r'w\.insert\s*\(\s*std::end\(w\)',
                     r'w\.erase\s*\(\s*prune\s*\(\s*begin\s*,\s*end\s*,\s*unwrap\s*\)\s*,\s*end\s*\)\s*;'], reli)
    relc = 'src/POMDP/Algorithms/IncrementalPruning.cpp'
    cs = E.strip_comments(E.read(relc))
    _order(cs, [r'if\s*\(\s*!\(l1\.size\(\)\s*&&\s*l2\.size\(\)\)\s*\)\s*return\s+c\s*;', r'for\s*\(\s*const\s+auto\s*&\s*v1\s*:\s*l1\s*\)',
                r'for\s*\(\s*const\s+auto\s*&\s*v2\s*:\s*l2\s*\)', r'auto\s+v\s*=\s*v1\.values\s*\+\s*v2\.values\s*;'], relc)

    relv = 'include/AIToolbox/Utils/Polytope.hpp'
    pv = E.strip_comments(E.read(relv))
    mh = re.search(r'PointSurface\s+findVerticesNaive\s*\(\s*NewIt\s+beginNew', pv)
    if not mh:
        raise E.ExtractError('findVerticesNaive: definition not found')
    mo = re.compile(r'\)\s*\{').search(pv, mh.end())      # the parameter list has `P1{}` defaults: the body starts at `) {`
    if not mo:
        raise E.ExtractError('findVerticesNaive: body not found')
    fb = pv[mo.end() - 1:_block_end(pv, mo.end() - 1)]
    fv_line = E.lineno(pv, mh.start())
    if re.search(r'boundary\[\s*index\s*-\s*alphasSize\s*\]\s*=\s*0\.0\s*;', fb) and re.search(r'm\.row\(counter\)\s*=\s*boundary\s*;', fb):
        fvn_rows = False
    elif (re.search(r'm\.row\(i\s*\+\s*1\)\.setZero\(\)\s*;', fb) and re.search(r'm\.row\(i\s*\+\s*1\)\[\s*index\s*-\s*alphasSize\s*\]\s*=\s*1\.0\s*;', fb)
          and re.search(r'm\.row\(S\)\.head\(S\)\.fill\(1\.0\)\s*;', fb) and re.search(r'b\[S\]\s*=\s*1\.0\s*;', fb)):
        fvn_rows = True
    else:
        raise E.ExtractError('findVerticesNaive: neither the merged-boundary-row form nor the row-per-boundary form the model knows')
    # fixes/C02-5: the plane rows are multiplied by one power of two beyond 2^±16 (and the value divided by it), or not at all
    if re.search(r'm\.row\(0\)\.head\(S\)\s*=\s*std::invoke\(p1,\s*\*newVIt\)\s*;', fb) and re.search(r'vertices\.second\.emplace_back\(result\[S\]\)\s*;', fb):
        fvn_scaled = False
    elif (re.search(r'm\.row\(0\)\.head\(S\)\s*=\s*std::invoke\(p1,\s*\*newVIt\)\s*\*\s*scale\s*;', fb)
          and re.search(r'm\.row\(i\s*\+\s*1\)\.head\(S\)\s*=\s*std::invoke\(p2,\s*\*std::next\(alphasBegin,\s*index\)\)\s*\*\s*scale\s*;', fb)
          and re.search(r'vertices\.second\.emplace_back\(result\[S\]\s*/\s*scale\)\s*;', fb)
          and re.search(r'if\s*\(\s*std::abs\(e\)\s*>\s*16\s*\)\s*scale\s*=\s*std::ldexp\(1\.0,\s*-e\)\s*;', fb)):
        fvn_scaled = True
    else:
        raise E.ExtractError('findVerticesNaive: plane rows are neither copied as they are nor scaled by the power of two the check knows')
    _order(fb, [r'm\.row\(0\)\[S\]\s*=\s*-1\s*;', r'm\.row\(0\)\.head\(S\)\s*=\s*std::invoke\(p1,\s*\*newVIt\)\s*(\*\s*scale\s*)?;',
                r'if\s*\(\s*index\s*<\s*alphasSize\s*\)', r'colPivHouseholderQr\(\)\.solve\('], relv)

    # ---- round 3: the outer loop shared by the three solvers, weakBoundDistance, makeValueFunction, LinearSupport's acceptance test,
    # Witness' row reservation and its handling of a witness point whose best vector is already known, Projecter's generic branch
    outer_pats = [r'auto\s+v\s*=\s*makeValueFunction\s*\(\s*S\s*\)\s*;',
                  r'unsigned\s+timestep\s*=\s*0\s*;',
                  r'const\s+bool\s+useTolerance\s*=\s*checkDifferentSmall\s*\(\s*tolerance_\s*,\s*0\.0\s*\)\s*;',
                  r'double\s+variation\s*=\s*tolerance_\s*\*\s*2\s*;',
                  r'while\s*\(\s*timestep\s*<\s*horizon_\s*&&\s*\(\s*!useTolerance\s*\|\|\s*variation\s*>\s*tolerance_\s*\)\s*\)',
                  r'\+\+timestep\s*;',
                  r'\(\s*v\[timestep-1\]\s*\)\s*;',                       # project(v[timestep-1])
                  r'v\.emplace_back\s*\(\s*std::move\s*\(\s*\w+\s*\)\s*\)\s*;',
                  r'if\s*\(\s*useTolerance\s*\)\s*\{?\s*variation\s*=\s*weakBoundDistance\s*\(\s*v\[timestep-1\]\s*,\s*v\[timestep\]\s*\)\s*;',
                  r'return\s+std::make_tuple\s*\(\s*useTolerance\s*\?\s*variation\s*:\s*0\.0\s*,\s*v\s*\)\s*;']
    outer_lines = {}
    for name, relx in (('IncrementalPruning', reli), ('Witness', 'include/AIToolbox/POMDP/Algorithms/Witness.hpp'),
                       ('LinearSupport', 'include/AIToolbox/POMDP/Algorithms/LinearSupport.hpp')):
        src = E.strip_comments(E.read(relx))
        body, _ = _body(src, r'std::tuple<double,\s*ValueFunction>\s+' + name + r'::operator\(\)\s*\(', name + '::operator()')
        outer_lines[name] = _order(body, outer_pats, name + '::operator() outer loop')[4] 
        for setter in (r'if\s*\(\s*t\s*<\s*0\.0\s*\)\s*throw\s+std::invalid_argument',):
            csrc = E.strip_comments(E.read('src/POMDP/Algorithms/' + name + '.cpp'))
            if not re.search(setter, csrc):
                raise E.ExtractError(name + '::setTolerance: the guard `t < 0.0` -> throw was not found')
    relu = 'src/POMDP/Utils.cpp'
    us = E.strip_comments(E.read(relu))
    wb, wb_line = _body(us, r'double\s+weakBoundDistance\s*\(', 'weakBoundDistance')
    _order(wb, [r'if\s*\(\s*!oldV\.size\(\)\s*\)\s*return\s+0\.0\s*;',
                r'double\s+distance\s*=\s*0\.0\s*;',
                r'for\s*\(\s*const\s+auto\s*&\s*newVE\s*:\s*newV\s*\)',
                r'double\s+closestDistance\s*=\s*std::numeric_limits<double>::infinity\(\)\s*;',
                r'for\s*\(\s*const\s+auto\s*&\s*oldVE\s*:\s*oldV\s*\)',
                r'double\s+distance\s*=\s*\(\s*newVE\.values\s*-\s*oldVE\.values\s*\)\.cwiseAbs\(\)\.maxCoeff\(\)\s*;',
                r'closestDistance\s*=\s*std::min\s*\(\s*closestDistance\s*,\s*distance\s*\)\s*;',
                r'distance\s*=\s*std::max\s*\(\s*distance\s*,\s*closestDistance\s*\)\s*;',
                r'return\s+distance\s*;'], 'weakBoundDistance')
    mv, _ = _body(us, r'ValueFunction\s+makeValueFunction\s*\(', 'makeValueFunction')
    _order(mv, [r'values\.setZero\(\)\s*;', r'return\s+ValueFunction\s*\(\s*1\s*,\s*VList\s*\(\s*1\s*,\s*\{\s*values\s*,\s*0\s*,\s*VObs\(\)\s*\}\s*\)\s*\)\s*;'], 'makeValueFunction')
    rell = 'include/AIToolbox/POMDP/Algorithms/LinearSupport.hpp'
    ls = E.strip_comments(E.read(rell))
    lsl = _order(ls, [r'allSupports\.emplace\s*\(\s*crossSumBestAtBelief\s*\(\s*corner\s*,\s*projections\s*\)\s*\)',
                      r'if\s*\(\s*inserted\s*\)\s*goodSupports\.push_back\s*\(\s*\*it\s*\)\s*;',
                      r'findVerticesNaive\s*\(\s*goodSupports\s*,\s*unwrap\s*\)',
                      r'if\s*\(\s*triedVertices\.find\s*\(\s*vertex\s*\)\s*!=\s*std::end\s*\(\s*triedVertices\s*\)\s*\)\s*continue\s*;',
                      r'crossSumBestAtBelief\s*\(\s*vertex\s*,\s*projections\s*,\s*&trueValue\s*\)',
                      r'findBestAtPoint\s*\(\s*vertex\s*,\s*gsBegin\s*,\s*gsEnd\s*,\s*&currentValue\s*,\s*unwrap\s*\)\s*;',
                      r'auto\s+diff\s*=\s*trueValue\s*-\s*currentValue\s*;',
                      r'if\s*\(\s*diff\s*>\s*tolerance_\s*&&\s*checkDifferentGeneral\s*\(\s*diff\s*,\s*tolerance_\s*\)\s*\)',
                      r'triedVertices\.insert\s*\(',
                      r'if\s*\(\s*agenda_\.size\(\)\s*==\s*0\s*\)\s*break\s*;',
                      r'Vertex\s+best\s*=\s*agenda_\.top\(\)\s*;\s*agenda_\.pop\(\)\s*;',
                      r'if\s*\(\s*it->belief\.dot\s*\(\s*best\.support->values\s*\)\s*>\s*it->currentValue\s*\)',
                      r'vertices\s*=\s*findVerticesNaive\s*\(\s*supBegin\s*,\s*supEnd\s*,\s*chkBegin\s*,\s*chkEnd\s*,\s*unwrap\s*,\s*unwrap\s*\)\s*;',
                      r'goodSupports\.push_back\s*\(\s*\*best\.support\s*\)\s*;'], rell)
    lsc = E.strip_comments(E.read('src/POMDP/Algorithms/LinearSupport.cpp'))
    if not re.search(r'VertexComparator::operator\(\)\s*\([^)]*\)\s*const\s*\{\s*return\s+lhs\.error\s*<\s*rhs\.error\s*;', lsc):
        raise E.ExtractError('LinearSupport::VertexComparator is not `lhs.error < rhs.error` (the agenda must pop the LARGEST error: model lsTop)')
    relw = 'include/AIToolbox/POMDP/Algorithms/Witness.hpp'
    ws = E.strip_comments(E.read(relw))
    wl = _order(ws, [r'reserveSize\s*=\s*std::max\s*\(\s*reserveSize\s*,\s*2\s*\*\s*v\[timestep-1\]\.size\(\)\s*\)\s*;',
                     r'U\[a\]\.clear\(\)\s*;', r'lp\.reset\(\)\s*;', r'agenda_\.clear\(\)\s*;', r'triedVectors_\.clear\(\)\s*;',
                     r'size_t\s+counter\s*=\s*0\s*;', r'lp\.allocate\s*\(\s*reserveSize\s*\)\s*;',
                     r'addDefaultEntry\s*\(\s*projections\[a\]\s*\)\s*;',
                     r'while\s*\(\s*!agenda_\.empty\(\)\s*\)',
                     r'lp\.findWitness\s*\(\s*agenda_\.back\(\)\s*\)',
                     r'crossSumBestAtBelief\s*\(\s*\*witness\s*,\s*projections\[a\]\s*,\s*a\s*\)',
                     r'lp\.addOptimalRow\s*\(\s*U\[a\]\.back\(\)\.values\s*\)\s*;',
                     r'addVariations\s*\(\s*projections\[a\]\s*,\s*U\[a\]\.back\(\)\s*\)\s*;',
                     r'if\s*\(\s*\+\+counter\s*==\s*reserveSize\s*\)\s*\{\s*reserveSize\s*\*=\s*2\s*;\s*lp\.allocate\s*\(\s*reserveSize\s*\)\s*;',
                     r'else\s+agenda_\.pop_back\(\)\s*;',
                     r'triedVectors_\.emplace\s*\(\s*O\s*,\s*0\s*\)\s*;',
                     r'const\s+size_t\s+skip\s*=\s*vObs\[o\]\s*;',
                     r'if\s*\(\s*i\s*==\s*skip\s*\)\s*continue\s*;',
                     r'if\s*\(\s*triedVectors_\.find\s*\(\s*vObs\s*\)\s*!=\s*std::end\s*\(\s*triedVectors_\s*\)\s*\)\s*continue\s*;',
                     r'triedVectors_\.insert\s*\(\s*vObs\s*\)\s*;',
                     r'auto\s+v\s*=\s*vValues\s*-\s*projs\[o\]\[skip\]\.values\s*\+\s*projs\[o\]\[i\]\.values\s*;',
                     r'vObs\[o\]\s*=\s*skip\s*;'], relw)
    # does the loop drop a "witness" whose best vector is already in U[a] (fixes/C02-4)?  Either the shipped form or the guarded one.
    if re.search(r'U\[a\]\.push_back\s*\(\s*crossSumBestAtBelief\s*\(\s*\*witness\s*,\s*projections\[a\]\s*,\s*a\s*\)\s*\)\s*;', ws):
        w_guard = False
    elif (re.search(r'auto\s+best\s*=\s*crossSumBestAtBelief\s*\(\s*\*witness\s*,\s*projections\[a\]\s*,\s*a\s*\)\s*;', ws)
          and re.search(r'return\s+e\.values\s*==\s*best\.values\s*;', ws)
          and re.search(r'if\s*\(\s*std::any_of\s*\(\s*std::begin\(U\[a\]\)\s*,\s*std::end\(U\[a\]\)\s*,\s*sameValues\s*\)\s*\)\s*\{\s*agenda_\.pop_back\(\)\s*;\s*continue\s*;\s*\}\s*U\[a\]\.push_back\s*\(\s*std::move\s*\(\s*best\s*\)\s*\)\s*;', ws)):
        w_guard = True
    else:
        raise E.ExtractError('Witness loop: neither the shipped `U[a].push_back(crossSumBestAtBelief(...))` nor the guarded form the model knows')
    # Projecter's generic branch: a view of a temporary (shipped) or a materialised matrix (fixes/C02-3)
    if re.search(r'else\s+return\s+MDP::computeImmediateRewards\s*\(\s*model_\s*\)\.transpose\(\)\s*;', p):
        proj_mat = False
    elif re.search(r'else\s+return\s+Matrix2D\s*\(\s*MDP::computeImmediateRewards\s*\(\s*model_\s*\)\.transpose\(\)\s*\)\s*;', p):
        proj_mat = True
    else:
        raise E.ExtractError('Projecter::computeImmediateRewards: generic branch has neither form the check knows')
    # helpers one level down (include/AIToolbox/Utils/Core.hpp, Polytope.hpp, POMDP/Utils.hpp): the exact comparison forms the model copies
    core = E.strip_comments(E.read('include/AIToolbox/Utils/Core.hpp'))
    for pat, what in ((r'inline\s+bool\s+checkEqualSmall\s*\(\s*const\s+double\s+a\s*,\s*const\s+double\s+b\s*\)\s*\{\s*return\s*\(\s*std::fabs\s*\(\s*a\s*-\s*b\s*\)\s*<=\s*equalToleranceSmall\s*\)\s*;', 'checkEqualSmall'),
                      (r'inline\s+bool\s+checkDifferentSmall\s*\(\s*const\s+double\s+a\s*,\s*const\s+double\s+b\s*\)\s*\{\s*return\s*!checkEqualSmall\s*\(\s*a\s*,\s*b\s*\)\s*;', 'checkDifferentSmall'),
                      (r'if\s*\(\s*checkEqualSmall\s*\(\s*a\s*,\s*b\s*\)\s*\)\s*return\s+true\s*;\s*return\s*\(\s*std::fabs\s*\(\s*a\s*-\s*b\s*\)\s*<=\s*std::min\s*\(\s*std::fabs\s*\(\s*a\s*\)\s*,\s*std::fabs\s*\(\s*b\s*\)\s*\)\s*\*\s*equalToleranceGeneral\s*\)\s*;', 'checkEqualGeneral'),
                      (r'inline\s+bool\s+checkDifferentGeneral\s*\(\s*const\s+double\s+a\s*,\s*const\s+double\s+b\s*\)\s*\{\s*return\s*!checkEqualGeneral\s*\(\s*a\s*,\s*b\s*\)\s*;', 'checkDifferentGeneral'),
                      (r'if\s*\(\s*lhs\[i\]\s*==\s*rhs\[i\]\s*\)\s*continue\s*;\s*return\s+lhs\[i\]\s*>\s*rhs\[i\]\s*\?\s*std::strong_ordering::greater\s*:\s*std::strong_ordering::less\s*;', 'veccmp')):
        if not re.search(pat, core):
            raise E.ExtractError('Core.hpp: ' + what + ' does not have the form the model copies')
    tie = r'if\s*\(\s*currValue\s*>\s*bestValue\s*\|\|\s*\(\s*currValue\s*==\s*bestValue\s*&&\s*veccmp\s*\(\s*std::invoke\s*\(\s*p\s*,\s*\*begin\s*\)\s*,\s*std::invoke\s*\(\s*p\s*,\s*\*bestMatch\s*\)\s*\)\s*>\s*0\s*\)\s*\)'
    if len(re.findall(tie, pv)) < 2:
        raise E.ExtractError('Polytope.hpp: findBestAtPoint / findBestAtSimplexCorner tie-break is not `value > best || (value == best && veccmp > 0)`')
    pu = E.strip_comments(E.read('include/AIToolbox/POMDP/Utils.hpp'))
    _order(pu, [r'auto\s+bestMatch\s*=\s*findBestAtPoint\s*\(\s*b\s*,\s*begin\s*,\s*end\s*,\s*&tmp\s*,\s*unwrap\s*\)\.base\(\)\s*;',
                r'out\.values\s*\+=\s*bestMatch->values\s*;', r'v\s*\+=\s*tmp\s*;', r'out\.observations\[o\]\s*=\s*bestMatch->observations\[0\]\s*;',
                r'auto\s+entry\s*=\s*makeVEntry\s*\(\s*b\.size\(\)\s*,\s*a\s*,\s*row\.size\(\)\s*\)\s*;',
                r'VEntry\s+entry\s*=\s*crossSumBestAtBelief\s*\(\s*b\s*,\s*projs\[0\]\s*,\s*\(size_t\)0\s*,\s*&bestValue\s*\)\s*;',
                r'for\s*\(\s*size_t\s+a\s*=\s*1\s*;\s*a\s*<\s*A\s*;\s*\+\+a\s*\)', r'helper\.action\s*=\s*a\s*;',
                r'if\s*\(\s*tmp\s*>\s*bestValue\s*\)\s*\{\s*bestValue\s*=\s*tmp\s*;\s*std::swap\s*\(\s*entry\s*,\s*helper\s*\)\s*;'], 'POMDP/Utils.hpp crossSumBestAtBelief')

    out = ['/- GENERATED by tools/extract_c02.py from the library source — do not edit. -/', 'namespace AITB.Gen.C02', '',
           f'/-- {relw}: the per-action loop drops a witness point whose best vector is already in U[a] (fixes/C02-4) -/',
           f'def witnessSkipsKnownVector : Bool := {"true" if w_guard else "false"}',
           f'/-- {relp}: the generic branch of computeImmediateRewards materialises the transposed matrix (fixes/C02-3) -/',
           f'def projecterGenericMaterialises : Bool := {"true" if proj_mat else "false"}',
           f'/-- {relv}: findVerticesNaive scales the plane rows by one power of two beyond 2^±16 (fixes/C02-5) -/',
           f'def fvnScalesPlanes : Bool := {"true" if fvn_scaled else "false"}',
           f'/-- {reli} {relw} {rell} — the same ten statements, in order, in all three operator() -/',
           'def outerLoopSites : List String := ["makeVF", "timestep0", "useTolerance", "variation2tol", "while", "inc", "projectPrev", "emplace", "wbd", "ret"]',
           f'/-- {relu}:{wb_line} -/',
           'def wbdSites : List String := ["emptyOld0", "dist0", "forNew", "closestInf", "forOld", "maxAbsDiff", "min", "max", "ret"]',
           f'/-- {rell}:{lsl[0]} -/',
           'def lsLoopSites : List String := ["cornerSupports", "pushIfInserted", "verticesOfGood", "skipTried", "supportAtVertex", "currentValue", "diff", "acceptTest", "markTried", "breakIfEmpty", "popTop", "obsoleteTest", "verticesOfNew", "pushBest", "errorLess"]',
           f'/-- {relw}:{wl[0]} -/',
           'def witnessLoopSites : List String := ["reserveMax", "clearU", "lpReset", "clearAgenda", "clearTried", "counter0", "allocate", "defaultEntry", "while", "findWitnessBack", "bestAtWitness", "addRow", "addVariations", "doubleReserve", "popIfNone", "defaultTried", "skipIdx", "skipSame", "skipTried", "markTried", "variationValues", "restore"]',
           'def helperForms : List String := ["checkEqualSmall", "checkDifferentSmall", "checkEqualGeneral", "checkDifferentGeneral", "veccmp", "findBestAtPointTie", "crossSumBestAtBelief"]',
           f'/-- {rel}:{ub_line} -/', f'def rtbssGeometricBound : Bool := {"true" if geometric else "false"}',
           f'/-- {rel}:{sim_line} -/', f'def rtbssCompareInsidePrune : Bool := {"true" if inside else "false"}',
           f'/-- {relv}:{fv_line} -/', f'def fvnBoundaryRows : Bool := {"true" if fvn_rows else "false"}',
           f'/-- {rel}:{sim_line} -/', 'def rtbssSites : List String := ["h0", "iota", "negInf", "forA", "rew", "uBound", "prune", "forO", "update", "diffSmall", "recurse", "cmp", "setMax", "topOnly", "ret"]',
           f'/-- {relp}:{pl[0]} -/', 'def projecterSites : List String := ["impossible", "rewardOnly", "TxVO", "timesGammaPlusR", "overO", "possibleSmall"]',
           f'/-- {reli}:{il[1]} -/', 'def ipScheduleSites : List String := ["pruneEach", "oddOld", "init", "while", "for", "merge", "pruneMerged", "dec", "oddNew", "tmp", "back", "front", "step", "diff", "odd", "moveFront", "union", "pruneUnion"]',
           '', 'end AITB.Gen.C02', '']
    E.write_if_changed('C02Sites', '\n'.join(out))


GENERATORS = [gen_c02_sites]
