#!/usr/bin/env python3
"""Shared machinery for every check: translator call, Lean build + axiom audit,
sanitized library build from /repo's working tree (object cache), harness build and
crash-resuming run, driver run, classification, replays, known findings, evidence."""
import hashlib, json, os, re, subprocess, sys, time, glob, shutil

VERIF = os.path.dirname(os.path.dirname(os.path.abspath(__file__)))
REPO = os.environ.get('AITB_REPO', '/repo')
LEAN = os.path.join(VERIF, 'lean')
CACHE = os.environ.get('AITB_CACHE') or os.path.join(VERIF, '.cache')
NPROC = os.cpu_count() or 4
GUARD = 'AITB_VERIF'

CXX = 'g++'
CXXFLAGS = ['-std=c++20', '-O1', '-g1', '-fsanitize=address,undefined', '-fno-sanitize-recover=all',
            '-fno-omit-frame-pointer', '-D' + GUARD, '-I' + os.path.join(REPO, 'include'),
            '-I/usr/include/eigen3', '-w']
LDLIBS = ['/usr/lib/liblpsolve55.a', '-lcolamd', '-ldl']

ALLOWED_AXIOMS = {'propext', 'Classical.choice', 'Quot.sound'}
FORBIDDEN = re.compile(r'\b(sorry|admit|native_decide|bv_decide|implemented_by|unsafe|maxHeartbeats\s+0)\b|^\s*axiom\s', re.M)


def sh(cmd, timeout=None, cwd=None, env=None, inp=None):
    try:
        p = subprocess.run(cmd, cwd=cwd, env=env, input=inp, stdout=subprocess.PIPE, stderr=subprocess.STDOUT,
                           timeout=timeout, text=True, errors='replace')
        return p.returncode, p.stdout
    except subprocess.TimeoutExpired as e:
        out = e.stdout if isinstance(e.stdout, str) else (e.stdout or b'').decode(errors='replace')
        return 124, out + '\n[timeout]'


def sha(*parts):
    h = hashlib.sha256()
    for p in parts:
        h.update(p if isinstance(p, bytes) else str(p).encode())
        h.update(b'\0')
    return h.hexdigest()[:24]


def file_bytes(path):
    with open(path, 'rb') as f:
        return f.read()


# ---------------------------------------------------------------- translator
def run_extract():
    """Regenerate lean/AITB/Gen/*.lean from /repo's working tree. Returns (ok, log)."""
    rc, out = sh([sys.executable, os.path.join(VERIF, 'tools', 'extract.py')], timeout=300)
    return rc == 0, out


def gen_closure(mods):
    """names of the AITB.Gen.* modules reachable through `import` lines from the given Lean modules"""
    seen, gens, todo = set(), set(), list(mods)
    while todo:
        m = todo.pop()
        if m in seen:
            continue
        seen.add(m)
        if m.startswith('AITB.Gen.'):
            gens.add(m[len('AITB.Gen.'):])
        f = os.path.join(VERIF, 'lean', *m.split('.')) + '.lean'
        if not os.path.exists(f):
            continue
        for ln in open(f, encoding='utf-8', errors='replace'):
            mm = re.match(r'\s*(?:public\s+)?import\s+((?:AITB|Driver)\.[\w.]+)', ln)
            if mm:
                todo.append(mm.group(1))
    return gens


# ---------------------------------------------------------------- Lean
def strip_lean_comments(src):
    # remove block comments (nested) and line comments
    out, i, depth = [], 0, 0
    n = len(src)
    while i < n:
        if src.startswith('/-', i):
            depth += 1; i += 2; continue
        if depth and src.startswith('-/', i):
            depth -= 1; i += 2; continue
        if depth:
            i += 1; continue
        if src.startswith('--', i):
            j = src.find('\n', i)
            i = n if j < 0 else j
            continue
        out.append(src[i]); i += 1
    return ''.join(out)


def lean_module_file(mod):
    return os.path.join(LEAN, *mod.split('.')) + '.lean'


def lean_closure(mods):
    """All project-local modules imported (transitively) by mods."""
    seen, todo = [], list(mods)
    while todo:
        m = todo.pop()
        if m in seen:
            continue
        f = lean_module_file(m)
        if not os.path.exists(f):
            continue
        seen.append(m)
        for line in open(f):
            mm = re.match(r'\s*import\s+((?:AITB|Driver)\.[\w.]+)', line)
            if mm:
                todo.append(mm.group(1))
    return seen


def lean_build(targets, timeout=1500):
    rc, out = sh(['lake', 'build'] + targets, cwd=LEAN, timeout=timeout)
    return rc == 0, out


def lean_audit(mods, theorems):
    """grep for forbidden constructs in the closure of mods; #print axioms of every theorem.
    Returns dict(ok, problems[], axioms{thm: [..]})."""
    problems, axioms = [], {}
    for m in lean_closure(mods):
        src = strip_lean_comments(open(lean_module_file(m)).read())
        for mm in FORBIDDEN.finditer(src):
            problems.append(f'forbidden construct {mm.group(0).strip()!r} in {m}')
    if theorems:
        body = ''.join(f'import {m}\n' for m in mods) + ''.join(f'#print axioms {t}\n' for t in theorems)
        os.makedirs(os.path.join(CACHE, 'audit'), exist_ok=True)
        f = os.path.join(CACHE, 'audit', 'Audit_' + sha(body) + '.lean')
        open(f, 'w').write(body)
        rc, out = sh(['lake', 'env', 'lean', f], cwd=LEAN, timeout=900)
        # output: "'name' depends on axioms: [a, b]" or "'name' does not depend on any axioms"
        flat = re.sub(r'\s+', ' ', out)
        for t in theorems:
            m1 = re.search(r"'" + re.escape(t) + r"' depends on axioms: \[([^\]]*)\]", flat)
            m2 = re.search(r"'" + re.escape(t) + r"' does not depend on any axioms", flat)
            if m1:
                ax = [a.strip() for a in m1.group(1).split(',') if a.strip()]
            elif m2:
                ax = []
            else:
                problems.append(f'theorem {t} not found / not checked')
                continue
            axioms[t] = ax
            bad = [a for a in ax if a not in ALLOWED_AXIOMS]
            if bad:
                problems.append(f'theorem {t} depends on disallowed axioms {bad}')
        if rc != 0 and not problems:
            problems.append('audit file failed: ' + out[-500:])
    return {'ok': not problems, 'problems': problems, 'axioms': axioms}


def leanchecker(mod, timeout=1200):
    rc, out = sh(['lake', 'env', 'leanchecker', mod], cwd=LEAN, timeout=timeout)
    return rc == 0, out[-800:]


# ---------------------------------------------------------------- C++ library from /repo
def repo_sources():
    srcs = []
    for root, _, files in os.walk(os.path.join(REPO, 'src')):
        if os.sep + 'Python' in root:
            continue
        for f in files:
            if f.endswith('.cpp'):
                srcs.append(os.path.join(root, f))
    return sorted(srcs)


def include_hash():
    h = hashlib.sha256()
    for root, dirs, files in os.walk(os.path.join(REPO, 'include')):
        dirs.sort()
        for f in sorted(files):
            p = os.path.join(root, f)
            h.update(os.path.relpath(p, REPO).encode()); h.update(file_bytes(p))
    return h.hexdigest()[:24]


def build_lib(extra_flags=(), log=None):
    """Compile every non-Python source of /repo (current working tree) with sanitizers into a
    static library; objects cached by content. Returns (lib_path or None, log)."""
    flags = CXXFLAGS + list(extra_flags)
    ih = include_hash()
    objdir = os.path.join(CACHE, 'obj'); os.makedirs(objdir, exist_ok=True)
    jobs, objs = [], []
    for s in repo_sources():
        key = sha(' '.join(flags).replace(REPO, '$REPO'), ih, os.path.relpath(s, REPO), file_bytes(s))
        o = os.path.join(objdir, key + '.o')
        objs.append(o)
        if not os.path.exists(o):
            jobs.append((s, o))
    logs = []
    if jobs:
        procs = []
        pending = list(jobs)
        running = []
        failed = False
        while pending or running:
            while pending and len(running) < NPROC:
                s, o = pending.pop()
                tmp = o + '.tmp%d' % os.getpid()
                p = subprocess.Popen([CXX] + flags + ['-c', s, '-o', tmp], stdout=subprocess.PIPE, stderr=subprocess.STDOUT, text=True)
                running.append((p, s, o, tmp))
            still = []
            for p, s, o, tmp in running:
                if p.poll() is None:
                    still.append((p, s, o, tmp)); continue
                out = p.stdout.read()
                if p.returncode != 0:
                    failed = True
                    logs.append(f'compile failed: {s}\n{out[-3000:]}')
                    if os.path.exists(tmp): os.remove(tmp)
                else:
                    os.replace(tmp, o)
            running = still
            time.sleep(0.05)
        if failed:
            return None, '\n'.join(logs)
    libkey = sha(*objs)
    libdir = os.path.join(CACHE, 'lib'); os.makedirs(libdir, exist_ok=True)
    lib = os.path.join(libdir, 'libaitb-' + libkey + '.a')
    if not os.path.exists(lib):
        tmp = lib + '.tmp%d' % os.getpid()
        if os.path.exists(tmp): os.remove(tmp)
        rc, out = sh(['ar', 'rcs', tmp] + objs)
        if rc != 0:
            return None, out
        os.replace(tmp, lib)
        # keep the cache small: drop older archives
        for old in glob.glob(os.path.join(libdir, 'libaitb-*.a')):
            try:   # other runs share the cache: the file may vanish between glob and stat
                if old != lib and time.time() - os.path.getmtime(old) > 6 * 3600:
                    os.remove(old)
            except OSError:
                pass
    return lib, '\n'.join(logs)


def build_harness(src, lib, extra_flags=(), extra_srcs=()):
    """Compile a harness against the library. Returns (binary or None, log)."""
    srcp = os.path.join(VERIF, src)
    deps = [file_bytes(srcp)] + [file_bytes(p) for p in sorted(glob.glob(os.path.join(VERIF, 'harness', 'common', '*')))]
    key = sha(' '.join(CXXFLAGS + list(extra_flags)).replace(REPO, '$REPO'), include_hash(), os.path.basename(lib) if lib else '', *deps)
    bindir = os.path.join(CACHE, 'bin'); os.makedirs(bindir, exist_ok=True)
    exe = os.path.join(bindir, os.path.splitext(os.path.basename(src))[0] + '-' + key)
    if os.path.exists(exe):
        return exe, ''
    tmp = exe + '.tmp%d' % os.getpid()
    cmd = [CXX] + CXXFLAGS + list(extra_flags) + ['-I' + os.path.join(VERIF, 'harness'), srcp] + list(extra_srcs) + ([lib] if lib else []) + LDLIBS + ['-o', tmp]
    rc, out = sh(cmd, timeout=1200)
    if rc != 0:
        return None, out[-6000:]
    os.replace(tmp, exe)
    for old in glob.glob(os.path.join(bindir, os.path.splitext(os.path.basename(src))[0] + '-*')):
        if old != exe and time.time() - os.path.getmtime(old) > 6 * 3600:
            os.remove(old)
    return exe, out


def compile_probe(src, extra_flags=()):
    """Does a small translation unit that instantiates a library template compile against the current tree?
    (-fsyntax-only, no sanitizers).  Returns (ok, first error lines)."""
    srcp = os.path.join(VERIF, src)
    cmd = [CXX, '-std=c++20', '-fsyntax-only', '-w', '-D' + GUARD, '-I' + os.path.join(REPO, 'include'), '-I/usr/include/eigen3',
           '-I' + os.path.join(VERIF, 'harness')] + list(extra_flags) + [srcp]
    rc, out = sh(cmd, timeout=600)
    errs = [l for l in out.split('\n') if 'error' in l][:3]
    return rc == 0, '\n'.join(errs)[:1500]


SAN_ENV = {'ASAN_OPTIONS': 'detect_leaks=0:abort_on_error=0:malloc_fill_byte=203:max_malloc_fill_size=1073741824:allocator_may_return_null=1',
           'UBSAN_OPTIONS': 'print_stacktrace=1:halt_on_error=1'}


def run_harness(exe, seed, tier, timeout, case_timeout=60, only=None, limit=None, extra_args=()):
    """Run the harness, resuming after a crashing/hanging case. Returns (lines, crashes, done)
    where crashes is a list of dict(case, kind, detail)."""
    env = dict(os.environ); env.update(SAN_ENV)
    lines, crashes = [], []
    start = 0
    t_end = time.time() + timeout
    done = False
    while True:
        args = [exe, str(seed), tier] + list(extra_args)
        if only is not None:
            args += ['--only', str(only)]
        else:
            args += ['--from', str(start)]
        if limit is not None:
            args += ['--limit', str(limit)]
        remaining = t_end - time.time()
        if remaining <= 0:
            break
        p = subprocess.Popen(args, stdout=subprocess.PIPE, stderr=subprocess.PIPE, env=env, text=True, errors='replace')
        cur = None
        import threading
        errbuf = []
        te = threading.Thread(target=lambda: errbuf.append(p.stderr.read()))
        te.start()
        last = [time.time()]
        hung = [False]

        def watchdog():
            while p.poll() is None:
                if time.time() - last[0] > case_timeout or time.time() > t_end:
                    hung[0] = True
                    p.kill(); return
                time.sleep(0.2)
        tw = threading.Thread(target=watchdog); tw.start()
        got_done = False
        for ln in p.stdout:
            ln = ln.rstrip('\n')
            if ln.startswith('#case '):
                cur = int(ln.split()[1]); last[0] = time.time()
            elif ln.startswith('#done'):
                got_done = True
            lines.append(ln)
        p.wait(); te.join(); tw.join()
        err = errbuf[0] if errbuf else ''
        if got_done and p.returncode == 0:
            done = True
            break
        if time.time() > t_end and hung[0]:
            lines.append('#budget-exhausted')
            break
        # crashed or hung in case `cur`
        kind = 'hang' if hung[0] else 'crash'
        m = re.search(r'(ERROR: AddressSanitizer: [\w-]+|runtime error: [^\n]*|Assertion [^\n]*failed|terminate called[^\n]*)', err)
        detail = m.group(1) if m else ('killed after %ds without progress' % case_timeout if hung[0] else 'exit %s' % p.returncode)
        # 'context': the harness's last comment lines before it died (e.g. '#in <op> <inputs>' replay aids)
        crashes.append({'case': cur, 'kind': kind, 'detail': detail, 'stderr_tail': err if len(err) <= 6000 else err[:3500] + '\n[...]\n' + err[-2500:],
                        'context': [l for l in lines[-6:] if l.startswith('#in ')][-1:]})
        lines.append(f'#crashed {cur} {kind} {detail}')
        if only is not None or cur is None:
            break
        start = cur + 1
    return lines, crashes, done


def run_driver(case_lines, timeout=1800, jobs=1):
    """Feed protocol lines to the Lean driver. Returns list of verdict lines (same length) or None.
    The driver answers every line independently, so `jobs` > 1 splits the lines into contiguous chunks
    evaluated by concurrent driver processes (verdicts are concatenated in the original order)."""
    exe = os.path.join(LEAN, '.lake', 'build', 'bin', 'aitb-driver')
    if not os.path.exists(exe):
        return None, 'driver not built'
    jobs = max(1, min(int(jobs), len(case_lines) // 500 or 1))
    size = (len(case_lines) + jobs - 1) // jobs
    chunks = [case_lines[i:i + size] for i in range(0, len(case_lines), size)]
    procs = [subprocess.Popen([exe], stdin=subprocess.PIPE, stdout=subprocess.PIPE, stderr=subprocess.PIPE, text=True) for _ in chunks]
    import threading
    res = [None] * len(chunks)

    def feed(i):
        try:
            res[i] = procs[i].communicate('\n'.join(chunks[i]) + '\n', timeout=timeout)
        except subprocess.TimeoutExpired:
            procs[i].kill(); procs[i].communicate(); res[i] = None
    ths = [threading.Thread(target=feed, args=(i,)) for i in range(len(chunks))]
    for t in ths: t.start()
    for t in ths: t.join()
    out_all = []
    for i, r in enumerate(res):
        if r is None:
            return None, 'driver timeout'
        out = r[0].split('\n')
        if out and out[-1] == '':
            out.pop()
        if procs[i].returncode != 0 or len(out) != len(chunks[i]):
            return None, f'driver rc={procs[i].returncode} lines={len(out)} expected={len(chunks[i])} stderr={r[1][-500:]}'
        out_all += out
    return out_all, ''


# ---------------------------------------------------------------- known findings
def load_known():
    """known_findings.json plus per-property files known_findings.d/*.json (never written at run time)"""
    out = []
    files = [os.path.join(VERIF, 'known_findings.json')] + sorted(glob.glob(os.path.join(VERIF, 'known_findings.d', '*.json')))
    for p in files:
        if os.path.exists(p):
            out += json.load(open(p)).get('findings', [])
    return out


def known_match(known, prop, component, kind):
    for k in known:
        if k.get('status') == 'open' and k['property'] == prop and k['component'] == component and k['kind'] == kind:
            return k
    return None


# ---------------------------------------------------------------- evidence
def write_evidence(prop, ev):
    os.makedirs(os.path.join(VERIF, 'evidence'), exist_ok=True)
    p = os.path.join(VERIF, 'evidence', prop + '.json')
    tmp = p + '.tmp'
    json.dump(ev, open(tmp, 'w'), indent=1)
    os.replace(tmp, p)


def write_replay(prop, seed, n, obj):
    d = os.path.join(VERIF, 'replays'); os.makedirs(d, exist_ok=True)
    p = os.path.join(d, f'{prop}-{seed}-{n}.json')
    json.dump(obj, open(p, 'w'), indent=1)
    return p
