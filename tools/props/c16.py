def _post_build(C, lib, exe):
    import extract_statics
    extract_statics.gen_statics([lib, exe])


SPEC = {
    'id': 'C16',
    'lean_modules': ['AITB.Props.C16', 'AITB.Props.C16Solvers'],
    'theorems': [
        'AITB.Hidden.statics_accounted',
        'AITB.Hidden.solver_fields_accounted',
        'AITB.Hidden.reset_claims_checked',
        'AITB.Hidden.roles_are_fields',
        'AITB.Hidden.const_with_hidden_state_accounted',
        'AITB.Hidden.no_const_cast',
        'AITB.Hidden.resetting_reusable',
        'AITB.Hidden.resetting_history_free',
        'AITB.Hidden.drained_history_free',
        'AITB.Hidden.seed_stream_deterministic',
        'AITB.Hidden.runSeeder_setRoot_prefix',
        'AITB.Hidden.pool_unobservable',
        'AITB.Hidden.stepG_graph_indep',
        'AITB.Hidden.takeNode_indep',
        'AITB.Hidden.copyNodes_spec',
        'AITB.Hidden.copy_is_replica',
        'AITB.Hidden.call_output_independent_of_history',
        'AITB.Hidden.viObject_reusable',
        'AITB.Hidden.vi_reuse_eq_fresh',
    ],
    'harness': 'harness/c16.cpp',
    'post_build': _post_build,
    'level': 'proof',
    'level_text': 'proof for the modelled hidden-state carriers (Seeder stream, FactorGraph node pool) and for the regenerated inventory of static-storage '
                  'objects (statics_accounted is re-proved against the symbol table of the current build); "every algorithm" is covered by bitwise differential runs '
                  '(twice / unrelated prefix / reused solver object), which are tests and labelled as such',
    'timeout': {'quick': 600, 'thorough': 3000},
    'case_timeout': 120,
    'rule': 'per subject (algorithm class) and scenario (twice, prefix, reuse, reuse_same_problem, fresh_process) one bitwise comparison of flattened outputs; non-trivial = output longer than one number',
    'modelled': ['src/Seeder.cpp (engine abstracted as a seed-indexed stream)', 'FactorGraph::factorAdjacenciesPool_ (getFactor/erase/copy take-and-overwrite discipline)',
                 'static-storage inventory via nm of the compiled objects'],
    'assumptions': ['std::mt19937 and libstdc++ uniform distributions are deterministic functions of seed/parameters (stateless distributions)',
                    'solver-object scratch state is covered by the reuse differential only (not modelled in Lean)'],
    'trusted_base': ['binutils nm + tools/extract_statics.py canonicalisation (inventory of statics)'],
}
