_T = 'AITB.Codec.'
SPEC = {
    'id': 'C17',
    'lean_modules': ['AITB.Props.C17', 'AITB.Props.C17Dbl', 'AITB.Props.C17DblText', 'AITB.Props.C17Final', 'AITB.Props.C17Oblig'],
    'theorems': [_T + t for t in [
        # numbers and combinators
        'scanN_printN', 'rep_roundtrip', 'rep_ok',
        # sparse storage
        'fromTriplets_sorted', 'sorted_length_le', 'fromTriplets_valid', 'rt_spgen', 'rdSpGen_ok',
        # round trip, every kind
        'roundtrip_dexp', 'roundtrip_sexp', 'roundtrip_dmodel', 'roundtrip_smodel', 'roundtrip_pd', 'roundtrip_ps',
        'roundtrip_mpol', 'polLoop_entries', 'polLoop_horizons', 'roundtrip_ppol', 'load_roundtrip', 'roundtrip_seq',
        # every token list: success => valid
        'rdDExp_ok', 'rdSExp_ok', 'rdDModel_ok', 'rdSModel_ok', 'rdPD_ok', 'rdPS_ok', 'rdMPol_ok', 'polLoop_ok', 'rdPPol_ok',
        # every token list: valid object or failure with the destination untouched
        'failed_read_atomic', 'failed_read_atomic_dexp', 'failed_read_atomic_sexp', 'failed_read_atomic_dmodel',
        'failed_read_atomic_smodel', 'failed_read_atomic_pd', 'failed_read_atomic_ps', 'failed_read_atomic_mpol',
        'failed_read_atomic_ppol', 'prefix_behaviour',
        # a cut on a token boundary is always rejected (extensibility of every reader + round trip)
        'ext_rdDExp', 'ext_rdSExp', 'ext_rdDModel', 'ext_rdSModel', 'ext_rdPD', 'ext_rdPS', 'ext_rdMPol', 'polLoop_mono', 'ext_polLoop', 'ext_rdPPol',
        'strict_prefix_fails', 'truncated_load_rejected', 'truncated_rejected_dexp', 'truncated_rejected_sexp', 'truncated_rejected_dmodel',
        'truncated_rejected_smodel', 'truncated_rejected_mpol', 'truncated_rejected_ppol', 'truncated_rejected_pd', 'truncated_rejected_ps',
        # a junk token (abc, nan, inf ...) in place of any token of a written object: the load fails, for every kind
        'tri_rdDExp', 'tri_rdSExp', 'tri_rdDModel', 'tri_rdSModel', 'tri_rdPD', 'tri_rdPS', 'tri_rdMPol', 'tri_polLoop', 'tri_rdPPol',
        'junk_token_fails', 'corrupted_load_rejected', 'corrupted_rejected_ppol', 'corrupted_rejected_dmodel', 'corrupted_rejected_sexp', 'corrupted_rejected_dexp',
        'corrupted_rejected_smodel', 'corrupted_rejected_mpol', 'corrupted_rejected_pd', 'corrupted_rejected_ps',
        # bytes <-> tokens: any white-space layout tokenizes back to the token list; byte-level round trip
        'tokenize_render', 'roundtrip_bytes', 'tokenize_render_trimmed', 'roundtrip_trimmed_bytes', 'load_trimmed_bytes', 'printN_clean', 'wrDModel_clean', 'wrPPol_clean', 'truncated_bytes_rejected', 'gText_clean', 'printDQ_clean', 'ratIO_printClean',
        # the fuel of the policy loop is immaterial (the model is the unbounded while(true))
        'dec_rdEntry', 'polLoop_fuel_step', 'rdPPol_fuel_free', 'ratIO_scanShrinks',
        # tied to the source through Gen/IOPrec
        'roundtrip_dmodel_src', 'roundtrip_smodel_src', 'roundtrip_dexp_src', 'roundtrip_mpol_src',
        'roundtrip_sexp_src', 'roundtrip_sexp_src_partial', 'roundtrip_ppol_src', 'roundtrip_ppol_or_defect', 'roundtrip_sexp_or_defect',
        'ratIO_noAt', 'ratIO_toCount_lt',
        # witnesses of the two defects (model shares them)
        'rt17_third', 'rt6_third_counterexample', 'ppol_prec6_counterexample', 'count_via_double_counterexample',
        'count_integer_example',
        # bare Vector codec; decisions are a function of the table, and the precision witness flips one
        'roundtrip_vec', 'rdVec_ok', 'ext_rdVec', 'decisions_of_roundtrip', 'ppol_prec6_decision_counterexample',
        # round 3: 17 significant digits identify a double, proved on the model's own number codec (sigDigits = the digits
        # printf %.17g emits, toDouble = correctly rounded strtod); structural predicate <-> the executable isDoubleB
        'floorLog10_le', 'roundHalfEven_close', 'roundHalfEven_eq', 'floorLog2_spec', 'floorLog2_unique', 'toDouble_near',
        'decValue_sigDigits', 'decValue_sigDigits_close', 'toDouble_of_close', 'toDouble_sigDigits_ge17', 'toDouble_sigDigits17',
        'toDouble_neg', 'toDouble_of_IsPosDbl', 'isDoubleB_of_IsPosDbl', 'IsPosDbl_of_toDouble', 'IsPosDbl_of_isDoubleB',
        'isDoubleB_iff_IsPosDbl', 'sixteen_digits_not_enough',
        # ... and on the model's concrete printer (printf %.{p}g layouts) and scanner (num_get accumulation + strtod): the
        # former trusted hypothesis RT/Dbl17 is a theorem for the driver's codec
        'DblText.floorLog10_lt', 'DblText.sigDigits_bounds', 'DblText.stripZeros_spec', 'DblText.accMant_shape', 'DblText.floatValue_shape',
        'DblText.scanDQ_shape', 'DblText.scanDQ_gText', 'scanDQ_gText_sigDigits', 'scanDQ_zero', 'scanDQ_printDQ', 'scanDQ_printDQ_17', 'ratIO_RT',
        # round trips of every kind at the source's precisions with NO numeric assumption (values = finite doubles)
        'ratIO_Dbl17', 'isDblB_iff_IsDbl', 'roundtrip_dmodel_final', 'roundtrip_smodel_final', 'roundtrip_dexp_final', 'roundtrip_sexp_final',
        'roundtrip_mpol_final', 'roundtrip_ppol_final', 'roundtrip_pd_final', 'roundtrip_ps_final', 'roundtrip_pdd_final',
        'roundtrip_vec_final', 'load_dmodel_final', 'isDbl_half', 'isDbl_one', 'isDbl_third',
        # consecutive loads on one stream: atomic each, failures sticky, sequences round-trip
        'loadOn_good', 'loadSeq_failed', 'loadSeq_length', 'loadSeq_atomic', 'loadSeq_sticky', 'loadSeq_roundtrip', 'loadSeq_valid',
        # helpers one level down: what isProbability (dense / sparse) guarantees about any object a load returns
        'abs_excess_le', 'sparseRowOk_bounds', 'rowOk_bounds', 'loaded_dmodel_probabilities', 'loaded_smodel_probabilities',
        # finding C17-4 (writers inherit the caller's notation): witnesses on the model's printf %.17f
        'isDbl_smallThird', 'fixed17_counterexample', 'fixed17_tiny_counterexample',
    ]],
    # obligations over the regenerated module AITB.Gen.IOPrec (re-proved against the source on every run)
    'gen_obligations': [_T + 'IOPrec_utils_ge_17', _T + 'IOPrec_pomdpPolicy', _T + 'IOPrec_commit_last',
                        _T + 'IOPrec_formatted_only', _T + 'IOPrec_never_clears'],
    'harness': 'harness/c17.cpp',
    'level': 'proof',
    'timeout': {'quick': 600, 'thorough': 2400},
    'case_timeout': 120,
    'rule': 'one case = one random object of one of 11 kinds (MDP::Model, SparseModel, Experience, SparseExperience, Policy, '
            'POMDP::Policy, POMDP::Model/SparseModel over dense/sparse MDPs, bare Vector), alternating dyadic and "ugly" values (1/3, 0.1, '
            'DBL_MAX, denormals, random bit patterns); cases 0-3 are fixed witnesses (precision, 2^53+1 count, copied policy, '
            'IncrementalPruning tiger policy + tiger model). Protocol lines per case: rt (write, load into a different destination with a '
            'trailer behind, compare bits, unread rest, decisions), trunc (EVERY strict byte prefix), corrupt (every token x 13 corruptions), '
            'bcorrupt (24/60 single-byte overwrites), xload x6 (neighbouring destination shapes), fmt (7 formatting states of the writing stream), seq x4 (x, y, x of two kinds through one stream: clean / one token of the first, middle, last object corrupted), rtbits (negative zeros); corruptions now include sign flip, 0, and compensated negatives (1.5, -0.5 on neighbours); every load is repeated on a stream with exceptions(failbit|badbit). Every single load is replayed by the Lean '
            'reader on the same bytes (signal, object, unread rest). non-trivial = every line; distinct by line',
    'modelled': ['src/Utils/IO.cpp: every write()/read() overload',
                 'src/MDP/IO.cpp: operator<< / operator>> of Experience, SparseExperience, Model, SparseModel, PolicyInterface/Policy',
                 'include/AIToolbox/POMDP/IO.hpp: operator<< / operator>> of POMDP::Model<M>, POMDP::SparseModel<M>',
                 'src/POMDP/IO.cpp: operator<< / operator>> of POMDP::Policy, checkRemoveAtSign',
                 'libstdc++ num_get for unsigned long and double, printf %.{p}g, Eigen setFromTriplets, isProbability, setDiscount guard: modelled, tied by the differential run'],
    'assumptions': ['every number of a saved object is a finite double (hypothesis IsDbl of the *_final round-trip theorems; evaluated by the driver on every value of every generated object). That 17 significant digits identify a double is no longer assumed: scanDQ_printDQ / ratIO_RT',
                    'non-finite values (inf/nan are written as text no reader accepts) are outside the quantifier',
                    'isProbability sums are exact rationals in the model (doubles in the code): outcomes whose margin to the 1e-6 tolerance is below 1e-9 are tagged ill_conditioned and not judged'],
    'trusted_base': ['tools/extract_c17.py (writer precisions, sparse-table value type, commit-last discipline, formatted-extraction-only and never-clears discipline of every reader -> AITB.Gen.IOPrec)',
                     'decide +kernel (kernel evaluation, no compiler trust) for the five witness theorems'],
}
