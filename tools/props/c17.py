SPEC = {
    'id': 'C17',
    'lean_modules': ['AITB.Props.C17'],
    'theorems': [],
    'harness': 'harness/c17.cpp',
    'level': 'proof',
    'timeout': {'quick': 600, 'thorough': 2400},
    'case_timeout': 120,
}
