def _extra(C, tier, seed):
    # one static line: the driver walks the generated guard table (no implementation output involved)
    return [(-1, 'C06 guards')]


SPEC = {
    'id': 'C06',
    'lean_modules': ['AITB.Props.C06'],
    'theorems': [
        'AITB.Guard.eval_rep',
        'AITB.Guard.discountOK_sound',
        'AITB.Guard.discountOKfinite_sound',
        'AITB.Guard.discountComplete_sound',
        'AITB.MS.discount_guard_table_ok',
        'AITB.MS.discount_guards_partial',
        'AITB.MS.discount_guards_complete',
        'AITB.MS.discount_guards_sound',
        'AITB.MS.discount_guards_nan_counterexample',
        'AITB.MS.sumX_eq_fin',
        'AITB.MS.isProbLoop_iff',
        'AITB.MS.isProbDense_eq_loop',
        'AITB.MS.isProbSparse_sound',
        'AITB.MS.sparsified_row',
        'AITB.MS.step_rejected_unchanged',
        'AITB.MS.commit_before_validate_is_observable',
        'AITB.MS.run_rejected_noop',
        'AITB.MS.step_valid',
        'AITB.MS.step_valid_partial',
        'AITB.MS.setDiscount_nan_counterexample',
        'AITB.MS.run_valid',
        'AITB.MS.run_valid_partial',
    ],
    'harness': 'harness/c06.cpp',
    'level': 'proof',
    'timeout': {'quick': 600, 'thorough': 2400},
    'case_timeout': 120,
    'extra_cases': _extra,
    'rule': 'one protocol line = one constructor / setter / conversion call on a real object with the getters dumped before and after '
            '(histories of 2..12 calls per object, 2..40 in the thorough tier), or one isProbability row through the three implementations, '
            'one setDiscount call on a learned-model class, one AMDP discretisation, one DDNGraph::push, one CooperativeModel construction; '
            'non-trivial = every line except the static guard-table line; distinct by protocol line',
    'modelled': ['src/MDP/Model.cpp, include/AIToolbox/MDP/Model.hpp: all constructors and setters',
                 'src/MDP/SparseModel.cpp, include/AIToolbox/MDP/SparseModel.hpp: all constructors and setters (storage threshold)',
                 'include/AIToolbox/POMDP/Model.hpp, SparseModel.hpp: constructors, setObservationFunction (both overloads), copy from any model',
                 'include/AIToolbox/Utils/Probability.hpp + src/Utils/Probability.cpp: isProbability (template loop, dense row, sparse row)',
                 'include/AIToolbox/POMDP/Algorithms/AMDP.hpp: accumulate-and-normalise phase of discretizeDense/Sparse; bucket index of makeDiscretizer',
                 'src/Factored/Utils/BayesianNetwork.cpp: DDNGraph::push; src/Factored/Utils/Core.cpp: checkTag',
                 'src/Factored/MDP/CooperativeModel.cpp: constructor row / discount validation only'],
    'assumptions': ['double rounding: sums and products are read as exact rational arithmetic; decisions within 1e-9 of a tolerance boundary are skipped (ill_conditioned)',
                    'Eigen minCoeff() on a row containing NaN is unspecified; the model only uses that the row sum is then NaN',
                    'documented preconditions are respected by the harness: container shapes match the model sizes (the library performs no size checks, by documentation)',
                    'AMDP: BeliefGenerator, updateBeliefUnnormalized, beliefExpectedReward and the entropy/log part of the discretizer are not modelled; '
                    'their outputs (the contribution list) are inputs of the modelled phase'],
    'trusted_base': ['tools/extract_c06.py (guard conditions, statement-order facts, constructor facts, AMDP division guard -> AITB.Gen.Guards)'],
}
