"""C10 public-API coverage: uncovered public functions that are accounted for, by CATEGORY.

tools/api_coverage.py lists every public function of include/AIToolbox that no harness object references.  An entry here
explains a category of them; whatever is neither referenced nor matched here is printed under UNACCOUNTED.

Keys are either
  * fnmatch patterns (case sensitive) matched against the qualified name 'AIToolbox::MDP::Foo::bar' or against the
    signature 'AIToolbox::MDP::Foo::bar(size_t, double) const' (note: `[` is special in fnmatch; `*` also crosses `::`), or
  * mechanical tags computed by api_coverage.py from the function BODY:
      '@trivial-getter'  the body is exactly `{ return member_; }`      (header body: clang AST; src/*.cpp body: textual)
      '@trivial-setter'  the body is exactly `{ member_ = parameter; }` (no validation, no other effect)
Keep the patterns specific.  The first matching key wins."""

ACCOUNTED = {
    '@trivial-getter': 'body is `return member_;` (checked mechanically): no index arithmetic, no allocation, nothing that can be UB on a live object',
    '@trivial-setter': 'body is `member_ = parameter;` with no validation (checked mechanically): cannot fail; the EFFECT of the parameter is the business of the property that models the algorithm',
    # Utils/IO.hpp: the harness never calls them directly, the library's operator<< / operator>> do (U references from the library objects);
    # C17's harness drives those operators for Model / SparseModel / Experience / SparseExperience / Policy on generated and corrupted text
    'AIToolbox::write(std::ostream &, *': 'Utils/IO.hpp stream helper: called by the operator<< of the models / experiences / policies that C17 exercises, or by the 3D overloads inside IO.cpp (checked with nm on the library objects)',
    'AIToolbox::read(std::istream &, *': 'Utils/IO.hpp stream helper: called by the operator>> of the models / experiences / policies that C17 exercises, or by the 3D overloads inside IO.cpp (checked with nm on the library objects)',
    # constructors of abstract bases: not callable by a program except from a derived constructor (the call sits in the library object of the derived class)
    'AIToolbox::MDP::QPolicyInterface::QPolicyInterface': 'constructor of an abstract interface (pure virtuals inherited from PolicyInterface): only derived-class constructors call it',
    'AIToolbox::EpsilonPolicyInterface::EpsilonPolicyInterface': 'constructor of an abstract interface (sampleRandomAction / getRandomActionProbability are pure): only derived-class constructors call it',
    # declared and documented but defined NOWHERE: cannot be called by any program; each is an open finding with its own link unit (tools/props/c10_units.py)
    'AIToolbox::Factored::Bandit::FlattenedModel::convertA': 'declared, never defined: finding C10-flattenedmodel-converta (unit link:FlattenedModel::convertA, fixes/C10-11)',
    'AIToolbox::Factored::buildAdjacencyList(const AIToolbox::Factored::Action &, *': 'declared, never defined (stale forward declaration): finding C10-apsp-stale-declaration (unit link:buildAdjacencyList(A,graph), fixes/C10-6)',
    'AIToolbox::Factored::plus(const AIToolbox::Factored::Factors &, const AIToolbox::Factored::Factors &, const AIToolbox::Factored::BasisMatrix &, *': 'declared, never defined: finding C10-basismatrix-plus-undefined (declaration scan)',
    'AIToolbox::MDP::Dyna2::setN': 'declared, never defined: finding C10-dyna2-setn (unit link:Dyna2::setN, fixes/C10-12)',
    'AIToolbox::MDP::DynaQ::setN': 'declared, never defined: finding C10-dynaq-setn (unit link:DynaQ::setN, fixes/C10-12)',
    # called by harness/c10_api_utils.hpp (clause IndexMapIterator.default_ctor_and_less_than); the demangled-name matcher does not recognise
    # `operator<` followed by a template-argument list as an operator name, so the reference is not credited
    'AIToolbox::IndexMapIterator::operator<': 'called in harness/c10_api_utils.hpp; not credited because of a known imprecision of the symbol matcher on `operator<` + template arguments',
}
