import re


def classify_crash(cr):
    """A crash of a whole history (the probed reads are run in forked children and never get here)."""
    return 'C20', cr['kind']


SPEC = {
    'id': 'C20',
    'lean_modules': ['AITB.Props.C20'],
    'theorems': [
        'AITB.Trie.walk_spec',
        'AITB.Trie.insert_cells',
        'AITB.Trie.RI_mk',
        'AITB.Trie.RI_insert',
        'AITB.Trie.RI_erase',
        'AITB.Trie.RI_erasePF',
        'AITB.Trie.applyFilters_spec',
        'AITB.Trie.filter_spec',
        'AITB.Trie.refine_spec',
        'AITB.Trie.getAllIds_spec',
        'AITB.Trie.size_spec',
        'AITB.Trie.getAllIds_code_partial',
        'AITB.Trie.trie_refines_spec',
        'AITB.Trie.erasePF_code_partial',
        'AITB.Trie.erasePF_code_counterexample',
        'AITB.Trie.size_code_counterexample',
        'AITB.Trie.size_as_extracted',
        'AITB.Trie.getAllIds_as_extracted',
        'AITB.Trie.erasePF_as_extracted',
        'AITB.Trie.FMInv_emplace',
        'AITB.Trie.filtermap_filter_spec',
        'AITB.Trie.FMFInv_emplace',
        'AITB.Trie.filtermapF_filter_spec',
        'AITB.Trie.sameIds_sound',
        'AITB.Trie.reconstruct_factors',
        'AITB.Trie.assign_step',
        'AITB.Trie.permute_subset',
        'AITB.Trie.reconstruct_compatible',
        'AITB.Trie.RIF_insert',
        'AITB.Trie.RIF_erase',
        'AITB.Trie.ft_filter_mem',
        'AITB.Trie.ft_filter_nodup',
        'AITB.Trie.ft_size_spec',
        'AITB.Trie.fastertrie_refines_spec',
        'AITB.Trie.permute_perm',
        'AITB.Trie.scanRemove_rem',
        'AITB.Trie.reconstruct_store',
        'AITB.Trie.fastertrie_refines_spec_reconstruct',
        'AITB.Trie.matchPart_spec',
        'AITB.Trie.advPart_spec',
        'AITB.Trie.run_spec',
        'AITB.Trie.applyCursor_eq',
        'AITB.Trie.filterCursor_eq',
        'AITB.Trie.refineCursor_eq',
        'AITB.Trie.trie_cursor_refines_spec',
    ],
    'harness': 'harness/c20.cpp',
    'level': 'proof',
    'level_text': 'trie_refines_spec / trie_cursor_refines_spec / fastertrie_refines_spec(_reconstruct) / reconstruct_compatible / filtermap_filter_spec: every shape, history, query; '
                  'model tied to src by extractor flags + differential runs; Trie::size/getAllIds/erase(id,pf) hold in the repaired form only (3 known findings, fixes/C20-*.diff)',
    'timeout': {'quick': 300, 'thorough': 1800},
    'case_timeout': 120,
    'classify_crash': classify_crash,
    'rule': 'every factor space with 2..3 factors of sizes 1..3 (quick) / 2..4 factors of sizes 1..4 (thorough), in every order; per shape 120 (60) seeded '
            'histories (Trie, FasterTrie, FilterMap over each) of up to 60 (400) operations, plus 300 (2000) histories on random shapes with 2..6 factors of sizes 1..5, with stale / never-issued ids, duplicate keys, '
            'erase-then-reinsert; one protocol line = one history; non-trivial = more than one operation; distinct by protocol line',
    'modelled': ['src/Factored/Utils/Trie.cpp (whole file incl. the cursor loop of applyFilters)', 'src/Factored/Utils/FasterTrie.cpp (whole file; shuffles as an oracle)',
                 'include/AIToolbox/Factored/Utils/FilterMap.hpp emplace/filter/size', 'include/AIToolbox/Utils/IndexMap.hpp forward iteration'],
    'assumptions': ['keys of partial assignments are strictly ascending, below the number of factors, values below the factor size (documented precondition of PartialFactors)',
                    'refine is given an ascending id list', 'FasterTrie keys are non-empty (insert reads pf.first[0])',
                    'std::lower_bound / upper_bound / inplace_merge / vector::erase behave as specified on sorted ranges'],
}
