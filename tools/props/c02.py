def classify_crash(cr):
    """Attribute a crash of a harness case to a library call site.  The harness prints `#in <solver> <rep> S A O h` before every library
    call (check.py keeps the last one as 'context').  The only crash known: Projecter's constructor on a model without Eigen accessors
    returns a transposed view of a temporary (fixes/C02-3), which ASan reports as stack-use-after-scope in computeImmediateRewards."""
    ctx = (cr.get('context') or [''])[-1].split()
    solver = ctx[1] if len(ctx) > 2 else 'C02'
    rep = ctx[2] if len(ctx) > 2 else ''
    if cr.get('kind') == 'crash' and 'stack-use-after-scope' in cr.get('detail', '') and 'computeImmediateRewards' in cr.get('stderr_tail', '') and rep == 'generic':
        return ('Projecter', 'generic_model_use_after_scope')
    return (solver if solver in ('IncrementalPruning', 'Witness', 'LinearSupport', 'RTBSS') else 'C02', cr['kind'])


SPEC = {
    'id': 'C02',
    'lean_modules': ['AITB.Props.C02', 'AITB.Props.C02b', 'AITB.Props.C02c'],
    'theorems': [
        'AITB.POMDP.sum_max_eq_max_choice',
        'AITB.POMDP.envelope_crossSum',
        'AITB.POMDP.envelope_crossSum_pruned',
        'AITB.POMDP.convex_dominance_sound',
        'AITB.POMDP.dot_projVec',
        'AITB.POMDP.env_projList',
        'AITB.POMDP.env_backupAll',
        'AITB.POMDP.alpha_backup_exact',
        'AITB.POMDP.backup_members_le_expectimax',
        'AITB.POMDP.checkChain_sound',
        'AITB.POMDP.checkChain_sound_from_zero',
        'AITB.POMDP.stepwise_exact',
        'AITB.POMDP.incremental_pruning_exact',
        'AITB.POMDP.ipRun_invariant',
        'AITB.POMDP.ipActionW_spec',
        'AITB.POMDP.incremental_pruning_as_written_exact',
        'AITB.POMDP.scheduleOK_upto',
        'AITB.POMDP.bestBackupAt_mem',
        'AITB.POMDP.bestBackupAt_value',
        'AITB.POMDP.witness_points_exact',
        'AITB.POMDP.witness_complete',
        'AITB.POMDP.witness_step_exact',
        'AITB.POMDP.fvn_rows_sound',
        'AITB.POMDP.fvn_merged_row_counterexample',
        'AITB.POMDP.obs_prob_sum',
        'AITB.POMDP.expectimaxT_le',
        'AITB.POMDP.rtLoop_spec',
        'AITB.POMDP.rtSim_eq_expectimaxT',
        'AITB.POMDP.rtbss_eq_expectimax_partial',
        'AITB.POMDP.expectimaxT_zero',
        'AITB.POMDP.rtbss_eq_expectimax_tau0',
        'AITB.POMDP.rtbss_negative_maxR_counterexample',
        'AITB.POMDP.rtSampleC_shipped',
        'AITB.POMDP.rtGeoLoop_eq',
        'AITB.POMDP.expectimaxT_le_rtB',
        'AITB.POMDP.rtLoopC_spec',
        'AITB.POMDP.rtbss_general',
        # round 2 (AITB.Props.C02b)
        'AITB.POMDP.ipActionM_spec',
        'AITB.POMDP.incremental_pruning_as_written_exact_all',
        'AITB.POMDP.expectimaxT_eq_good',
        'AITB.POMDP.expectimaxT_le_rtB_good',
        'AITB.POMDP.rtbss_full',
        'AITB.POMDP.addVars_spec',
        'AITB.POMDP.wInv_step',
        'AITB.POMDP.witness_loop_complete',
        'AITB.POMDP.env_convex',
        'AITB.POMDP.cheng_region',
        'AITB.POMDP.linear_support_exact_of_cover',
        'AITB.POMDP.bestAtV_spec',
        'AITB.POMDP.goodSup_bestBackupAt',
        'AITB.POMDP.goodSup_bestBackupAtV',
        'AITB.POMDP.lsScan_spec',
        'AITB.POMDP.ls_sound',
        'AITB.POMDP.ls_break_tested',
        # round 3 (AITB.Props.C02c)
        'AITB.POMDP.domBy_sound',
        'AITB.POMDP.coverStep_sound',
        'AITB.POMDP.checkExactChain_sound',
        'AITB.POMDP.checkExactChain_sound_from_zero',
        'AITB.POMDP.wbd_close',
        'AITB.POMDP.wbd_sound',
        'AITB.POMDP.outerGo_length_le',
        'AITB.POMDP.outerGo_exact',
        'AITB.POMDP.outerGo_noTol',
        'AITB.POMDP.outerGo_variation',
        'AITB.POMDP.outerGo_early_stop',
        'AITB.POMDP.outerGo_stops_at_tol',
        'AITB.POMDP.solver_loop_exact',
        'AITB.POMDP.solver_loop_tol0_horizon',
        'AITB.POMDP.solveOuter_h0',
        'AITB.POMDP.lsAccept_false_bound',
        'AITB.POMDP.wReserve_room',
        'AITB.POMDP.wLoopG_false',
        'AITB.POMDP.witness_repaired_terminates',
        'AITB.POMDP.wStepG_eq_wStep_of_sound',
        'AITB.POMDP.witness_shipped_loops_counterexample',
    ],
    'gen_obligations': ['AITB.POMDP.sites3_match_model', 'AITB.POMDP.witness_loop_as_extracted', 'AITB.POMDP.rtbss_as_extracted_full', 'AITB.POMDP.rtbss_as_extracted', 'AITB.POMDP.fvn_as_extracted', 'AITB.POMDP.sites_match_model'],
    'harness': 'harness/c02.cpp',
    'level': 'proof',
    'timeout': {'quick': 600, 'thorough': 3000},
    'case_timeout': 90,
    'crash_component': 'C02',
    'classify_crash': classify_crash,
    'rule': 'round 3 adds: fixed cases 4..9 (horizon 0; tolerances; rewards x 2^20/2^24; a generic non-Eigen model; the Witness non-termination witness; '
            'the large-magnitude findVerticesNaive/LinearSupport witness) and, per generated case, a second run in one of: horizon 0, rewards x 2^17..2^24, '
            'tolerance runs (op vftol), generic model, O = 4..6, lopsided shapes (S/A/O = 1), information-gathering instances with many exact ties. '
            'Exact-mode lines are decided on ALL beliefs by checkExactChain (cover certificates). Round 1-2 rule: '
            'hand-written instances first (Tiger; an instance with an impossible observation + duplicate + dominated action; all-negative-reward '
            'instances for RTBSS incl. the Lean counterexample; the LinearSupport edge-vertex witness), then seeded random POMDPs (S 1..4, A 1..3, O 1..3, '
            'h 1..3 (4 thorough); deterministic, noisy and partly impossible observations; duplicate, dominated, state-matched and tied rewards; a non-dyadic '
            '"ugly" stream), each solved by IncrementalPruning, Witness, LinearSupport on the dense model (and on the sparse model for a third of the '
            'instances) and by RTBSS at random/corner beliefs with maxR = max reward / looser / clamped at 0. Each returned value function is checked by '
            'checkChain (every vector is a backup of the previous list) and against exact expectimax at corners, edge and interior points, random dyadic '
            'beliefs and every vertex of its own partition of the simplex. non-trivial = every line; distinct by protocol line',
    'modelled': ['POMDP/Utils.hpp updateBeliefUnnormalized, beliefExpectedReward, crossSumBestAtBelief', 'Utils/Polytope.hpp findBestAtPoint (value)',
                 'POMDP/Algorithms/Utils/Projecter.hpp (all)', 'IncrementalPruning::crossSum and operator() (merge schedule as written; Pruner = any envelope-preserving function)',
                 'Witness: vectors as per-observation choices and their variations (LP witness search = hypothesis)',
                 'RTBSS::sampleAction/simulate/upperBound as written, parameterised by the two sites read from the source',
                 'src/POMDP/Utils.cpp makeValueFunction, weakBoundDistance; the outer loop of the three solvers (tolerance, horizon, returned variation); LinearSupport acceptance test; Witness row reservation; Witness loop with/without the C02-4 repair',
                 'NOT modelled, outputs checked per instance: Pruner/WitnessLP (lp_solve), findVerticesNaive QR solve'],
    'assumptions': ['double arithmetic read as exact rational arithmetic; Eigen dense/sparse products read as sums',
                    'tables row-stochastic (harness generates exactly such; driver re-checks), no observation probability in (0, 1e-6] (driver skips otherwise)',
                    'lp_solve and the LP-based pruner are untrusted: only their effect on the returned value function is checked',
                    'exact-mode lines: completeness over all beliefs is decided by checkExactChain (proved sound); non-exact lines (O not a power of 2, non-dyadic stream) still rest on partition vertices + 1e-9',
                    'Witness runs are killed after 10 s (15 s thorough) and reported as does_not_terminate: the same instance takes IncrementalPruning milliseconds'],
}
