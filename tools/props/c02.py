SPEC = {
    'id': 'C02',
    'lean_modules': ['AITB.Props.C02'],
    'theorems': [
        'AITB.POMDP.sum_max_eq_max_choice',
        'AITB.POMDP.envelope_crossSum',
        'AITB.POMDP.envelope_crossSum_pruned',
        'AITB.POMDP.convex_dominance_sound',
        'AITB.POMDP.dot_projVec',
        'AITB.POMDP.env_projList',
        'AITB.POMDP.env_backupAll',
        'AITB.POMDP.alpha_backup_exact',
        'AITB.POMDP.backup_members_le_expectimax',
        'AITB.POMDP.incremental_pruning_exact',
        'AITB.POMDP.bestBackupAt_mem',
        'AITB.POMDP.bestBackupAt_value',
        'AITB.POMDP.witness_points_exact',
        'AITB.POMDP.obs_prob_sum',
        'AITB.POMDP.expectimaxT_le',
        'AITB.POMDP.rtLoop_spec',
        'AITB.POMDP.rtSim_eq_expectimaxT',
        'AITB.POMDP.rtbss_eq_expectimax_partial',
        'AITB.POMDP.expectimaxT_zero',
        'AITB.POMDP.rtbss_eq_expectimax_tau0',
        'AITB.POMDP.rtbss_negative_maxR_counterexample',
    ],
    'harness': 'harness/c02.cpp',
    'level': 'proof',
    'timeout': {'quick': 600, 'thorough': 3000},
    'case_timeout': 120,
    'crash_component': 'C02',
    'rule': 'hand-written instances first (Tiger, an instance with an impossible observation + duplicate + dominated action, an all-negative-reward '
            'instance for RTBSS), then seeded random POMDPs (S 2..3 quick / 2..4 thorough, A 1..3, O 1..3, h 1..3 (4 thorough); deterministic, noisy and '
            'partly impossible observations; duplicate and dominated actions; a non-dyadic "ugly" stream), each solved by IncrementalPruning, Witness, '
            'LinearSupport on the dense model (and on the sparse model for a third of the instances) and by RTBSS at random beliefs. '
            'non-trivial = every line; distinct by protocol line',
    'modelled': [],
    'assumptions': [],
}
