def classify_crash(cr):
    """cases 0 and 1 are the fixed witnesses of the size_t overflow of the table extent; any other crash is its own kind"""
    if cr.get('case') in (0, 1):
        return 'CassandraParser', 'size_overflow_crash'
    return 'CassandraParser', cr['kind']


SPEC = {
    'id': 'C18',
    'lean_modules': ['AITB.Props.C18'],
    'theorems': [
        'AITB.Cassandra.keywords_prefix_free',
    ],
    'harness': 'harness/c18.cpp',
    'level': 'proof',
    'timeout': {'quick': 400, 'thorough': 2400},
    'case_timeout': 60,
    'classify_crash': classify_crash,
    'rule': 'TODO',
    'modelled': [],
    'assumptions': [],
}
