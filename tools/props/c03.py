import re


def classify_crash(cr):
    """Attribute a crash / hang of a harness case to the library call that was running (`#in <component> …` printed just before the
    call) and to the place the sanitizer / assertion names, so that distinct defects stay distinct."""
    comp = None
    for ln in cr.get('context') or []:
        t = ln.split()
        if len(t) > 1:
            comp = t[1]
    err = cr.get('stderr_tail') or ''
    # a report that names the solver class decides (the `#in` line can scroll out of the context window or belong to a neighbouring case)
    if 'SARSOP::' in err:
        comp = 'SARSOP'
    elif 'GapMin::' in err:
        comp = 'GapMin'
    elif comp is None:
        comp = 'C03'
    kind = cr['kind']
    if kind == 'escaped-exception':      # an exception the library threw on a valid input; the `#escaped` line carries what()
        d = cr.get('detail') or ''
        if 'UB process failed' in d:
            return ('GapMin', 'exception_lp_failed_in_LPInterpolation')
        return (comp if comp != 'C03' else 'C03', 'escaped_exception')
    if kind == 'hang':
        return (comp, 'hang')
    where = ''
    for fn, tag in (('BlindStrategies::operator()<GModel>', 'BlindStrategies_elementwise_model'),
                    ('FastInformedBound::operator()<AIToolbox::POMDP::SparseModel', 'FastInformedBound_sparse_rewards'),
                    ('updateSubOptimalPaths', 'updateSubOptimalPaths'), ('deltaPrune', 'deltaPrune'), ('sawtoothInterpolation', 'sawtoothInterpolation'), ('LPInterpolation', 'LPInterpolation'),
                    ('cleanUp', 'cleanUp'), ('makeNewPomdp', 'makeNewPomdp'), ('selectReachableBeliefs', 'selectReachableBeliefs'),
                    ('backupNode', 'backupNode'), ('samplePoints', 'samplePoints'), ('expandLeaf', 'expandLeaf'),
                    ('SARSOP::operator()', 'main_loop'), ('GapMin::operator()', 'main_loop')):
        if fn in err:
            where = tag
            break
    what = 'crash'
    if 'AddressSanitizer' in err or 'runtime error' in err:
        what = 'memory_error'            # one defect shows up under several sanitizer names (heap-buffer-overflow, use-after-free, null reference)
    elif 'Assertion' in err:
        what = 'assertion'
    if where == 'BlindStrategies_elementwise_model':
        comp = 'BlindStrategies'
    if where == 'FastInformedBound_sparse_rewards':       # reached through FIB itself, SARSOP, GapMin and the kernels' set-up alike
        comp = 'FastInformedBound'
    return (comp, what + ('_in_' + where if where else ''))


SPEC = {
    'id': 'C03',
    'lean_modules': ['AITB.Props.C03'],
    'theorems': [
        # algebra of the belief-MDP operator on unnormalised beliefs
        'AITB.POMDP3.mass_bstep', 'AITB.POMDP3.dotS_backupVec', 'AITB.POMDP3.Hop_mono', 'AITB.POMDP3.iterH_mono',
        # lower side: point backups, blind strategies
        'AITB.POMDP3.pointBackup_le_qval', 'AITB.POMDP3.pointBackup_sound',
        'AITB.POMDP3.blindStep_eq_backup', 'AITB.POMDP3.blindStep_sound', 'AITB.POMDP3.blindIter_sound',
        'AITB.POMDP3.const_le_iterH', 'AITB.POMDP3.iterH_superSol',
        # upper side: sublinearity, interpolation, FIB, QMDP, promising backup
        'AITB.POMDP3.Sublin_Hop', 'AITB.POMDP3.Sublin_iterH', 'AITB.POMDP3.sublin_combo', 'AITB.POMDP3.sublin_le_corners',
        'AITB.POMDP3.interp_sound', 'AITB.POMDP3.Hop_le_basicVal', 'AITB.POMDP3.fib_ge_v', 'AITB.POMDP3.fibStepW_sound', 'AITB.POMDP3.fibStep_sound',
        'AITB.POMDP3.qmdp_ge_fib_step', 'AITB.POMDP3.qmdp_ge_fib', 'AITB.POMDP3.promisingVal_ge_qval', 'AITB.POMDP3.promisingBackup_upper',
        # the two reference families and the modelled loops against them
        'AITB.POMDP3.tolLoop_inv', 'AITB.POMDP3.upperRef_superSol', 'AITB.POMDP3.upperRef_antitone', 'AITB.POMDP3.const_le_upperRef',
        'AITB.POMDP3.finite_horizon_le_upperRef', 'AITB.POMDP3.blind_fast_start_safe', 'AITB.POMDP3.blind_fast_lower', 'AITB.POMDP3.blind_plain_lower',
        'AITB.POMDP3.lowerRef_subSol', 'AITB.POMDP3.lowerRef_sublin', 'AITB.POMDP3.lowerRef_monotone', 'AITB.POMDP3.lowerRef_le_const',
        'AITB.POMDP3.fib_start_safe', 'AITB.POMDP3.fib_upper',
        # anytime solvers: event system, invariant, every prefix
        'AITB.POMDP3.isInterp_ge', 'AITB.POMDP3.Sound_step', 'AITB.POMDP3.anytime_sound', 'AITB.POMDP3.initial_sound',
        # bestConservativeAction as found / repaired, with the machine-checked witness
        'AITB.POMDP3.conservativeAlpha_sound', 'AITB.POMDP3.conservativeAlpha_src_sound', 'AITB.POMDP3.conservativeAlpha_is_backup', 'AITB.POMDP3.bestConservative_sound',
        # finite-horizon solvers, consistency of the enclosure, clamp witness, driver evaluators = reference families
        'AITB.POMDP3.backup_chain_sound', 'AITB.POMDP3.pbvi_perseus_sound', 'AITB.POMDP3.perseus_infinite_sound',
        'AITB.POMDP3.blindSub_le_mdpSuper', 'AITB.POMDP3.lowerRef_le_upperRef', 'AITB.POMDP3.blind_fast_start_unsafe_witness',
        'AITB.POMDP3.qmdp_iter_upper', 'AITB.POMDP3.qmdp_finite_upper', 'AITB.POMDP3.qmdpStep_sound', 'AITB.POMDP3.sawtooth_form_isInterp',
        'AITB.POMDP3.weighted_form_isInterp', 'AITB.POMDP3.sawtooth_sound', 'AITB.POMDP3.lpInterp_sound',
        'AITB.POMDP3.lbClause_of_sound', 'AITB.POMDP3.ubClause_of_sound', 'AITB.POMDP3.lb_le_ub_of_sound',
        'AITB.POMDP3.iterH_shift', 'AITB.POMDP3.gap_eq', 'AITB.POMDP3.gap_vanishes', 'AITB.POMDP3.lb_le_ub',
        # round 2: the driver's Refs wrapper, per-instance certificates (trace validation) and their checkers
        'AITB.POMDP3.Refs_U_eq', 'AITB.POMDP3.Refs_L_eq', 'AITB.POMDP3.refs_cU_safe', 'AITB.POMDP3.refs_cL_safe', 'AITB.POMDP3.Refs_U_superSol', 'AITB.POMDP3.Refs_L_subSol',
        'AITB.POMDP3.pointBackup_le_qval_slack', 'AITB.POMDP3.le_backup_sound_slack', 'AITB.POMDP3.le_backup_sound',
        'AITB.POMDP3.blindSub_le_mdpSuper_slack', 'AITB.POMDP3.blindSub_sound_slack', 'AITB.POMDP3.blindSub_sound',
        'AITB.POMDP3.blindCertOK_sound', 'AITB.POMDP3.backupCertOK_sound', 'AITB.POMDP3.certChain_sound',
        # round 2: SARSOP::backupNode as a composition of events; bestPromisingAction<false> as modelled is an upper bound
        'AITB.POMDP3.backupNode_lower_reach', 'AITB.POMDP3.backupNode_pool_reach', 'AITB.POMDP3.backupNode_write_reach', 'AITB.POMDP3.backupNode_sound',
        'AITB.POMDP3.sawVal_sound', 'AITB.POMDP3.sumSaw_upper', 'AITB.POMDP3.promisingActSaw_upper', 'AITB.POMDP3.maxSaw_ge', 'AITB.POMDP3.bestPromisingSaw_upper',
        'AITB.POMDP3.sosa_row_reconstructs', 'AITB.POMDP3.gapmin_select_reach', 'AITB.POMDP3.gapmin_round_sound',
        'AITB.POMDP3.sawVal_isInterp', 'AITB.POMDP3.sumSaw_spec', 'AITB.POMDP3.promisingActSaw_is_poolAdd',
        'AITB.POMDP3.lpInterp_isInterp', 'AITB.POMDP3.gapmin_ub_sound',
        'AITB.POMDP3.pbvi_warm_sound', 'AITB.POMDP3.pbvi_warm_value',
        'AITB.POMDP3.iterHV_eq', 'AITB.POMDP3.upperRefV_eq', 'AITB.POMDP3.lowerRefV_eq',
        # round 4: the 1e-6 cut-offs of the upper side (makeNewPomdp weights / empty rows, bestPromisingAction skip) with the slack they cost
        'AITB.POMDP3.shift_sublin', 'AITB.POMDP3.qval_shift', 'AITB.POMDP3.Hop_shift', 'AITB.POMDP3.shift_subSol_room', 'AITB.POMDP3.shift_subSol',
        'AITB.POMDP3.fibStepW_trunc_sound', 'AITB.POMDP3.promisingVal_trunc_ge', 'AITB.POMDP3.SoundT_step', 'AITB.POMDP3.anytimeT_sound',
        'AITB.POMDP3.truncW_residual', 'AITB.POMDP3.libCut_residual', 'AITB.POMDP3.massCut_residual', 'AITB.POMDP3.truncSlack_pays',
        'AITB.POMDP3.mass_bstep_le', 'AITB.POMDP3.pointBackup_cut_sound', 'AITB.POMDP3.cut_table_residuals', 'AITB.POMDP3.libCut_diff', 'AITB.POMDP3.pointBackup_src_cut_sound',
        'AITB.POMDP3.checkEqualSmall_zero_le', 'AITB.POMDP3.promisingActSaw_is_poolAddT', 'AITB.POMDP3.promisingActSaw_upper_trunc', 'AITB.POMDP3.backup_chain_cut_sound',
        'AITB.POMDP3.mW_valid', 'AITB.POMDP3.mW_ref_superSol', 'AITB.POMDP3.ΓW_sound',
    ],
    'gen_obligations': ['AITB.POMDP3.src_blind_start_is_min', 'AITB.POMDP3.src_fib_start_is_max', 'AITB.POMDP3.src_fib_inner_is_max', 'AITB.POMDP3.src_cons_no_skip', 'AITB.POMDP3.src_saw_is_repaired'],
    'harness': 'harness/c03.cpp',
    # the solvers are declared for every `IsModel`; a user-defined model without the Eigen interface is inside the quantifier
    'compile_probes': [{'src': 'harness/c03_probe_elementwise_fib.cpp', 'define': 'AITB_C03_ELEMENTWISE_FIB',
                        'component': 'FastInformedBound', 'kind': 'elementwise_model_does_not_compile'},
                       {'src': 'harness/c03_probe_elementwise_anytime.cpp', 'define': 'AITB_C03_ELEMENTWISE_ANYTIME',
                        'component': 'SARSOP_GapMin', 'kind': 'elementwise_model_does_not_compile'}],
    'level': 'proof',
    'timeout': {'quick': 900, 'thorough': 1800},
    'case_timeout': 240,
    'driver_jobs': 8,       # every protocol line is judged independently (the thorough tier's trace validation is the long pole)
    'driver_timeout': {'quick': 1800, 'thorough': 5400},   # trace validation of ~5000 snapshots in exact rationals

    'classify_crash': classify_crash,
    'rule': 'one case = one (POMDP, solver) pair; 22 fixed POMDPs (Tiger, 1-state clamp witnesses, corner/face initial beliefs, all-negative rewards, two S=5 GapMin regression instances, '
            '4 instances with (action, observation) pairs impossible for every successor and rewards of one sign, 2 with transition probabilities 2^-21 below the library tolerance, the two cut-off witnesses, 2 sparse models with unstored zero rewards) then '
            '28 (quick) / 288 (thorough) seeded dyadic POMDPs S<=4(5) A<=3 O<=3, discounts 1/2..15/16 (and 0.9/0.95/0.3), initial belief corner/face/interior; a quarter gets impossible (a,o) pairs '
            '(half of those rewards of one sign); model kind dense 1/2, sparse Eigen 1/4, element-wise user model 1/4 (where the instantiation compiles: compile probes); '
            'SARSOP/GapMin run in a forked child under a 40 s / 120 s wall budget (completed iterations kept); solvers: BlindStrategies (both starts), FIB+QMDP, PBVI, PERSEUS, SARSOP (<=30/80 observed iterations), GapMin (<=12/30), '
            'look-ahead kernels + helper contracts (updateBelief*, beliefExpectedReward, findBestAtPoint, extractDominated, checkEqualProbability). '
            'non-trivial = every line (each carries a full POMDP); distinct by protocol line',
    'modelled': ['include/AIToolbox/POMDP/Algorithms/BlindStrategies.hpp: operator() (both starts, clamp, tolerance loop)',
                 'include/AIToolbox/POMDP/Algorithms/FastInformedBound.hpp: operator() plain and SOSA-parameterised (GapMin belief-augmented POMDP)',
                 'include/AIToolbox/POMDP/Algorithms/QMDP.hpp + src/POMDP/Algorithms/QMDP.cpp: = C01 valueIteration + fromQFunction',
                 'include/AIToolbox/POMDP/Utils.hpp: makeSOSA, crossSumBestAtBelief (as backupVec of the linked vectors), bestConservativeAction (as found and repaired), bestPromisingAction (per-action value; sawtooth reading through the C12 model)',
                 'include/AIToolbox/POMDP/Algorithms/PBVI.hpp, PERSEUS.hpp: outer step = point backups of the previous timestep (links), any pruning',
                 'include/AIToolbox/POMDP/Algorithms/SARSOP.hpp, GapMin.hpp: event system of Props/C03Anytime.lean (NOT modelled: sampling heuristics, deltaPrune bookkeeping, selectReachableBeliefs, cleanUp index handling)',
                 'src/Utils/Polytope.cpp: LPInterpolation / sawtoothInterpolation through the C12 models (Props/C03Bridge.lean: their values are IsInterp values)',
                 'GapMin::makeNewPomdp weight / mass cut-offs, bestPromisingAction probability cut-off, Projecter possible-observation cut-off: as residual-carrying events (Props/C03Trunc.lean), slack proved'],
    'assumptions': ['V* = inf_k upperRef = sup_k lowerRef (the one step of real analysis; everything else is in exact rationals)',
                    'IEEE rounding outside the theorems: clauses on double outputs get the slack 1e-9*max(1,|R|max/(1-discount)); rows of T/O summing to 1 within 1e-12 are accepted as stochastic',
                    'a call that stops on a tolerance or horizon is sound up to the slack it reports itself (DESIGN §8 C03); zero slack where the monotone-from-a-safe-start theorems apply',
                    'soundness "at every belief" of implementation outputs is evaluated at the initial belief, all corners, the centre and the supplied beliefs; the for-all is the theorems\''],
    'trusted_base': ['tools/extract_c03.py (start reductions, clamp literal, zero-probability skip of bestConservativeAction, call sites in SARSOP/GapMin, makeNewPomdp cut-offs and belief reward rows, Projecter reward share / impossible-observation branch)'],
}
