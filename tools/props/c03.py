import re


def classify_crash(cr):
    """Attribute a crash / hang of a harness case to the library call that was running (`#in <component> …` printed just before the
    call) and to the place the sanitizer / assertion names, so that distinct defects stay distinct."""
    comp = 'C03'
    for ln in cr.get('context') or []:
        t = ln.split()
        if len(t) > 1:
            comp = t[1]
    err = cr.get('stderr_tail') or ''
    kind = cr['kind']
    if kind == 'hang':
        return (comp, 'hang')
    where = ''
    for fn, tag in (('deltaPrune', 'deltaPrune'), ('sawtoothInterpolation', 'sawtoothInterpolation'), ('LPInterpolation', 'LPInterpolation'),
                    ('cleanUp', 'cleanUp'), ('makeNewPomdp', 'makeNewPomdp'), ('selectReachableBeliefs', 'selectReachableBeliefs'),
                    ('backupNode', 'backupNode'), ('samplePoints', 'samplePoints'), ('expandLeaf', 'expandLeaf'),
                    ('SARSOP::operator()', 'main_loop'), ('GapMin::operator()', 'main_loop')):
        if fn in err:
            where = tag
            break
    what = 'crash'
    m = re.search(r'AddressSanitizer: ([\w-]+)', err)
    if m:
        what = m.group(1).replace('-', '_')
    elif 'Assertion' in err:
        what = 'assertion'
    elif 'runtime error' in err:
        what = 'ub'
    return (comp, what + ('_in_' + where if where else ''))


SPEC = {
    'id': 'C03',
    'lean_modules': ['AITB.Props.C03'],
    'theorems': [
    ],
    'harness': 'harness/c03.cpp',
    'level': 'proof',
    'timeout': {'quick': 900, 'thorough': 3000},
    'case_timeout': 90,
    'classify_crash': classify_crash,
    'rule': 'one case = one (POMDP, solver) pair; 10 fixed POMDPs (Tiger, 1-state clamp witnesses, corner/face initial beliefs, all-negative rewards) then '
            '40 (quick) / 600 (thorough) seeded dyadic POMDPs S<=4(5) A<=3 O<=3, discounts 1/2..15/16 (and 0.9/0.95/0.3), initial belief corner/face/interior; '
            'solvers: BlindStrategies (both starts), FIB+QMDP, PBVI, PERSEUS, SARSOP (<=30/120 observed iterations), GapMin (<=12/60), look-ahead kernels. '
            'non-trivial = every line (each carries a full POMDP); distinct by protocol line',
    'modelled': [],
    'assumptions': [],
}
