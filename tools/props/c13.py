SPEC = {
    'id': 'C13',
    'lean_modules': ['AITB.Props.C13'],
    'theorems': [
    ],
    'harness': 'harness/c13.cpp',
    'level': 'proof',
    'timeout': {'quick': 600, 'thorough': 3000},
    'rule': 'seeded random rule sets',
    'modelled': [],
    'assumptions': [],
}
