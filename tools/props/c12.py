def classify_crash(cr):
    """Attribute a crash/hang of a harness case to a library call site. Case 12 is the fixed witness for
    sawtoothInterpolation on an empty point set (the only call made in that case)."""
    if cr.get('case') == 12:
        return ('sawtoothInterpolation', 'crash_no_helpful_point')
    return ('C12', cr['kind'])


SPEC = {
    'id': 'C12',
    'lean_modules': ['AITB.Props.C12'],
    'theorems': [
    ],
    'harness': 'harness/c12.cpp',
    'level': 'proof',
    'timeout': {'quick': 420, 'thorough': 2400},
    'case_timeout': 60,
    'classify_crash': classify_crash,
    'rule': '16 fixed witness/regression cases, then seeded random cases: vector sets (dimension 1..6, up to 16 (quick) / 40 (thorough) vectors; '
            'duplicates, shifts straddling both tolerances, corner-only and face-tied vectors, midpoints, magnitudes 2^22) through dominates, extractDominated, '
            'extractDominatedIncremental (raw and pre-pruned old part) and Pruner; point surfaces (dimension 1..5, 0..6/10 points, zero coordinates, '
            'query equal to a stored point, corner queries, unhelpful points) through LPInterpolation and sawtoothInterpolation. '
            'non-trivial = at least two vectors / at least one stored point; distinct by protocol line',
    'modelled': ['include/AIToolbox/Utils/Polytope.hpp: dominates, findBestAtPoint, findBestAtSimplexCorner, extractBestAtPoint, extractBestAtSimplexCorners',
                 'include/AIToolbox/Utils/Prune.hpp: extractDominated, extractDominatedIncremental, Pruner::operator() (witness LP = oracle replayed from a recorded trace)',
                 'src/Utils/Polytope.cpp: LPInterpolation (LP = oracle read back from the returned weights), sawtoothInterpolation'],
    'assumptions': ['lp_solve (through AIToolbox::LP / WitnessLP) is an oracle: its answers are checked per call by exact certificates, never trusted',
                    'IEEE rounding is outside the theorems; inputs are dyadic so that the differential comparison is exact, comparisons within 1e-12 of a tolerance threshold are skipped'],
    'trusted_base': ['tools/extract_c12.py (decides which reading of four statements of Polytope.cpp the model takes)'],
}
