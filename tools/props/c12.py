def classify_crash(cr):
    """Attribute a crash/hang of a harness case to a library call site. Case 12 is the fixed witness for
    sawtoothInterpolation on an empty point set (the only call made in that case)."""
    if cr.get('case') == 12:
        return ('sawtoothInterpolation', 'crash_no_helpful_point')
    # the harness prints '#in prune S n <vectors>' before it calls Pruner: a hang/abort right after it is Pruner's
    # (i.e. its witness LP's); the magnitude class of the input is part of the clause name, as in the driver
    for ln in cr.get('context') or []:
        t = ln.split()
        if len(t) > 4 and t[1] == 'prune':
            big = False
            for tok in t[4:]:
                try:
                    m, e = tok.split('p'); big = big or abs(int(m)) * 2.0 ** int(e) >= 1e6
                except ValueError:
                    pass
            return ('WitnessLP', cr['kind'] + ('_at_magnitude_above_1e6' if big else ''))
    return ('C12', cr['kind'])


WRAPS = ['make_lp', 'delete_lp', 'add_constraint', 'del_constraint', 'resize_lp', 'set_obj', 'set_obj_fn', 'set_minim', 'set_maxim', 'set_unbounded', 'solve']

SPEC = {
    'id': 'C12',
    'lean_modules': ['AITB.Props.C12Spec', 'AITB.Props.C12Interp', 'AITB.Props.C12InterpOpt', 'AITB.Props.C12CheckSound', 'AITB.Props.C12PruneStrong', 'AITB.Props.C12InterpValue', 'AITB.Props.C12UsefulPoints', 'AITB.Props.C12Strict', 'AITB.Props.C12LpCert', 'AITB.Props.C12SawGuard', 'AITB.Props.C12WitnessLP'],
    'theorems': [
        # headline statements (library tolerances / exact reading)
        'AITB.Prune.extractDominated_spec', 'AITB.Prune.extractDominated_exact_spec',
        'AITB.Prune.incremental_eq_union_spec', 'AITB.Prune.incremental_eq_union_exact',
        'AITB.Prune.pruner_spec', 'AITB.Prune.dominates_not_transitive',
        'AITB.Prune.extractDominated_no_strong', 'AITB.Prune.extractDominated_no_strong_dominates', 'AITB.Prune.incremental_ranges',
        # generic pruning theorems (any element type, any domination test)
        'AITB.Prune.extractDominated_perm', 'AITB.Prune.extractDominated_chain', 'AITB.Prune.extractDominated_value',
        'AITB.Prune.extractDominated_value_exact', 'AITB.Prune.extractDominated_antichain',
        'AITB.Prune.incremental_perm', 'AITB.Prune.incremental_chain', 'AITB.Prune.incremental_value', 'AITB.Prune.incremental_eq_union',
        'AITB.Prune.extractDominated_congr', 'AITB.Prune.incremental_congr', 'AITB.Prune.pruner_congr',
        'AITB.Prune.extractDominated_value_mem', 'AITB.Prune.extractDominated_antichain_mem',
        'AITB.Prune.incremental_value_mem', 'AITB.Prune.incremental_eq_union_mem', 'AITB.Prune.pruner_envelope_mem',
        # Pruner::operator() against the witness-oracle contract
        'AITB.Prune.findBest_lt', 'AITB.Prune.findBest_max', 'AITB.Prune.takeOut_perm',
        'AITB.Prune.cornersLoop_perm', 'AITB.Prune.cornersLoop_witness', 'AITB.Prune.cornersLoop_witness_belief',
        'AITB.Prune.prunerLoop_perm', 'AITB.Prune.prunerLoop_envelope', 'AITB.Prune.prunerLoop_witness',
        'AITB.Prune.pruner_perm', 'AITB.Prune.pruner_envelope', 'AITB.Prune.pruner_witness',
        # soundness of the certificate checkers evaluated by the driver
        'AITB.C12Check.isBeliefB_iff', 'AITB.C12Check.domAbs_value', 'AITB.C12Check.dominatesT_domAbs', 'AITB.C12Check.dominates_value',
        'AITB.C12Check.domExact_value', 'AITB.C12Check.domExact_trans',
        'AITB.C12Check.farkasOK_sound', 'AITB.C12Check.convex_dominance_sound', 'AITB.C12Check.farkas_keep_sound',
        'AITB.C12Check.violationOK_sound', 'AITB.C12Check.neededOK_sound', 'AITB.C12Check.pairwiseOK_sound',
        'AITB.C12Check.weak_duality_sound', 'AITB.C12Check.interp_sound',
        'AITB.C12Check.envelopeClause_ok_sound', 'AITB.C12Check.envelopeClause_bad_sound', 'AITB.C12Check.envelopeClause_consistent',
        'AITB.C12Check.strictNeededOK_sound', 'AITB.C12Check.tieAtOK_sound', 'AITB.C12Check.needBad_sound', 'AITB.C12Check.neededClause_ok_sound',
        'AITB.C12Check.neededClause_bad_sound', 'AITB.C12Check.neededClause_within_sound', 'AITB.C12Check.neededClause_consistent',
        # interpolation models
        'AITB.Interp.sawLoop_minCF_nonpos', 'AITB.Interp.sawtooth_le_corner_bound', 'AITB.Interp.sawLoop_spec',
        'AITB.Interp.basicV_le_corner', 'AITB.Interp.sawtooth_repaired_total', 'AITB.Interp.sawtooth_repaired_weights',
        'AITB.Interp.sawtooth_repaired_value', 'AITB.Interp.sawtooth_repaired_weights_needs_hz',
        'AITB.Interp.sawtooth_asFound_crash_witness', 'AITB.Interp.sawtooth_asFound_uninit_witness', 'AITB.Interp.sawtooth_asFound_slot_witness',
        'AITB.Interp.lpInterp_variant_agree_full_support', 'AITB.Interp.lpInterp_asFound_slot_witness', 'AITB.Interp.lpInterp_repaired_slot_witness',
        'AITB.Interp.lpInterp_asFound_nan_witness', 'AITB.Interp.lpInterp_repaired_nan_witness', 'AITB.Interp.lpinterp_weights',
        'AITB.Interp.sawtooth_bounds', 'AITB.Interp.lpinterp_optimal', 'AITB.Interp.lpinterp_optimal_needs_mass',
        # round 3: extractBestUsefulPoints contract, what the lexicographic tie-break guarantees, LP optimality from certificates
        'AITB.UsefulPoints.bup_perm', 'AITB.UsefulPoints.bup_keys_nodup', 'AITB.UsefulPoints.bup_length_le', 'AITB.UsefulPoints.bup_complete',
        'AITB.UsefulPoints.bup_kept_mem', 'AITB.UsefulPoints.bup_kept_best',
        'AITB.Prune.veccmpGt_irrefl', 'AITB.Prune.veccmpGt_trans', 'AITB.Prune.veccmpGt_asymm', 'AITB.Prune.veccmpGt_total',
        'AITB.Prune.findBest_lexmax', 'AITB.Prune.lexmax_strict_witness', 'AITB.Prune.findBest_strict_witness', 'AITB.Prune.corner_strict_witness',
        'AITB.Prune.cornersLoop_strict', 'AITB.Prune.prunerLoop_strict', 'AITB.Prune.pruner_witness_strict',
        'AITB.Prune.noTie_selects', 'AITB.Prune.tie_selects', 'AITB.Prune.noTie_covered', 'AITB.Prune.noTie_not_strict', 'AITB.Prune.tie_strict',
        'AITB.Interp.lpPrimalFeasible_iff', 'AITB.Interp.lp_weak_duality', 'AITB.Interp.lpCertOK_eps_optimal', 'AITB.Interp.lpCertOK_optimal',
        'AITB.Interp.certifiedLp_optimal', 'AITB.Interp.lpinterp_optimal_certified', 'AITB.Interp.lpinterp_optimal_eps', 'AITB.Interp.lpinterp_optimal_certified_eps',
        'AITB.Interp.sawtoothG_false', 'AITB.Interp.sawtoothG_eq_sawtooth', 'AITB.Interp.sawtoothG_total', 'AITB.Interp.sawtoothG_weights', 'AITB.Interp.sawtoothG_bounds',
        'AITB.Interp.sawtoothG_le_corner_bound', 'AITB.Interp.sawtoothG_empty_total',
        'AITB.Interp.sawtooth_value_variant_independent', 'AITB.Interp.lpInterp_value_tail_independent',
        'AITB.Interp.sawtooth_defined_of_nonempty', 'AITB.Interp.sawtooth_none_only_if_empty',
        # round 3b: WitnessLP modelled (row scaling by a common power of two), invariance of the witness question, Pruner with the modelled WitnessLP
        'AITB.WitnessLP.pow2_pos', 'AITB.WitnessLP.scaleOfExp_pow2', 'AITB.WitnessLP.witnessScale_pow2', 'AITB.WitnessLP.witnessScale_pos',
        'AITB.WitnessLP.dot_scaleVec', 'AITB.WitnessLP.addRows_from', 'AITB.WitnessLP.posed_witnessOracle', 'AITB.WitnessLP.scaleOf_pos',
        'AITB.WitnessLP.feasible_scale', 'AITB.WitnessLP.optimum_scale', 'AITB.WitnessLP.witness_scale', 'AITB.WitnessLP.exists_margin',
        'AITB.WitnessLP.exists_lower', 'AITB.WitnessLP.feasible_of_free', 'AITB.WitnessLP.feasible_asFound_iff', 'AITB.WitnessLP.witnessOracle_some', 'AITB.WitnessLP.witnessOracle_none', 'AITB.WitnessLP.pow2_ilogb_le', 'AITB.WitnessLP.inv_scaleOfExp_le',
        'AITB.WitnessLP.inv_witnessScale_le', 'AITB.WitnessLP.maxAbsV_le', 'AITB.WitnessLP.inv_scaleOf_le',
        'AITB.Prune.prunerLoop_oracle_congr', 'AITB.Prune.pruner_oracle_congr', 'AITB.Prune.pruner_lp_spec',
    ],
    'harness': 'harness/c12.cpp',
    'harness_flags': ['-Wl,--wrap=' + w for w in WRAPS],
    'level': 'proof',
    'timeout': {'quick': 420, 'thorough': 2400},
    'case_timeout': 60,
    'classify_crash': classify_crash,
    'rule': '27 fixed witness/regression cases (24: mixed magnitudes 2^17..2^28 with vectors only the witness LP finds, used Pruner objects; 25: WitnessLP at the boundaries of its row scaling; '
            '26: frozen witness of C12-witnesslp-mixed-magnitudes; 18-21: exact corner ties in dimension 3-4, every input order; 22: within-tolerance near-tie; 23: frozen lp_solve cycling input), then 2500 (quick) / 12000 (thorough) seeded random cases: vector sets (dimension 1..6, up to 16 / 40 vectors; '
            'duplicates, shifts straddling both tolerances, corner-only and face-tied vectors, midpoints, magnitudes 2^22) through dominates, findBestAt*, '
            'extractDominated, extractDominatedIncremental (raw and pre-pruned old part) and Pruner; point surfaces (dimension 1..5, 0..6/10 points, zero '
            'coordinates, coordinates of size 2^-21 / 2^-19, query equal to a stored point, corner queries, unhelpful points, magnitudes 2^20) through '
            'LPInterpolation and sawtoothInterpolation; then 700 (quick) / 4000 (thorough) mixed-magnitude cases (entries 2^17..2^28 next to order-one and 2^-20 entries inside one set, mid-face winners) '
            'through Pruner (fresh and used objects), extractDominated+Pruner, Pruner+extractDominatedIncremental+Pruner, WitnessLP directly, LPInterpolation/sawtooth with one huge state. '
            'Every LP handed to lp_solve is recorded at link time and compared with the model. non-trivial = at least two vectors / at least one stored point; distinct by protocol line',
    'modelled': ['include/AIToolbox/Utils/Polytope.hpp: dominates, findBestAtPoint, findBestAtSimplexCorner, extractBestAtPoint, extractBestAtSimplexCorners',
                 'include/AIToolbox/Utils/Prune.hpp: extractDominated, extractDominatedIncremental, Pruner::operator() (witness LP = oracle replayed from a recorded trace)',
                 'src/Utils/Polytope.cpp: LPInterpolation (LP = oracle read back from the returned weights), sawtoothInterpolation',
                 'include/AIToolbox/Utils/Polytope.hpp: extractBestUsefulPoints (AITB.Model.UsefulPoints, array reproduced slot for slot)',
                 'src/Utils/Polytope.cpp: WitnessLP (witnessScale, reset, addOptimalRow, findWitness: AITB.Model.WitnessLP; the rows lp_solve receives are compared coefficient by coefficient), the LP of LPInterpolation (interpRows)',
                 'src/Utils/LP/LpSolveWrapper.cpp: pushRow / popRow / resize / solve pass rows and answers through unchanged (bodies pinned by tools/extract_c12.py, observed by link-time interception)'],
    'assumptions': ['lp_solve (through AIToolbox::LP / WitnessLP) is an oracle: its answers are checked per call by exact certificates, never trusted',
                    'IEEE rounding is outside the theorems; inputs are dyadic so that the differential comparison is exact, comparisons within 1e-12 of a tolerance threshold are skipped'],
    'trusted_base': ['tools/extract_c12.py (decides which reading of four statements of Polytope.cpp the model takes; pins the bodies of WitnessLP and of the LP wrapper)',
                     'GNU ld --wrap interception of make_lp / delete_lp / add_constraint / del_constraint / resize_lp / set_obj / set_obj_fn / set_minim / set_maxim / set_unbounded / solve'],
}
