SPEC = {
    'id': 'C19',
    'lean_modules': ['AITB.Props.C19'],
    'theorems': [
    ],
    'harness': 'harness/c19.cpp',
    'level': 'proof',
    'timeout': {'quick': 400, 'thorough': 2400},
    'case_timeout': 120,
    'rule': 'seeded episodes: one planner object (MCTS fixed/variable action space, POMCP, rPOMCP) driven through 1..4 sampleAction calls',
    'modelled': [],
    'assumptions': [],
}
