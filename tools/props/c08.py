import os, re

_D = 'AITB.Sampling.'


def _harness_flags():
    # the two-argument sampleDirichletDistribution overload only instantiates when the three-argument
    # one is declared before it (fixes/C08-5); the harness calls it when it can
    try:
        src = open(os.path.join(os.environ.get('AITB_REPO', '/repo'), 'include/AIToolbox/Utils/Probability.hpp')).read()
    except OSError:
        return ()
    flags = []
    if re.search(r'void\s+sampleDirichletDistribution\s*\([^)]*\)\s*;', src):
        flags.append('-DC08_DIRICHLET_2ARG')
    # fixes/C08-6: Dirichlet / Beta sample log-gammas through sampleLogGammaDistribution; the harness then replays that helper
    # fixes/C08-8: the plain gamma draws are kept and the helper is used only when every draw underflowed to 0
    if re.search(r'double\s+sampleLogGammaDistribution\s*\(', src):
        flags.append('-DC08_GAMMA_FALLBACK' if re.search(r'if\s*\(\s*sum\s*==\s*0\.0\s*\)', src) else '-DC08_LOG_GAMMA')
    # fixes/C08-7: do the NO_CHECK constructors of the POMDP models seed their engine?  the harness mirrors the code as it is
    try:
        pm = open(os.path.join(os.environ.get('AITB_REPO', '/repo'), 'include/AIToolbox/POMDP/Model.hpp')).read()
        sm = open(os.path.join(os.environ.get('AITB_REPO', '/repo'), 'include/AIToolbox/POMDP/SparseModel.hpp')).read()
        pat = r'::(?:Sparse)?Model\(NoCheck[^{]*?rand_\(Seeder::getSeed\(\)\)[^{]*\{'
        if re.search(pat, re.sub(r'\s+', '', pm)) and re.search(pat, re.sub(r'\s+', '', sm)):
            flags.append('-DC08_POMDP_NOCHECK_SEEDED=true')
    except OSError:
        pass
    # fixes/C08-9: do the learned factored models seed their engine?
    try:
        cm = re.sub(r'\s+', '', open(os.path.join(os.environ.get('AITB_REPO', '/repo'), 'src/Factored/MDP/CooperativeMaximumLikelihoodModel.cpp')).read())
        # (the initialiser list itself contains braces: `transitions_({experience_.getGraph(), {}})`)
        if re.search(r'CooperativeMaximumLikelihoodModel::CooperativeMaximumLikelihoodModel\([^)]*\):[^;]*?rand_\(Seeder::getSeed\(\)\)\{setDiscount', cm):
            flags.append('-DC08_FACTORED_LEARNED_SEEDED=true')
    except OSError:
        pass
    return tuple(flags)



SPEC = {
    'id': 'C08',
    'lean_modules': ['AITB.Props.C08Dense', 'AITB.Props.C08Project', 'AITB.Props.C08Vose', 'AITB.Props.C08', 'AITB.Props.C08Measure', 'AITB.Props.C08Round', 'AITB.Props.C08Models', 'AITB.Props.C08Chain'],
    'theorems': [_D + t for t in [
        # dense inverse-CDF scan (sampleProbability, dense template)
        'dense_in_range', 'dense_preimage', 'dense_interval_length', 'dense_preimage_sum_one',
        'dense_zero_only_slack', 'dense_slack_last',
        # range safety for ANY comparison / subtraction (covers IEEE rounding and NaN comparisons)
        'denseA_in_range', 'denseA_exact', 'sparseFixedA_in_support', 'sparseFixedA_exact', 'sparseA_none_of_all_false', 'sparseGoA_exact',
        'dense_preimage_unit', 'dense_preimage_length_valid', 'dense_preimage_length_exact',
        # sparse row scan: partial totality, walk-off characterisation, refutation of totality, repaired scan
        'sparse_scan_char', 'sparse_total_partial', 'sparse_walks_off', 'sparse_total_counterexample',
        'sparseFixed_in_support', 'sparseFixed_char', 'sparseFixed_agrees',
        # the sparse scan equals the dense scan of the row's dense expansion (ties sparse model objects to sampleDense)
        'sparse_eq_dense_expansion', 'expandRow_sum', 'expandRow_getD',
        # model sampling compositions
        'sampleSR_spec', 'sampleSR_follows_row', 'sampleSOR_spec', 'sampleFactored_in_range',
        # projectToProbability: repaired version at full strength, current version partial + refuted
        'projectFixed_valid', 'projectFixed_fixes_valid', 'projectFixed_length', 'project_length',
        'project_valid_partial', 'project_eq_fixed_off_tolerance', 'project_mask_when_sum_one', 'project_sum_one_invalid',
        'project_valid_counterexample', 'project_fixes_valid_counterexample', 'project_zero_counterexample',
        # makeRandomProbability
        'spacings_sum', 'spacings_nonneg', 'randomProbability_valid', 'randomProbability_isProb', 'randomProbability_perm_invariant',
        # the driver's clause for the inverse-CDF samplers is sound and complete; sparse isProbability overload
        'intervalSpec_iff', 'intervalSpec_iff_sample', 'isProbSparse_of_isProb', 'isProbSparse_accepts_negative',
        # alias table: sampling rule, checker, refutation for the constructor as it is
        'alias_preimage', 'alias_in_range', 'aliasSample_in_range', 'alias_table_sound', 'alias_table_sound_exact',
        'vose_current_example_uniform', 'vose_current_example_reprocessed', 'vose_correct_counterexample',
        'vose_correct_counterexample_below_avg',
        # the constructor as it is never produces an out-of-range alias (partial); any in-range table has total mass one
        'vose_current_lengths', 'vose_current_alias_in_range', 'aliasMass_total',
        # model fidelity: the fuel of the modelled loops never cuts them short
        'vose_current_loop_exits', 'vose_fixed_loop_exits', 'vose_current_sweep_fuel',
        # the repaired constructor: full-strength correctness for every valid distribution of every length
        'vose_correct', 'vose_correct_slack', 'vose_correct_valid', 'vose_correct_any_avg', 'vose_correct_double_avg', 'vose_mass_error_sign_and_sum', 'vose_correct_tableOk', 'vose_fixed_lengths', 'vose_fixed_alias_in_range', 'vose_correct_isProb_in_range',
        # the property stated literally: SelectsWithProb f j q := the draws in [0,1) mapped to j are a finite disjoint union of half-open
        # intervals of total length q; q is unique (selects_unique)
        'dense_cert', 'dense_selects_exact', 'dense_selects_valid', 'dense_selects_out_of_range', 'alias_cert', 'vose_selects',
        'sparseFixed_selects', 'sparseFixed_selects_valid', 'selects_unique', 'selects_prob_unique',
        'sampleSR_selects', 'sampleSR_reward', 'sampleSOR_obs_selects', 'sampleSOR_state', 'not_selects_current_vose', 'selects_current_vose_half',
        'sparse_current_selects_exact', 'sparse_current_not_total_selects', 'projectFixed_idempotent',
        # robustness against rounding of the subtraction (|sub a b - (a-b)| <= eps): breakpoints move by <= k*eps; agreement away from breakpoints
        'denseA_round_bounds', 'denseA_round_agrees', 'spacingsA_round', 'makeRandomProbabilityA_round',
        # round 2: model objects as compositions over the STORED sparse rows; the cooperative factored model (DDN row ids, factored rewards);
        # gamma-based samplers as functions of positive gamma draws
        'sampleSRSparse_spec', 'sampleSRSparse_selects', 'sampleSORSparse_spec', 'sampleSORSparse_state_in_support', 'sampleSORSparse_obs_selects',
        'sampleORSparse_selects', 'sampleORSparse_reward', 'sampleORSparse_in_support', 'sparseFixed_eq_dense_expansion', 'sampleSRSparse_eq_dense',
        'ddnStartIds_getD', 'ddnStartIds_last', 'ddnStartIds_length', 'ddnGetId_lt_size', 'ddnGetId_in_block', 'ddnGetId_lt_size_valid',
        'ddnGetId_injective_on_action_blocks', 'coopSampleS_length', 'coopSampleS_getD', 'coopSampleS_in_range', 'coopSampleS_factor_selects',
        'coopSampleS_other_factor', 'coop_rewards_sum', 'coop_same_state', 'coop_reward_independent_of_draws',
        'dirichlet_valid', 'dirichlet_isProb', 'dirichlet_valid_nonneg', 'dirichlet_all_zero_invalid', 'dirichlet_scale_invariant',
        'beta_in_unit', 'beta_complement', 'beta_eq_dirichlet', 'beta_scale_invariant', 'dirichlet_valid_of_max_one', 'dirichlet_max_shift',
        # joint distributions: the draw vectors mapped to an outcome form a box whose volume is the product of the table entries
        'sampleSOR_selects_jointly', 'coopSampleS_selects_jointly', 'sampleSORSparse_selects_jointly',
        'sampleSOR_box', 'sampleSOR_box_area', 'sampleSORSparse_box', 'coopSampleS_box', 'ddnTransitionProbability_nonneg',
        # exact-arithmetic justification of fixes/C08-4 (scale by the largest entry, then normalise)
        'normalize_scaled_eq',
        # end-to-end statements for the code as it is now (constructor + sampler, tolerance, double avg)
        'vose_sampler_in_range', 'vose_selects_valid', 'vose_selects_double_avg', 'sampleSRSparse_selects_valid', 'coopSampleS_factor_selects_valid',
        'sampleSOR_obs_selects_valid', 'sampleSORSparse_obs_selects_valid', 'sampleORSparse_selects_valid', 'dirichlet_as_projection',
        # round 4: the matrix overloads of isProbability decide what the 1-D template decides, row by row; an accepted table
        # satisfies the hypotheses of the sampler theorems row by row
        'minCoeff_neg_iff', 'isProbRowMin_eq_isProb', 'isProbMatrix2D_eq_table', 'isProbMatrix3D_eq_table', 'isProbMatrix2D_iff',
        'isProbSparse2D_iff', 'isProbSparse2D_rejects_negative', 'isProbSparse2D_rows_select_valid', 'isProbMatrix2D_rows_select_valid',
        # round 4: sequences of samples through one engine, rows depending on the whole history (every length): one box of draw
        # vectors whose volume is the product of the table entries; MDP / POMDP rollouts; a copied engine breaks it
        'chainGo_length', 'chainGo_eq_iff', 'chainGo_box', 'chainProb_eq_prod', 'chain_selects_jointly',
        'mdpRollout_selects_jointly', 'pomdpRollout_selects_jointly', 'mdpRollout_head', 'pomdpRollout_head', 'copied_engine_not_product',
        # the same for every table accepted by isProbability: one box, each factor within 1e-6 of the table entry
        'unitSide_iff', 'unitSide_len', 'unitSide_wf', 'chainGo_box_valid', 'chain_selects_jointly_valid', 'mdpRollout_selects_jointly_valid',
        'coopRollout_selects_jointly', 'coopRollout_head',
        # round 4: Dirichlet / Beta with the underflow fallback of fixes/C08-8: valid for EVERY outcome of the gamma draws; ordinary draws untouched
        # round 4: bandit models (reward samples): arm index in range for every joint action and every flattened id; reward inside the arm's support
        'toFactors_valid', 'fb_arm_in_range', 'flat_arm_in_range', 'armSample_in_range', 'fbSampleR_length', 'fbSampleR_getD',
        'dirichletWithFallback_valid', 'dirichletWithFallback_isProb', 'dirichletWithFallback_eq_plain', 'betaWithFallback_in_unit',
    ]],
    'harness': 'harness/c08.cpp',
    'harness_flags': _harness_flags(),
    'level': 'proof',
    'timeout': {'quick': 400, 'thorough': 2400},
    'rule': 'seeded distributions (lengths 1..12 quick / 1..64 thorough; zeros anywhere, mass at first/last index, above-average first entry, '
            'sums 1+-2^-21, 1+-2^-20, uniform, thirds/tenths) x a sweep of exactly scripted draws (0, 1/2, 1-2^-53, every breakpoint and its two 2^-53 '
            'neighbours, draws in the last 1e-6 of [0,1), random) for the dense and sparse samplers; alias tables reconstructed from behaviour by bisection '
            'over the 53-bit draw grid; projection inputs (valid, any sign, all negative, zero sum, near-tolerance); scripted makeRandomProbability draws; '
            'MDP/POMDP dense and sparse model objects with the object\'s mt19937 mirrored (Seeder mirrored independently of the library), built on four routes (tables, NO_CHECK, setters, copy); '
            'round 4: D x R x C tables with one defective row for the six matrix overloads of isProbability; rollouts (1..10/24 steps, history-dependent actions) on MDP/POMDP/cooperative objects; '
            'CooperativeModel over random DDNs (non-uniform sizes, non-prefix tags of up to three keys); learned models (MaximumLikelihoodModel, sparse, cooperative); factored bandits (joint actions and flattened ids). '
            'non-trivial = length >= 2; distinct by protocol line',
    'modelled': ['include/AIToolbox/Utils/Probability.hpp: isProbability (template), sampleProbability (dense template, sparse-row overload), '
                 'makeRandomProbability, VoseAliasSampler::sampleProbability',
                 'src/Utils/Probability.cpp: projectToProbability, VoseAliasSampler::VoseAliasSampler',
                 'src/MDP/Model.cpp, src/MDP/SparseModel.cpp: sampleSR; include/AIToolbox/POMDP/Model.hpp, SparseModel.hpp: sampleSOR, sampleOR (as compositions)',
                 'src/Factored/MDP/CooperativeModel.cpp: sampleSR, sampleSRs (per-factor scans, factored reward, per-basis rewards); '
                 'src/Factored/Utils/BayesianNetwork.cpp: DDNGraph::push (startIds_), getIds, getId, DDN::getTransitionProbability; '
                 'src/Factored/Utils/FactoredMatrix.cpp: FactoredMatrix2D::getValue — all driven by the harness with the whole model on the protocol line',
                 'src/MDP/SparseModel.cpp sampleSR, include/AIToolbox/POMDP/SparseModel.hpp sampleSOR/sampleOR over the stored sparse rows and the stored reward table',
                 'include/AIToolbox/Utils/Probability.hpp: sampleDirichletDistribution, sampleBetaDistribution as functions of their gamma draws',
                 'round 4: src/Utils/Probability.cpp + Probability.hpp: all six matrix overloads of isProbability (SparseMatrix2D as after 54353bc); sequences of samples through one engine (rollouts of MDP::Model::sampleSR, POMDP::Model::sampleSOR, CooperativeModel::sampleSR); '
                 'MaximumLikelihoodModel / SparseMaximumLikelihoodModel / CooperativeMaximumLikelihoodModel::sampleSR (same compositions); Bandit::Model, Factored::Bandit::Model, FlattenedModel::sampleR; '
                 'engine seeding of all 25 constructors of the sampling objects (translator: member initialisers; harness: inverse-CDF images of an independently seeded mt19937)'],
    'assumptions': ['libstdc++ std::uniform_real_distribution<double>(a,b) draws one canonical u in [0,1) per call (2 engine words) and returns a+u*(b-a); the harness measures the value it returns for the scripted words, the driver checks the word count',
                    'std::sort is modelled by List.mergeSort (result depends only on the multiset: randomProbability_perm_invariant)',
                    'VoseAliasSampler table is private: reconstructed behaviourally (switch point of each column found by bisection), cross-checked by vsample lines',
                    'avg = 1.0/n is passed to the model as the exact double the code computes; vose_correct instantiates avg = 1/n, vose_correct_any_avg / vose_correct_double_avg bound the effect of avg = fl(1/n)',
                    'Eigen compressed row-major storage: InnerIterator of a row visits its stored entries in column order',
                    'AIToolbox::Seeder hands out the successive words of an mt19937 seeded with the root seed (uniform_int_distribution<unsigned>(0, max) on a 32-bit engine of full range returns the raw word): mirrored by the harness without calling the library; the text of getSeed / setRootSeed is pinned',
                    'Bandit arms are std::uniform_real_distribution<double>(lo, hi): a + u*(b-a) for the canonical draw u (compared to 1e-9; the upper end may be reached by rounding)',
                    'std::gamma_distribution is not modelled: its draws are replayed from a copy of the engine and assumed positive and finite (draws that underflow to 0 are skipped and counted)',
                    'projectToProbability: finite inputs only (NaN / +-inf entries are outside the quantifier, see docs/C08.md); overflow of the double sum is finding C08-project-sum-overflow'],
}
