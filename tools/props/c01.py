SPEC = {
    'id': 'C01',
    'lean_modules': ['AITB.Props.C01'],
    'theorems': [
        'AITB.MDP.bellman_contraction',
    ],
    'harness': 'harness/c01.cpp',
    'level': 'proof',
    'timeout': {'quick': 600, 'thorough': 3000},
    'case_timeout': 60,
    'compile_probes': [{'src': 'harness/c01_probe_lp_sparse.cpp', 'define': 'C01_HAVE_LP_SPARSE',
                        'component': 'LinearProgramming', 'kind': 'sparse_model_does_not_compile'}],
    'crash_component': 'C01',
    'rule': 'seeded random MDPs (S<=6,A<=4 quick / S<=12,A<=6 thorough; deterministic, absorbing, unreachable, self-loop rows; A=1; S=1; '
            'rewards of both signs, scales 2^-4..2^6) in a dyadic stream (bit-exact comparison) and an "ugly" stream (1/10,1/3,1/7 probabilities, '
            'discounts 0.9,0.95,0.99,1/3,0.1; 1e-9 comparison), each supplied as dense, sparse, learned and user-defined model and run through '
            'VI (tolerance 0, h<=8; warm start; tolerance runs), PolicyEvaluation, PolicyIteration, LinearProgramming. '
            'non-trivial = S>1 or A>1; distinct by protocol line',
    'modelled': ['include/AIToolbox/MDP/Utils.hpp computeImmediateRewards/computeQFunction (Eigen + generic)', 'src/MDP/Utils.cpp bellmanOperatorInplace',
                 'ValueIteration::operator()', 'PolicyEvaluation::operator()', 'PolicyIteration::operator() (fuel added)',
                 'QGreedyPolicyWrapper::getPolicy', 'LinearProgramming::operator() rows + result assembly (lp_solve not modelled: its answer is checked)'],
    'assumptions': ['double arithmetic read as exact rational arithmetic; Eigen dense/sparse products read as left-to-right sums',
                    'lp_solve is an untrusted oracle: its output is checked for feasibility and Bellman residual, not modelled'],
}
