import os
"""C10(a): instantiation units. Each unit is one translation unit that forces a class template
(explicit instantiation: every member function) or a member-function template (odr-use in a
never-called function) to instantiate with a library type satisfying its stated concept."""

A = 'AIToolbox::'
MDP_MODELS = {
    'Model': (A + 'MDP::Model', ['MDP/Model.hpp']),
    'SparseModel': (A + 'MDP::SparseModel', ['MDP/SparseModel.hpp']),
    'MLM_E': (A + 'MDP::MaximumLikelihoodModel<' + A + 'MDP::Experience>', ['MDP/MaximumLikelihoodModel.hpp', 'MDP/Experience.hpp']),
    'MLM_SE': (A + 'MDP::MaximumLikelihoodModel<' + A + 'MDP::SparseExperience>', ['MDP/MaximumLikelihoodModel.hpp', 'MDP/SparseExperience.hpp']),
    'SMLM_SE': (A + 'MDP::SparseMaximumLikelihoodModel<' + A + 'MDP::SparseExperience>', ['MDP/SparseMaximumLikelihoodModel.hpp', 'MDP/SparseExperience.hpp']),
    'Thompson_E': (A + 'MDP::ThompsonModel<' + A + 'MDP::Experience>', ['MDP/ThompsonModel.hpp', 'MDP/Experience.hpp']),
}
EXPERIENCES = {
    'E': (A + 'MDP::Experience', ['MDP/Experience.hpp']),
    'SE': (A + 'MDP::SparseExperience', ['MDP/SparseExperience.hpp']),
}
POMDP_MODELS = {
    'PM_M': (A + 'POMDP::Model<' + A + 'MDP::Model>', ['POMDP/Model.hpp', 'MDP/Model.hpp']),
    'PSM_SM': (A + 'POMDP::SparseModel<' + A + 'MDP::SparseModel>', ['POMDP/SparseModel.hpp', 'MDP/SparseModel.hpp']),
    'PM_SM': (A + 'POMDP::Model<' + A + 'MDP::SparseModel>', ['POMDP/Model.hpp', 'MDP/SparseModel.hpp']),
    'PSM_M': (A + 'POMDP::SparseModel<' + A + 'MDP::Model>', ['POMDP/SparseModel.hpp', 'MDP/Model.hpp']),
}


def units():
    U = []

    def add(uid, includes, code):
        U.append({'id': uid, 'src': ''.join('#include <AIToolbox/%s>\n' % i for i in includes) + code + '\n'})

    # --- class templates over experiences
    for k, (t, inc) in EXPERIENCES.items():
        add('MaximumLikelihoodModel<%s>' % k, ['MDP/MaximumLikelihoodModel.hpp'] + inc, 'template class %sMDP::MaximumLikelihoodModel<%s>;' % (A, t))
        add('SparseMaximumLikelihoodModel<%s>' % k, ['MDP/SparseMaximumLikelihoodModel.hpp'] + inc, 'template class %sMDP::SparseMaximumLikelihoodModel<%s>;' % (A, t))
        add('ThompsonModel<%s>' % k, ['MDP/ThompsonModel.hpp'] + inc, 'template class %sMDP::ThompsonModel<%s>;' % (A, t))
    # --- class templates over MDP models
    for k, (t, inc) in MDP_MODELS.items():
        add('PolicyEvaluation<%s>' % k, ['MDP/Algorithms/Utils/PolicyEvaluation.hpp'] + inc, 'template class %sMDP::PolicyEvaluation<%s>;' % (A, t))
        add('PrioritizedSweeping<%s>' % k, ['MDP/Algorithms/PrioritizedSweeping.hpp'] + inc, 'template class %sMDP::PrioritizedSweeping<%s>;' % (A, t))
        add('DynaQ<%s>' % k, ['MDP/Algorithms/DynaQ.hpp'] + inc, 'template class %sMDP::DynaQ<%s>;' % (A, t))
        add('Dyna2<%s>' % k, ['MDP/Algorithms/Dyna2.hpp'] + inc, 'template class %sMDP::Dyna2<%s>;' % (A, t))
        add('MCTS<%s>' % k, ['MDP/Algorithms/MCTS.hpp'] + inc, 'template class %sMDP::MCTS<%s>;' % (A, t))
        if k in ('Model', 'SparseModel'):
            add('POMDP::Model<%s>' % k, ['POMDP/Model.hpp'] + inc, 'template class %sPOMDP::Model<%s>;' % (A, t))
            add('POMDP::SparseModel<%s>' % k, ['POMDP/SparseModel.hpp'] + inc, 'template class %sPOMDP::SparseModel<%s>;' % (A, t))
        # member-function templates of the MDP planners
        add('ValueIteration()<%s>' % k, ['MDP/Algorithms/ValueIteration.hpp'] + inc, 'void use(const %s & m) { %sMDP::ValueIteration s(1); s(m); }' % (t, A))
        add('PolicyIteration()<%s>' % k, ['MDP/Algorithms/PolicyIteration.hpp'] + inc, 'void use(const %s & m) { %sMDP::PolicyIteration s(1); s(m); }' % (t, A))
        add('MDP::LinearProgramming()<%s>' % k, ['MDP/Algorithms/LinearProgramming.hpp'] + inc, 'void use(const %s & m) { %sMDP::LinearProgramming s; s(m); }' % (t, A))
    # --- POMDP
    for k, (t, inc) in POMDP_MODELS.items():
        add('POMCP<%s>' % k, ['POMDP/Algorithms/POMCP.hpp'] + inc, 'template class %sPOMDP::POMCP<%s>;' % (A, t))
        add('rPOMCP<%s,true>' % k, ['POMDP/Algorithms/rPOMCP.hpp'] + inc, 'template class %sPOMDP::rPOMCP<%s, true>;' % (A, t))
        add('rPOMCP<%s,false>' % k, ['POMDP/Algorithms/rPOMCP.hpp'] + inc, 'template class %sPOMDP::rPOMCP<%s, false>;' % (A, t))
        add('RTBSS<%s>' % k, ['POMDP/Algorithms/RTBSS.hpp'] + inc, 'template class %sPOMDP::RTBSS<%s>;' % (A, t))
        add('BeliefGenerator<%s>' % k, ['POMDP/Utils.hpp', 'POMDP/Algorithms/Utils/BeliefGenerator.hpp'] + inc, 'template class %sPOMDP::BeliefGenerator<%s>;' % (A, t))
        add('Projecter<%s>' % k, ['Utils/Core.hpp', 'POMDP/Utils.hpp', 'POMDP/Algorithms/Utils/Projecter.hpp'] + inc, 'template class %sPOMDP::Projecter<%s>;' % (A, t))
        for cls, hdr, call in [
            ('IncrementalPruning', 'POMDP/Algorithms/IncrementalPruning.hpp', 'S s(1, 0.0); s(m);'),
            ('Witness', 'POMDP/Algorithms/Witness.hpp', 'S s(1, 0.0); s(m);'),
            ('LinearSupport', 'POMDP/Algorithms/LinearSupport.hpp', 'S s(1, 0.0); s(m);'),
            ('PBVI', 'POMDP/Algorithms/PBVI.hpp', 'S s(1, 1, 0.0); s(m);'),
            ('PERSEUS', 'POMDP/Algorithms/PERSEUS.hpp', 'S s(1, 1, 0.0); s(m, 0.0);'),
            ('AMDP', 'POMDP/Algorithms/AMDP.hpp', 'S s(1, 2); s.discretizeDense(m); s.discretizeSparse(m);'),
            ('FastInformedBound', 'POMDP/Algorithms/FastInformedBound.hpp', 'S s(1); s(m);'),
            ('QMDP', 'POMDP/Algorithms/QMDP.hpp', 'S s(1); s(m);'),
            ('BlindStrategies', 'POMDP/Algorithms/BlindStrategies.hpp', 'S s(1); s(m, true);'),
            ('SARSOP', 'POMDP/Algorithms/SARSOP.hpp', 'S s(1.0); %sPOMDP::Belief b; s(m, b);' % A),
            ('GapMin', 'POMDP/Algorithms/GapMin.hpp', 'S s(1.0, 3); %sPOMDP::Belief b; s(m, b);' % A),
        ]:
            add('%s()<%s>' % (cls, k), [hdr] + inc, 'void use(const %s & m) { using S = %sPOMDP::%s; %s }' % (t, A, cls, call))
        add('POMDP::Utils<%s>' % k, ['POMDP/Utils.hpp'] + inc,
            'void use(const %s & m) { %sPOMDP::Belief b, o; %sPOMDP::updateBelief(m, b, 0, 0); %sPOMDP::updateBeliefUnnormalized(m, b, 0, 0); '
            '%sPOMDP::updateBeliefPartial(m, b, 0); %sPOMDP::beliefExpectedReward(m, b, 0); %sPOMDP::makeSOSA(m); }' % (t, A, A, A, A, A, A))
        if 'Sparse' in t.split('<')[0]:
            # declared and documented, so a program using it must also LINK (a template member declared but never defined compiles)
            U.append({'id': 'link:getObservationProbability(b,o,a)<%s>' % k, 'link': True,
                      'src': ''.join('#include <AIToolbox/%s>\n' % i for i in inc) +
                             'int main() { %s * m = nullptr; %sPOMDP::Belief b; return m ? (int)m->getObservationProbability(b, 0, 0) : 0; }\n' % (t, A)})
    # --- factored / bandit class templates
    add('FilterMap<int,Trie>', ['Factored/Utils/FilterMap.hpp', 'Factored/Utils/Trie.hpp'], 'template class %sFactored::FilterMap<int, %sFactored::Trie>;' % (A, A))
    # FilterMap::filter(PartialFactors) is documented as available only if the TrieType supports it: with the default FasterTrie use the other members
    add('FilterMap<int,FasterTrie>', ['Factored/Utils/FilterMap.hpp', 'Factored/Utils/FasterTrie.hpp'],
        'void use() { %sFactored::FilterMap<int, %sFactored::FasterTrie> m(%sFactored::Factors{2, 2}); m.emplace(%sFactored::PartialFactors{{0}, {1}}, 3); '
        'auto it = m.filter(%sFactored::Factors{1, 0}); for (auto & x : it) (void)x; (void)m.size(); (void)m.getTrie(); m.reserve(2); (void)m.begin(); (void)m.end(); }' % (A, A, A, A, A))
    add('FactorGraph<Vector>', ['Factored/Utils/FactorGraph.hpp'], 'template class %sFactored::FactorGraph<%sVector>;' % (A, A))
    add('IndexMap<vector,vector>', ['Utils/IndexMap.hpp'], '#include <vector>\ntemplate class %sIndexMap<std::vector<size_t>, std::vector<double>>;' % A)
    add('IndexSkipMap<vector,vector>', ['Utils/IndexMap.hpp'], '#include <vector>\ntemplate class %sIndexSkipMap<std::vector<size_t>, std::vector<double>>;' % A)
    add('SubsetEnumerator<size_t>', ['Utils/Combinatorics.hpp'], 'template class %sSubsetEnumerator<size_t>;' % A)
    add('Bandit::Model<normal>', ['Bandit/Model.hpp'], '#include <random>\ntemplate class %sBandit::Model<std::normal_distribution<double>>;' % A)
    add('Factored::Bandit::Model<normal>', ['Factored/Bandit/Model.hpp'], '#include <random>\ntemplate class %sFactored::Bandit::Model<std::normal_distribution<double>>;' % A)
    add('FlattenedModel<normal>', ['Factored/Bandit/FlattenedModel.hpp'], '#include <random>\ntemplate class %sFactored::Bandit::FlattenedModel<std::normal_distribution<double>>;' % A)
    for mx, hdr in [('VariableElimination', 'Factored/Bandit/Algorithms/Utils/VariableElimination.hpp'), ('LocalSearch', 'Factored/Bandit/Algorithms/Utils/LocalSearch.hpp'),
                    ('MaxPlus', 'Factored/Bandit/Algorithms/Utils/MaxPlus.hpp'), ('ReusingIterativeLocalSearch', 'Factored/Bandit/Algorithms/Utils/ReusingIterativeLocalSearch.hpp')]:
        add('Factored::Bandit::QGreedyPolicy<%s>' % mx, ['Factored/Bandit/Policies/QGreedyPolicy.hpp', hdr], 'template class %sFactored::Bandit::QGreedyPolicy<%sFactored::Bandit::%s>;' % (A, A, mx))
        add('Factored::MDP::QGreedyPolicy<%s>' % mx, ['Factored/MDP/Policies/QGreedyPolicy.hpp', hdr], 'template class %sFactored::MDP::QGreedyPolicy<%sFactored::Bandit::%s>;' % (A, A, mx))
    add('CooperativePrioritizedSweeping<CooperativeModel,VE>', ['Factored/MDP/Algorithms/CooperativePrioritizedSweeping.hpp', 'Factored/MDP/CooperativeModel.hpp'],
        'template class %sFactored::MDP::CooperativePrioritizedSweeping<%sFactored::MDP::CooperativeModel>;' % (A, A))
    add('CooperativePrioritizedSweeping<CooperativeMLM,VE>', ['Factored/MDP/Algorithms/CooperativePrioritizedSweeping.hpp', 'Factored/MDP/CooperativeMaximumLikelihoodModel.hpp'],
        'template class %sFactored::MDP::CooperativePrioritizedSweeping<%sFactored::MDP::CooperativeMaximumLikelihoodModel>;' % (A, A))
    add('MDP::BanditPolicyAdaptor<QGreedy>', ['MDP/Policies/BanditPolicyAdaptor.hpp', 'Bandit/Policies/QGreedyPolicy.hpp'], 'template class %sMDP::BanditPolicyAdaptor<%sBandit::QGreedyPolicy>;' % (A, A))
    add('Factored::MDP::BanditPolicyAdaptor<QGreedy>', ['Factored/MDP/Policies/BanditPolicyAdaptor.hpp', 'Factored/Bandit/Policies/QGreedyPolicy.hpp'],
        'template class %sFactored::MDP::BanditPolicyAdaptor<%sFactored::Bandit::QGreedyPolicy<>>;' % (A, A))
    add('OffPolicyEvaluation<QLEvaluation>', ['MDP/Algorithms/QL.hpp'], 'template class %sMDP::OffPolicyEvaluation<%sMDP::QLEvaluation>;' % (A, A))
    add('OffPolicyControl<QL>', ['MDP/Algorithms/QL.hpp'], 'template class %sMDP::OffPolicyControl<%sMDP::QL>;' % (A, A))
    add('OffPolicyControl<RetraceL>', ['MDP/Algorithms/RetraceL.hpp'], 'template class %sMDP::OffPolicyControl<%sMDP::RetraceL>;' % (A, A))
    add('OffPolicyControl<TreeBackupL>', ['MDP/Algorithms/TreeBackupL.hpp'], 'template class %sMDP::OffPolicyControl<%sMDP::TreeBackupL>;' % (A, A))
    add('OffPolicyEvaluation<ImportanceSamplingEvaluation>', ['MDP/Algorithms/ImportanceSampling.hpp'], 'template class %sMDP::OffPolicyEvaluation<%sMDP::ImportanceSamplingEvaluation>;' % (A, A))
    # a user-defined generative model (global namespace, only what the concept asks for): "any program written against the
    # documented API compiles" — catches unqualified helper calls that only ADL on library types resolves
    user = ('struct UserGen { size_t getS() const { return 2; } size_t getA() const { return 2; } size_t getO() const { return 2; } double getDiscount() const { return 0.5; }\n'
            '  std::tuple<size_t,double> sampleSR(size_t, size_t) const { return {0, 0.0}; } std::tuple<size_t,size_t,double> sampleSOR(size_t, size_t) const { return {0, 0, 0.0}; }\n'
            '  bool isTerminal(size_t) const { return false; } };\n')
    add('POMCP<UserGen>', ['POMDP/Algorithms/POMCP.hpp'], '#include <tuple>\n' + user + 'template class %sPOMDP::POMCP<UserGen>;' % A)
    add('MCTS<UserGen>', ['MDP/Algorithms/MCTS.hpp'], '#include <tuple>\n' + user + 'template class %sMDP::MCTS<UserGen>;' % A)
    # Factored/Utils/APSP.hpp declares `buildAdjacencyList(const Action &, const FactorGraph<Factor> &)` (a function template, so the
    # clang declaration scan of non-template functions does not see it); a documented overload must also LINK. Only while it is declared.
    try:
        import re as _re
        from common import REPO as _REPO
        _apsp = open(os.path.join(_REPO, 'include/AIToolbox/Factored/Utils/APSP.hpp')).read()
        if _re.search(r'auto\s+buildAdjacencyList\s*\(\s*const\s+Action\s*&\s*\w*\s*,', _apsp):
            U.append({'id': 'link:buildAdjacencyList(A,graph)', 'link': True,
                      'src': '#include <AIToolbox/Factored/Utils/APSP.hpp>\n#include <AIToolbox/Types.hpp>\n'
                             'int main() { %sFactored::FactorGraph<%sVector> g(2); %sFactored::Action A{2, 2}; return (int)%sFactored::buildAdjacencyList(A, g).size(); }\n' % (A, A, A, A)})
    except OSError:
        pass
    # FlattenedModel<Dist>::convertA: a documented member of a class template (explicit instantiation only instantiates DEFINED members)
    U.append({'id': 'link:FlattenedModel::convertA', 'link': True,
              'src': '#include <random>\n#include <AIToolbox/Factored/Bandit/FlattenedModel.hpp>\n'
                     'int main() { using D = std::bernoulli_distribution; %sFactored::Bandit::Model<D> * m = nullptr; if (!m) return 0; '
                     '%sFactored::Bandit::FlattenedModel<D> f(*m); return (int)f.convertA(1).size(); }\n' % (A, A)})
    for cls in ('DynaQ', 'Dyna2'):
        U.append({'id': 'link:%s::setN' % cls, 'link': True,
                  'src': '#include <AIToolbox/MDP/Algorithms/%s.hpp>\n#include <AIToolbox/MDP/Model.hpp>\n'
                         'int main() { %sMDP::Model m(2, 2); %sMDP::%s<%sMDP::Model> d(m); d.setN(3); return (int)d.getN() - 3; }\n' % (cls, A, A, cls, A)})
    return [u for u in U if u]
