WRAPS = ['add_constraint', 'set_obj', 'set_obj_fn', 'set_minim', 'set_maxim', 'set_unbounded', 'solve', 'get_ptr_variables']



def classify_crash(cr):
    """Fixed case 5 (FactoredLP with no basis and no constant basis) is the witness of finding C15-flp-constbasisid-underflow;
    every other crash/hang keeps the generic kind and is a violation."""
    if cr.get('case') == 5 and 'index >= 0 && index < size()' in (cr.get('detail', '') + cr.get('stderr_tail', '')):
        return 'FactoredLP', 'abort_no_basis_no_const'
    return 'C15', cr['kind']


SPEC = {
    'id': 'C15',
    'lean_modules': ['AITB.Props.C15', 'AITB.Props.C15Gen', 'AITB.Props.C15Top', 'AITB.Props.C15Mdp', 'AITB.Props.C15Cex', 'AITB.Props.C15Flat', 'AITB.Props.C15Clean', 'AITB.Props.C15Facts', 'AITB.Props.C15Bp', 'AITB.Props.C15Obj', 'AITB.Props.C15Deleg', 'AITB.Props.C15Q', 'AITB.Props.C15Solve', 'AITB.Props.C15Buf'],
    'theorems': [
        'AITB.FLP.weak_duality_sound',
        'AITB.FLP.optimalPair_sound',
        'AITB.FLP.certified_minimal',
        'AITB.FLP.farkas_sound',
        'AITB.FLP.veRows_sat',
        'AITB.FLP.removeLoop_rows',
        'AITB.FLP.removeLoop_graph',
        'AITB.FLP.removeVar_val',
        'AITB.FLP.removeVar_rows',
        'AITB.FLP.hits_jv_eq_setAt',
        'AITB.FLP.removeVar_ge',
        'AITB.FLP.removeVar_extend',
        'AITB.FLP.removeVar_inv',
        'AITB.FLP.removeVar_LInvL',
        'AITB.FLP.genLoop_spec',
        'AITB.FLP.flp_core',
        'AITB.FLP.setupLoop_spec',
        'AITB.FLP.setupLoop_extend',
        'AITB.FLP.flpSetup_spec',
        'AITB.FLP.flp_named_err',
        'AITB.FLP.factoredLP_equiv',
        'AITB.FLP.mdp_core',
        'AITB.FLP.qSum_mdpEntries',
        'AITB.FLP.selSum_pick',
        'AITB.FLP.itemsLoop_spec',
        'AITB.FLP.tip_join',
        'AITB.FLP.smIdx_inj',
        'AITB.FLP.evalH',
        'AITB.FLP.evalM',
        'AITB.FLP.mdpSetup_spec',
        'AITB.FLP.mdpLP_sound',
        'AITB.FLP.mdpLP_equiv',
        'AITB.FLP.expect_linear',
        'AITB.FLP.gform_eq_backup',
        'AITB.FLP.mdpLP_equiv_bellman',
        'AITB.FLP.mdp_perFinal_counterexample',
        'AITB.FLP.flp_const_without_basis_counterexample',
        'AITB.FLP.flpFlatRows_sat_iff',
        'AITB.FLP.factoredLP_same_feasible',
        'AITB.FLP.mdpFlatRows_sat_iff',
        'AITB.FLP.mdpLP_same_feasible',
        'AITB.FLP.mdpLP_sound_flat',
        'AITB.FLP.factoredLP_same_optimum',
        'AITB.FLP.mdpLP_same_optimum',
        'AITB.FLP.flp_verdict_sound',
        'AITB.FLP.dense_of_clean',
        'AITB.FLP.genLoop_clean',
        'AITB.FLP.flpGen_clean',
        'AITB.FLP.mdpGen_clean',
        'AITB.FLP.gen_facts_hold',
        'AITB.FLP.helper_facts_hold',
        'AITB.FLP.bpModel_is_expectation',
        'AITB.FLP.bpModel_WF',
        'AITB.FLP.mdpLP_equiv_bellman_bp',
        'AITB.FLP.mdpLP_sound_bellman_bp',
        'AITB.FLP.q_is_backup',
        'AITB.FLP.mdpLP_same_optimum_bp',
        'AITB.FLP.basis_mean',
        'AITB.FLP.statedObj_eq_flatObj',
        'AITB.FLP.statedObj_is_uniform_average',
        'AITB.FLP.flpErr_deleg',
        'AITB.FLP.factoredLP_equiv_all',
        'AITB.FLP.toBM_get',
        'AITB.FLP.backProject_BMWF',
        'AITB.FLP.zip_foldl_zsum',
        'AITB.FLP.qModel_is_backup',
        'AITB.FLP.lpSolve_point_only_if_accepted',
        'AITB.FLP.lpSolveTraceOk_sound',
        'AITB.FLP.lp_accept_codes_extracted',
        'AITB.FLP.lpSolve_extracted_point_is_optimal',
        'AITB.FLP.pointSat_zero_sound',
        'AITB.FLP.accepted_point_certifies_bellman',
        'AITB.FLP.mdp_verdict_sound',
        'AITB.FLP.shiftLoop_spec',
        'AITB.FLP.mdp_crossSumGroup',
        'AITB.FLP.flp_crossSumGroup',
        'AITB.FLP.flp_crossSumGroup_run',
        'AITB.FLP.clearSet_inv',
        'AITB.FLP.mdp_makeResult',
        'AITB.FLP.flp_makeResult',
        'AITB.FLP.genLoop_spaced',
        'AITB.FLP.flpFinals_spaced',
        'AITB.FLP.flp_makeResult_run',
    ],
    'harness': 'harness/c15.cpp',
    # the calls LpSolveWrapper.cpp makes into lp_solve are recorded at link time (the library is not modified)
    'harness_flags': ['-Wl,--wrap=' + w for w in WRAPS],
    'classify_crash': classify_crash,
    'level': 'proof',
    'timeout': {'quick': 900, 'thorough': 3000},
    'rule': '7 fixed witness/regression cases (both degenerate FactoredLP shapes, the two-component MDP witnesses, a connected MDP, an lp_solve '
            'accuracy-error replay), then seeded random cases, half FactoredLP / half factored-MDP LP: 1..4 (thorough 5) state factors of size 2..3 '
            '(thorough 4), FactoredLP with 1..6 bases (indicator sets / random / wide tags up to 3, duplicate tags, tags shared with the target, '
            'signed quarters / 0-1 patterns / indicators / non-dyadic values down to 1e-7), 1..3 target bases, optional constant basis; MDPs with '
            '1..3 agents of 2..3 actions, disconnected / chain / random DDN structure with action-dependent parent sets, dyadic transition rows, '
            '1..3 reward matrices (dense or half zero), bases = indicator sets / all-ones + random / random only, discounts 1/4, 1/2, 3/4, 7/8, 0.9. '
            'Per case the driver solves the flat LP exactly (Bland simplex over Q, untrusted) and accepts its primal/dual pair only through '
            'optimalPairB; verdict = weights flat-feasible within 1e-7, objective within 1e-7 of the certified optimum, Q = R + gamma P V within 1e-9, '
            'and the LP handed to lp_solve equal to the Lean-generated LP (rows in order, columns, objective, bounds). '
            'non-trivial = more than one joint state; distinct by protocol line',
    'modelled': ['src/Factored/MDP/Algorithms/Utils/FactoredLP.cpp: operator() (both setup loops, column numbering, constant-basis spreading), all five Global callbacks',
                 'src/Factored/MDP/Algorithms/LinearProgramming.cpp: solveLP (three setup loops with the zero skip, objective), all five Global callbacks; operator(): g = backProject, g *= discount*v, plusEqual(g, R) (qModel, diffed basis by basis)',
                 'include/AIToolbox/Factored/Utils/GenericVariableElimination.hpp: operator(), removeFactor in the branch without mergeFactors (append, sum every match)',
                 'include/AIToolbox/Factored/Utils/FactorGraph.hpp: bestVariableToRemove / getFactor / erase as key-set bookkeeping (model shared with C13)',
                 'src/Factored/Utils/BayesianNetwork.cpp: DDNGraph::getId, DDN::getTransitionProbability (flat P), backProject (executable model, diffed; = expectation decided per case)',
                 'src/Utils/LP/LpSolveWrapper.cpp: only observed (calls into lp_solve recorded at link time); lp_solve itself untrusted, its answer certified'],
    'assumptions': ['doubles read as exact rationals; generated-LP coefficients compared with relative 1e-12 (1/|C| and discount*g are rounded products)',
                    'tags strictly ascending, in range, non-empty; one value per joint value of a tag (shape of BasisFunction / BasisMatrix)',
                    'mdpLP theorems assume no basis/reward/back-projection entry in (0, 1e-6] (such entries are skipped by checkEqualSmall); the driver tags cases that violate it',
                    'objective and feasibility tolerances 1e-7 (relative to 1+|value|); FactoredLP instances with coefficients below 1e-5 and a gap below 1e-5, weights above 1e6 or an lp_solve NUMFAILURE/ACCURACYERROR are skipped as ill-conditioned (lp_solve accuracy 5e-7)',
                    'when the library reports "no solution" the driver accepts only with a Farkas certificate of flat infeasibility checked by farkasOk (farkas_sound)'],
    'trusted_base': ['GNU ld --wrap interception of add_constraint / set_obj / set_obj_fn / set_minim / set_maxim / set_unbounded / solve / get_ptr_variables'],
}
