WRAPS = ['add_constraint', 'set_obj', 'set_obj_fn', 'set_minim', 'set_maxim', 'set_unbounded', 'solve']



def classify_crash(cr):
    """Fixed case 5 (FactoredLP with no basis and no constant basis) is the witness of finding C15-flp-constbasisid-underflow;
    every other crash/hang keeps the generic kind and is a violation."""
    if cr.get('case') == 5 and 'index >= 0 && index < size()' in (cr.get('detail', '') + cr.get('stderr_tail', '')):
        return 'FactoredLP', 'abort_no_basis_no_const'
    return 'C15', cr['kind']


SPEC = {
    'id': 'C15',
    'lean_modules': ['AITB.Props.C15', 'AITB.Props.C15Gen', 'AITB.Props.C15Top', 'AITB.Props.C15Mdp', 'AITB.Props.C15Cex', 'AITB.Props.C15Flat'],
    'theorems': [
        'AITB.FLP.weak_duality_sound',
        'AITB.FLP.optimalPair_sound',
        'AITB.FLP.certified_minimal',
        'AITB.FLP.veRows_sat',
        'AITB.FLP.removeLoop_rows',
        'AITB.FLP.removeLoop_graph',
        'AITB.FLP.removeVar_val',
        'AITB.FLP.removeVar_rows',
        'AITB.FLP.hits_jv_eq_setAt',
        'AITB.FLP.removeVar_ge',
        'AITB.FLP.removeVar_extend',
        'AITB.FLP.removeVar_inv',
        'AITB.FLP.removeVar_LInvL',
        'AITB.FLP.genLoop_spec',
        'AITB.FLP.flp_core',
        'AITB.FLP.setupLoop_spec',
        'AITB.FLP.setupLoop_extend',
        'AITB.FLP.flpSetup_spec',
        'AITB.FLP.flp_named_err',
        'AITB.FLP.factoredLP_equiv',
        'AITB.FLP.mdp_core',
        'AITB.FLP.qSum_mdpEntries',
        'AITB.FLP.selSum_pick',
        'AITB.FLP.itemsLoop_spec',
        'AITB.FLP.tip_join',
        'AITB.FLP.smIdx_inj',
        'AITB.FLP.evalH',
        'AITB.FLP.evalM',
        'AITB.FLP.mdpSetup_spec',
        'AITB.FLP.mdpLP_sound',
        'AITB.FLP.mdpLP_equiv',
        'AITB.FLP.expect_linear',
        'AITB.FLP.gform_eq_backup',
        'AITB.FLP.mdpLP_equiv_bellman',
        'AITB.FLP.mdp_perFinal_counterexample',
        'AITB.FLP.flp_const_without_basis_counterexample',
        'AITB.FLP.flpFlatRows_sat_iff',
        'AITB.FLP.factoredLP_same_feasible',
        'AITB.FLP.mdpFlatRows_sat_iff',
        'AITB.FLP.mdpLP_same_feasible',
        'AITB.FLP.mdpLP_sound_flat',
    ],
    'harness': 'harness/c15.cpp',
    # the calls LpSolveWrapper.cpp makes into lp_solve are recorded at link time (the library is not modified)
    'harness_flags': ['-Wl,--wrap=' + w for w in WRAPS],
    'classify_crash': classify_crash,
    'level': 'translation_validation',
    'timeout': {'quick': 600, 'thorough': 3000},
    'rule': 'fixed witnesses first, then seeded random instances',
    'modelled': [],
    'assumptions': [],
}
