WRAPS = ['add_constraint', 'set_obj', 'set_obj_fn', 'set_minim', 'set_maxim', 'set_unbounded', 'solve']



def classify_crash(cr):
    """Fixed case 5 (FactoredLP with no basis and no constant basis) is the witness of finding C15-flp-constbasisid-underflow;
    every other crash/hang keeps the generic kind and is a violation."""
    if cr.get('case') == 5 and 'index >= 0 && index < size()' in (cr.get('detail', '') + cr.get('stderr_tail', '')):
        return 'FactoredLP', 'abort_no_basis_no_const'
    return 'C15', cr['kind']


SPEC = {
    'id': 'C15',
    'lean_modules': ['AITB.Props.C15'],
    'theorems': [
        'AITB.FLP.weak_duality_sound',
        'AITB.FLP.optimalPair_sound',
        'AITB.FLP.certified_minimal',
    ],
    'harness': 'harness/c15.cpp',
    # the calls LpSolveWrapper.cpp makes into lp_solve are recorded at link time (the library is not modified)
    'harness_flags': ['-Wl,--wrap=' + w for w in WRAPS],
    'classify_crash': classify_crash,
    'level': 'translation_validation',
    'timeout': {'quick': 600, 'thorough': 3000},
    'rule': 'fixed witnesses first, then seeded random instances',
    'modelled': [],
    'assumptions': [],
}
