WRAPS = ['add_constraint', 'set_obj', 'set_obj_fn', 'set_minim', 'set_maxim', 'set_unbounded', 'solve']

SPEC = {
    'id': 'C15',
    'lean_modules': ['AITB.Props.C15'],
    'theorems': [
        'AITB.FLP.weak_duality_sound',
        'AITB.FLP.optimalPair_sound',
        'AITB.FLP.certified_minimal',
    ],
    'harness': 'harness/c15.cpp',
    # the calls LpSolveWrapper.cpp makes into lp_solve are recorded at link time (the library is not modified)
    'harness_flags': ['-Wl,--wrap=' + w for w in WRAPS],
    'level': 'translation_validation',
    'timeout': {'quick': 600, 'thorough': 3000},
    'rule': 'fixed witnesses first, then seeded random instances',
    'modelled': [],
    'assumptions': [],
}
