SPEC = {
    'id': 'C04',
    'lean_modules': ['AITB.Props.C04', 'AITB.Props.C04x'],
    'theorems': [
        'AITB.Plan.consistentB_iff',
        'AITB.Plan.consistent_exact_of_zeroBelow',
        'AITB.Plan.plan_algebra',
        'AITB.Plan.links_consistent_exec',
        'AITB.Plan.links_consistent_exec_thresholded',
        'AITB.Plan.bestAtPoint_spec',
        'AITB.Plan.sampleAction_attains_envelope',
        'AITB.Plan.follow_in_range',
        'AITB.Plan.sampleActionIdO_defined',
        'AITB.Plan.plan_le_lookahead',
        'AITB.Plan.first_action_attains',
        'AITB.Plan.exec_le_optimal',
        'AITB.Plan.first_action_optimal',
        'AITB.Plan.chainVF_consistent',
        'AITB.Plan.qmdp_not_a_plan',
        'AITB.Plan.qmdp_exec_counterexample',
        'AITB.Plan.threshold_gap_counterexample',
    ],
    'harness': 'harness/c04.cpp',
    'harness_flags': ['-fno-access-control'],   # IncrementalPruning::crossSum is private
    'level': 'proof',
    'timeout': {'quick': 600, 'thorough': 2400},
    'case_timeout': 120,
    'rule': 'one protocol line = one solver run (random dyadic POMDP, S 2..4, A 1..3, O 1..3 (IncrementalPruning also O 4..7), '
            'horizon 1..4) with the returned ValueFunction, Policy::sampleAction(b[,h]) at corner/centre/random beliefs and the '
            'depth-first replay of ALL observation histories through the real Policy::sampleAction(id,o,h); or one call of '
            'extractDominated / Pruner / IncrementalPruning::crossSum on tagged entries. non-trivial = horizon >= 1 resp. >= 2 entries; '
            'distinct by protocol line',
    'modelled': [],
    'assumptions': [],
}
