SPEC = {
    'id': 'C09',
    'lean_modules': ['AITB.Props.C09'],
    'theorems': [
        'AITB.Pol.sampleRow_lt',
        'AITB.Pol.sampleRow_interval',
        'AITB.Pol.sampleRow_eq_iff',
        'AITB.Pol.greedy_is_argmax',
        'AITB.Pol.greedy_shift_invariant',
        'AITB.Pol.greedy_nonsep_counterexample',
    ],
    'harness': 'harness/c09.cpp',
    'level': 'proof',
    'timeout': {'quick': 600, 'thorough': 2400},
    'case_timeout': 90,
    'rule': 'one protocol line = one policy object (one state row for MDP policies) observed through getActionProbability, getPolicy and '
            'sampleAction, or one whole update history (LRP, WoLF, PGA-APP, ESRL, SuccessiveRejects) observed after every update; '
            'non-trivial = every line; distinct by protocol line',
    'modelled': [],
    'assumptions': [],
}
