SPEC = {
    'id': 'C07',
    'lean_modules': ['AITB.Props.C07'],
    'theorems': [
        'AITB.Exp.Cell.record_step',
    ],
    'harness': 'harness/c07.cpp',
    'level': 'proof',
    'timeout': {'quick': 600, 'thorough': 2400},
    'case_timeout': 120,
    'rule': 'one protocol line = one whole history of one table of pairs (flat: S*A pairs; bandits: arms; cooperative: one table per '
            'state feature) with the implementation\'s getters observed after every call; non-trivial = more than two calls; '
            'distinct by protocol line',
    'modelled': [],
    'assumptions': [],
}
