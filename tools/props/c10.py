import os, subprocess, tempfile, shutil
from concurrent.futures import ThreadPoolExecutor


def _inst_cases(C, tier, seed):
    """C10(a): compile every instantiation unit against /repo's current headers (syntax-only)."""
    from props.c10_units import units
    U = units()
    work = os.path.join(C.CACHE, 'inst'); os.makedirs(work, exist_ok=True)
    ih = C.include_hash()
    lib, _ = C.build_lib()

    def run(u):
        key = C.sha(ih, u['src'], os.path.basename(lib) if (lib and u.get('link')) else '')
        res = os.path.join(work, key + '.rc')
        if os.path.exists(res):
            return u, int(open(res).read().split('\n')[0])
        f = os.path.join(work, key + '.%d.cpp' % os.getpid())
        open(f, 'w').write(u['src'])
        if u.get('link'):
            cmd = [C.CXX] + C.CXXFLAGS + ['-O0', f] + ([lib] if lib else []) + C.LDLIBS + ['-o', f + '.out']
        else:
            cmd = [C.CXX, '-std=c++20', '-fsyntax-only', '-w', '-D' + C.GUARD, '-I' + os.path.join(C.REPO, 'include'), '-I/usr/include/eigen3', f]
        p = subprocess.run(cmd, stdout=subprocess.PIPE, stderr=subprocess.STDOUT, text=True)
        if os.path.exists(f + '.out'):
            os.remove(f + '.out')
        errs = [l for l in p.stdout.split('\n') if 'error' in l or 'undefined reference' in l][:3]
        open(res, 'w').write('%d\n%s' % (1 if p.returncode else 0, '\n'.join(errs)))
        if os.path.exists(f):
            os.remove(f)
        return u, 1 if p.returncode else 0
    out = []
    with ThreadPoolExecutor(max_workers=C.NPROC) as ex:
        for u, rc in ex.map(run, U):
            out.append(('inst:' + u['id'], 'C10 inst %s | %d' % (u['id'].replace(' ', ''), rc)))
    return out


def _all_cases(C, tier, seed):
    """instantiation units + C10(c): every other registered harness is run (bounded number of cases) purely for its
    sanitizer / abort / hang outcomes — those are C10's subject matter whatever property generated the input."""
    import glob, importlib
    out = _inst_cases(C, tier, seed)
    lib, _ = C.build_lib()
    if lib is None:
        return out
    # declared-but-never-defined functions (clang AST of every header vs. the symbols the library defines): a program
    # calling a documented function that is declared without a body anywhere and defined by no object does not link
    try:
        import extract_decls
        res = extract_decls.undefined_decls(lib)
        for m in res['missing']:
            name = m.split(' [')[0].replace(' ', '')
            out.append(('decl:' + name, 'C10 inst decl:%s | 1' % name))
        out.append(('decls', 'C10 range declared-functions-scanned:%d | 1' % res['declared']))
    except Exception as e:   # clang missing / AST not parseable: the tie is broken, say so
        out.append(('decls', 'C10 inst decl-scan-failed:%s | 1' % type(e).__name__))
    # public-API coverage (tools/api_coverage.py): every public function declared under include/AIToolbox (clang AST; class templates
    # through their members) must be referenced by some harness object (nm of harness/c*.cpp compiled -O0) or be accounted for, with a
    # reason, in tools/props/c10_api_accounted.py; a function defined in a header without `inline` breaks every two-unit program
    try:
        import api_coverage
        res = api_coverage.coverage()
        acc, unacc = api_coverage.accounted_for(res)[:2]
        for d in unacc:
            name = d['sig'].replace(' ', '')
            out.append(('api:' + name, 'C10 api %s | 0' % name))
        for h in res.get('harness_failed', {}) or {}:
            out.append(('api:harness:' + str(h), 'C10 api harness-object-does-not-compile:%s | 0' % os.path.basename(str(h))))
        for ent in res.get('noninline_header_definitions', []):
            fn, _, where = ent.partition('  [')
            hdr = os.path.basename(where.split(':')[0]) if where else 'unknown'
            out.append(('odr:' + fn.replace(' ', ''), 'C10 odr %s %s | 1' % (hdr, fn.replace(' ', ''))))
        out.append(('apicov', 'C10 range public-api-scanned:%d:referenced:%d:accounted:%d | 1' % (res['public'], res['covered'], len(acc))))
    except Exception as e:
        out.append(('apicov', 'C10 api coverage-scan-failed:%s | 0' % type(e).__name__))
    if os.environ.get('C10_ONLY_OWN'):      # mutation trials (tools/dev/mutations_c10.py): the other properties' harnesses are not rebuilt and run
        return out
    limit = 150 if tier == 'thorough' else 25
    here = os.path.dirname(os.path.abspath(__file__))
    for f in sorted(glob.glob(os.path.join(here, 'c[0-9][0-9].py'))):
        sp = importlib.import_module('props.' + os.path.splitext(os.path.basename(f))[0]).SPEC
        if sp['id'] == 'C10' or not sp.get('harness') or not sp.get('needs_lib', True):
            continue
        exe, _ = C.build_harness(sp['harness'], lib, extra_flags=sp.get('harness_flags', ()))
        if exe is None:
            continue          # reported by that property's own check
        lines, crashes, done = C.run_harness(exe, seed, 'quick', 240 if tier == 'thorough' else 90, case_timeout=sp.get('case_timeout', 60), limit=limit)
        known = C.load_known()
        for cr in crashes:
            comp, kind = sp['id'], cr['kind']
            if sp.get('classify_crash'):
                comp, kind = sp['classify_crash'](cr)
            if C.known_match(known, sp['id'], comp, kind):
                continue      # recorded under its own property with that call site
            out.append(('crash:%s:%s' % (sp['id'], cr['case']), 'C10 crash %s-harness:%s %s | %s' % (sp['id'], comp.replace(' ', '_'), cr['case'], kind)))
        out.append(('ran:' + sp['id'], 'C10 range %s-harness-completed | 1' % sp['id']))
    return out


def _api_rev():
    # harness/c10.cpp includes harness/c10_api_*.hpp (the public-API sweep, one file per library area); the harness cache key only
    # covers the main source and harness/common/*, so a hash of the included files goes into the compile flags
    import glob, hashlib
    h = hashlib.sha256()
    for f in sorted(glob.glob(os.path.join(os.path.dirname(os.path.dirname(os.path.dirname(os.path.abspath(__file__)))), 'harness', 'c10_api_*.hpp'))):
        h.update(open(f, 'rb').read())
    return '-DC10_API_REV=0x' + h.hexdigest()[:8]


SPEC = {
    'id': 'C10',
    'harness_flags': (_api_rev(),),
    # C10(b): besides its own cursor model (match) C10 re-audits the in-bounds / totality theorems that the other properties
    # proved about the manual index and iterator cores named in C10's anchors (they live with the property that models the core)
    'lean_modules': ['AITB.Props.C10', 'AITB.Props.C10Util', 'AITB.Props.C10Choose', 'AITB.Props.C10Sites', 'AITB.Props.C10FG', 'AITB.Props.C10Naive', 'AITB.Props.C10Union', 'AITB.Props.C10BG', 'AITB.Props.C10Contains', 'AITB.Props.C20', 'AITB.Props.C11Traces', 'AITB.Props.C12Interp', 'AITB.Props.C12InterpValue', 'AITB.Props.C12Prune', 'AITB.Props.C12PruneStrong', 'AITB.Props.C08Dense',
                     'AITB.Props.C08', 'AITB.Props.C08Vose', 'AITB.Props.C18', 'AITB.Props.C14', 'AITB.Props.C14c', 'AITB.Props.C19', 'AITB.Props.C17', 'AITB.Props.C20h', 'AITB.Props.C06', 'AITB.Props.C06Factored', 'AITB.Props.C08Models', 'AITB.Props.C04', 'AITB.Props.C09a'],
    'theorems': [# round 4: shared index helpers one level below the anchored code
                 'AITB.CursorUtil.advance_spec', 'AITB.CursorUtil.advance_total', 'AITB.CursorUtil.advance_empty_oob', 'AITB.CursorUtil.advance_lowest',
                 'AITB.CursorUtil.advance_keeps_sorted', 'AITB.CursorUtil.advance_is_successor', 'AITB.CursorUtil.advance_stops_only_at_last',
                 'AITB.CursorUtil.reset_least', 'AITB.CursorUtil.reset_valid', 'AITB.CursorUtil.nChooseK_eq_choose',
                 'AITB.CursorUtil.setUnion_no_realloc', 'AITB.CursorUtil.setUnion_underreserve_witness', 'AITB.CursorUtil.setUnion_as_written_safe',
                 'AITB.CursorUtil.unionReserve_sufficient', 'AITB.CursorUtil.c10_sites_as_modelled',
                 'AITB.CursorUtil.veccmp_no_oob', 'AITB.CursorUtil.veccmp_oob_witness', 'AITB.CursorUtil.sortedContains_no_oob',
                 'AITB.FGCursor.recPush_spec', 'AITB.FGCursor.nbLoop_eq_rec', 'AITB.FGCursor.mergeNeighbours_spec', 'AITB.FGCursor.addFactor_keeps_inv',
                 'AITB.FGCursor.eraseVar_keeps_inv', 'AITB.FGCursor.fg_history_safe', 'AITB.FGCursor.eraseVar_asymmetric_witness',
                 'AITB.CursorUtil.naive_rows_first', 'AITB.CursorUtil.naive_row_cache_correct', 'AITB.CursorUtil.naive_stale_row_witness', 'AITB.CursorUtil.naive_index_in_range',
                 'AITB.CursorUtil.setDiffLoop_eq_rec', 'AITB.CursorUtil.setUnion_is_sorted_union',
                 'AITB.CursorUtil.containsLoop_eq_rec', 'AITB.CursorUtil.recContains_spec', 'AITB.CursorUtil.containsScan_decides_inclusion',
                 'AITB.BGCursor.selectStep_total', 'AITB.BGCursor.selectLoop_total', 'AITB.BGCursor.selectLoop_overrun_witness', 'AITB.BGCursor.selection_misaligns_distances',
                 'AITB.Cursor.matchLoop_total', 'AITB.Cursor.match_no_oob', 'AITB.Cursor.matchOrig_oob_witness', 'AITB.Cursor.uses_subset_provides',
                 'AITB.Trie.trie_cursor_refines_spec', 'AITB.Trie.applyCursor_eq',                      # Trie::applyFilters k-way cursor loop, getAllIds/size/erase
                 'AITB.Learn.updateTraces_spec', 'AITB.Learn.updateTraces_nodup',                        # swap-and-pop trace loops (OffPolicyBase, SARSAL)
                 'AITB.Interp.sawtooth_repaired_total', 'AITB.Interp.sawtooth_defined_of_nonempty',      # sawtoothInterpolation never reads out of range / uninitialised
                 'AITB.Prune.extractDominated_perm', 'AITB.Prune.incremental_ranges',                    # extractDominated(+Incremental): a permutation, ranges partition
                 'AITB.Sampling.dense_in_range', 'AITB.Sampling.denseA_in_range', 'AITB.Sampling.sparseFixed_in_support',
                 'AITB.Sampling.alias_in_range', 'AITB.Sampling.vose_fixed_alias_in_range',              # samplers return an index inside the support
                 'AITB.Cassandra.parser_total', 'AITB.Cassandra.parse_writes_in_bounds', 'AITB.Cassandra.writes_offset_lt_allocated',
                 'AITB.Factored.pie_yields_exactly', 'AITB.Factored.toIndex_lt',
                 'AITB.Tree.returned_action_valid', 'AITB.Codec.fromTriplets_valid',
                 'AITB.IndexMap.vals_defined', 'AITB.IndexMap.walkSub_eq_vals', 'AITB.IndexMap.walkMinus_eq', 'AITB.IndexMap.minusAsFound_reads_end',   # every IndexMap iterator access path stays inside the id list
                 'AITB.MS.coop_rows_read', 'AITB.MS.coop_reward_in_range', 'AITB.MS.discretize_lt',           # CooperativeModel row ids inside their matrices; AMDP bucket index
                 'AITB.Sampling.coopSampleS_in_range', 'AITB.Sampling.vose_sampler_in_range',
                 'AITB.Plan.follow_in_range', 'AITB.Pol.sampleRow_lt'],
    'harness': 'harness/c10.cpp',
    'extra_cases': _all_cases,
    'level': 'exploration',
    'level_text': 'C++ template instantiation and memory safety are decided by the compiler and by ASan/UBSan on generated cases (exploration); '
                  'Lean proofs cover the cursor models of the manual index cores (match; Trie/prune/trace cores live with C20/C12/C11) — partial by nature, see DESIGN §8 C10',
    'timeout': {'quick': 600, 'thorough': 3000},
    'rule': 'one case per instantiation unit (class template x library type satisfying its concept, member templates via odr-use) plus exhaustive pairs of partial assignments '
            'over all small factor spaces for the two-cursor cores; non-trivial = both operands non-empty / any instantiation unit',
    'modelled': ['Factored::match two-cursor scan (checked-access cursor model)',
                 'SubsetEnumerator::advance/isValid/reset, nChooseK, findVerticesNaive row cache (AITB.Model.CursorUtil)',
                 'set_union_inplace (set_difference into back_inserter with live cursors + inplace_merge), sequential_sorted_contains/find, veccmp (AITB.Model.CursorUtil)',
                 'FactorGraph::getFactor neighbour index loop and erase find-then-erase, over histories (AITB.Model.FGCursor)',
                 'BeliefGenerator::expandBeliefList selection loop with its double swap (AITB.Model.BGCursor)'],
    'assumptions': ['g++ -fsyntax-only is the judge of instantiability', 'uninitialised reads are only visible where the poisoned heap changes an output (no MSan offline)'],
}
