SPEC = {
    'id': 'C14',
    'lean_modules': ['AITB.Props.C14'],
    'theorems': [
        'AITB.Factored.toIndexLoop_eq',
        'AITB.Factored.toIndex_toFactors',
        'AITB.Factored.toFactors_toIndex',
        'AITB.Factored.toFactors_valid',
        'AITB.Factored.toIndex_lt',
        'AITB.Factored.toIndex_inj',
        'AITB.Factored.toIndexLoop_toFactors',
        'AITB.Factored.toFactors_toIndexLoop',
        'AITB.Factored.toIndexPartial_toFactorsPartial',
        'AITB.Factored.toFactorsPartial_toIndexPartial',
        'AITB.Factored.adv_some',
        'AITB.Factored.adv_none',
        'AITB.Factored.enumerator_kth',
        'AITB.Factored.enumerator_ends',
        'AITB.Factored.enumerator_kth_eq_toFactors',
    ],
    'harness': 'harness/c14.cpp',
    'level': 'proof',
    'timeout': {'quick': 300, 'thorough': 1800},
    'rule': 'exhaustive over all factor spaces with <=3 factors of size <=3 (quick) / <=4x4 (thorough): every id, every key subset, '
            'every skip/missing enumerator mode, every PartialIndexEnumerator; then seeded random spaces up to 7 factors of size <=6. '
            'non-trivial = space with >=2 factors; distinct by protocol line',
    'modelled': ['src/Factored/Utils/Core.cpp: toIndex*, toFactors*, factorSpace*, PartialFactorsEnumerator, PartialIndexEnumerator, merge, match'],
    'assumptions': ['size_t overflow clamp of factorSpace is outside the model (Nat is unbounded)'],
}
