"""Translator plug-in for C08: ties the hand-written Lean model to the *text* of the modelled functions.

For each modelled function the comment-stripped, whitespace-free body must be the form the Lean model
was written from (round 2: the code after the three merged repairs 7704892 / 699bf84 / 3edb50d; the
pre-repair forms are no longer accepted).  `projectToProbability` has two accepted texts that have the
SAME exact-arithmetic model: the code as it is, and the code after fixes/C08-4 (overflow-safe
normalisation); which one is present is exported as `projectOverflowSafe`.  A body in no known form is
a broken tie (ExtractError): the model no longer describes it."""
import re
import extract as E


def _body(src, start_pat, what):
    """text of the brace block that follows the first match of start_pat"""
    m = E.find1(start_pat, src, what, re.S)
    i = src.index('{', m.end() - 1)
    depth, j = 0, i
    while j < len(src):
        if src[j] == '{':
            depth += 1
        elif src[j] == '}':
            depth -= 1
            if depth == 0:
                return src[i:j + 1], E.lineno(src, m.start())
        j += 1
    raise E.ExtractError('unbalanced braces after ' + what)


def _norm(s):
    return re.sub(r'\s+', '', s)


HPP = 'include/AIToolbox/Utils/Probability.hpp'
CPP = 'src/Utils/Probability.cpp'

# (name, file, signature regex, {normalised body: variant value}) ; value None = single modelled form
SITES = [
    ('isProbability', HPP, r'bool\s+isProbability\s*\(\s*const\s+size_t\s+size\s*,\s*const\s+T\s*&\s*in\s*\)\s*\{', {
        '{doublep=0.0;for(size_ti=0;i<size;++i){constdoublevalue=static_cast<double>(in[i]);if(value<0.0)returnfalse;p+=value;}if(checkDifferentSmall(p,1.0))returnfalse;returntrue;}': None}),
    ('denseSampler', HPP, r'size_t\s+sampleProbability\s*\(\s*const\s+size_t\s+d\s*,\s*const\s+T\s*&\s*in\s*,\s*G\s*&\s*generator\s*\)\s*\{', {
        '{doublep=probabilityDistribution(generator);for(size_ti=0;i<d;++i){if(in[i]>p)returni;p-=in[i];}returnd-1;}': None}),
    ('sparseSampler', HPP, r'size_t\s+sampleProbability\s*\(\s*const\s+size_t\s+d\s*,\s*const\s+SparseMatrix2D::ConstRowXpr\s*&\s*in\s*,\s*G\s*&\s*generator\s*\)\s*\{', {
        '{doublep=probabilityDistribution(generator);size_tlast=d-1;for(SparseMatrix2D::ConstRowXpr::InnerIteratori(in,0);i;++i){if(i.value()>p)returni.col();p-=i.value();last=i.col();}returnlast;}': None}),
    ('makeRandomProbability', HPP, r'ProbabilityVector\s+makeRandomProbability\s*\(\s*const\s+size_t\s+S\s*,\s*G\s*&\s*generator\s*\)\s*\{', {
        '{ProbabilityVectorb(S);double*bData=b.data();bData[0]=0.0;for(size_ts=0;s<S-1;++s)bData[s]=probabilityDistribution(generator);std::sort(bData,bData+S-1);doublehelper1=bData[0],helper2;for(size_ts=1;s<S-1;++s){helper2=bData[s];bData[s]-=helper1;helper1=helper2;}bData[S-1]=1.0-helper1;returnb;}': None}),
    ('aliasSample', HPP, r'size_t\s+sampleProbability\s*\(\s*G\s*&\s*generator\s*\)\s*const\s*\{', {
        '{constautox=sampleDistribution_(generator);constinti=x;constautoy=x-i;if(y<prob_[i])returni;returnalias_[i];}': None}),
    ('projectOverflowSafe', CPP, r'ProbabilityVector\s+projectToProbability\s*\(\s*const\s+Vector\s*&\s*v\s*\)\s*\{', {
        '{ProbabilityVectorretval(v.size());doublesum=0.0;size_tcount=0;for(autoi=0;i<v.size();++i){if(v[i]<0.0)retval[i]=0.0;else{retval[i]=1.0;++count;sum+=v[i];}}if(checkEqualSmall(sum,1.0)){retval.array()*=v.array();}elseif(checkEqualSmall(sum,0.0)){retval.fill(1.0/v.size());}elseif(sum>1.0){retval.array()*=v.array()/sum;}else{constautodiff=(1.0-sum)/count;retval.array()*=(v.array()+diff);}returnretval;}': False,
        '{ProbabilityVectorretval(v.size());doublesum=0.0;size_tcount=0;for(autoi=0;i<v.size();++i){if(v[i]<0.0)retval[i]=0.0;else{retval[i]=1.0;++count;sum+=v[i];}}if(checkEqualSmall(sum,1.0)){retval.array()*=v.array();}elseif(checkEqualSmall(sum,0.0)){retval.fill(1.0/v.size());}elseif(sum>1.0){if(std::isinf(sum)){retval.array()*=v.array()/v.maxCoeff();retval/=retval.sum();}elseretval.array()*=v.array()/sum;}else{constautodiff=(1.0-sum)/count;retval.array()*=(v.array()+diff);}returnretval;}': True}),
    ('voseConstructor', CPP, r'VoseAliasSampler::VoseAliasSampler\s*\(\s*const\s+ProbabilityVector\s*&\s*p\s*\)\s*:.*?\{', {
        '{constsize_tunassigned=prob_.size();constautoavg=1.0/prob_.size();autosmall=0,large=0;while(small<prob_.size()&&prob_[small]>=avg)++small;while(large<prob_.size()&&prob_[large]<avg)++large;autosmallCheckpoint=small;while(small<prob_.size()&&large<prob_.size()){prob_[large]=(prob_[large]+prob_[small])-avg;alias_[small]=large;if(prob_[large]<avg){small=large;++large;while(large<prob_.size()&&prob_[large]<avg)++large;}else{small=smallCheckpoint+1;while(small<prob_.size()&&(prob_[small]>=avg||alias_[small]!=unassigned))++small;smallCheckpoint=small;}}for(size_tx=0;x<unassigned;++x){if(alias_[x]==unassigned){prob_[x]=1.0;alias_[x]=x;}}prob_*=prob_.size();}': None}),
    # round 2: the model objects' sampling functions and the gamma-based samplers (single modelled form each)
    ('mdpSampleSR', 'src/MDP/Model.cpp', r'Model::sampleSR\s*\(\s*const\s+size_t\s+s\s*,\s*const\s+size_t\s+a\s*\)\s*const\s*\{', {
        '{size_ts1=sampleProbability(S,transitions_[a].row(s),rand_);returnstd::make_tuple(s1,rewards_(s,a));}': None}),
    ('mdpSparseSampleSR', 'src/MDP/SparseModel.cpp', r'SparseModel::sampleSR\s*\(\s*const\s+size_t\s+s\s*,\s*const\s+size_t\s+a\s*\)\s*const\s*\{', {
        '{constsize_ts1=sampleProbability(S,transitions_[a].row(s),rand_);returnstd::make_tuple(s1,getExpectedReward(s,a,s1));}': None}),
    ('pomdpSampleSOR', 'include/AIToolbox/POMDP/Model.hpp', r'Model<M>::sampleSOR\s*\(\s*const\s+size_t\s+s\s*,\s*const\s+size_t\s+a\s*\)\s*const\s*\{', {
        '{constauto[s1,r]=this->sampleSR(s,a);constautoo=sampleProbability(O,observations_[a].row(s1),rand_);returnstd::make_tuple(s1,o,r);}': None}),
    ('pomdpSampleOR', 'include/AIToolbox/POMDP/Model.hpp', r'Model<M>::sampleOR\s*\(\s*const\s+size_t\s+s\s*,\s*const\s+size_t\s+a\s*,\s*const\s+size_t\s+s1\s*\)\s*const\s*\{', {
        '{constsize_to=sampleProbability(O,observations_[a].row(s1),rand_);constdoubler=this->getExpectedReward(s,a,s1);returnstd::make_tuple(o,r);}': None}),
    ('pomdpSparseSampleSOR', 'include/AIToolbox/POMDP/SparseModel.hpp', r'SparseModel<M>::sampleSOR\s*\(\s*const\s+size_t\s+s\s*,\s*const\s+size_t\s+a\s*\)\s*const\s*\{', {
        '{constauto[s1,r]=this->sampleSR(s,a);constautoo=sampleProbability(O,observations_[a].row(s1),rand_);returnstd::make_tuple(s1,o,r);}': None}),
    ('pomdpSparseSampleOR', 'include/AIToolbox/POMDP/SparseModel.hpp', r'SparseModel<M>::sampleOR\s*\(\s*const\s+size_t\s+s\s*,\s*const\s+size_t\s+a\s*,\s*const\s+size_t\s+s1\s*\)\s*const\s*\{', {
        '{constsize_to=sampleProbability(O,observations_[a].row(s1),rand_);constdoubler=this->getExpectedReward(s,a,s1);returnstd::make_tuple(o,r);}': None}),
    ('coopSampleSR', 'src/Factored/MDP/CooperativeModel.cpp', r'double\s+CooperativeModel::sampleSR\s*\(\s*const\s+State\s*&\s*s\s*,\s*const\s+Action\s*&\s*a\s*,\s*State\s*\*\s*s1p\s*\)\s*const\s*\{', {
        '{constauto&tProbs=transitions_.transitions;constauto&S=graph_.getS();State&s1=*s1p;for(size_ti=0;i<S.size();++i){constautoj=graph_.getId(i,s,a);s1[i]=sampleProbability(S[i],tProbs[i].row(j),rand_);}returnrewards_.getValue(S,graph_.getA(),s,a);}': None}),
    ('coopSampleSRs', 'src/Factored/MDP/CooperativeModel.cpp', r'void\s+CooperativeModel::sampleSRs\s*\(\s*const\s+State\s*&\s*s\s*,\s*const\s+Action\s*&\s*a\s*,\s*State\s*\*\s*s1p\s*,\s*Rewards\s*\*\s*rp\s*\)\s*const\s*\{', {
        '{assert(s1p);assert(rp);auto&s1=*s1p;auto&rews=*rp;constauto&tProbs=transitions_.transitions;constauto&S=graph_.getS();for(size_ti=0;i<S.size();++i){constautoj=graph_.getId(i,s,a);s1[i]=sampleProbability(S[i],tProbs[i].row(j),rand_);}for(size_ti=0;i<rewards_.bases.size();++i){constauto&e=rewards_.bases[i];constautofid=toIndexPartial(e.tag,S,s);constautoaid=toIndexPartial(e.actionTag,graph_.getA(),a);rews[i]=e.values(fid,aid);}}': None}),
    ('ddnGetIds', 'src/Factored/Utils/BayesianNetwork.cpp', r'DDNGraph::getIds\s*\(\s*const\s+size_t\s+feature\s*,\s*const\s+State\s*&\s*s\s*,\s*const\s+Action\s*&\s*a\s*\)\s*const\s*\{', {
        '{constautoactionId=toIndexPartial(parents_[feature].agents,A,a);constauto&features=parents_[feature].features[actionId];constautoparentId=toIndexPartial(features,S,s);return{parentId,actionId};}': None}),
    ('ddnGetId', 'src/Factored/Utils/BayesianNetwork.cpp', r'DDNGraph::getId\s*\(\s*const\s+size_t\s+feature\s*,\s*size_t\s+parentId\s*,\s*size_t\s+actionId\s*\)\s*const\s*\{', {
        '{returnstartIds_[feature][actionId]+parentId;}': None}),
    ('ddnTransitionProbability', 'src/Factored/Utils/BayesianNetwork.cpp', r'DDN::getTransitionProbability\s*\(\s*const\s+Factors\s*&\s*s\s*,\s*const\s+Factors\s*&\s*a\s*,\s*const\s+Factors\s*&\s*s1\s*\)\s*const\s*\{', {
        '{doubleretval=1.0;for(size_ti=0;i<graph.getS().size();++i){retval*=transitions[i](graph.getId(i,s,a),s1[i]);}returnretval;}': None}),
    ('factoredMatrixGetValue', 'src/Factored/Utils/FactoredMatrix.cpp', r'FactoredMatrix2D::getValue\s*\(\s*const\s+Factors\s*&\s*space\s*,\s*const\s+Factors\s*&\s*actions\s*,\s*const\s+Factors\s*&\s*value\s*,\s*const\s+Factors\s*&\s*action\s*\)\s*const\s*\{', {
        '{doubleretval=0.0;for(constauto&e:bases){constautofid=toIndexPartial(e.tag,space,value);constautoaid=toIndexPartial(e.actionTag,actions,action);retval+=e.values(fid,aid);}returnretval;}': None}),
    ('dirichletLogSpace', 'include/AIToolbox/Utils/Probability.hpp', r'void\s+sampleDirichletDistribution\s*\(\s*const\s+TIn\s*&\s*params\s*,\s*G\s*&\s*generator\s*,\s*TOut\s*&&\s*out\s*\)\s*\{', {
        '{assert(params.size()==out.size());doublesum=0.0;for(size_ti=0;i<static_cast<size_t>(params.size());++i){std::gamma_distribution<double>dist(params[i],1.0);out[i]=dist(generator);sum+=out[i];}out/=sum;}': False,
        '{assert(params.size()==out.size());doublemax=-std::numeric_limits<double>::infinity();for(size_ti=0;i<static_cast<size_t>(params.size());++i){out[i]=sampleLogGammaDistribution(params[i],generator);max=std::max(max,out[i]);}doublesum=0.0;for(size_ti=0;i<static_cast<size_t>(params.size());++i){out[i]=std::exp(out[i]-max);sum+=out[i];}out/=sum;}': True,
        '{assert(params.size()==out.size());doublesum=0.0;for(size_ti=0;i<static_cast<size_t>(params.size());++i){std::gamma_distribution<double>dist(params[i],1.0);out[i]=dist(generator);sum+=out[i];}if(sum==0.0){doublemax=-std::numeric_limits<double>::infinity();for(size_ti=0;i<static_cast<size_t>(params.size());++i){out[i]=sampleLogGammaDistribution(params[i],generator);max=std::max(max,out[i]);}for(size_ti=0;i<static_cast<size_t>(params.size());++i){out[i]=std::exp(out[i]-max);sum+=out[i];}}out/=sum;}': 'fallback'}),
    ('betaLogSpace', 'include/AIToolbox/Utils/Probability.hpp', r'double\s+sampleBetaDistribution\s*\(\s*double\s+a\s*,\s*double\s+b\s*,\s*G\s*&\s*generator\s*\)\s*\{', {
        '{std::gamma_distribution<double>dista(a,1.0);std::gamma_distribution<double>distb(b,1.0);constautoX=dista(generator);constautoY=distb(generator);returnX/(X+Y);}': False,
        '{constautologX=sampleLogGammaDistribution(a,generator);constautologY=sampleLogGammaDistribution(b,generator);constautom=std::max(logX,logY);constautoX=std::exp(logX-m);constautoY=std::exp(logY-m);returnX/(X+Y);}': True,
        '{std::gamma_distribution<double>dista(a,1.0);std::gamma_distribution<double>distb(b,1.0);autoX=dista(generator);autoY=distb(generator);if(X+Y==0.0){constautologX=sampleLogGammaDistribution(a,generator);constautologY=sampleLogGammaDistribution(b,generator);constautom=std::max(logX,logY);X=std::exp(logX-m);Y=std::exp(logY-m);}returnX/(X+Y);}': 'fallback'}),
    # round 4: helpers one level down the call graph of the anchored code (a wrong helper breaks a sampler
    # indirectly): tolerance comparisons, the matrix overloads of isProbability, index arithmetic, the Seeder
    ('checkEqualSmall', 'include/AIToolbox/Utils/Core.hpp', r'inline\s+bool\s+checkEqualSmall\s*\(\s*const\s+double\s+a\s*,\s*const\s+double\s+b\s*\)\s*\{', {
        '{return(std::fabs(a-b)<=equalToleranceSmall);}': None}),
    ('checkDifferentSmall', 'include/AIToolbox/Utils/Core.hpp', r'inline\s+bool\s+checkDifferentSmall\s*\(\s*const\s+double\s+a\s*,\s*const\s+double\s+b\s*\)\s*\{', {
        '{return!checkEqualSmall(a,b);}': None}),
    ('isProbabilityTable2D', HPP, r'bool\s+isProbability\s*\(\s*const\s+size_t\s+rows\s*,\s*const\s+size_t\s+cols\s*,\s*const\s+T\s*&\s*in\s*\)\s*\{', {
        '{for(size_trow=0;row<rows;++row)if(!isProbability(cols,in[row]))returnfalse;returntrue;}': None}),
    ('isProbabilityTable3D', HPP, r'bool\s+isProbability\s*\(\s*const\s+size_t\s+depth\s*,\s*const\s+size_t\s+rows\s*,\s*const\s+size_t\s+cols\s*,\s*const\s+T\s*&\s*in\s*\)\s*\{', {
        '{for(size_td=0;d<depth;++d)if(!isProbability(rows,cols,in[d]))returnfalse;returntrue;}': None}),
    ('isProbabilityMatrix2D', CPP, r'bool\s+isProbability\s*\(\s*const\s+Matrix2D\s*&\s*in\s*\)\s*\{', {
        '{for(size_trow=0;row<static_cast<size_t>(in.rows());++row)if(in.row(row).minCoeff()<0.0||checkDifferentSmall(in.row(row).sum(),1.0))returnfalse;returntrue;}': None}),
    ('isProbabilityMatrix3D', CPP, r'bool\s+isProbability\s*\(\s*const\s+Matrix3D\s*&\s*in\s*\)\s*\{', {
        '{for(constauto&m2:in)if(!isProbability(m2))returnfalse;returntrue;}': None}),
    ('isProbabilitySparse2D', CPP, r'bool\s+isProbability\s*\(\s*const\s+SparseMatrix2D\s*&\s*in\s*\)\s*\{', {
        '{for(intk=0;k<in.outerSize();++k)for(SparseMatrix2D::InnerIteratorit(in,k);it;++it)if(it.value()<0.0)returnfalse;for(size_trow=0;row<static_cast<size_t>(in.rows());++row)if(checkDifferentSmall(in.row(row).sum(),1.0))returnfalse;returntrue;}': None}),
    ('isProbabilitySparse3D', CPP, r'bool\s+isProbability\s*\(\s*const\s+SparseMatrix3D\s*&\s*in\s*\)\s*\{', {
        '{for(constauto&m2:in)if(!isProbability(m2))returnfalse;returntrue;}': None}),
    ('toIndexPartial', 'src/Factored/Utils/Core.cpp', r'size_t\s+toIndexPartial\s*\(\s*const\s+PartialKeys\s*&\s*ids\s*,\s*const\s+Factors\s*&\s*space\s*,\s*const\s+Factors\s*&\s*f\s*\)\s*\{', {
        '{size_tresult=0;size_tmultiplier=1;for(autoid:ids){result+=multiplier*f[id];multiplier*=space[id];}returnresult;}': None}),
    ('factorSpacePartial', 'src/Factored/Utils/Core.cpp', r'size_t\s+factorSpacePartial\s*\(\s*const\s+PartialKeys\s*&\s*ids\s*,\s*const\s+Factors\s*&\s*space\s*\)\s*\{', {
        '{size_tretval=1;for(constautoid:ids){if(std::numeric_limits<size_t>::max()/space[id]<retval)returnstd::numeric_limits<size_t>::max();retval*=space[id];}returnretval;}': None}),
    ('seederGetSeed', 'src/Seeder.cpp', r'unsigned\s+Seeder::getSeed\s*\(\s*\)\s*\{', {
        '{staticstd::uniform_int_distribution<unsigned>dist(0,std::numeric_limits<unsigned>::max());returndist(instance_.generator_);}': None}),
    ('seederSetRootSeed', 'src/Seeder.cpp', r'void\s+Seeder::setRootSeed\s*\(\s*const\s+unsigned\s+seed\s*\)\s*\{', {
        '{instance_.rootSeed_=seed;instance_.generator_.seed(instance_.rootSeed_);}': None}),
    # round 4b: learned models, bandit models
    ('mlSampleSR', 'include/AIToolbox/MDP/MaximumLikelihoodModel.hpp', r'MaximumLikelihoodModel<E>::sampleSR\s*\(\s*const\s+size_t\s+s\s*,\s*const\s+size_t\s+a\s*\)\s*const\s*\{', {
        '{constsize_ts1=sampleProbability(S,transitions_[a].row(s),rand_);returnstd::make_tuple(s1,rewards_(s,a));}': None}),
    ('sparseMlSampleSR', 'include/AIToolbox/MDP/SparseMaximumLikelihoodModel.hpp', r'SparseMaximumLikelihoodModel<E>::sampleSR\s*\(\s*const\s+size_t\s+s\s*,\s*const\s+size_t\s+a\s*\)\s*const\s*\{', {
        '{constsize_ts1=sampleProbability(S,transitions_[a].row(s),rand_);returnstd::make_tuple(s1,rewards_.coeff(s,a));}': None}),
    ('thompsonSampleSR', 'include/AIToolbox/MDP/ThompsonModel.hpp', r'ThompsonModel<E>::sampleSR\s*\(\s*const\s+size_t\s+s\s*,\s*const\s+size_t\s+a\s*\)\s*const\s*\{', {
        '{constsize_ts1=sampleProbability(S,transitions_[a].row(s),rand_);returnstd::make_tuple(s1,rewards_(s,a));}': None}),
    ('banditSampleR', 'include/AIToolbox/Bandit/Model.hpp', r'Model<Dist>::sampleR\s*\(\s*const\s+size_t\s+a\s*\)\s*const\s*\{', {
        '{returnarms_[a](rand_);}': None}),
    ('factoredBanditSampleR', 'include/AIToolbox/Factored/Bandit/Model.hpp', r'Model<Dist>::sampleR\s*\(\s*const\s+Action\s*&\s*a\s*\)\s*const\s*\{', {
        '{for(size_ti=0;i<groups_.size();++i){constautoaid=toIndexPartial(groups_[i],A,a);rews_[i]=arms_[i].sampleR(aid);}returnrews_;}': None}),
    ('flattenedBanditSampleR', 'include/AIToolbox/Factored/Bandit/FlattenedModel.hpp', r'FlattenedModel<Dist>::sampleR\s*\(\s*size_t\s+a\s*\)\s*const\s*\{', {
        '{toFactors(model_.getA(),a,&helper_);returnmodel_.sampleR(helper_).sum();}': None}),
    ('coopMlSampleSR', 'src/Factored/MDP/CooperativeMaximumLikelihoodModel.cpp', r'double\s+CooperativeMaximumLikelihoodModel::sampleSR\s*\(\s*const\s+State\s*&\s*s\s*,\s*const\s+Action\s*&\s*a\s*,\s*State\s*\*\s*s1p\s*\)\s*const\s*\{', {
        '{assert(s1p);constauto&S=experience_.getS();auto&tProbs=transitions_.transitions;State&s1=*s1p;for(size_ti=0;i<S.size();++i){constautoj=experience_.getGraph().getId(i,s,a);s1[i]=sampleProbability(S[i],tProbs[i].row(j),rand_);}returngetExpectedReward(s,a,s1);}': None}),
    ('coopMlSampleSRs', 'src/Factored/MDP/CooperativeMaximumLikelihoodModel.cpp', r'void\s+CooperativeMaximumLikelihoodModel::sampleSRs\s*\(\s*const\s+State\s*&\s*s\s*,\s*const\s+Action\s*&\s*a\s*,\s*State\s*\*\s*s1p\s*,\s*Rewards\s*\*\s*rews\s*\)\s*const\s*\{', {
        '{assert(s1p);assert(rews);constauto&S=experience_.getS();auto&tProbs=transitions_.transitions;State&s1=*s1p;for(size_ti=0;i<S.size();++i){constautoj=experience_.getGraph().getId(i,s,a);s1[i]=sampleProbability(S[i],tProbs[i].row(j),rand_);}getExpectedRewards(s,a,s1,rews);}': None}),
    ('toFactors', 'src/Factored/Utils/Core.cpp', r'void\s+toFactors\s*\(\s*const\s+Factors\s*&\s*space\s*,\s*size_t\s+id\s*,\s*Factors\s*\*\s*out\s*\)\s*\{', {
        '{assert(out);auto&f=*out;for(size_ti=0;i<space.size();++i){f[i]=id%space[i];id/=space[i];}}': None}),
]

# the member initialisers of the Vose constructor belong to the modelled form as well
VOSE_INIT = 'prob_(p),alias_(prob_.size(),prob_.size()),sampleDistribution_(0,prob_.size())'


def gen_c08_variant():
    srcs = {}
    for _n, rel, _p, _f in SITES:
        if rel not in srcs:
            srcs[rel] = E.strip_comments(E.read(rel))
    rows, errs = [], []
    for name, rel, pat, forms in SITES:
        body, ln = _body(srcs[rel], pat, name)
        nb = _norm(body)
        if nb not in forms:
            errs.append(f'{name} ({rel}:{ln}) is not in a modelled form')
            continue
        val = forms[nb]
        if name == 'voseConstructor':
            m = E.find1(r'VoseAliasSampler::VoseAliasSampler\s*\(\s*const\s+ProbabilityVector\s*&\s*p\s*\)\s*:(.*?)\{', srcs[rel], 'VoseAliasSampler initialisers', re.S)
            if _norm(m.group(1)) != VOSE_INIT:
                errs.append(f'VoseAliasSampler member initialisers ({rel}:{ln}) do not match the constructor body form')
                continue
        rows.append((name, val, rel, ln))
    # the probability draw used by every sampler
    m = re.search(r'static\s+std::uniform_real_distribution<double>\s+probabilityDistribution\s*\(\s*0\.0\s*,\s*1\.0\s*\)\s*;', srcs[HPP])
    if not m:
        errs.append('probabilityDistribution is no longer uniform_real_distribution<double>(0.0, 1.0)')
    # fixes/C08-6: when Dirichlet/Beta use the log-space helper, the helper must be the form the harness replays
    vals = {n: v for n, v, _r, _l in rows}
    if vals.get('dirichletLogSpace') != vals.get('betaLogSpace'):
        errs.append('sampleDirichletDistribution and sampleBetaDistribution are in different (plain / log-space / fallback) forms')
    elif vals.get('dirichletLogSpace'):
        try:
            hb, _ = _body(srcs[HPP], r'double\s+sampleLogGammaDistribution\s*\(\s*const\s+double\s+shape\s*,\s*G\s*&\s*generator\s*\)\s*\{', 'sampleLogGammaDistribution')
            if _norm(hb) != '{if(shape>=1.0){std::gamma_distribution<double>dist(shape,1.0);returnstd::log(dist(generator));}std::gamma_distribution<double>dist(shape+1.0,1.0);constdoubleg=dist(generator);constdoubleu=1.0-probabilityDistribution(generator);returnstd::log(g)+std::log(u)/shape;}':
                errs.append('sampleLogGammaDistribution is not in the modelled form')
        except E.ExtractError as e:
            errs.append(str(e))
    # DDNGraph::push: the running-sum construction of startIds_ (modelled by ddnStartIds)
    bn = E.strip_comments(E.read('src/Factored/Utils/BayesianNetwork.cpp'))
    mm = re.search(r'size_t\s+newStartId\s*=\s*0;.*?newStartIds\.back\(\)\s*=\s*newStartId;', bn, re.S)
    if not mm or _norm(mm.group(0)) != 'size_tnewStartId=0;for(size_ti=0;i<newParents.features.size();++i){newStartIds[i]=newStartId;newStartId+=factorSpacePartial(newParents.features[i],S);}newStartIds.back()=newStartId;':
        errs.append('DDNGraph::push: startIds_ construction is not in the modelled form')
    if errs:
        raise E.ExtractError('; '.join(errs))
    out = ['/- GENERATED by tools/extract_c08.py from the library source — do not edit. -/', 'namespace AITB.Gen.C08', '']
    for nm, val, rel, ln in rows:
        out.append(f'/-- {rel}:{ln}' + (' (single modelled form found)' if val is None else '') + ' -/')
        if val is None:
            out.append(f'def {nm}Modelled : Bool := true')
        else:
            out.append(f'def {nm} : Bool := {"true" if val is True else "false"}')
            if nm in ('dirichletLogSpace', 'betaLogSpace'):
                out.append('/-- fixes/C08-8: plain gamma draws, log-space redraw only when every draw underflowed to 0 -/')
                out.append(f'def {nm.replace("LogSpace", "UnderflowFallback")} : Bool := {"true" if val == "fallback" else "false"}')
    out += ['', 'end AITB.Gen.C08', '']
    E.write_if_changed('C08Variant', '\n'.join(out))


# round 4: every constructor of a sampling model object must seed its engine from the Seeder (`rand_(Seeder::getSeed())`);
# the copy constructor of CooperativeModel copies the engine.  Constructors that do not are exported by name: the
# two NO_CHECK constructors of the POMDP models are an open finding (fixes/C08-7); any other one is a broken tie.
CTOR_FILES = [
    ('include/AIToolbox/MDP/Model.hpp', r'\bModel::Model\s*\('), ('src/MDP/Model.cpp', r'\bModel::Model\s*\('),
    ('include/AIToolbox/MDP/SparseModel.hpp', r'\bSparseModel::SparseModel\s*\('), ('src/MDP/SparseModel.cpp', r'\bSparseModel::SparseModel\s*\('),
    ('include/AIToolbox/POMDP/Model.hpp', r'\bModel<M>::Model\s*\('), ('include/AIToolbox/POMDP/SparseModel.hpp', r'\bSparseModel<M>::SparseModel\s*\('),
    ('src/Factored/MDP/CooperativeModel.cpp', r'\bCooperativeModel::CooperativeModel\s*\('),
    ('include/AIToolbox/MDP/MaximumLikelihoodModel.hpp', r'\bMaximumLikelihoodModel<E>::MaximumLikelihoodModel\s*\('),
    ('include/AIToolbox/MDP/SparseMaximumLikelihoodModel.hpp', r'\bSparseMaximumLikelihoodModel<E>::SparseMaximumLikelihoodModel\s*\('),
    ('include/AIToolbox/MDP/ThompsonModel.hpp', r'\bThompsonModel<E>::ThompsonModel\s*\('),
    ('include/AIToolbox/Bandit/Model.hpp', r'\bModel<Dist>::Model\s*\('),
    ('src/Factored/MDP/CooperativeMaximumLikelihoodModel.cpp', r'\bCooperativeMaximumLikelihoodModel::CooperativeMaximumLikelihoodModel\s*\('),
    ('src/Factored/MDP/CooperativeThompsonModel.cpp', r'\bCooperativeThompsonModel::CooperativeThompsonModel\s*\('),
]
CTOR_EXPECTED = 25
KNOWN_UNSEEDED = {'include/AIToolbox/POMDP/Model.hpp:Model<M>::Model(NoCheck,size_to,ObservationMatrix&&ot,Args&&...params)',
                  'include/AIToolbox/POMDP/SparseModel.hpp:SparseModel<M>::SparseModel(NoCheck,size_to,ObservationMatrix&&ot,Args&&...params)'}
# fixes/C08-9: the two learned factored models never seed their engine either
KNOWN_UNSEEDED_FACTORED = {'src/Factored/MDP/CooperativeMaximumLikelihoodModel.cpp:CooperativeMaximumLikelihoodModel::CooperativeMaximumLikelihoodModel(constCooperativeExperience&exp,constdoublediscount,constbooltoSync)',
                           'src/Factored/MDP/CooperativeThompsonModel.cpp:CooperativeThompsonModel::CooperativeThompsonModel(constCooperativeExperience&exp,constdoublediscount)'}


def _ctors(src, pat):
    """(signature, member-initialiser text) of every constructor definition matching pat"""
    out = []
    for m in re.finditer(pat, src):
        i, depth = m.end() - 1, 0
        while True:                       # closing parenthesis of the parameter list
            if src[i] == '(':
                depth += 1
            elif src[i] == ')':
                depth -= 1
                if depth == 0:
                    break
            i += 1
        j = i + 1
        while src[j].isspace():
            j += 1
        if src[j] != ':':                 # a declaration or a delegating use, not a definition with initialisers
            if src[j] == '{':
                out.append((_norm(src[m.start():i + 1]), ''))
            continue
        depth, k = 0, j
        while not (src[k] == '{' and depth == 0 and src[k - 1] != '_' and _norm(src[j:k]).endswith(')')):
            if src[k] == '(':
                depth += 1
            elif src[k] == ')':
                depth -= 1
            k += 1
        out.append((_norm(src[m.start():i + 1]), _norm(src[j:k])))
    return out


def gen_c08_engines():
    seeded, unseeded, copied = [], [], []
    for rel, pat in CTOR_FILES:
        src = E.strip_comments(E.read(rel))
        for sig, init in _ctors(src, pat):
            name = rel + ':' + sig
            if 'rand_(Seeder::getSeed())' in init or 'rand_(AIToolbox::Seeder::getSeed())' in init:
                seeded.append(name)
            elif 'rand_(other.rand_)' in init:
                copied.append(name)
            else:
                unseeded.append(name)
    errs = []
    if len(seeded) + len(unseeded) + len(copied) != CTOR_EXPECTED:
        errs.append(f'expected {CTOR_EXPECTED} constructor definitions of the sampling model classes, found {len(seeded) + len(unseeded) + len(copied)}')
    extra = [u for u in unseeded if u not in KNOWN_UNSEEDED and u not in KNOWN_UNSEEDED_FACTORED]
    if extra:
        errs.append('constructor does not seed rand_ from Seeder::getSeed(): ' + '; '.join(extra))
    if len(copied) != 1:
        errs.append('exactly the CooperativeModel copy constructor is expected to copy the engine: ' + '; '.join(copied))
    # the engine type every mirror in the harness assumes, and the tolerance the property's quantifier names
    if not re.search(r'using\s+RandomEngine\s*=\s*std::mt19937\s*;', E.strip_comments(E.read('include/AIToolbox/Types.hpp'))):
        errs.append('RandomEngine is no longer std::mt19937')
    # storage order: the dense scan indexes a row of a row-major matrix; the sparse theorems assume the stored columns of a row ascend
    types = _norm(E.strip_comments(E.read('include/AIToolbox/Types.hpp')))
    if 'usingMatrix2D=Eigen::Matrix<double,Eigen::Dynamic,Eigen::Dynamic,Eigen::RowMajor|Eigen::AutoAlign>;' not in types:
        errs.append('Matrix2D is no longer a row-major dynamic double matrix')
    if 'usingSparseMatrix2D=Eigen::SparseMatrix<double,Eigen::RowMajor>;' not in types:
        errs.append('SparseMatrix2D is no longer a row-major sparse double matrix')
    m = re.search(r'constexpr\s+auto\s+equalToleranceSmall\s*=\s*([0-9.eE+-]+)\s*;', E.strip_comments(E.read('include/AIToolbox/Utils/Core.hpp')))
    if not m or float(m.group(1)) != 1e-6:
        errs.append('equalToleranceSmall is not 1e-6 (the property quantifies over row sums in [1-1e-6, 1+1e-6])')
    if errs:
        raise E.ExtractError('; '.join(errs))
    pomdp_seeded = not [u for u in unseeded if u in KNOWN_UNSEEDED]
    factored_seeded = not [u for u in unseeded if u in KNOWN_UNSEEDED_FACTORED]
    out = ['/- GENERATED by tools/extract_c08.py from the library source — do not edit. -/', 'namespace AITB.Gen.C08', '',
           f'/-- constructors of MDP::Model, MDP::SparseModel, POMDP::Model, POMDP::SparseModel, CooperativeModel whose member initialisers contain `rand_(Seeder::getSeed())` -/',
           f'def ctorsSeeded : Nat := {len(seeded)}',
           '/-- do the NO_CHECK constructors of POMDP::Model / POMDP::SparseModel seed their engine (fixes/C08-7)? -/',
           f'def pomdpNoCheckSeeded : Bool := {"true" if pomdp_seeded else "false"}',
           '/-- do CooperativeMaximumLikelihoodModel / CooperativeThompsonModel seed their engine (fixes/C08-9)? -/',
           f'def factoredLearnedSeeded : Bool := {"true" if factored_seeded else "false"}',
           '', 'end AITB.Gen.C08', '']
    E.write_if_changed('C08Engines', '\n'.join(out))


GENERATORS = [gen_c08_variant, gen_c08_engines]
