"""Mutation trials for C06 (documentation of what was tried; run manually): applies each mutation to the scratch
library copy $AITB_REPO, runs tools/check.py C06 --tier quick, prints the outcome, reverts the copy.
Usage: AITB_REPO=/var/tmp/rp/c06 python3 tools/mutations_c06.py [M1 M3 ...]   (header mutations rebuild the whole library, ~80 s each)"""
import subprocess, os, sys, json
REPO = os.environ.get('AITB_REPO', '/var/tmp/rp/c06'); WT = os.path.dirname(os.path.dirname(os.path.abspath(__file__)))
env = dict(os.environ, AITB_REPO=REPO)
M = [
 ('M1 MDP::Model::setDiscount accepts 0 (<= became <)', 'src/MDP/Model.cpp',
  'if ( d <= 0.0 || d > 1.0 ) throw', 'if ( d < 0.0 || d > 1.0 ) throw'),
 ('M2 MDP::Model::setTransitionFunction(Matrix3D) commits before it validates', 'src/MDP/Model.cpp',
  '''        if (!isProbability(t))
            throw std::invalid_argument("Input transition matrix does not contain valid probabilities.");

        // Then we copy.
        transitions_ = t;''',
  '''        transitions_ = t;
        if (!isProbability(t))
            throw std::invalid_argument("Input transition matrix does not contain valid probabilities.");
'''),
 ('M3 isProbability(Matrix2D) forgets the sign test', 'src/Utils/Probability.cpp',
  'if (in.row(row).minCoeff() < 0.0 || checkDifferentSmall(in.row(row).sum(), 1.0))', 'if (checkDifferentSmall(in.row(row).sum(), 1.0))'),
 ('M4 MDP::Model(const M&) no longer validates the copied rows', 'include/AIToolbox/MDP/Model.hpp',
  '''                if ( !isProbability(S, transitions_[a].row(s)) )
                    throw std::invalid_argument("Input transition matrix does not contain valid probabilities.");
            }''', '''            }'''),
 ('M5 POMDP::SparseModel::setObservationFunction(3D) clears the stored function before validating', 'include/AIToolbox/POMDP/SparseModel.hpp',
  '''    void SparseModel<M>::setObservationFunction(const ObFun & of) {
''', '''    void SparseModel<M>::setObservationFunction(const ObFun & of) {
        for ( size_t a = 0; a < this->getA(); ++a ) observations_[a].setZero();
'''),
 ('M6 AMDP::discretizeDense leaves unvisited rows all-zero', 'include/AIToolbox/POMDP/Algorithms/AMDP.hpp',
  '''                if ( checkEqualSmall(sum, 0.0) ) T[a](s, s) = 1.0;
                else T[a].row(s) /= sum;
            }

        return std::make_tuple(MDP::Model(''', '''                if ( !checkEqualSmall(sum, 0.0) ) T[a].row(s) /= sum;
            }

        return std::make_tuple(MDP::Model('''),
 ('M7 MDP::SparseModel::setTransitionFunction(SparseMatrix3D) skips validation', 'src/MDP/SparseModel.cpp',
  '''        if (!isProbability(t))
            throw std::invalid_argument("Input transition matrix does not contain valid probabilities.");
''', ''),
 ('M8 DDNGraph::push stores the parent set before checking the feature tags', 'src/Factored/Utils/BayesianNetwork.cpp',
  '''        for (size_t i = 0; i < parents.features.size(); ++i) {
            std::tie(error, std::ignore) = checkTag(S, parents.features[i]);''', '''        parents_.emplace_back(parents); startIds_.emplace_back(1);
        for (size_t i = 0; i < parents.features.size(); ++i) {
            std::tie(error, std::ignore) = checkTag(S, parents.features[i]);'''),
 ('M9 MDP::SparseModel::setDiscount rejects 1.0 (> became >=)', 'src/MDP/SparseModel.cpp',
  'if ( d <= 0.0 || d > 1.0 ) throw', 'if ( d <= 0.0 || d >= 1.0 ) throw'),
 ('M10 MDP::SparseModel::setRewardFunction(3D) uses the wrong successor column', 'include/AIToolbox/MDP/SparseModel.hpp',
  'newRew += r[s][a][s1] * transitions_[a].coeff(s, s1);', 'newRew += r[s][a][s1] * transitions_[a].coeff(s1, s);'),
 ('M11 sparse isProbability drops the |.|-sum test', 'src/Utils/Probability.cpp',
  '''                checkDifferentSmall(in.row(row).sum(), 1.0) ||
                checkDifferentSmall(in.row(row).cwiseAbs().sum(), 1.0)''', '''                checkDifferentSmall(in.row(row).sum(), 1.0)'''),
 ('M13 CooperativeModel constructor forgets the column-count test', 'src/Factored/MDP/CooperativeModel.cpp',
  'if (static_cast<size_t>(transitions_.transitions[i].cols()) != graph_.getS()[i]) {', 'if (false) {'),
 ('M14 CooperativeModel constructor forgets the state-tag test of the reward bases', 'src/Factored/MDP/CooperativeModel.cpp',
  'std::tie(error, id) = checkTag(S, r.tag);', 'error = TagErrors::None;'),
 ('M15 POMDP::Model(const PM&) no longer validates the copied observation rows', 'include/AIToolbox/POMDP/Model.hpp',
  '''                if ( !isProbability(O, observations_[a].row(s1)) )
                    throw std::invalid_argument("Input observation matrix does not contain valid probabilities.");
            }''', '''            }'''),
 ('R1 SparseModel(const M&) validates the row as READ instead of the row as STORED', 'include/AIToolbox/MDP/SparseModel.hpp',
  '''                if ( checkDifferentSmall(0.0, r) ) rewards_.coeffRef(s, a) += r * p;
            }
            if ( checkDifferentSmall(1.0, transitions_[a].row(s).sum()) )''', '''                if ( checkDifferentSmall(0.0, r) ) rewards_.coeffRef(s, a) += r * p;
            }
            double readSum = 0.0;
            for ( size_t s1 = 0; s1 < S; ++s1 ) readSum += model.getTransitionProbability(s, a, s1);
            if ( checkDifferentSmall(1.0, readSum) )'''),
 ('R2 MaximumLikelihoodModel constructor stores the discount without setDiscount', 'include/AIToolbox/MDP/MaximumLikelihoodModel.hpp',
  '''    {
        setDiscount(discount);
        rewards_.setZero();''', '''    {
        discount_ = discount;
        rewards_.setZero();'''),
 ('R3 CooperativeThompsonModel::setDiscount assigns before it validates', 'src/Factored/MDP/CooperativeThompsonModel.cpp',
  '''        if ( !(d > 0.0 && d <= 1.0) ) throw std::invalid_argument("Discount parameter must be in (0,1]");
        discount_ = d;''', '''        discount_ = d;
        if ( !(d > 0.0 && d <= 1.0) ) throw std::invalid_argument("Discount parameter must be in (0,1]");'''),
 ('R4 SparseMaximumLikelihoodModel guard accepts a discount of 0', 'include/AIToolbox/MDP/SparseMaximumLikelihoodModel.hpp',
  'if ( !(d > 0.0 && d <= 1.0) ) throw', 'if ( !(d >= 0.0 && d <= 1.0) ) throw'),
 ('R5 Model(const M&) reads the reward of the self-transition for every successor', 'include/AIToolbox/MDP/Model.hpp',
  'rewards_    (s, a)     += model.getExpectedReward       (s, a, s1) * transitions_[a](s, s1);',
  'rewards_    (s, a)     += model.getExpectedReward       (s, a, s) * transitions_[a](s, s1);'),
 ('M12 checkTag no longer reports duplicates', 'src/Factored/Utils/Core.cpp',
  'if (tagV == previousV)    return std::make_pair(TagErrors::Duplicates, t);', ''),
 # ---- round 3 (N…): indirect helpers and the factored dynamics; run with the repository's unit tests first (tools/dev/unittests_c06.py)
 ('N1 dense isProbability tests |.|-sum only (seeded elsewhere): rows like (0.75, -0.25) pass', 'src/Utils/Probability.cpp',
  'if (in.row(row).minCoeff() < 0.0 || checkDifferentSmall(in.row(row).sum(), 1.0))', 'if (checkDifferentSmall(in.row(row).cwiseAbs().sum(), 1.0))'),
 ('N2 DDN::getTransitionProbability(PartialFactors) indexes the matrices by position instead of node id', 'src/Factored/Utils/BayesianNetwork.cpp',
  'retval *= transitions[nodeId](graph.getId(nodeId, s, a), s1.second[j]);', 'retval *= transitions[j](graph.getId(j, s, a), s1.second[j]);'),
 ('N3 DDNGraph::getIds(feature, j) searches with >= (block boundaries go to the previous parent set)', 'src/Factored/Utils/BayesianNetwork.cpp',
  'while (startIds_[feature][actionId] > j)', 'while (actionId > 0 && startIds_[feature][actionId] >= j)'),
 ('N4 CooperativeModel copy constructor binds the DDN to the SOURCE graph (dangling once the source dies)', 'src/Factored/MDP/CooperativeModel.cpp',
  'transitions_({graph_, other.transitions_.transitions}), rewards_(other.rewards_),', 'transitions_({other.graph_, other.transitions_.transitions}), rewards_(other.rewards_),'),
 ('N5 FactoredMatrix2D::getValue assigns instead of accumulating (only the last basis counts)', 'src/Factored/Utils/FactoredMatrix.cpp',
  '''           const auto aid = toIndexPartial(e.actionTag, actions, action);

           retval += e.values(fid, aid);''', '''           const auto aid = toIndexPartial(e.actionTag, actions, action);

           retval = e.values(fid, aid);'''),
 ('N6 CooperativeModel constructor validates only the first getPartialSize(i) rows of each matrix', 'src/Factored/MDP/CooperativeModel.cpp',
  'for (size_t j = 0; j < graph_.getSize(i); ++j)\n                if (!isProbability', 'for (size_t j = 0; j < graph_.getPartialSize(i); ++j)\n                if (!isProbability'),
 ('N7 equalToleranceSmall widened to 1e-5', 'include/AIToolbox/Utils/Core.hpp',
  'constexpr auto equalToleranceSmall = 0.000001;', 'constexpr auto equalToleranceSmall = 0.00001;'),
 ('N8 toIndexPartial(ids, space, Factors) multiplies by the size of the NEXT key (wrong radix for non-uniform spaces)', 'src/Factored/Utils/Core.cpp',
  '''        for (auto id : ids) {
            result += multiplier * f[id];
            multiplier *= space[id];
        }
        return result;
    }

    size_t toIndexPartial(const PartialKeys & ids, const Factors & space, const PartialFactors & pf) {''', '''        for (size_t k = 0; k < ids.size(); ++k) {
            result += multiplier * f[ids[k]];
            multiplier *= space[ids[k + 1 < ids.size() ? k + 1 : k]];
        }
        return result;
    }

    size_t toIndexPartial(const PartialKeys & ids, const Factors & space, const PartialFactors & pf) {'''),
 ('N9 DDNGraph::push accumulates startIds_ with the size of the FIRST feature tag only', 'src/Factored/Utils/BayesianNetwork.cpp',
  'newStartId += factorSpacePartial(newParents.features[i], S);', 'newStartId += factorSpacePartial(newParents.features[0], S);'),
 ('N10 MDP::SparseModel::getTransitionProbability reads the transposed entry (the generic view every converting constructor uses)', 'src/MDP/SparseModel.cpp',
  'return transitions_[a].coeff(s, s1);', 'return transitions_[a].coeff(s1, s);'),
 ('N11 MDP::Model::getExpectedReward(s, a, s1) indexes the reward table by the successor', 'src/MDP/Model.cpp',
  '''    double Model::getExpectedReward(const size_t s, const size_t a, const size_t) const {
        return rewards_(s, a);''', '''    double Model::getExpectedReward(const size_t s, const size_t a, const size_t s1) const {
        return rewards_(s1, a);'''),
 ('N12 operator>>(istream&, Model&) sets the discount on the target instead of the temporary (a later failure leaves it changed)', 'src/MDP/IO.cpp',
  '''            AI_LOGGER(AI_SEVERITY_ERROR, "Could not read Model discount.");
            return is;
        } else
            in.setDiscount(discount);''', '''            AI_LOGGER(AI_SEVERITY_ERROR, "Could not read Model discount.");
            return is;
        } else
            m.setDiscount(discount);'''),
 ('N13 AMDP::discretizeDense accumulates the reward without the observation probability', 'include/AIToolbox/POMDP/Algorithms/AMDP.hpp',
  '''                        T[a](s, s1) += p;
                        R(s, a)     += p * r;''', '''                        T[a](s, s1) += p;
                        R(s, a)     += r;'''),
 # ---- round 4: the repaired sparse validator (fixes/C05-2, repo 54353bc)
 ('N14 isProbability(SparseMatrix2D) loses its sign loop (row sums only: [1+4e-7, -4e-7] and [1.25, -0.25] pass)', 'src/Utils/Probability.cpp',
  '''        for (int k = 0; k < in.outerSize(); ++k)
            for (SparseMatrix2D::InnerIterator it(in, k); it; ++it)
                if (it.value() < 0.0) return false;

''', ''),
 ('N15 the sign loop of isProbability(SparseMatrix2D) skips the first stored value of every row', 'src/Utils/Probability.cpp',
  '''            for (SparseMatrix2D::InnerIterator it(in, k); it; ++it)
                if (it.value() < 0.0) return false;''', '''            for (SparseMatrix2D::InnerIterator it(in, k); it; ++it)
                if (it.value() < 0.0 && it.col() != SparseMatrix2D::InnerIterator(in, k).col()) return false;'''),
]
UT = '--ut' in sys.argv
LENIENT = '--lenient' in sys.argv      # skip the textual tie (AITB.Gen.C06Sites) to see what the behavioural clauses catch alone
if LENIENT: env['AITB_C06_LENIENT_SITES'] = '1'
sel = [a for a in sys.argv[1:] if not a.startswith('--')]
for name, f, a, b in M:
    if sel and name.split()[0] not in sel:
        continue
    p = os.path.join(REPO, f); s = open(p).read()
    if s.count(a) != 1:
        print(name, 'PATTERN COUNT', s.count(a)); continue
    open(p, 'w').write(s.replace(a, b))
    if UT:
        ut = subprocess.run(['python3', 'tools/dev/unittests_c06.py'], cwd=WT, env=env, capture_output=True, text=True)
        bad = [l.split()[0] for l in ut.stdout.splitlines() if ' rc=' in l and ' rc=0' not in l]
        print('   unit tests:', 'PASS' if ut.returncode == 0 else 'FAIL ' + ' '.join(bad)); sys.stdout.flush()
    r = subprocess.run(['python3', 'tools/check.py', 'C06', '--tier', 'quick'], cwd=WT, env=env, capture_output=True, text=True)
    lines = [l for l in (r.stdout + r.stderr).splitlines() if l.startswith('VIOLATION') or l.startswith('[C06]') or 'BROKEN' in l or 'ExtractError' in l]
    print('==', name, 'exit', r.returncode)
    for l in lines[:5]:
        print('   ', l[:200])
    for l in lines:
        if l.startswith('VIOLATION'):
            if 'replay=' not in l: break
            rp = l.split('replay=')[1].split()[0]
            d = json.load(open(rp)); print('    first:', (d.get('verdict') or d.get('detail') or str(d.get('broken'))[:300])[:260]); break
    open(p, 'w').write(s)      # restore the original text (works in a plain copy of the library too)
    sys.stdout.flush()
