#!/usr/bin/env python3
"""C12 translator plug-in: which reading of four statements in src/Utils/Polytope.cpp applies *now*.

The Lean model of LPInterpolation / sawtoothInterpolation (AITB.Model.Interp) carries both the
as-found and the repaired reading of each site; this generator decides from the source text which
one the library currently has, so that the theorems and the differential run follow the code and
not a hand-set switch.  An unrecognised form is a broken tie (ExtractError)."""
import re
import extract as E

REL = 'src/Utils/Polytope.cpp'


def body_of(src, name):
    m = E.find1(r'std::tuple<double,\s*Vector>\s+' + name + r'\s*\(', src, name)
    i = src.index('{', m.end())
    depth, j = 0, i
    while j < len(src):
        if src[j] == '{':
            depth += 1
        elif src[j] == '}':
            depth -= 1
            if depth == 0:
                return src[i:j + 1], E.lineno(src, m.start())
        j += 1
    raise E.ExtractError('unbalanced body of ' + name)


def gen_c12src():
    src = E.strip_comments(E.read(REL))
    lp, lp_line = body_of(src, 'LPInterpolation')
    saw, saw_line = body_of(src, 'sawtoothInterpolation')
    flat = lambda s: re.sub(r'\s+', ' ', s)
    lp, saw = flat(lp), flat(saw)

    # 1. where the LP solution is written into the returned weight vector
    if re.search(r'retval\.tail\(\s*compatiblePoints\.size\(\)\s*\)\s*=\s*result\s*;', lp):
        lp_tail = True
    elif re.search(r'retval\[\s*point\.size\(\)\s*\+\s*compatiblePoints\[i\]\s*\]\s*=\s*result\[i\]\s*;', lp):
        lp_tail = False
    else:
        raise E.ExtractError('LPInterpolation: statement that stores the LP solution in retval not recognised')

    # 2. single-compatible-point shortcut
    if re.search(r'result\[0\]\s*=\s*\(\s*point\.cwiseQuotient\(compPoint\)\s*\)\.minCoeff\(\)\s*;', lp):
        lp_single_raw = True
    elif re.search(r'if \(gain < 0\.0\) \{ ratio = 1\.0; for \(const auto s : nonZeroStates\) if \(compPoint\[s\] > 0\.0\) '
                   r'ratio = std::min\(ratio, point\[s\] / compPoint\[s\]\); \} result\.resize\(1\); result\[0\] = ratio; unscaledValue = ratio \* gain;', lp):
        lp_single_raw = False
    else:
        raise E.ExtractError('LPInterpolation: single-compatible-point shortcut not recognised')

    # 3./4. sawtooth: slot of the point weight, early-exit comparison
    if re.search(r'retval\[\s*minI\s*\]\s*=\s*minC\s*;', saw):
        saw_no_offset = True
    elif re.search(r'retval\[\s*point\.size\(\)\s*\+\s*minI\s*\]\s*=\s*minC\s*;', saw):
        saw_no_offset = False
    else:
        raise E.ExtractError('sawtoothInterpolation: statement that stores minC in retval not recognised')
    if re.search(r'if \(\s*basicV < v\s*\)', saw):
        saw_strict = True
    elif re.search(r'if \(\s*(?:minCF >= 0\.0 \|\| )?basicV <= v\s*\)', saw):
        saw_strict = False
    else:
        raise E.ExtractError('sawtoothInterpolation: early-exit comparison not recognised')
    # the early exit may be guarded by `minCF >= 0.0 ||` (no stored point helped): modelled as `sawtoothG true`
    saw_guard = bool(re.search(r'if \(\s*minCF >= 0\.0 \|\| basicV <=? v\s*\)', saw))

    # structural facts the model relies on (fail loudly if they move)
    E.find1(r'if \(checkEqualSmall\(retval\[i\], 0\.0\) \|\| retval\[i\] < 0\.0\) retval\[i\] = 0\.0;', lp, 'LPInterpolation clean-up loop')
    E.find1(r'lp\.pushRow\(LP::Constraint::LessEqual, point\[s\]\);', lp, 'LPInterpolation row sense')
    E.find1(r'c = std::min\(c, 1\.0\);', saw, 'sawtooth ratio cap')
    E.find1(r'if \(cf < minCF\)', saw, 'sawtooth strict improvement test')

    # documented precision of the LP wrapper
    lpw = E.strip_comments(E.read('src/Utils/LP/LpSolveWrapper.cpp'))
    mprec = E.find1(r'double\s+LP::getPrecision\s*\(\s*\)\s*\{\s*return\s+([0-9.eE+-]+)\s*;', lpw, 'LP::getPrecision')
    lp_prec = E.lean_rat(E.lit_to_rat(mprec.group(1)))

    # ---- WitnessLP (round 3): every statement the model AITB.Model.WitnessLP transcribes
    m = re.search(r'static double witnessScale\(const Hyperplane & v\) \{(.*?)\n    \}', src, re.S)
    if not m:
        raise E.ExtractError('witnessScale: definition not found')
    ws = flat(m.group(1))
    E.find1(r'const double m = v\.size\(\) \? v\.cwiseAbs\(\)\.maxCoeff\(\) : 0\.0;', ws, 'witnessScale largest magnitude')
    E.find1(r'if \(!\(m > 0\.0\) \|\| !std::isfinite\(m\)\) return 1\.0;', ws, 'witnessScale zero guard')
    E.find1(r'const int e = std::ilogb\(m\);', ws, 'witnessScale exponent')
    mb = E.find1(r'return std::abs\(e\) > (\d+) \? std::ldexp\(1\.0, -e\) : 1\.0;', ws, 'witnessScale power of two')
    exp_bound = int(mb.group(1))

    def method(name, ret):
        mm = re.search(ret + r'\s+WitnessLP::' + name + r'\s*\([^)]*\)\s*\{', src)
        if not mm:
            raise E.ExtractError('WitnessLP::' + name + ' not found')
        i = src.index('{', mm.start()); depth = 0; j = i
        while j < len(src):
            if src[j] == '{': depth += 1
            elif src[j] == '}':
                depth -= 1
                if depth == 0: return flat(src[i:j + 1])
            j += 1
        raise E.ExtractError('unbalanced body of WitnessLP::' + name)
    add = method('addOptimalRow', 'void')
    E.find1(r'^\{ if \(scale_ == 0\.0\) scale_ = witnessScale\(v\); for \( size_t i = 0; i < S; \+\+i \) lp_\.row\[i\] = v\[i\] \* scale_; '
            r'lp_\.row\[S\+1\] = \+1\.0; lp_\.pushRow\(LP::Constraint::LessEqual, 0\.0\); lp_\.row\[S\+1\] = 0\.0; \}$', add, 'WitnessLP::addOptimalRow body')
    fw = method('findWitness', r'std::optional<Point>')
    E.find1(r'^\{ const double scale = scale_ != 0\.0 \? scale_ : witnessScale\(v\); for \( size_t i = 0; i < S; \+\+i \) lp_\.row\[i\] = v\[i\] \* scale; '
            r'lp_\.pushRow\(LP::Constraint::Equal, 0\.0\); double deltaValue; auto solution = lp_\.solve\(S, &deltaValue\); lp_\.popRow\(\); '
            r'if \(deltaValue <= 0\) solution\.reset\(\); return solution; \}$', fw, 'WitnessLP::findWitness body')
    E.find1(r'^\{ scale_ = 0\.0; lp_\.resize\(1\); \}$', method('reset', 'void'), 'WitnessLP::reset body')
    ctor = re.search(r'WitnessLP::WitnessLP\(const size_t s\) : S\(s\), lp_\(s\+2\)\s*\{(.*?)\n    \}', src, re.S)
    if not ctor:
        raise E.ExtractError('WitnessLP constructor not found')
    ct = flat(ctor.group(1))
    # is delta made a free variable too (fixes/C12-6: the LP is then always feasible, INFEASIBLE can only be a solver failure)?
    delta_free = bool(re.search(r'lp_\.setUnbounded\(S\);.*lp_\.setUnbounded\(S\s*\+\s*1\);', ct))
    if ct.count('setUnbounded') != (2 if delta_free else 1):
        raise E.ExtractError('WitnessLP constructor: set of free columns not recognised')
    for pat, what in [(r'lp_\.setObjective\(S\+1, true\);', 'objective = maximise delta'),
                      (r'for \( size_t i = 0; i < S; \+\+i \) lp_\.row\[i\] = 1\.0; lp_\.row\[S\] = 0\.0; lp_\.row\[S \+ 1\] = 0\.0; lp_\.pushRow\(LP::Constraint::Equal, 1\.0\);', 'simplex row'),
                      (r'lp_\.setUnbounded\(S\);', 'K free'),
                      (r'lp_\.row\[S\] = -1\.0; lp_\.row\[S \+ 1\] = \+0\.0;', 'K and delta coefficients')]:
        E.find1(pat, ct, 'WitnessLP constructor: ' + what)
    # Pruner's use of the object
    pr = flat(E.strip_comments(E.read('include/AIToolbox/Utils/Prune.hpp')))
    E.find1(r'lp_\.reset\(\); lp_\.allocate\(size\); for \( auto it = begin; it != bound; \+\+it \) lp_\.addOptimalRow\(std::invoke\(p, \*it\)\);', pr, 'Pruner: LP set-up')
    E.find1(r'const auto witness = lp_\.findWitness\(std::invoke\(p, \*\(end-1\)\)\);', pr, 'Pruner: witness question')
    E.find1(r'bound = extractBestAtPoint\(\*witness, bound, bound, end, p\); lp_\.addOptimalRow\(std::invoke\(p, \*\(bound-1\)\)\);', pr, 'Pruner: new optimal row')
    # LPInterpolation's LP
    for pat, what in [(r'LP lp\(compatiblePoints\.size\(\) \+ 1\);', 'columns'),
                      (r'lp\.setObjective\(compatiblePoints\.size\(\), false\);', 'objective = minimise K'),
                      (r'lp\.setUnbounded\(compatiblePoints\.size\(\)\);', 'K free'),
                      (r'lp\.row\[compatiblePoints\.size\(\)\] = \+0\.0;', 'K coefficient of the state rows'),
                      (r'for \(const auto b : compatiblePoints\) lp\.row\[i\+\+\] = ubV\.first\[b\]\[s\];', 'state row coefficients'),
                      (r'lp\.row\[i\] = -1\.0; lp\.pushRow\(LP::Constraint::Equal, 0\.0\);', 'gain row')]:
        E.find1(pat, lp, 'LPInterpolation LP: ' + what)
    # the LP wrapper passes rows through unchanged (a coefficient touched on the way to lp_solve changes every LP of the library)
    lpw_flat = flat(lpw)
    E.find1(r'void LP::pushRow\(const Constraint c, const double value\) \{ add_constraint\(pimpl_->lp_\.get\(\), pimpl_->conversionData\(\), '
            r'toLpSolveConstraint\(c\), static_cast<REAL>\(value\)\); \}', lpw_flat, 'LP::pushRow body')
    E.find1(r'void LP::popRow\(\) \{ del_constraint\(pimpl_->lp_\.get\(\), get_Nrows\(pimpl_->lp_\.get\(\)\)\); \}', lpw_flat, 'LP::popRow body')
    E.find1(r'constexpr int toLpSolveConstraint\(LP::Constraint c\) \{ if \(c == LP::Constraint::LessEqual\) return LE; if \(c == LP::Constraint::GreaterEqual\) return GE; return EQ; \}',
            lpw_flat, 'toLpSolveConstraint')
    E.find1(r'double \* conversionData\(\) \{ return static_cast<Impl\*>\(this\)->data_\.get\(\); \}', lpw_flat, 'ConversionArray::conversionData (no conversion)')
    E.find1(r'if \( result == 0 \|\| result == 1 \) solution = Eigen::Map<Vector>\(vp, variables\);', lpw_flat, 'LP::solve accepted result codes')
    E.find1(r'void LP::resize\(const size_t rows\) \{ resize_lp\(pimpl_->lp_\.get\(\), rows, row\.size\(\)\); \}', lpw_flat, 'LP::resize body')

    b = lambda x: 'true' if x else 'false'
    body = f"""/- GENERATED by tools/extract_c12.py from {REL} — do not edit. -/
namespace AITB.Gen.C12Src

/-- {REL}: LPInterpolation (line {lp_line}) stores the LP solution with `retval.tail(k) = result` -/
def lpTail : Bool := {b(lp_tail)}
/-- {REL}: LPInterpolation single-point shortcut is `point.cwiseQuotient(compPoint).minCoeff()` -/
def lpSingleRaw : Bool := {b(lp_single_raw)}
/-- {REL}: sawtoothInterpolation (line {saw_line}) stores the ratio with `retval[minI] = minC` -/
def sawNoOffset : Bool := {b(saw_no_offset)}
/-- {REL}: sawtoothInterpolation leaves early on `basicV < v` (strict) -/
def sawStrict : Bool := {b(saw_strict)}
/-- {REL}: the early exit of sawtoothInterpolation is guarded by `minCF >= 0.0 ||` -/
def sawGuard : Bool := {b(saw_guard)}
/-- src/Utils/LP/LpSolveWrapper.cpp: `LP::getPrecision()` -/
def lpPrecision : Rat := {lp_prec}
/-- {REL}: `witnessScale` rescales when `std::abs(std::ilogb(m)) >` this bound (by `std::ldexp(1.0, -e)`) -/
def witnessExpBound : Nat := {exp_bound}
/-- {REL}: the WitnessLP constructor makes `delta` (column S+1) a free variable as well as `K` (column S) -/
def witnessDeltaFree : Bool := {b(delta_free)}

end AITB.Gen.C12Src
"""
    E.write_if_changed('C12Src', body)


GENERATORS = [gen_c12src]
