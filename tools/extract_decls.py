#!/usr/bin/env python3
"""Declared-but-never-defined functions (C10: every documented public member must be usable, i.e. also LINK).

For every header under include/AIToolbox the clang-14 JSON AST is dumped (filter: namespace AIToolbox) and every
non-template function / method / constructor declaration is collected with its mangled name and whether any
declaration of it carries a body. A declared, non-inline, non-deleted/defaulted/pure function that has no body in any
header must be defined by the library objects (nm, mangled). What is left over is returned.
Results are cached by the hash of the include tree + the library archive name."""
import json, os, re, subprocess, sys
from concurrent.futures import ThreadPoolExecutor

sys.path.insert(0, os.path.dirname(os.path.abspath(__file__)))
import common as C

SKIP_KINDS = {'ClassTemplateDecl', 'FunctionTemplateDecl', 'ClassTemplatePartialSpecializationDecl', 'ClassTemplateSpecializationDecl',
              'TypeAliasTemplateDecl', 'VarTemplateDecl', 'ConceptDecl'}
FN_KINDS = {'FunctionDecl', 'CXXMethodDecl', 'CXXConstructorDecl', 'CXXDestructorDecl', 'CXXConversionDecl'}


def walk(node, scope, out):
    k = node.get('kind')
    if k in SKIP_KINDS:
        return
    name = node.get('name', '')
    if k in FN_KINDS:
        if node.get('isImplicit') or node.get('explicitlyDeleted') or node.get('explicitlyDefaulted') or node.get('pure'):
            return
        mn = node.get('mangledName')
        if not mn:
            return
        has_body = any(ch.get('kind') in ('CompoundStmt', 'CXXTryStmt') for ch in node.get('inner', []))
        rec = out.setdefault(mn, {'name': '::'.join(scope + [name]), 'body': False, 'inline': False, 'constexpr': False})
        rec['body'] = rec['body'] or has_body
        rec['inline'] = rec['inline'] or bool(node.get('inline'))
        rec['constexpr'] = rec['constexpr'] or bool(node.get('constexpr'))
        return
    sc = scope
    if k in ('NamespaceDecl', 'CXXRecordDecl') and name:
        if k == 'CXXRecordDecl' and not node.get('completeDefinition', False) and not node.get('inner'):
            return
        sc = scope + [name]
    for ch in node.get('inner', []) or []:
        if isinstance(ch, dict):
            walk(ch, sc, out)


def dump_header(rel):
    src = '#include <%s>\n' % rel
    p = subprocess.run(['clang++-14', '-std=c++20', '-fsyntax-only', '-w', '-D' + C.GUARD, '-I' + os.path.join(C.REPO, 'include'), '-I/usr/include/eigen3',
                        '-Xclang', '-ast-dump=json', '-Xclang', '-ast-dump-filter=AIToolbox', '-x', 'c++', '-'],
                       input=src, stdout=subprocess.PIPE, stderr=subprocess.DEVNULL, text=True)
    out = {}
    dec = json.JSONDecoder()
    txt = p.stdout
    i, n = 0, len(txt)
    while i < n:
        while i < n and txt[i] != '{':
            i += 1
        if i >= n:
            break
        try:
            obj, j = dec.raw_decode(txt, i)
        except json.JSONDecodeError:
            break
        # a filtered dump prints each match as its own document; the enclosing namespaces are not repeated, so take the
        # qualified scope from the match header is not available: use the node itself (NamespaceDecl documents carry their name)
        walk(obj, [], out)
        i = j
    return out


def undefined_decls(lib):
    key = C.sha(C.include_hash(), os.path.basename(lib or ''))
    cache = os.path.join(C.CACHE, 'decls-' + key + '.json')
    if os.path.exists(cache):
        return json.load(open(cache))
    headers = []
    root = os.path.join(C.REPO, 'include')
    for dp, dn, fn in sorted(os.walk(os.path.join(root, 'AIToolbox'))):
        for f in sorted(fn):
            if f.endswith('.hpp'):
                headers.append(os.path.relpath(os.path.join(dp, f), root))
    decls = {}
    with ThreadPoolExecutor(max_workers=C.NPROC) as ex:
        for out in ex.map(dump_header, headers):
            for mn, rec in out.items():
                r = decls.setdefault(mn, rec)
                r['body'] = r['body'] or rec['body']
                r['inline'] = r['inline'] or rec['inline']
    nm = subprocess.run(['nm', '--defined-only', lib], stdout=subprocess.PIPE, stderr=subprocess.DEVNULL, text=True).stdout
    defined = set()
    for ln in nm.splitlines():
        parts = ln.split()
        if len(parts) >= 3:
            defined.add(parts[-1])
    missing = sorted({rec['name'] + ' [' + mn + ']' for mn, rec in decls.items() if not rec['body'] and mn not in defined and not rec['name'].startswith('std::')})
    res = {'headers': len(headers), 'declared': len(decls), 'with_body': sum(1 for r in decls.values() if r['body']), 'missing': missing}
    os.makedirs(C.CACHE, exist_ok=True)
    json.dump(res, open(cache, 'w'))
    return res


if __name__ == '__main__':
    lib, _ = C.build_lib()
    r = undefined_decls(lib)
    print(r['headers'], 'headers', r['declared'], 'declared functions', r['with_body'], 'with body;', len(r['missing']), 'missing:')
    for m in r['missing']:
        print('  ', m)
