#!/usr/bin/env python3
"""Gen/C16Rng (C16): where the library's random engines live and how each one is seeded.

For every class under include/ + src/ that owns a data member of type `RandomEngine`:
  * (class, member, mutable?)                                   -> `engines`
  * every user-written constructor DEFINITION of that class with the way the engine member is initialised
      seeder     mem-initialiser `<member>(Seeder::getSeed())`
      delegates  the constructor delegates to another constructor of the same class
      unseeded   anything else (the engine is default-constructed: std::mt19937's fixed default seed 5489, the same for
                 every object and every root seed)
    -> `ctors`
  * the number of constructor declarations in the class body that are not `= default` / `= delete` must equal the number of
    definitions found (otherwise a definition escaped the text scan: ExtractError)
Also pinned (text facts the Seeder theorems rest on):
  * `Seeder::getSeed` draws from `instance_.generator_` only, through a function-local uniform_int_distribution<unsigned>
    covering the whole range of `unsigned` (for that range libstdc++ returns the engine word: one draw per call, stateless)
  * `Seeder::setRootSeed` re-seeds `instance_.generator_` with its argument
  * every other use of `Seeder::` in the library is `Seeder::getSeed()` inside a mem-initialiser or an engine construction
    (`usesOutsideInit` lists the rest; today: none)
  * helper signatures of Utils/Probability.hpp: every sampling helper takes the engine as a parameter `G & generator` /
    `RandomEngine &` and declares no `static` local (`samplingHelpers`)."""
import os, re, sys

sys.path.insert(0, os.path.dirname(os.path.abspath(__file__)))
import extract

ENGINE_T = r'(?:AIToolbox::)?RandomEngine'


def _files():
    out = []
    for sub in ('include', 'src'):
        for dp, dn, fn in sorted(os.walk(os.path.join(extract.REPO, sub))):
            for f in sorted(fn):
                if f.endswith(('.hpp', '.cpp')):
                    out.append(os.path.relpath(os.path.join(dp, f), extract.REPO))
    return out


def _match_paren(src, i, open_c='(', close_c=')'):
    """index of the bracket closing the one at src[i]"""
    depth = 0
    while i < len(src):
        if src[i] == open_c:
            depth += 1
        elif src[i] == close_c:
            depth -= 1
            if depth == 0:
                return i
        i += 1
    return -1


def _namespace_at(src, pos):
    """qualified namespace enclosing `pos` (text scan of `namespace X::Y {`)"""
    ns = []
    for m in re.finditer(r'\bnamespace\s+([\w:]+)\s*\{', src):
        if m.start() > pos:
            break
        end = _match_paren(src, m.end() - 1, '{', '}')
        if end < 0 or end > pos:
            ns.append(m.group(1))
    return '::'.join(ns)


def _classes_with_engine(rel, src):
    """[(qualified class, short name, specialisation suffix, body start, body end, member, mutable)]"""
    res = []
    for m in re.finditer(r'\b(class|struct)\s+(\w+)\s*(<[^{};]*>)?\s*(?:final\s*)?(?::[^{};]*)?\{', src):
        b0 = m.end() - 1
        b1 = _match_paren(src, b0, '{', '}')
        if b1 < 0:
            continue
        body = src[b0:b1]
        # members at depth 1 of this class only
        depth, i, top = 0, 0, []
        for j, ch in enumerate(body):
            if ch == '{':
                if depth == 1:
                    top.append(body[i:j]);
                depth += 1
            elif ch == '}':
                depth -= 1
                if depth == 1:
                    i = j + 1
        top.append(body[i:])
        flat = ' '.join(top)
        for mm in re.finditer(r'(mutable\s+)?' + ENGINE_T + r'\s+(\w+)\s*;', flat):
            ns = _namespace_at(src, m.start())
            res.append((ns + '::' + m.group(2) + (re.sub(r'\s+', '', m.group(3)) if m.group(3) else ''), m.group(2), m.group(3) or '', b0, b1, mm.group(2), bool(mm.group(1))))
    return res


def _ctor_decls(body, short):
    """constructor declarations at depth 1 of a class body: returns (count of user-provided ones, in-class definitions [(params, init)])"""
    depth, n, inl = 0, 0, []
    i = 0
    while i < len(body):
        ch = body[i]
        if ch == '{':
            depth += 1
        elif ch == '}':
            depth -= 1
        elif depth == 1 and body.startswith(short, i) and (i == 0 or not (body[i - 1].isalnum() or body[i - 1] in '_~:')):
            j = i + len(short)
            k = j
            while k < len(body) and body[k].isspace():
                k += 1
            if k < len(body) and body[k] == '(':
                # must be at the start of a declaration: previous non-space token ends a statement / access specifier / `explicit` / template header
                prev = body[:i].rstrip()
                if prev.endswith((';', '{', '}', ':', 'explicit', '>', 'constexpr', 'inline')):
                    e = _match_paren(body, k)
                    params = ' '.join(body[k + 1:e].split())
                    rest = body[e + 1:]
                    mt = re.match(r'\s*(noexcept\s*)?(=\s*(default|delete)\s*;|;|:|\{|requires)', rest)
                    if mt and mt.group(2) and mt.group(2).startswith('='):
                        pass
                    elif mt and mt.group(2) == ';':
                        n += 1
                    elif mt and mt.group(2) in (':', '{'):
                        n += 1
                        ob = body.find('{', e)
                        # the init list ends at the '{' that opens the body: skip braces nested in parentheses
                        p, dd = e + 1, 0
                        while p < len(body):
                            if body[p] in '(':
                                dd += 1
                            elif body[p] == ')':
                                dd -= 1
                            elif body[p] == '{' and dd == 0 and re.search(r'[)\s}]\s*$', body[e + 1:p] or ' '):
                                break
                            p += 1
                        inl.append((params, ' '.join(body[e + 1:p].split())))
                        i = p
                        continue
                    elif mt and mt.group(2) == 'requires':
                        n += 1
                    i = e
        i += 1
    return n, inl


def _out_of_class_defs(src, short, spec):
    """definitions `short<…>::short(params) : init {` in `src`; spec = '' for the primary template / plain class, or the
    specialisation argument list"""
    res = []
    for m in re.finditer(r'\b' + re.escape(short) + r'\s*(<[^;{}()]*?>)?\s*::\s*' + re.escape(short) + r'\s*\(', src):
        targs = re.sub(r'\s+', '', m.group(1) or '')
        if spec:
            if targs != re.sub(r'\s+', '', spec):
                continue
        else:
            # primary template: the argument list is the template's own parameter names, never containing `void`
            if 'void' in targs:
                continue
        k = m.end() - 1
        e = _match_paren(src, k)
        p, dd = e + 1, 0
        while p < len(src):
            if src[p] == '(':
                dd += 1
            elif src[p] == ')':
                dd -= 1
            elif src[p] == '{' and dd == 0 and re.search(r'[)\s}]\s*$', src[e + 1:p] or ' '):
                break
            elif src[p] == ';' and dd == 0:
                p = -1
                break
            p += 1
        if p < 0:
            continue
        res.append((' '.join(src[k + 1:e].split()), ' '.join(src[e + 1:p].split())))
    return res


def _classify(init, short, member):
    if re.search(r'(?:^|[:,]\s*)' + re.escape(member) + r'\s*[({]\s*(?:AIToolbox::)?Seeder::getSeed\(\)\s*[)}]', init):
        return 'seeder'
    if re.search(r'^\s*(?:noexcept\s*)?:\s*' + re.escape(short) + r'\s*(<[^()]*>)?\s*[({]', init):
        return 'delegates'
    return 'unseeded'


def lstr(s):
    return '"' + s.replace('\\', '\\\\').replace('"', '\\"') + '"'


def rng_table():
    files = _files()
    srcs = {f: extract.strip_comments(extract.read(f)) for f in files}
    engines, ctors = [], []
    for f in files:
        if not f.startswith('include/'):
            continue
        src = srcs[f]
        if not re.search(ENGINE_T + r'\s+\w+\s*;', src):
            continue
        for (qual, short, spec, b0, b1, member, mut) in _classes_with_engine(f, src):
            if qual.endswith('::Seeder'):
                continue
            engines.append((qual, member, mut, f))
            ndecl, inl = _ctor_decls(src[b0:b1 + 1], short)
            cpp = 'src/' + f[len('include/AIToolbox/'):-4] + '.cpp'
            defs = list(inl) + _out_of_class_defs(src, short, spec)
            if cpp in srcs:
                defs += _out_of_class_defs(srcs[cpp], short, spec)
            if ndecl != len(defs) or ndecl == 0:
                raise extract.ExtractError('C16Rng: class %s (%s): %d constructor declarations but %d definitions found' % (qual, f, ndecl, len(defs)))
            for params, init in defs:
                ctors.append((qual, params, _classify(init, short, member), member))
    if len(engines) < 20:
        raise extract.ExtractError('C16Rng: engine inventory suspiciously small (%d)' % len(engines))
    # every use of Seeder:: outside Seeder.cpp / Seeder.hpp
    outside = []
    nuses = 0
    for f in files:
        if f.endswith(('Seeder.hpp', 'Seeder.cpp')):
            continue
        s = srcs[f]
        for m in re.finditer(r'\bSeeder::(\w+)', s):
            nuses += 1
            before = s[max(0, m.start() - 60):m.start()]
            ok = m.group(1) == 'getSeed' and re.search(r'\w+\s*[({]\s*(?:AIToolbox::)?$', before) is not None
            if not ok:
                outside.append('%s:%d %s' % (f, extract.lineno(s, m.start()), ' '.join(s[max(0, m.start() - 40):m.end() + 10].split())))
    # Seeder.cpp facts
    sc = srcs.get('src/Seeder.cpp')
    if sc is None:
        raise extract.ExtractError('C16Rng: src/Seeder.cpp not found')
    g = extract.find1(r'unsigned\s+Seeder::getSeed\s*\(\s*\)\s*\{(.*?)\n    \}', sc, 'Seeder::getSeed body', re.S).group(1)
    gs = ' '.join(g.split())
    get_ok = (re.fullmatch(r'static std::uniform_int_distribution<unsigned> dist\(0, std::numeric_limits<unsigned>::max\(\)\); return dist\(instance_\.generator_\);', gs) is not None)
    r = extract.find1(r'void\s+Seeder::setRootSeed\s*\(\s*const\s+unsigned\s+seed\s*\)\s*\{(.*?)\n    \}', sc, 'Seeder::setRootSeed body', re.S).group(1)
    rs = ' '.join(r.split())
    set_ok = (re.fullmatch(r'instance_\.rootSeed_ = seed; instance_\.generator_\.seed\(instance_\.rootSeed_\);', rs) is not None)
    # sampling helpers
    helpers = []
    for hf in ('include/AIToolbox/Utils/Probability.hpp', 'src/Utils/Probability.cpp'):
        if hf not in srcs:
            continue
        s = srcs[hf]
        for m in re.finditer(r'\b(sample\w+|makeRandom\w+|projectToProbability|getRandom\w*)\s*\(', s):
            e = _match_paren(s, m.end() - 1)
            params = ' '.join(s[m.end():e].split())
            tail = re.match(r'\s*(?:const\s*)?(?:noexcept\s*)?\{', s[e + 1:e + 40])
            if not tail:
                continue
            b0 = s.find('{', e)
            b1 = _match_paren(s, b0, '{', '}')
            body = s[b0:b1]
            takes_engine = bool(re.search(r'\b(?:G|RandomEngine)\s*&\s*\w+\s*$', params))
            has_static = bool(re.search(r'\bstatic\b(?!\s+const(?:expr)?\b)', body)) or bool(re.search(r'\bthread_local\b', body))
            helpers.append((m.group(1), hf.split('/')[-1], takes_engine, has_static))
    if len(helpers) < 4:
        raise extract.ExtractError('C16Rng: sampling helpers of Utils/Probability not found (%d)' % len(helpers))
    # member-function bodies that construct an engine-owning object locally: such a call draws a seed from Seeder
    names = sorted({q.split('::')[-1].split('<')[0] for q, _, _, _ in engines} - {'Model', 'SparseModel', 'PolicyInterface'})
    pol = set()
    for f in files:
        for m in re.finditer(r'\bclass\s+(\w*Policy)\s*(?:final\s*)?:\s*public', srcs[f]):
            pol.add(m.group(1))
    names = sorted(set(names) | pol)
    local = []
    pat = re.compile(r'(?:^|[;{}])\s*(?:const\s+)?(?:[\w:]+::)?(' + '|'.join(map(re.escape, names)) + r')\b\s*(?:<[^;{}()]*>)?\s+(\w+)\s*[({][^;]*;', re.M)
    for f in files:
        s0 = srcs[f]
        for m in pat.finditer(s0):
            # inside a function body: the nearest enclosing '{' is preceded by ')' (possibly with const/noexcept/initialisers)
            depth, i = 0, m.start(1)
            while i > 0:
                i -= 1
                if s0[i] == '}':
                    depth += 1
                elif s0[i] == '{':
                    if depth == 0:
                        break
                    depth -= 1
            head = s0[max(0, i - 200):i]
            if re.search(r'\)\s*(?:const\s*)?(?:noexcept\s*)?(?::[^{};]*)?$', head) or re.search(r'\b(?:for|while|if|else|do)\b[^{};]*$', head):
                local.append('%s: %s %s' % (f[len('include/AIToolbox/'):] if f.startswith('include/AIToolbox/') else f, m.group(1), m.group(2)))
    # LinearSupport's agenda_: the do-while can only be left through the empty-agenda test
    ls = srcs.get('include/AIToolbox/POMDP/Algorithms/LinearSupport.hpp')
    if ls is None:
        raise extract.ExtractError('C16Rng: LinearSupport.hpp not found')
    mo = extract.find1(r'LinearSupport::operator\(\)\s*\(const M\s*&\s*model\)\s*\{', ls, 'LinearSupport::operator()')
    b0 = mo.end() - 1
    body = ls[b0:_match_paren(ls, b0, '{', '}')]
    d0 = body.find('do {'); d1 = _match_paren(body, body.find('{', d0), '{', '}')
    loop = body[d0:d1 + 1]
    ls_facts = {
        'doWhileTrue': bool(re.match(r'\s*while\s*\(\s*true\s*\)\s*;', body[d1 + 1:d1 + 40])),
        'onlyExitIsEmptyTest': len(re.findall(r'\bbreak\s*;', loop)) == 1 and re.search(r'if\s*\(\s*agenda_\.size\(\)\s*==\s*0\s*\)\s*break\s*;', loop) is not None
                                and not re.search(r'\breturn\b|\bgoto\b|\bthrow\b', loop),
        'agendaOps': sorted(set(re.findall(r'agenda_\.(\w+)', body))),
        'agendaUsedOutsideLoop': bool(re.search(r'agenda_', body[:d0] + body[d1 + 1:])),
    }
    return {'local': local, 'ls': ls_facts, 'engines': engines, 'ctors': ctors, 'outside': outside, 'nuses': nuses, 'get_ok': get_ok, 'set_ok': set_ok, 'get_text': gs, 'set_text': rs, 'helpers': helpers}


def gen_rng():
    t = rng_table()
    b = ['/- GENERATED by tools/extract_c16.py from include/ and src/ of the library — do not edit. -/', 'namespace AITB.Gen.C16Rng', '',
         '/-- (class, RandomEngine data member, declared `mutable`) -/', 'def engines : List (String × String × Bool) := [']
    b.append(',\n'.join('  (%s, %s, %s)' % (lstr(q), lstr(m), 'true' if mu else 'false') for q, m, mu, _ in t['engines']))
    b += [']', '', '/-- (class, constructor parameter list, how the engine member is initialised: "seeder" | "delegates" | "unseeded") -/',
          'def ctors : List (String × String × String) := [']
    b.append(',\n'.join('  (%s, %s, %s)' % (lstr(q), lstr(p), lstr(h)) for q, p, h, _ in t['ctors']))
    b += [']', '', '/-- uses of `Seeder::` outside Seeder.hpp/.cpp that are not `getSeed()` as the argument of an initialiser -/',
          'def usesOutsideInit : List String := [' + ', '.join(lstr(x) for x in t['outside']) + ']',
          'def seederUses : Nat := %d' % t['nuses'], '',
          '/-- `Seeder::getSeed` is exactly: ' + t['get_text'].replace('/-', '/ -').replace('-/', '- /') + ' -/',
          'def getSeedAsModelled : Bool := %s' % ('true' if t['get_ok'] else 'false'),
          '/-- `Seeder::setRootSeed` is exactly: ' + t['set_text'].replace('/-', '/ -').replace('-/', '- /') + ' -/',
          'def setRootSeedAsModelled : Bool := %s' % ('true' if t['set_ok'] else 'false'), '',
          '/-- (sampling helper, file, last parameter is the engine taken by reference, body declares a non-const `static` / `thread_local`) -/',
          'def samplingHelpers : List (String × String × Bool × Bool) := [']
    b.append(',\n'.join('  (%s, %s, %s, %s)' % (lstr(n), lstr(f), 'true' if a else 'false', 'true' if s else 'false') for n, f, a, s in t['helpers']))
    b += [']', '', '/-- local constructions of an engine-owning object (or a policy: `PolicyInterface` owns the engine) inside a function body: the',
          '    enclosing call draws seed(s) from `Seeder` ("file: Class variable") -/',
          'def callsThatDrawSeeds : List String := [' + ', '.join(lstr(x) for x in t['local']) + ']', '',
          '/-- `LinearSupport::operator()`: the inner loop is `do { … } while (true);` -/',
          'def lsDoWhileTrue : Bool := %s' % ('true' if t['ls']['doWhileTrue'] else 'false'),
          '/-- … whose body has exactly one `break`, guarded by `if (agenda_.size() == 0)`, and no `return`/`goto`/`throw` -/',
          'def lsOnlyExitIsEmptyTest : Bool := %s' % ('true' if t['ls']['onlyExitIsEmptyTest'] else 'false'),
          '/-- member functions of `agenda_` used by the call -/',
          'def lsAgendaOps : List String := [' + ', '.join(lstr(x) for x in t['ls']['agendaOps']) + ']',
          '/-- `agenda_` mentioned in `operator()` outside that loop (a `clear()` before it would make the call `resetAtCall`) -/',
          'def lsAgendaUsedOutsideLoop : Bool := %s' % ('true' if t['ls']['agendaUsedOutsideLoop'] else 'false'),
          '', 'end AITB.Gen.C16Rng', '']
    extract.write_if_changed('C16Rng', '\n'.join(b))
    return t


GENERATORS = [gen_rng]

if __name__ == '__main__':
    t = gen_rng()
    for e in t['engines']:
        print('engine', e)
    for c in t['ctors']:
        print('ctor  ', c)
    print('outside', t['outside'])
    print('get_ok', t['get_ok'], 'set_ok', t['set_ok'])
    print('local', t['local'])
    print('ls', t['ls'])
    for h in t['helpers']:
        print('helper', h)
