"""Mutation trials for C17 (documentation of what was tried; run manually): applies each mutation to the scratch
library copy $AITB_REPO, runs tools/check.py C17 --tier quick, prints the outcome, reverts the copy.
Usage: python3 tools/mutations_c17.py [M1 M3 ...]"""
import subprocess, os, sys
REPO = os.environ.get('AITB_REPO', '/var/tmp/rp/c17'); WT = os.path.dirname(os.path.dirname(os.path.abspath(__file__)))
env = dict(os.environ, AITB_REPO=REPO)
M = [
 ('M1 write(os, Matrix2D) no longer sets max_digits10', 'src/Utils/IO.cpp',
  """    std::ostream & write(std::ostream & os, const Matrix2D & m) {
        const auto oldPrecision = os.precision(std::numeric_limits<double>::max_digits10);
""", """    std::ostream & write(std::ostream & os, const Matrix2D & m) {
        const auto oldPrecision = os.precision();
"""),
 ('M2 Model reader sets the discount on the destination before the rest is read', 'src/MDP/IO.cpp',
  """            AI_LOGGER(AI_SEVERITY_ERROR, "Could not read Model discount.");
            return is;
        } else
            in.setDiscount(discount);""", """            AI_LOGGER(AI_SEVERITY_ERROR, "Could not read Model discount.");
            return is;
        } else {
            in.setDiscount(discount); m.setDiscount(discount);
        }"""),
 ('M3 POMDP::Policy reader drops the observation-link range check', 'src/POMDP/IO.cpp',
  """if ( !(is >> o) || ( o >= oldH && oldH ) ) {""", """if ( !(is >> o) ) {"""),
 ('M4 sparse matrix reader: row check off by one (r > rows)', 'src/Utils/IO.cpp',
  """            if (r >= static_cast<size_t>(m.rows())) {
                AI_LOGGER(AI_SEVERITY_ERROR, "Invalid row index while reading SparseMatrix2D data""", """            if (r > static_cast<size_t>(m.rows())) {
                AI_LOGGER(AI_SEVERITY_ERROR, "Invalid row index while reading SparseMatrix2D data"""),
 ('M5 MDP::Policy reader skips isProbability', 'src/MDP/IO.cpp',
  """        if (!isProbability(pMatrix)) {
            AI_LOGGER(AI_SEVERITY_ERROR, "Policy matrix does not contain valid probabilities.");""", """        if (false && !isProbability(pMatrix)) {
            AI_LOGGER(AI_SEVERITY_ERROR, "Policy matrix does not contain valid probabilities.");"""),
 ('M6 POMDP::Policy reader treats end of input at a horizon boundary as the end of the policy', 'src/POMDP/IO.cpp',
  """                if ( checkRemoveAtSign(is) )
                    break;

                oldH""", """                if ( checkRemoveAtSign(is) || is.eof() )
                    break;

                oldH"""),
 ('M7 POMDP::Policy reader accepts action == A', 'src/POMDP/IO.cpp',
  """if ( !(is >> action) || action >= A ) {""", """if ( !(is >> action) || action > A ) {"""),
 ('M8 Experience writer swaps the reward and M2 matrices', 'src/MDP/IO.cpp',
  """    std::ostream & operator<<(std::ostream & os, const Experience & exp) {
        os << exp.getTimesteps() << '\\n';
        write(os, exp.getVisitsTable());
        write(os, exp.getRewardMatrix());
        write(os, exp.getM2Matrix());""", """    std::ostream & operator<<(std::ostream & os, const Experience & exp) {
        os << exp.getTimesteps() << '\\n';
        write(os, exp.getVisitsTable());
        write(os, exp.getM2Matrix());
        write(os, exp.getRewardMatrix());"""),
 ('M9 POMDP model reader commits before validating the observation function', 'include/AIToolbox/POMDP/IO.hpp',
  """        auto observations = in.getObservationFunction();
        if (!read(is, observations)) {
            AI_LOGGER(AI_SEVERITY_ERROR, "Could not read Model<M> observation function.");
            return is;
        } else {""", """        auto observations = in.getObservationFunction();
        if (!read(is, observations)) {
            AI_LOGGER(AI_SEVERITY_ERROR, "Could not read Model<M> observation function.");
            return is;
        } else {
            static_cast<M &>(m) = static_cast<const M &>(in);"""),
 ('M10 read(is, Vector&) assigns the destination even when the read failed', 'src/Utils/IO.cpp',
  """        if (is) v = std::move(in);
        return is;""", """        v = std::move(in);
        return is;"""),
 ('M11 POMDP::Policy writer forgets the closing separator', 'src/POMDP/IO.cpp',
  """        // put on the stream, and the loader will work.
        os << "@\\n";
""", """        // put on the stream, and the loader will work.
"""),
 ('M12 sparse matrix reader drops the column range check', 'src/Utils/IO.cpp',
  """            if (c >= static_cast<size_t>(m.cols())) {
                AI_LOGGER(AI_SEVERITY_ERROR, "Invalid column index while reading SparseMatrix2D data""", """            if (false && c >= static_cast<size_t>(m.cols())) {
                AI_LOGGER(AI_SEVERITY_ERROR, "Invalid column index while reading SparseMatrix2D data"""),
 ('M13 dense Experience reader stores the rewards through setM2Matrix', 'src/MDP/IO.cpp',
  """        auto rewards = e.getRewardMatrix();
        if (!read(is, rewards)) {
            AI_LOGGER(AI_SEVERITY_ERROR, "Could not read Experience rewards matrix.");
            return is;
        } else
            e.setRewardMatrix(rewards);
""", """        auto rewards = e.getRewardMatrix();
        if (!read(is, rewards)) {
            AI_LOGGER(AI_SEVERITY_ERROR, "Could not read Experience rewards matrix.");
            return is;
        } else
            e.setM2Matrix(rewards);
"""),
 # ---- round 3: helpers one level below the anchored files, and inputs the earlier streams did not contain
 ('N1 isProbability(SparseMatrix2D) loses its |.| clause (sum only)', 'src/Utils/Probability.cpp',
  """                checkDifferentSmall(in.row(row).sum(), 1.0) ||
                checkDifferentSmall(in.row(row).cwiseAbs().sum(), 1.0)
            ) return false;""", """                checkDifferentSmall(in.row(row).sum(), 1.0)
            ) return false;"""),
 ('N2 isProbability(Matrix2D) loses its negativity clause', 'src/Utils/Probability.cpp',
  """            if (in.row(row).minCoeff() < 0.0 || checkDifferentSmall(in.row(row).sum(), 1.0))""",
  """            if (checkDifferentSmall(in.row(row).sum(), 1.0))"""),
 ('N3 MDP::Model::setDiscount accepts 0', 'src/MDP/Model.cpp',
  """        if ( !(d > 0.0 && d <= 1.0) ) throw std::invalid_argument("Discount parameter must be in (0,1]");""",
  """        if ( !(d >= 0.0 && d <= 1.0) ) throw std::invalid_argument("Discount parameter must be in (0,1]");"""),
 ('N4 Experience::setVisitsTable(const Table3D&) sums columns instead of rows', 'src/MDP/Experience.cpp',
  """                visitsSum_(s, a) = visits_[a].row(s).sum();
    }""", """                visitsSum_(s, a) = visits_[a].col(s).sum();
    }"""),
 ('N5 write(os, SparseMatrix2D) skips explicitly stored zeros but still counts them', 'src/Utils/IO.cpp',
  """            for (SparseMatrix2D::InnerIterator it(m, k); it; ++it)
                os << it.row() << ' ' << it.col() << ' ' << it.value() << '\\n';

        os.precision(oldPrecision);""", """            for (SparseMatrix2D::InnerIterator it(m, k); it; ++it)
                if (it.value() != 0.0) os << it.row() << ' ' << it.col() << ' ' << it.value() << '\\n';

        os.precision(oldPrecision);"""),
 ('N6 SparseExperience::setVisitsTable keeps stale sums (no setZero, insert only when absent)', 'src/MDP/SparseExperience.cpp',
  """                if (totalVisits > 0) visitsSum_.insert(s, a) = totalVisits;""",
  """                if (totalVisits > 1) visitsSum_.insert(s, a) = totalVisits;"""),
 ('N7 write(os, double) normalises the value through an addition (-0.0 becomes 0)', 'src/Utils/IO.cpp',
  """        os << d << '\\n';

        os.precision(oldPrecision);""", """        os << (d + 0.0) << '\\n';

        os.precision(oldPrecision);"""),
 ('N8 write(os, Matrix2D) normalises zeros (m(i,j) + 0.0)', 'src/Utils/IO.cpp',
  """                os << m(i, j) << ' ';
            os << '\\n';
        }
        os << '\\n';

        os.precision(oldPrecision);""", """                os << (m(i, j) + 0.0) << ' ';
            os << '\\n';
        }
        os << '\\n';

        os.precision(oldPrecision);"""),
 ('N9 MDP::Policy reader validates after committing and rolls back through the stream state', 'src/MDP/IO.cpp',
  """        if (!isProbability(pMatrix)) {
            AI_LOGGER(AI_SEVERITY_ERROR, "Policy matrix does not contain valid probabilities.");
            is.setstate(std::ios::failbit);
            return is;
        }

        p.policy_ = std::move(pMatrix);""", """        std::swap(p.policy_, pMatrix);
        if (!isProbability(p.policy_)) {
            AI_LOGGER(AI_SEVERITY_ERROR, "Policy matrix does not contain valid probabilities.");
            is.setstate(std::ios::failbit);
            std::swap(p.policy_, pMatrix);
            return is;
        }
"""),
 ('N10 Experience reader clears the stream after a failed timesteps extraction ("lenient")', 'src/MDP/IO.cpp',
  """        if (!(is >> e.timesteps_))
            AI_LOGGER(AI_SEVERITY_ERROR, "Could not read Experience timesteps.");
""", """        if (!(is >> e.timesteps_)) {
            AI_LOGGER(AI_SEVERITY_ERROR, "Could not read Experience timesteps.");
            is.clear();
        }
"""),
 ('N11 POMDP::Policy writer streams the action in the caller-independent way but forgets the values (precision kept, std::fixed forced)', 'src/POMDP/IO.cpp',
  """        const auto oldPrecision = os.precision(std::numeric_limits<double>::max_digits10);
""", """        const auto oldPrecision = os.precision(std::numeric_limits<double>::max_digits10);
        os << std::fixed;
"""),
 ('H1 harmless: Matrix2D writer uses setprecision(17) through a manipulator', 'src/Utils/IO.cpp',
  """    std::ostream & write(std::ostream & os, const Matrix2D & m) {
        const auto oldPrecision = os.precision(std::numeric_limits<double>::max_digits10);
""", """    std::ostream & write(std::ostream & os, const Matrix2D & m) {
        const auto oldPrecision = os.precision();
        os << std::setprecision(17);
"""),
]
sel = sys.argv[1:]
for name, f, a, b in M:
    if sel and name.split()[0] not in sel: continue
    p = os.path.join(REPO, f); s = open(p).read()
    if s.count(a) != 1:
        print(name, 'PATTERN COUNT', s.count(a)); continue
    open(p, 'w').write(s.replace(a, b))
    try:
        r = subprocess.run(['python3', 'tools/check.py', 'C17', '--tier', 'quick'], cwd=WT, env=env, capture_output=True, text=True)
    finally:
        open(p, 'w').write(s)
    lines = [l for l in r.stdout.splitlines() if l.startswith('VIOLATION') or l.startswith('[C17]')]
    print('==', name, 'exit', r.returncode)
    for l in lines[:4]: print('   ', l[:200])
    import json, glob
    for l in lines:
        if l.startswith('VIOLATION'):
            rp = l.split('replay=')[1].split()[0]
            try:
                j = json.load(open(rp)); print('      ', j.get('component'), j.get('clause'), (j.get('verdict') or str(j.get('broken', ''))[:300])[:300])
            except Exception as e:
                print('      ?', e)
