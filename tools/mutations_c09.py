"""Mutation trials for C09 (documentation of what was tried; run manually): applies each mutation to the scratch library copy
$AITB_REPO, runs tools/check.py C09 --tier quick, prints the outcome, reverts the copy.  Usage: python3 tools/mutations_c09.py [M1 M3 ...]
(.cpp mutations rebuild one object; the header mutation M6 rebuilds the whole sanitized library, about 5 minutes)."""
import subprocess, os, sys
REPO = os.environ.get('AITB_REPO', '/var/tmp/rp/c09'); WT = os.path.dirname(os.path.dirname(os.path.abspath(__file__)))
env = dict(os.environ, AITB_REPO=REPO)
M = [
 ('M1 MDP::EpsilonPolicy::getPolicy: mixture weights swapped', 'src/MDP/Policies/EpsilonPolicy.cpp',
  """        p *= (1.0 - epsilon_);
        p.array() += epsilon_ / A;""", """        p *= epsilon_;
        p.array() += (1.0 - epsilon_) / A;"""),
 ('M2 WoLFPolicy::stepUpdateP: actual row not renormalised', 'src/MDP/Policies/WoLFPolicy.cpp',
  """        actualPolicyMatrix_.row(s) /= actualPolicyMatrix_.row(s).sum();""", """"""),
 ('M3 LRPPolicy::stepUpdateP: penalty redistributes b/A instead of b/(A-1)', 'src/Bandit/Policies/LRPPolicy.cpp',
  """        a_(a), invB_(1.0 - b), divB_(b / (A - 1)), policy_(A)""", """        a_(a), invB_(1.0 - b), divB_(b / A), policy_(A)"""),
 ('M4 PolicyWrapper::sampleAction never returns the last action', 'src/MDP/Policies/PolicyWrapper.cpp',
  """        return sampleProbability(A, policy_.row(s), rand_);""", """        return sampleProbability(A > 1 ? A - 1 : A, policy_.row(s), rand_);"""),
 ('M5 SuccessiveRejectsPolicy: rejects the last arm instead of the worst', 'src/Bandit/Policies/SuccessiveRejectsPolicy.cpp',
  """        *it = availableActions_.back();""", """        (void)it;"""),
 ('M6 QGreedyPolicyWrapper::getPolicy: tie test uses the wrong comparison (> instead of tolerance equality in pass 2)', 'include/AIToolbox/Bandit/Policies/Utils/QGreedyPolicyWrapper.hpp',
  """            if ( checkEqualGeneral(q_[aa], max) )
                p[aa] = 1.0 / count;""", """            if ( q_[aa] >= max - 1.0 )
                p[aa] = 1.0 / count;"""),
 ('M7 ESRLPolicy::getPolicy writes lri probabilities at the lri index instead of the allowed action', 'src/Bandit/Policies/ESRLPolicy.cpp',
  """            retval[allowedActions_[i]] = lri_.getActionProbability(i);""", """            retval[i] = lri_.getActionProbability(i);"""),
 ('M8 Bandit::EpsilonPolicy random probability 1/(A+1)', 'src/Bandit/Policies/EpsilonPolicy.cpp',
  """        return 1.0 / A;""", """        return 1.0 / (A + 1);"""),
 # ---- round 2
 ('N1 ESRLPolicy::getActionProbability bisects the swap-and-pop\'ed list (seeded/C09-1)', 'src/Bandit/Policies/ESRLPolicy.cpp',
  """        const auto it = std::find(std::begin(allowedActions_), std::end(allowedActions_), a);
        if (it == std::end(allowedActions_))
            return 0.0;

        return lri_""", """        const auto it = std::lower_bound(std::begin(allowedActions_), std::end(allowedActions_), a);
        if (it == std::end(allowedActions_) || *it != a)
            return 0.0;

        return lri_"""),
 ('N2 T3CPolicy: the leader is not skipped in the challenger loop', 'src/Bandit/Policies/T3CPolicy.cpp',
  """            if (a == bestAction) continue;""", """"""),
 ('N3 SuccessiveRejectsPolicy: on ties the LAST worst arm is rejected', 'src/Bandit/Policies/SuccessiveRejectsPolicy.cpp',
  """            if (v < minValue) {""", """            if (v <= minValue) {"""),
 ('N4 LLRPolicy: exploration bonus uses L instead of L+1', 'src/Factored/Bandit/Policies/LLRPolicy.cpp',
  """        const auto LtLog = (L+1) * std::log(exp_.getTimesteps());""", """        const auto LtLog = L * 0.05 * std::log(exp_.getTimesteps());"""),
 ('N5 TopTwoThompsonSamplingPolicy: single second draw, no rejection loop', 'src/Bandit/Policies/TopTwoThompsonSamplingPolicy.cpp',
  """        do {
            secondBestAction = policy_.sampleAction();
        } while (bestAction == secondBestAction);""", """        secondBestAction = policy_.sampleAction();"""),
 ('N6 Factored ThompsonSamplingPolicy: posterior draw subtracts instead of adds the noise for even entries', 'src/Factored/Bandit/Policies/ThompsonSamplingPolicy.cpp',
  """                    val = basis.values[y] + dist(rnd) * std::sqrt(m2[y]/(counts[y] * (counts[y] - 1)));""",
  """                    val = basis.values[y] + (y % 2 ? 1.0 : -3.0) * dist(rnd) * std::sqrt(m2[y]/(counts[y] * (counts[y] - 1)));"""),
 # ---- round 3 (header mutations rebuild the whole sanitized library)
 ('P1 QGreedyPolicyWrapper::getPolicy pass 2 uses checkEqualSmall (the seeded change missed in round 2)', 'include/AIToolbox/Bandit/Policies/Utils/QGreedyPolicyWrapper.hpp',
  """            if ( checkEqualGeneral(q_[aa], max) )
                p[aa] = 1.0 / count;""", """            if ( checkEqualSmall(q_[aa], max) )
                p[aa] = 1.0 / count;"""),
 ('P2 Core.hpp checkEqualGeneral compares magnitudes (|a|-|b|) in the relative test: x and -x tie', 'include/AIToolbox/Utils/Core.hpp',
  'return ( std::fabs(a - b) <= std::min(std::fabs(a), std::fabs(b)) * equalToleranceGeneral );',
  'return ( std::fabs(std::fabs(a) - std::fabs(b)) <= std::min(std::fabs(a), std::fabs(b)) * equalToleranceGeneral );'),
 ('P3 QSoftmaxPolicyWrapper::getPolicy delegates only for temperature_ == 0.0 (the other two members keep checkEqualSmall)', 'include/AIToolbox/Bandit/Policies/Utils/QSoftmaxPolicyWrapper.hpp',
  """        if ( checkEqualSmall(temperature_, 0.0) ) {
            auto wrap = QGreedyPolicyWrapper(q_, buffer_, rand_);
            return wrap.getPolicy(p);""","""        if ( temperature_ == 0.0 ) {
            auto wrap = QGreedyPolicyWrapper(q_, buffer_, rand_);
            return wrap.getPolicy(p);"""),
 ('P4 WoLFPolicy::stepUpdateP own greedy scan uses checkEqualSmall', 'src/MDP/Policies/WoLFPolicy.cpp',
  'if ( checkEqualGeneral(qsa, bestQValue) ) {', 'if ( checkEqualSmall(qsa, bestQValue) ) {'),
 ('P5 MDP::Policy(const PolicyInterface::Base&) copies all but the last action', 'src/MDP/Policies/Policy.cpp',
  """            for ( size_t a = 0; a < A; ++a )
                policy_(s, a) = p.getActionProbability(s, a);""","""            for ( size_t a = 0; a + 1 < A; ++a )
                policy_(s, a) = p.getActionProbability(s, a);"""),
 ('P7 Factored::Bandit::EpsilonPolicy random probability 1/#agents instead of 1/|joint space|', 'src/Factored/Bandit/Policies/EpsilonPolicy.cpp',
  'return 1.0 / factorSpace(A);', 'return 1.0 / A.size();'),
 ('P8 T3CPolicy::getPolicy normalises by the number of trials plus one', 'src/Bandit/Policies/T3CPolicy.cpp',
  """        retval /= retval.sum();
        return retval;
    }

    const Experience & T3CPolicy""","""        retval /= (retval.sum() + 1.0);
        return retval;
    }

    const Experience & T3CPolicy"""),
]
sel = sys.argv[1:]
for name, rel, old, new in M:
    if sel and name.split()[0] not in sel:
        continue
    p = os.path.join(REPO, rel); src = open(p).read()
    assert src.count(old) == 1, (name, src.count(old))
    open(p, 'w').write(src.replace(old, new))
    try:
        r = subprocess.run([sys.executable, os.path.join(WT, 'tools', 'check.py'), 'C09', '--tier', 'quick'], env=env, capture_output=True, text=True)
        lines = [l for l in r.stdout.split('\n') if l.startswith('VIOLATION') or l.startswith('[C09]')]
        print(name, '-> exit', r.returncode); [print('   ', l) for l in lines[:4]]
        import json, re
        for l in lines:
            m = re.search(r'replay=(\S+)', l)
            if m:
                rp = json.load(open(m.group(1)))
                print('      ', rp.get('component'), rp.get('clause') or rp.get('kind'), (rp.get('verdict') or str([b.get('verdict', b.get('name')) for b in rp.get('broken', [])]))[:160])
                break
    finally:
        subprocess.run(['git', '-C', REPO, 'checkout', '--', rel])
    sys.stdout.flush()
