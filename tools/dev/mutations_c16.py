#!/usr/bin/env python3
"""C16 round-4 mutations: apply one edit to the scratch library copy ($AITB_REPO), run the quick check and the relevant unit
tests, revert.  Usage: AITB_REPO=… AITB_CACHE=… python3 tools/dev/mutations_c16.py [A B C H …]"""
import os, subprocess, sys, re
REPO = os.environ['AITB_REPO']
HERE = os.path.dirname(os.path.dirname(os.path.dirname(os.path.abspath(__file__))))

def edit(rel, old, new, count=1):
    p = os.path.join(REPO, rel); s = open(p).read()
    assert s.count(old) == count, (rel, old, s.count(old))
    open(p, 'w').write(s.replace(old, new))

def mutA():   # indirect: the base class of every MDP/POMDP policy forgets to seed its engine
    edit('include/AIToolbox/PolicyInterface.hpp', 'S(std::move(s)), A(std::move(a)), rand_(Seeder::getSeed()) {}', 'S(std::move(s)), A(std::move(a)) {}')
    return ['test/MDP/QGreedyPolicyTests.cpp', 'test/MDP/PolicyIterationTests.cpp', 'test/MDP/WoLFPolicyTests.cpp']

def mutB():   # Seeder::setRootSeed records the seed but does not reseed the generator
    edit('src/Seeder.cpp', '        instance_.generator_.seed(instance_.rootSeed_);\n    }\n\n    unsigned Seeder::getRootSeed', '    }\n\n    unsigned Seeder::getRootSeed')
    return ['test/MDP/ModelTests.cpp', 'test/MDP/DoubleQLearningTests.cpp']

def mutC():   # a hand-written copy constructor of MDP::Model that forgets the engine
    edit('include/AIToolbox/MDP/Model.hpp', '            Model(NoCheck, size_t s, size_t a, TransitionMatrix && t, RewardMatrix && r, double d);\n',
         '            Model(NoCheck, size_t s, size_t a, TransitionMatrix && t, RewardMatrix && r, double d);\n\n            Model(const Model & other) : S(other.S), A(other.A), discount_(other.discount_), transitions_(other.transitions_), rewards_(other.rewards_) {}\n            Model(Model &&) = default;\n            Model & operator=(const Model &) = default;\n            Model & operator=(Model &&) = default;\n')
    return ['test/MDP/ModelTests.cpp', 'test/MDP/ValueIterationTests.cpp', 'test/POMDP/ModelTests.cpp']

def mutH():   # WitnessLP::reset() keeps the scale of the previous problem
    edit('src/Utils/Polytope.cpp', '        scale_ = 0.0;\n        lp_.resize(1);', '        lp_.resize(1);')
    return ['test/UtilsPruneTests.cpp', 'test/POMDP/IncrementalPruningTests.cpp', 'test/POMDP/WitnessTests.cpp']

def mutI():   # indirect helper: makeRandomProbability keeps its spacing buffer between calls ("avoid reallocations")
    p = os.path.join(REPO, 'include/AIToolbox/Utils/Probability.hpp'); s = open(p).read()
    m = re.search(r'ProbabilityVector makeRandomProbability\(const size_t S, G & generator\) \{\n        ProbabilityVector b\(S\);', s)
    assert m, 'makeRandomProbability head'
    s = s[:m.start()] + 'ProbabilityVector makeRandomProbability(const size_t S, G & generator) {\n        static thread_local ProbabilityVector b; if ((size_t)b.size() != S) b = ProbabilityVector(S);' + s[m.end():]
    open(p, 'w').write(s)
    return ['test/UtilsProbabilityTests.cpp', 'test/POMDP/PBVITests.cpp']

MUT = {'A': mutA, 'B': mutB, 'C': mutC, 'H': mutH, 'I': mutI}
for name in (sys.argv[1:] or ['A', 'B', 'C']):
    subprocess.run(['git', '-C', REPO, 'checkout', '--', '.'], check=True)
    tests = MUT[name]()
    print('=== mutation', name, flush=True)
    print(subprocess.run(['git', '-C', REPO, 'diff', '--stat'], capture_output=True, text=True).stdout.strip(), flush=True)
    p = subprocess.run([sys.executable, os.path.join(HERE, 'tools', 'check.py'), 'C16', '--tier', 'quick'], capture_output=True, text=True, cwd=HERE)
    out = [l for l in (p.stdout + p.stderr).splitlines() if not l.startswith('KNOWN-FINDING')]
    print('\n'.join(l[:260] for l in out[-8:]), flush=True)
    import glob, json
    for f in sorted(glob.glob(os.path.join(HERE, 'replays', 'C16-1-*.json')))[:6]:
        d = json.load(open(f))
        print('   replay', os.path.basename(f), d.get('kind'), d.get('component'), d.get('clause'), (d.get('verdict') or str([b.get('what') + ':' + str(b.get('name'))[:160] for b in d.get('broken', [])]))[:260], flush=True)
    subprocess.run(['rm', '-rf', os.path.join(HERE, 'replays')])
    u = subprocess.run([sys.executable, os.path.join(HERE, 'tools', 'dev', 'unittests_c16.py')] + tests, capture_output=True, text=True, cwd=HERE)
    print('unit tests rc=%d' % u.returncode, ' | '.join(l[:80] for l in u.stdout.strip().splitlines()), flush=True)
    subprocess.run(['git', '-C', REPO, 'checkout', '--', '.'], check=True)
