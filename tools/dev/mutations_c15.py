"""Mutation trials for C15: apply each mutation to the scratch library copy ($AITB_REPO, must be a git worktree), run the
repository's two relevant unit tests and `tools/check.py C15 --tier quick`, print the outcome, revert.
usage: AITB_REPO=<scratch repo> AITB_CACHE=<cache> python3 tools/dev/mutations_c15.py [M1 M4 ...]"""
import subprocess, sys, os, json
REPO = os.environ['AITB_REPO']
VERIF = os.path.dirname(os.path.dirname(os.path.dirname(os.path.abspath(__file__))))
env = dict(os.environ)
FLP='src/Factored/MDP/Algorithms/Utils/FactoredLP.cpp'
MLP='src/Factored/MDP/Algorithms/LinearProgramming.cpp'
GVE='include/AIToolbox/Factored/Utils/GenericVariableElimination.hpp'
BN='src/Factored/Utils/BayesianNetwork.cpp'
UC='include/AIToolbox/Utils/Core.hpp'
FC='src/Factored/Utils/Core.cpp'
LPW='src/Utils/LP/LpSolveWrapper.cpp'
M = {
 'M1': (MLP, "                    if (checkEqualSmall(f.values(sId, aId), 0.0)) continue;\n                    // Add a column and re-initialize row\n                    lp.addColumn();\n                    lp.row.setZero();\n\n                    lp.row[currentRule] = +1.0;",
             "                    if (f.values(sId, aId) <= 0.0) continue;\n                    // Add a column and re-initialize row\n                    lp.addColumn();\n                    lp.row.setZero();\n\n                    lp.row[currentRule] = +1.0;",
        'R loop skips non-positive rewards instead of zero rewards'),
 'M2': (GVE, "                            if (jvPartialIndex == rule.first)\n                                global.crossSum(rule.second);",
             "                            if (jvPartialIndex == rule.first) {\n                                global.crossSum(rule.second);\n                                break;\n                            }",
        'non-merge lookup stops at the first matching rule of a factor (drops terms of nodes that hold several rules per index)'),
 'M3': (FLP, "                if (addConstantBasis) lp.row[constBasisId] = -constBasisCoeff;", "                if (addConstantBasis) lp.row[constBasisId] = constBasisCoeff;",
        'constant basis enters the negated rule with the wrong sign'),
 'M4': (FLP, "        for (int i = 0; i < lp.row.size(); ++i)\n            lp.setUnbounded(i);", "        for (int i = 0; i + 1 < lp.row.size(); ++i)\n            lp.setUnbounded(i);",
        'last LP column keeps the default lower bound 0'),
 'M5': (FLP, "        for (const auto ruleId : finalFactors) {\n            lp.row[ruleId] = 0.0;\n            lp.row[ruleId+1] = 1.0;\n        }", "        for (const auto ruleId : finalFactors) {\n            lp.row[ruleId+1] = 1.0;\n            lp.row[ruleId] = 0.0;\n        }",
        'makeResult second row: clears after setting (adjacent final factors clobber each other) '),
 'M6': (MLP, "                    lp.row[currentWeight] = +discount * f.values(sId, aId);", "                    lp.row[currentWeight] = +f.values(sId, aId);",
        'discount dropped from the g rows (only visible when discount != 1... always here)'),
 'M7': (BN, "        for (auto d : rhs.tag) {\n            retval.actionTag = merge(retval.actionTag, parentSets[d].agents);\n            for (const auto & n : parentSets[d].features)\n                retval.tag = merge(retval.tag, n);",
            "        for (auto d : rhs.tag) {\n            retval.actionTag = merge(retval.actionTag, parentSets[d].agents);\n            retval.tag = merge(retval.tag, parentSets[d].features[0]);",
        'backProject takes the parents of the first action only'),
 'M8': (MLP, "            lp.row[i] = h.bases[i].values.sum() / h.bases[i].values.size();", "            lp.row[i] = h.bases[i].values.sum();",
        'objective coefficient not normalised by the basis domain size'),
 'M12': (MLP, "        g *= m.getDiscount() * v;", "        g *= v;", 'returned Q-function misses the discount'),
 'M13': (MLP, "        plusEqual(m.getS(), m.getA(), g, m.getRewardFunction());", "        if (m.getRewardFunction().bases.size() < 3) plusEqual(m.getS(), m.getA(), g, m.getRewardFunction());", 'returned Q-function drops R when the reward has >= 3 bases'),
 'N1': (MLP, "            lp.row[i] = h.bases[i].values.sum() / h.bases[i].values.size();", "            lp.row[i] = h.bases[i].values.sum() / h.bases[0].values.size();", 'objective: every basis mean normalised by the FIRST basis domain size'),
 'N2': (BN, "                for (size_t rId = 0; rDomain.isValid(); rDomain.advance(), ++rId)", "                for (size_t rId = 0; rDomain.isValid(); rDomain.advance(), ++rId) if (!(rhs.values.size() == 3 && rId == 0))", 'backProject skips the first value of a basis over one 3-valued factor'),
 'N3': (BN, "        return startIds_[feature][actionId] + parentId;", "        return startIds_[feature][actionId >= 2 ? actionId - 1 : actionId] + parentId;", 'DDNGraph::getId uses the previous block for joint parent actions >= 2'),
 # ---- round 3: indirect mutations (shared helpers outside the two builders, LP wrapper)
 'R1': (UC, "        return ( std::fabs(a - b) <= equalToleranceSmall );\n    }\n\n    /**\n     * @brief This function checks if two doubles near [0,1] are reasonably different.",
            "        return ( (a - b) <= equalToleranceSmall );\n    }\n\n    /**\n     * @brief This function checks if two doubles near [0,1] are reasonably different.",
        'checkEqualSmall one-sided (a - b <= tol): every NEGATIVE basis / reward / back-projection entry is skipped as "zero" by solveLP'),
 'R2': (FC, "            while (pf.first[j] != id) ++j;\n            result += multiplier * pf.second[j];\n            multiplier *= space[id];",
            "            while (pf.first[j] != id) ++j;\n            result += multiplier * pf.second[j];\n            multiplier *= space[ids[0]];",
        'toIndexPartial(keys, space, PartialFactors) (the overload removeFactor uses): stride = size of the FIRST key for every key (invisible on uniform spaces)'),
 'R3': (FC, "            if (factors_.second[id] == F[factors_.first[id]]) {", "            if (factors_.second[id] == F[factors_.first[id ? id - 1 : 0]]) {",
        'PartialFactorsEnumerator::advance wraps a digit at the size of the PREVIOUS key (invisible on uniform spaces)'),
 'R4': (LPW, "        if ( result == 0 || result == 1 )", "        if ( result == 0 || result == 1 || result == ACCURACYERROR )",
        'LP::solve accepts ACCURACYERROR (the repair that was applied and reverted)'),
 'R5': (LPW, "            set_pivoting(lp, PRICER_FIRSTINDEX);\n            default_basis(lp);", "            set_pivoting(lp, PRICER_FIRSTINDEX);\n            set_scaling(lp, SCALE_GEOMETRIC + SCALE_DYNUPDATE);\n            default_basis(lp);",
        'LP::solve changes the scaling mode for the second attempt without unscale (lp_solve then reports wrong optima with result 0); only reached when a retry happens: apply fixes/C15-5 first for a failing input'),
 'R6': (FC, "        std::transform(std::begin(rhs), std::end(rhs), std::back_inserter(retval), [S](const size_t a){ return a + S; });",
            "        std::transform(std::begin(rhs), std::end(rhs), std::back_inserter(retval), [S, &lhs](const size_t a){ return a + (lhs.size() > 2 ? lhs.size() : S); });",
        'join(S, tag, actionTag) offsets the action keys by |tag| instead of |S| for state tags of three keys'),
 'R7': (FLP, "            if (lp.row[i] != 0.0) {\n                lp.row[i+1] = lp.row[i];", "            if (lp.row[i] > 0.0) {\n                lp.row[i+1] = lp.row[i];",
        'FactoredLP endCrossSum shift loop moves only positive coefficients (the -1 of newFactor stays in the + column)'),
 'M9': (GVE, "            for (size_t vValue = 0; vValue < V[v]; ++vValue) {", "            for (size_t vValue = 0; vValue < std::min<size_t>(V[v], 2); ++vValue) {",
        'only the first two values of the eliminated variable are cross-summed (all unit-test factors are binary/ternary?)'),
}
which = sys.argv[1:] or list(M)
for k in which:
    f, old, new, what = M[k]
    p = os.path.join(REPO, f)
    s = open(p).read()
    if old not in s:
        print(k, 'PATTERN NOT FOUND'); continue
    open(p, 'w').write(s.replace(old, new, 1))
    try:
        ut = subprocess.run([sys.executable, os.path.join(os.path.dirname(os.path.abspath(__file__)), 'unittests_c15.py')], env=env, capture_output=True, text=True)
        ck = subprocess.run([sys.executable, 'tools/check.py', 'C15', '--tier', 'quick'], cwd=VERIF, env=env, capture_output=True, text=True)
        lines = [l for l in ck.stdout.split('\n') if l.startswith('VIOLATION') or l.startswith('[C15]')]
        print('==', k, what)
        print('   unit tests:', 'PASS' if ut.returncode == 0 else 'FAIL', '|', ' / '.join(ut.stdout.strip().split('\n'))[:200])
        print('   check exit', ck.returncode)
        for l in lines[:6]: print('   ', l[:220])
        # first replay detail
        import glob
        for r in sorted(glob.glob(os.path.join(VERIF, 'replays', 'C15-*.json')))[:3]:
            d = json.load(open(r))
            print('    replay', os.path.basename(r), d.get('kind'), d.get('component'), d.get('clause'), (d.get('verdict') or d.get('detail') or str(d.get('broken', ''))[:300])[:260])
    finally:
        subprocess.run(['git', '-C', REPO, 'checkout', '--', '.'])
