#!/usr/bin/env python3
"""validate_seeded.py <Cxx-n> [--checks C07,C10]   (development aid, not a registered check)

Takes a sub-agent's delivery /var/tmp/mut/out/<Cxx-n>/{patch.diff,demo.cpp,notes.md} and confirms, in the scratch
worktree /var/tmp/mutval (full cmake build of the library + tests), that the change compiles, the whole existing
suite still passes, and the demo passes without / fails with the change. Then applies the patch to /repo, runs the
named checks (default: the property's own), reverts /repo, and stores everything under /verif/seeded/<id>/."""
import json, os, shutil, subprocess, sys, time

VERIF = os.path.dirname(os.path.dirname(os.path.dirname(os.path.abspath(__file__))))
VAL = '/var/tmp/mutval'


def sh(cmd, **kw):
    p = subprocess.run(cmd, shell=isinstance(cmd, str), stdout=subprocess.PIPE, stderr=subprocess.STDOUT, text=True, **kw)
    return p.returncode, p.stdout


def build_demo(src, out):
    libs = ' '.join(f'{VAL}/_build/libAIToolbox{x}.a' for x in ('FMDP', 'POMDP', 'MDP'))
    return sh(f'g++ -std=c++20 ' + os.environ.get('DEMO_OPT', '-O1') + f' -I{VAL}/include -I/usr/include/eigen3 {src} {libs} /usr/lib/liblpsolve55.a -lcolamd -ldl -o {out}')


def main():
    sid = sys.argv[1]
    pid = sid.split('-')[0]
    checks = [pid]
    if '--checks' in sys.argv:
        checks = sys.argv[sys.argv.index('--checks') + 1].split(',')
    src = f'/var/tmp/mut/out/{sid}'
    patch = os.path.join(src, 'patch.diff')
    demo = os.path.join(src, 'demo.cpp')
    meta = {'id': sid, 'property': pid, 'ran': []}
    head = sh('git -C /repo rev-parse HEAD')[1].strip()
    meta['validated_at_repo_commit'] = head[:10]
    sh(f'git -C {VAL} checkout -q -- . && git -C {VAL} checkout -q --detach {head}')
    rc, out = sh(f'nice cmake --build {VAL}/_build -j8'); assert rc == 0, out[-2000:]
    rc, out = build_demo(demo, '/var/tmp/mutval-demo0'); assert rc == 0, 'demo does not compile on the clean tree: ' + out[-2000:]
    rc0, out0 = sh('timeout 300 /var/tmp/mutval-demo0')
    meta['demo_clean_exit'] = rc0
    rc, out = sh(f'git -C {VAL} apply {patch}'); assert rc == 0, 'patch does not apply: ' + out
    rc, out = sh(f'nice cmake --build {VAL}/_build -j8')
    meta['compiles'] = rc == 0
    if rc != 0:
        print('DOES NOT COMPILE', out[-1500:]); sh(f'git -C {VAL} checkout -q -- .'); return 2
    rc, out = sh(f'ctest --test-dir {VAL}/_build -j8 --timeout 900')
    tail = [l for l in out.split('\n') if 'tests passed' in l or 'Failed' in l or '***' in l]
    # the pinned baseline is the 77 stable tests of /root/.vp/BASELINE.json (6 IO tests fail there when run outside their data dir)
    base = json.load(open('/root/.vp/BASELINE.json'))
    stable = {t.split('::')[0] for t in base['stable_pass']}
    import re
    failed = set(re.findall(r'^\s*\d+ - (\S+) \(', out, re.M))
    # some tests are seeded from the clock: a failure of a test unrelated to the patch is re-run (up to 3 times) before it counts
    for t in sorted(failed & stable):
        for _ in range(3):
            r2, _o = sh(f'ctest --test-dir {VAL}/_build -R "^{t}$" --timeout 900')
            if r2 == 0:
                failed.discard(t); meta.setdefault('flaky_reruns', []).append(t); break
    meta['suite'] = tail[:10]; meta['failed_tests'] = sorted(failed); meta['suite_pass'] = not (failed & stable)
    rc, o2 = build_demo(demo, '/var/tmp/mutval-demo1'); assert rc == 0, o2[-2000:]
    rc1, out1 = sh('timeout 300 /var/tmp/mutval-demo1')
    meta['demo_mutant_exit'] = rc1
    scratch = '--scratch' in sys.argv      # run the checks against the patched scratch tree (AITB_REPO) instead of patching /repo
    if not scratch:
        sh(f'git -C {VAL} checkout -q -- .')
    ok = meta['suite_pass'] and rc0 == 0 and rc1 != 0
    meta['confirmed'] = ok
    print(json.dumps(meta, indent=1))
    if not ok:
        print('NOT CONFIRMED'); return 3
    # run my checks against the change applied to /repo
    if not scratch:
        assert sh('git -C /repo status --porcelain')[1].strip() == '', '/repo not clean'
        rc, out = sh(f'git -C /repo apply {patch}'); assert rc == 0, out
    envp = f'AITB_REPO={VAL} ' if scratch else ''
    results = {}
    # a run against a mutated tree must not leave its evidence behind
    saved = {c: open(os.path.join(VERIF, 'evidence', c + '.json')).read() for c in checks if os.path.exists(os.path.join(VERIF, 'evidence', c + '.json'))}
    try:
        for c in checks:
            t0 = time.time()
            rc, out = sh(f'cd {VERIF} && {envp}python3 tools/check.py {c} --tier quick')
            lines = out.strip().split('\n')
            results[c] = {'exit': rc, 'violation_lines': [l for l in lines if l.startswith('VIOLATION')][:5], 'summary': lines[-1], 'wall_s': round(time.time() - t0, 1)}
            meta['ran'].append(f'python3 tools/check.py {c} --tier quick  (patch applied to ' + ('a scratch worktree of /repo at the same commit, AITB_REPO' if scratch else '/repo') + f') -> exit {rc}')
    finally:
        sh(f'git -C {VAL} checkout -q -- .') if scratch else sh('git -C /repo checkout -- .')
        for c, txt in saved.items():
            open(os.path.join(VERIF, 'evidence', c + '.json'), 'w').write(txt)
    meta['checks'] = results
    meta['caught'] = any(r['exit'] == 1 and r['violation_lines'] for r in results.values())
    meta['caught_with_failing_input'] = any(r['exit'] == 1 and any('no-failing-input-found' not in v for v in r['violation_lines']) for r in results.values())
    dst = os.path.join(VERIF, 'seeded', sid); os.makedirs(dst, exist_ok=True)
    for f in ('patch.diff', 'demo.cpp', 'notes.md'):
        if os.path.exists(os.path.join(src, f)):
            shutil.copy(os.path.join(src, f), dst)
    notes = open(os.path.join(src, 'notes.md')).read() if os.path.exists(os.path.join(src, 'notes.md')) else ''
    meta['needs_to_manifest'] = meta.get('needs_to_manifest', 'see notes.md')
    meta['ran'] = ['/var/tmp/mutval: cmake --build + ctest (whole suite) with the patch: pass; demo exit clean=%d mutant=%d' % (rc0, rc1)] + meta['ran']
    json.dump(meta, open(os.path.join(dst, 'meta.json'), 'w'), indent=1)
    print('CAUGHT' if meta['caught'] else 'MISSED', json.dumps(results, indent=1))
    return 0


if __name__ == '__main__':
    sys.exit(main())
