#!/bin/bash
# usage: scratch_mut.sh <name> <file> <old> <new> [unit tests...]
export AITB_REPO=/var/tmp/rp/c08 AITB_CACHE=/var/tmp/aitb-cache
name=$1; file=$2; old=$3; new=$4; shift 4
cd /var/tmp/rp/c08 && git checkout -- . && python3 - "$file" "$old" "$new" <<'PY'
import sys
f,old,new=sys.argv[1:4]
s=open(f).read()
assert s.count(old)>=1, 'pattern not found'
open(f,'w').write(s.replace(old,new,1))
PY
[ $? -ne 0 ] && { echo "MUT $name: pattern not found"; exit 2; }
cd /var/tmp/wt/c08 && mkdir -p scratch && python3 tools/check.py C08 --tier quick > scratch/mut-$name.log 2>&1; rc=$?
echo "MUT $name: exit=$rc $(grep -c VIOLATION scratch/mut-$name.log) violation lines; $(tail -1 scratch/mut-$name.log)"
for r in $(grep -o 'replay=[^ ]*' scratch/mut-$name.log | cut -d= -f2 | head -2); do python3 -c "
import json,sys; r=json.load(open('$r')); print('   ', r.get('kind'), r.get('component'), r.get('clause'), (r.get('verdict') or str(r.get('broken')))[:220])"; done
LIB=$(python3 -c "
import sys; sys.path.insert(0,'tools'); import common as C; print(C.build_lib()[0])")
cd /var/tmp/rp/c08
for t in "$@"; do g++ -std=c++20 -O1 -fsanitize=address,undefined -Iinclude -I/usr/include/eigen3 -Itest -w test/$t.cpp $LIB /usr/lib/liblpsolve55.a -lcolamd -ldl -lboost_unit_test_framework -o /tmp/c08_mut_ut 2>&1 | tail -2; echo "    unit test $t: $(timeout 600 /tmp/c08_mut_ut 2>&1 | tail -2 | tr -d '\n' | sed 's/\x1b\[[0-9;]*m//g')"; done
git checkout -- .
