import sys,re
for p in sys.argv[1:]:
    out=[]; seen=set(); state=0
    for ln in open(p):
        if ln.startswith('<<<<<<< '): state=1; block=[]; continue
        if ln.startswith('=======') and state: state=2; continue
        if ln.startswith('>>>>>>> ') and state:
            state=0; continue
        if state:
            if ln in seen and ln.strip(): continue
        seen.add(ln); out.append(ln)
    open(p,'w').write(''.join(out))
