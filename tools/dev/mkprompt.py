import json, sys
pid = sys.argv[1]; notes = open(sys.argv[2]).read() if len(sys.argv) > 2 else ''
pre = open('/var/tmp/agent_preamble.txt').read()
prop = [json.loads(l) for l in open('/verif/properties.jsonl') if json.loads(l)['id'] == pid][0]
txt = json.dumps({k: prop[k] for k in ('id','title','statement','quantifier','why_tests_cant','anchors')}, indent=1)
print(pre.replace('@PU@', pid).replace('@P@', pid.lower()).replace('@PROPERTY@', txt).replace('@NOTES@', notes))
