"""Round-3 mutation trials for C07 (development aid, not a check).
Usage: AITB_REPO=<scratch repo> AITB_CACHE=... python3 tools/dev/mutations_c07.py [name …]
For each mutation: apply to $AITB_REPO, run the repository's relevant unit tests (tools/dev/unittests_c07.py) and the quick check with
AITB_C07_LENIENT_SITES=1 (so that the textual tie does not mask what the behavioural clauses catch), print the outcome, revert."""
import os, subprocess, sys, re
REPO = os.environ['AITB_REPO']
HERE = os.path.dirname(os.path.dirname(os.path.dirname(os.path.abspath(__file__))))
M = {
 # shared helper one level below the anchored files (the integrator's seeded change)
 'getIds_agents_with_S': ('src/Factored/Utils/BayesianNetwork.cpp',
    'std::pair<size_t, size_t> DDNGraph::getIds(const size_t feature, const State & s, const Action & a) const {\n        const auto actionId = toIndexPartial(parents_[feature].agents, A, a);',
    'std::pair<size_t, size_t> DDNGraph::getIds(const size_t feature, const State & s, const Action & a) const {\n        const auto actionId = toIndexPartial(parents_[feature].agents, S, a);'),
 # startIds_ prefix sums: every block gets the size of the first parent set
 'push_startIds_first_block': ('src/Factored/Utils/BayesianNetwork.cpp',
    'newStartId += factorSpacePartial(newParents.features[i], S);', 'newStartId += factorSpacePartial(newParents.features[0], S);'),
 # sync(indeces) syncs the row of feature 0's index in every table
 'coopML_syncIdx_first_index': ('src/Factored/MDP/CooperativeMaximumLikelihoodModel.cpp',
    'const auto j = indeces[i];\n\n            syncRow(i, j);\n        }\n    }\n\n    void CooperativeMaximumLikelihoodModel::syncRow',
    'const auto j = indeces[0];\n\n            syncRow(i, j);\n        }\n    }\n\n    void CooperativeMaximumLikelihoodModel::syncRow'),
 # expected reward skips the last feature
 'coopML_expected_reward_skips_last': ('src/Factored/MDP/CooperativeMaximumLikelihoodModel.cpp',
    'double retval = 0.0;\n        for (size_t i = 0; i < S.size(); ++i) {', 'double retval = 0.0;\n        for (size_t i = 0; i + 1 < S.size() || i == 0; ++i) {'),
 # joint probability reads s1 of feature 0 for every feature (shared DDN helper)
 'ddn_joint_probability_s1_0': ('src/Factored/Utils/BayesianNetwork.cpp',
    'retval *= transitions[i](graph.getId(i, s, a), s1[i]);', 'retval *= transitions[i](graph.getId(i, s, a), s1[i < s1.size() - 1 ? i : 0]);'),
 # factored bandit: entry resolved with the dependency list of basis 0
 'fbandit_record_tag_of_basis0': ('src/Factored/Bandit/Experience.cpp',
    'const auto aId = toIndexPartial(qfun_.bases[i].tag, A, a);', 'const auto aId = std::min<size_t>(toIndexPartial(qfun_.bases[0].tag, A, a), qfun_.bases[i].values.size() - 1);'),
 # cooperative record counts the next value of feature i-1 for i > 0 when it fits
 'coopExp_record_s1_of_previous_feature': ('src/Factored/MDP/CooperativeExperience.cpp',
    'vNode(id, s1[i]) += 1; // Single', 'vNode(id, (i > 0 && s1[i-1] < S[i]) ? s1[i-1] : s1[i]) += 1; // Single'),
 # shared index helper: the multiplier skips spaces of size 1 … and 2
 'toIndexPartial_multiplier_skips_small': ('src/Factored/Utils/Core.cpp',
    'size_t toIndexPartial(const PartialKeys & ids, const Factors & space, const Factors & f) {\n        size_t result = 0; size_t multiplier = 1;\n        for (auto id : ids) {\n            result += multiplier * f[id];\n            multiplier *= space[id];',
    'size_t toIndexPartial(const PartialKeys & ids, const Factors & space, const Factors & f) {\n        size_t result = 0; size_t multiplier = 1;\n        for (auto id : ids) {\n            result += multiplier * f[id];\n            multiplier *= (ids.size() > 2 && space[id] == 4) ? 3 : space[id];'),
 # cooperative reset forgets the M2 table
 'coopExp_reset_keeps_M2': ('src/Factored/MDP/CooperativeExperience.cpp', 'M2s_[i].setZero();\n            visits_[i].setZero();\n        }\n        timesteps_ = 0;', 'visits_[i].setZero();\n        }\n        timesteps_ = 0;'),
 # Thompson cooperative model: sync(s,a) resamples the rows of (s, a) for feature 0 only … the others by feature 0's id
 'coopTS_syncSA_id_of_feature0': ('src/Factored/MDP/CooperativeThompsonModel.cpp',
    'void CooperativeThompsonModel::sync(const State & s, const Action & a) {\n        const auto & S = experience_.getS();\n\n        for (size_t i = 0; i < S.size(); ++i) {\n            const auto j = experience_.getGraph().getId(i, s, a);',
    'void CooperativeThompsonModel::sync(const State & s, const Action & a) {\n        const auto & S = experience_.getS();\n\n        for (size_t i = 0; i < S.size(); ++i) {\n            const auto j = std::min(experience_.getGraph().getId(0, s, a), experience_.getGraph().getSize(i) - 1);'),
 # shared sampling helper (include/AIToolbox/Utils/Probability.hpp): the normalising sum forgets the first gamma draw
 'dirichlet_sum_skips_first': ('include/AIToolbox/Utils/Probability.hpp',
    'out[i] = dist(generator);\n            sum += out[i];', 'out[i] = dist(generator);\n            if (i || params.size() == 1) sum += out[i];'),
 # rarely used accessor: the sparse experience hands out the reward matrix as M2 matrix
 'sparseExp_getM2Matrix_returns_rewards': ('src/MDP/SparseExperience.cpp',
    'SparseExperience::getM2Matrix() const { return M2s_; }', 'SparseExperience::getM2Matrix() const { return rewards_; }'),
 # accessor used by the Eigen branch of the learned models: the sparse experience hands out the visit table of action 0 for the last action
 'sparseExp_getVisitsTable_a_last_is_first': ('src/MDP/SparseExperience.cpp',
    'SparseExperience::getVisitsTable(const size_t a) const { return visits_[a]; }', 'SparseExperience::getVisitsTable(const size_t a) const { return visits_[a + 1 == A && A > 2 ? 0 : a]; }'),
 # two cooperating sites: record() no longer refreshes the indeces_ it returns (sync(indeces) then syncs stale rows)
 'coopExp_record_stale_indeces': ('src/Factored/MDP/CooperativeExperience.cpp',
    'indeces_[i] = id;', 'if (timesteps_ == 1) indeces_[i] = id;'),
 # factored bandit keeps the returned indices of the first record only
 'fbandit_record_stale_indeces': ('src/Factored/Bandit/Experience.cpp',
    'indeces_[i] = aId;', 'if (timesteps_ == 1) indeces_[i] = aId;'),
 # the cooperative Thompson model's expected reward skips the last feature
 'coopTS_expected_reward_skips_last': ('src/Factored/MDP/CooperativeThompsonModel.cpp',
    'double retval = 0.0;\n        for (size_t i = 0; i < S.size(); ++i) {', 'double retval = 0.0;\n        for (size_t i = 0; i + 1 < S.size() || i == 0; ++i) {'),
}
names = sys.argv[1:] or list(M)
env = dict(os.environ, AITB_C07_LENIENT_SITES='1')
for n in names:
    rel, old, new = M[n]
    p = os.path.join(REPO, rel); src = open(p).read()
    if src.count(old) != 1:
        print(n, 'PATTERN NOT FOUND (count=%d)' % src.count(old)); continue
    open(p, 'w').write(src.replace(old, new))
    try:
        ut = subprocess.run([sys.executable, os.path.join(HERE, 'tools/dev/unittests_c07.py')], capture_output=True, text=True, env=env)
        bad = [l.split()[0] for l in ut.stdout.splitlines() if 'rc=' in l and 'rc=0' not in l]
        ck = subprocess.run([sys.executable, os.path.join(HERE, 'tools/check.py'), 'C07', '--tier', 'quick'], capture_output=True, text=True, env=env)
        viol = [l for l in ck.stdout.splitlines() if l.startswith('VIOLATION')]
        kinds = set()
        for l in viol:
            m = re.search(r'replay=(\S+)', l)
            try:
                import json; d = json.load(open(m.group(1)))
                v = str(d.get('verdict', ''))
                kinds.add(' '.join(v.split()[:3]) if v else d.get('kind', '?'))
            except Exception:
                kinds.add('?')
        summ = [l for l in ck.stdout.splitlines() if l.startswith('[C07]')]
        print('MUTATION', n, '| unit tests:', 'pass' if not bad else 'FAIL ' + ','.join(bad), '|', len(viol), 'VIOLATION |', '; '.join(sorted(kinds))[:700], '|', summ[-1] if summ else ck.stdout[-300:])
    finally:
        subprocess.run(['git', '-C', REPO, 'checkout', '--', rel])
    sys.stdout.flush()
