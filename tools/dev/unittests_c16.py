"""Build the library from $AITB_REPO (cached, sanitized) and run the repository's unit tests relevant to C16 against it.
Usage: AITB_REPO=... python3 tools/dev/unittests_c16.py [test/…Tests.cpp …]   (default: the list below). Exit 0 = all pass."""
import sys, os, subprocess, tempfile
sys.path.insert(0, os.path.join(os.path.dirname(os.path.dirname(os.path.abspath(__file__)))))
import common as C
DEFAULT = ['test/MDP/DoubleQLearningTests.cpp', 'test/POMDP/ModelTests.cpp', 'test/POMDP/SparseModelTests.cpp', 'test/MDP/ModelTests.cpp',
           'test/Factored/MDP/CooperativeMaximumLikelihoodModelTests.cpp', 'test/Factored/MDP/CooperativeModelTests.cpp', 'test/Factored/Bandit/ModelTests.cpp',
           'test/Factored/MDP/CooperativePrioritizedSweepingTests.cpp', 'test/POMDP/AMDPTests.cpp', 'test/POMDP/PBVITests.cpp']
tests = sys.argv[1:] or DEFAULT
lib, log = C.build_lib()
if not lib:
    print('LIB BUILD FAILED', log[-2000:]); sys.exit(2)
def one(t):
    exe = os.path.join(tempfile.gettempdir(), 'c16-ut-' + t.replace('/', '_')[:-4])
    cmd = [C.CXX] + C.CXXFLAGS + ['-I' + os.path.join(C.REPO, 'test'), os.path.join(C.REPO, t), lib] + C.LDLIBS + ['-lboost_unit_test_framework', '-o', exe]
    p = subprocess.run(cmd, capture_output=True, text=True)
    if p.returncode != 0:
        return t, 2, 'BUILD FAILED ' + p.stderr[-600:]
    p = subprocess.run(['timeout', '300', exe], capture_output=True, text=True, cwd=os.path.join(C.REPO, 'test'))
    return t, p.returncode, (p.stdout + p.stderr).strip().split('\n')[-1][:200]
from concurrent.futures import ThreadPoolExecutor
rc_all = 0
with ThreadPoolExecutor(8) as ex:
    for t, rc, msg in ex.map(one, tests):
        print(os.path.basename(os.path.dirname(t)) + '/' + os.path.basename(t), 'rc=%d' % rc, msg)
        rc_all |= rc
sys.exit(1 if rc_all else 0)
