#!/bin/bash
# sweep2.sh "<seeds>" "<props>"
cd /verif
for s in $1; do for p in $2; do VERIF_SEED=$s timeout 3000 python3 tools/check.py $p --tier quick 2>&1 | grep -E "VIOLATION|^\[C|Traceback|Error" | cut -c1-200; done; done
echo SWEEPDONE
