"""Mutation trials for C13 (round 3): apply each mutation to the scratch library copy ($AITB_REPO, a git worktree), run the
repository's unit tests that cover the C13 anchors (tools/dev/unittests_c13.py) and `tools/check.py C13 --tier quick`, print
the outcome, revert.   usage: AITB_REPO=<scratch repo> AITB_CACHE=<cache> python3 tools/dev/mutations_c13.py [P1 P2 ...]"""
import subprocess, sys, os, glob, json, time, collections
REPO = os.environ['AITB_REPO']
VERIF = os.path.dirname(os.path.dirname(os.path.dirname(os.path.abspath(__file__))))
env = dict(os.environ)
FC = 'src/Factored/Utils/Core.cpp'
FCH = 'include/AIToolbox/Factored/Utils/Core.hpp'
GU = 'include/AIToolbox/Factored/Bandit/Algorithms/Utils/GraphUtils.hpp'
FG = 'include/AIToolbox/Factored/Utils/FactorGraph.hpp'
MP = 'src/Factored/Bandit/Algorithms/Utils/MaxPlus.cpp'
GVE = 'include/AIToolbox/Factored/Utils/GenericVariableElimination.hpp'
UC = 'include/AIToolbox/Utils/Core.hpp'
M = {
 'P1': [(FC, "            while (pf.first[j] != id) ++j;\n            result += multiplier * pf.second[j];\n            multiplier *= space[id];",
              "            while (pf.first[j] != id) ++j;\n            result += multiplier * pf.second[j];\n            multiplier *= space[j];")],
 'P2': [(GU, "                for (size_t ai = 0; ai < Ai; ++ai)\n                    factorNode[ai].second.first += basis.values(ai);",
              "                for (size_t ai = 0; ai < Ai; ++ai)\n                    factorNode[ai].second.first = basis.values(ai);"),
        (GU, "        void operator()(LocalSearch::Graph & graph, const Factored::Bandit::QFunction & qf, const Action &) {\n            for (auto & f : graph)\n                f.getData().setZero();\n",
              "        void operator()(LocalSearch::Graph & graph, const Factored::Bandit::QFunction & qf, const Action &) {\n")],
 'P3': [(MP, "        if (rValue == std::numeric_limits<double>::lowest())\n            rValue = LocalSearch::evaluateGraph(A, graph, rAction);", "")],
 'P4': [(FG, "            auto tmp = FD{};\n            it->f_ = tmp;", "")],
 'P5': [(FCH, "            std::uniform_int_distribution<size_t> dist(0, space[i]-1);\n            retval[i] = dist(rnd);", "            std::uniform_int_distribution<size_t> dist(0, space[i] > 2 ? space[i] : space[i]-1);\n            retval[i] = dist(rnd);")],
 'P6': [(GVE, "                        while (oldRulesCurrId < oldRules.size() && oldRules[oldRulesCurrId].first < jvID)\n                            ++oldRulesCurrId;",
               "                        while (oldRulesCurrId + 1 < oldRules.size() && oldRules[oldRulesCurrId].first < jvID)\n                            ++oldRulesCurrId;")],
 'P7': [(UC, "            if (newV > max) {\n                retval = begin;\n                max = newV;\n            }", "            if (newV > max) {\n                retval = begin;\n            }")],
}
WHAT = {
 'P1': 'toIndexPartial(keys, space, PartialFactors) (the overload removeFactor uses): stride = space[position in the joint value] instead of space[key]',
 'P2': 'GraphUtils QFunction overloads: VE builder overwrites instead of accumulating a second basis on the same tag; LocalSearch updater forgets setZero (stale tables on a reused graph)',
 'P3': 'MaxPlus never evaluates the default all-zero action (returns lowest() when no candidate differs from it)',
 'P4': 'FactorGraph::getFactor does not reset the data of a node taken from the static pool',
 'P5': 'makeRandomValue draws one past the end for agents with more than two actions',
 'P6': 'GVE cursor walk stops one short of the end of the old rules (emplace in front of a smaller index)',
 'P7': 'max_element_unary keeps comparing with the FIRST value (returns the last element beating the first one)',
}
which = sys.argv[1:] or list(M)
for k in which:
    ok = True
    for f, old, new in M[k]:
        p = os.path.join(REPO, f)
        s = open(p).read()
        if old not in s:
            print(k, 'PATTERN NOT FOUND in', f); ok = False; break
        open(p, 'w').write(s.replace(old, new, 1))
    try:
        if not ok: continue
        t0 = time.time()
        ut = subprocess.run([sys.executable, os.path.join(os.path.dirname(os.path.abspath(__file__)), 'unittests_c13.py')], env=env, capture_output=True, text=True)
        ck = subprocess.run([sys.executable, 'tools/check.py', 'C13', '--tier', 'quick'], cwd=VERIF, env=env, capture_output=True, text=True)
        lines = [l for l in ck.stdout.split('\n') if l.startswith('VIOLATION') or l.startswith('[C13]')]
        print('==', k, WHAT[k])
        bad = [l for l in ut.stdout.strip().split('\n') if 'rc=0' not in l]
        print('   unit tests:', 'PASS' if ut.returncode == 0 else 'FAIL', '|', ' / '.join(b[:120] for b in bad)[:400])
        print('   check exit', ck.returncode)
        for l in lines[-1:]: print('   ', l[:330])
        print('    VIOLATION lines:', len([l for l in lines if l.startswith('VIOLATION')]))
        kinds = collections.Counter()
        for r in glob.glob(os.path.join(VERIF, 'replays', 'C13-*.json')):
            if os.path.getmtime(r) >= t0:
                d = json.load(open(r)); kinds[(d.get('component'), d.get('clause') or d.get('kind'))] += 1
        for (c, k), n in sorted(kinds.items(), key=lambda x: str(x)): print('     replay:', c, k)
        sys.stdout.flush()
    finally:
        subprocess.run(['git', '-C', REPO, 'checkout', '--', '.'])
