"""Build the library from $AITB_REPO (cached, sanitized) and run the repository's unit tests that cover the C13 anchors (the six maximisers, Factored utils, QGreedyPolicy which uses the QFunction builders) against it."""
import sys, os, subprocess, tempfile
sys.path.insert(0, os.path.join(os.path.dirname(os.path.dirname(os.path.abspath(__file__)))))
import common as C
lib, log = C.build_lib()
if not lib:
    print('LIB BUILD FAILED', log[-2000:]); sys.exit(2)
rc_all = 0
TESTS = ['test/Factored/Bandit/VariableEliminationTests.cpp', 'test/Factored/Bandit/MultiObjectiveVariableEliminationTests.cpp',
         'test/Factored/Bandit/UCVETests.cpp', 'test/Factored/Bandit/MaxPlusTests.cpp', 'test/Factored/Bandit/LocalSearchTests.cpp',
         'test/Factored/Bandit/ReusingIterativeLocalSearchTests.cpp', 'test/Factored/UtilsTests.cpp', 'test/Factored/FactorGraphTests.cpp',
         'test/Factored/Bandit/QGreedyPolicyTests.cpp', 'test/Factored/MDP/JointActionLearnerTests.cpp', 'test/UtilsCoreTests.cpp']
TESTS = [t for t in TESTS if os.path.exists(os.path.join(C.REPO, t))]
for t in TESTS:
    exe = os.path.join(tempfile.gettempdir(), 'c13-ut-' + os.path.basename(t)[:-4])
    cmd = [C.CXX] + C.CXXFLAGS + ['-I' + os.path.join(C.REPO, 'test'), os.path.join(C.REPO, t), lib] + C.LDLIBS + ['-lboost_unit_test_framework', '-o', exe]
    p = subprocess.run(cmd, capture_output=True, text=True)
    if p.returncode != 0:
        print('BUILD FAILED', t, p.stderr[-2000:]); rc_all = 2; continue
    p = subprocess.run(['timeout', '300', exe], capture_output=True, text=True)
    print(os.path.basename(t), 'rc=%d' % p.returncode, (p.stdout + p.stderr).strip().split('\n')[-1][:200])
    rc_all |= p.returncode
sys.exit(rc_all)
