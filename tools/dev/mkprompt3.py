import json, sys
pid = sys.argv[1]; branch = sys.argv[2]; notes = open(sys.argv[3]).read() if len(sys.argv) > 3 else '(none)'
pre = open('/var/tmp/round3_pre.txt').read()
prop = [json.loads(l) for l in open('/verif/properties.jsonl') if json.loads(l)['id'] == pid][0]
txt = json.dumps({k: prop[k] for k in ('id','title','statement','quantifier','why_tests_cant','anchors')}, indent=1)
print(pre.replace('@PU@', pid).replace('@P@', pid.lower()).replace('@B@', branch).replace('@PROPERTY@', txt).replace('@NOTES@', notes))
