#!/bin/bash
# usage: c08_mutate_r4.sh <name> <file> <old> <new> [unit test paths (test/...cpp) ...]
# applies one textual change to the scratch library copy, runs the quick check and the named unit tests, reverts
export AITB_REPO=/var/tmp/rp/c08 AITB_CACHE=/var/tmp/aitb-cache
name=$1; file=$2; old=$3; new=$4; shift 4
cd /var/tmp/rp/c08 && git checkout -- . && python3 - "$file" "$old" "$new" <<'PY'
import sys
f,old,new=sys.argv[1:4]
s=open(f).read()
assert s.count(old)==1, 'pattern not found exactly once: %d' % s.count(old)
open(f,'w').write(s.replace(old,new,1))
PY
[ $? -ne 0 ] && { echo "MUT $name: pattern not found"; exit 2; }
git diff --stat | tail -1
mkdir -p /var/tmp/scratch-c08
cd /var/tmp/wt/c08 && python3 tools/check.py C08 --tier quick > /var/tmp/scratch-c08/mut-$name.log 2>&1; rc=$?
echo "MUT $name: exit=$rc $(grep -c VIOLATION /var/tmp/scratch-c08/mut-$name.log) violation lines; $(tail -1 /var/tmp/scratch-c08/mut-$name.log)"
for r in $(grep -o 'replay=[^ ]*' /var/tmp/scratch-c08/mut-$name.log | cut -d= -f2 | head -3); do python3 -c "
import json,sys; r=json.load(open('$r')); print('   ', r.get('kind'), r.get('component'), r.get('clause'), (r.get('verdict') or str(r.get('broken')))[:260])"; done
[ $# -gt 0 ] && python3 tools/dev/unittests_c08.py "$@" 2>&1 | sed 's/^/    unit: /'
git -C /var/tmp/rp/c08 checkout -- .
rm -f /var/tmp/wt/c08/replays/C08-*.json
python3 tools/extract.py > /dev/null
