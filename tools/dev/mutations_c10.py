"""Mutation trials for C10 round 4 (documentation of what was tried; run manually):
   python3 tools/dev/mutations_c10.py [--unit] [names…]
applies each mutation to the scratch library copy $AITB_REPO, (optionally) runs the repository's unit tests that cover the touched code,
runs tools/check.py C10 --tier quick with C10_ONLY_OWN=1 (own harness + instantiation units; the other harnesses are not rebuilt), prints the
outcome, reverts."""
import subprocess, os, sys, json, tempfile
REPO = os.environ.get('AITB_REPO', '/var/tmp/rp/c10'); WT = os.path.dirname(os.path.dirname(os.path.dirname(os.path.abspath(__file__))))
env = dict(os.environ, AITB_REPO=REPO, C10_ONLY_OWN='1')
COMB = 'include/AIToolbox/Utils/Combinatorics.hpp'; UCORE = 'include/AIToolbox/Utils/Core.hpp'; FGH = 'include/AIToolbox/Factored/Utils/FactorGraph.hpp'
M = [
 ('S1 SubsetEnumerator::advance records `lowest` before the scan (always the last slot)', COMB,
  """                auto ub = upperBound_ - 1;
                while (current && ids_[current] == ub) --current, --ub;

                auto lowest = current; // Last element we need to change.""",
  """                auto ub = upperBound_ - 1;
                auto lowest = current; // Last element we need to change.
                while (current && ids_[current] == ub) --current, --ub;
"""),
 ('S2 sequential_sorted_contains(v, elems) tests the element before the bound', UCORE,
  """if (i == v.size() || v[i] > elems[j]) return false;""", """if (v[i] > elems[j] || i == v.size()) return false;"""),
 ('S3 FactorGraph::getFactor forgets the inplace_merge of the neighbour list', FGH,
  """            std::inplace_merge(std::begin(va.vNeighbors), std::begin(va.vNeighbors)+mid, std::end(va.vNeighbors));
        }
        return it;""", """        }
        return it;"""),
 ('S4 veccmpSmall compares with the relative tolerance', UCORE,
  """            if (checkEqualSmall(lhs[i], rhs[i])) continue;
            return lhs[i] <=> rhs[i];""", """            if (checkEqualGeneral(lhs[i], rhs[i])) continue;
            return lhs[i] <=> rhs[i];"""),
 ('S5 nChooseK divides before multiplying', 'src/Utils/Combinatorics.cpp',
  """            result *= (n-i+1);
            result /= i;""", """            result /= i;
            result *= (n-i+1);"""),
 ('S6 max_element_unary keeps the LAST maximum', UCORE,
  """            if (newV > max) {""", """            if (newV >= max) {"""),
 ('S7 FactorGraph::erase leaves the erased variable in the list of its last neighbour', FGH,
  """        for (const auto aa : va.vNeighbors) {
            auto & vaa = variableAdjacencies_[aa];""", """        for (const auto aa : va.vNeighbors) {
            if (aa == va.vNeighbors.back() && va.vNeighbors.size() > 2) continue;
            auto & vaa = variableAdjacencies_[aa];"""),
 ('S8 definition in a header loses its `inline` (makeTigerProblem)', 'include/AIToolbox/POMDP/Environments/TigerProblem.hpp',
  """    inline AIToolbox::POMDP::Model<AIToolbox::MDP::Model> makeTigerProblem() {""", """    AIToolbox::POMDP::Model<AIToolbox::MDP::Model> makeTigerProblem() {"""),
]
UNIT = ['test/UtilsCoreTests.cpp', 'test/Factored/FactorGraphTests.cpp', 'test/MDP/UtilsPolytopeTests.cpp', 'test/Factored/UtilsTests.cpp']


def unit():
    sys.path.insert(0, os.path.join(WT, 'tools'))
    import importlib, common as C
    importlib.reload(C)
    lib, log = C.build_lib()
    if not lib:
        return 'LIB BUILD FAILED'
    res = []
    for t in UNIT:
        exe = os.path.join(tempfile.gettempdir(), 'c10-ut-' + os.path.basename(t)[:-4])
        cmd = [C.CXX] + C.CXXFLAGS + ['-I' + os.path.join(C.REPO, 'test'), os.path.join(C.REPO, t), lib] + C.LDLIBS + ['-lboost_unit_test_framework', '-o', exe]
        p = subprocess.run(cmd, capture_output=True, text=True)
        if p.returncode != 0:
            res.append(os.path.basename(t) + ':BUILD-FAILED'); continue
        p = subprocess.run(['timeout', '300', exe], capture_output=True, text=True, env=dict(os.environ, ASAN_OPTIONS='detect_leaks=0'))
        res.append('%s:%s' % (os.path.basename(t)[:-4], 'pass' if p.returncode == 0 else 'FAIL'))
    return ' '.join(res)


if __name__ == '__main__':
    do_unit = '--unit' in sys.argv
    sel = [a for a in sys.argv[1:] if a != '--unit']
    for name, f, a, b in M:
        if sel and name.split()[0] not in sel:
            continue
        p = os.path.join(REPO, f); s = open(p).read()
        if s.count(a) != 1:
            print('==', name, 'PATTERN COUNT', s.count(a)); continue
        open(p, 'w').write(s.replace(a, b))
        try:
            if do_unit:
                print('== unit tests:', unit(), flush=True)
            r = subprocess.run(['python3', 'tools/check.py', 'C10', '--tier', 'quick'], cwd=WT, env=env, capture_output=True, text=True)
            lines = [l for l in r.stdout.splitlines() if l.startswith('VIOLATION') or l.startswith('[C10]') or l.startswith('BROKEN')]
            print('==', name, 'exit', r.returncode, flush=True)
            for l in lines[:5]:
                print('   ', l[:260])
            for l in lines:
                if l.startswith('VIOLATION') and 'replay=' in l:
                    rp = l.split('replay=')[1].split()[0]
                    try:
                        d = json.load(open(rp)); print('    first:', (d.get('verdict') or d.get('detail') or str(d.get('broken'))[:300])[:300])
                    except Exception:
                        pass
                    break
        finally:
            open(p, 'w').write(s)          # restore (the copy need not be a git checkout)
