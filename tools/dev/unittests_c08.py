"""Build the library from $AITB_REPO (cached, sanitized) and run the repository's unit tests that cover the C08 anchors
(probability utilities, tolerance helpers, MDP/POMDP dense and sparse models, the cooperative factored model, factored index utilities)."""
import sys, os, subprocess, tempfile
sys.path.insert(0, os.path.join(os.path.dirname(os.path.dirname(os.path.abspath(__file__)))))
import common as C
lib, log = C.build_lib()
if not lib:
    print('LIB BUILD FAILED', log[-2000:]); sys.exit(2)
rc_all = 0
TESTS = sys.argv[1:] or ['test/UtilsProbabilityTests.cpp', 'test/UtilsCoreTests.cpp', 'test/MDP/ModelTests.cpp', 'test/MDP/SparseModelTests.cpp',
         'test/POMDP/ModelTests.cpp', 'test/POMDP/SparseModelTests.cpp', 'test/Factored/MDP/CooperativeModelTests.cpp', 'test/Factored/UtilsTests.cpp']
TESTS = [t for t in TESTS if os.path.exists(os.path.join(C.REPO, t))]
procs = []
for t in TESTS:
    exe = os.path.join(tempfile.gettempdir(), 'c08-ut-%d-' % os.getpid() + t[:-4].replace('/', '_'))
    cmd = [C.CXX] + C.CXXFLAGS + ['-I' + os.path.join(C.REPO, 'test'), os.path.join(C.REPO, t), lib] + C.LDLIBS + ['-lboost_unit_test_framework', '-o', exe]
    procs.append((t, exe, subprocess.Popen(cmd, stdout=subprocess.PIPE, stderr=subprocess.STDOUT, text=True)))
for t, exe, p in procs:
    out = p.communicate()[0]
    if p.returncode != 0:
        print('BUILD FAILED', t, out[-2000:]); rc_all = 2; continue
    q = subprocess.run(['timeout', '600', exe], capture_output=True, text=True, cwd=os.path.join(C.REPO, 'test'))
    if q.returncode and os.environ.get('UT_VERBOSE'): print((q.stdout + q.stderr)[-3000:])
    import re as _re
    print(t, 'rc=%d' % q.returncode, ' | '.join(_re.sub(r'\x1b\[[0-9;]*m', '', (q.stdout + q.stderr)).strip().split('\n')[-3:])[:400])
    rc_all |= q.returncode
    os.remove(exe)
sys.exit(rc_all)
