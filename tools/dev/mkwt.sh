#!/bin/bash
# mkwt.sh <cNN> <branch>: fresh framework worktree from /verif main and a scratch library worktree from /repo HEAD
p=$1; b=$2
git -C /verif worktree remove --force /var/tmp/wt/$p 2>/dev/null; rm -rf /var/tmp/wt/$p
git -C /repo worktree remove --force /var/tmp/rp/$p 2>/dev/null; rm -rf /var/tmp/rp/$p
git -C /verif worktree prune; git -C /repo worktree prune
git -C /verif worktree add -q -b $b /var/tmp/wt/$p main && git -C /repo worktree add -q --detach /var/tmp/rp/$p HEAD && echo "ok $p $b"
