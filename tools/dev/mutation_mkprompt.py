import json, sys
pid, n = sys.argv[1], sys.argv[2]
wt = f'/var/tmp/mut/{pid.lower()}-{n}'; out = f'/var/tmp/mut/out/{pid}-{n}'
prop = [json.loads(l) for l in open('/verif/properties.jsonl') if json.loads(l)['id'] == pid][0]
txt = json.dumps({k: prop[k] for k in ('id','title','statement','quantifier','why_tests_cant','anchors')}, indent=1)
extra = sys.argv[3] if len(sys.argv) > 3 else ''
print(open('/var/tmp/mut/preamble.txt').read().replace('@WT@', wt).replace('@OUT@', out).replace('@PROPERTY@', txt) + ('\nADDITIONAL STEER: ' + extra if extra else ''))
