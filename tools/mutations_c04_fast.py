"""Header-only mutation trials for C04 (PERSEUS / PBVI / LinearSupport are templates instantiated in the harness): the
sanitized library built from the CLEAN tree is reused, only the harness is recompiled against the mutated header.
Usage: python3 tools/mutations_c04_fast.py [PS1 PS2 ...]   (scratch copy $AITB_REPO is reverted after every trial)"""
import os, sys, subprocess, collections
sys.path.insert(0, os.path.dirname(os.path.abspath(__file__)))
import common as C
M = [
 ('PS1 PERSEUS skips a belief only when strictly improved (>= -> >)', 'include/AIToolbox/POMDP/Algorithms/PERSEUS.hpp',
  "if ( currentValue >= oldValue ) continue;", "if ( currentValue > oldValue ) continue;"),
 ('PS2 PERSEUS::crossSum returns the swept list without extractDominated', 'include/AIToolbox/POMDP/Algorithms/PERSEUS.hpp',
  "result.erase(extractDominated(rbegin, rend, unwrap), std::end(result));", "(void)rbegin; (void)rend;"),
 ('PS3 PERSEUS always projects the horizon-0 list (entries of later horizons link into the wrong level)', 'include/AIToolbox/POMDP/Algorithms/PERSEUS.hpp',
  "const auto projs = projecter(v[timestep-1]);", "const auto projs = projecter(v[0]);"),
 ('PS4 (seeded change C04-2) PERSEUS keeps the previous horizon's best VEntry when the backup does not improve the belief (stale links; needs a sparse support and horizon >= 4)', 'include/AIToolbox/POMDP/Algorithms/PERSEUS.hpp',
  "            result.emplace_back(crossSumBestAtBelief(b, projs));",
  "            { double newValue, oldV2; const auto ob = findBestAtPoint(b, obegin, oend, &oldV2, unwrap); auto entry = crossSumBestAtBelief(b, projs, &newValue); result.emplace_back(newValue >= oldV2 ? std::move(entry) : *ob); }"),
 ('PB2 PBVI selects the best-at-belief entries walking the belief list backwards', 'include/AIToolbox/POMDP/Algorithms/PBVI.hpp',
  """            for ( const auto & belief : beliefs )
                bound = extractBestAtPoint(belief, begin, bound, end, unwrap);""",
  """            for ( auto bit = beliefs.rbegin(); bit != beliefs.rend(); ++bit )
                bound = extractBestAtPoint(*bit, begin, bound, end, unwrap);"""),
 ('PB3 PBVI keeps one entry too many after the per-belief selection', 'include/AIToolbox/POMDP/Algorithms/PBVI.hpp',
  "w.erase(bound, std::end(w));", "w.erase(bound == std::end(w) ? bound : bound + 1, std::end(w));"),
 ('LS1 LinearSupport pushes the support of the WORST vertex error first (priority reversed)', 'src/POMDP/Algorithms/LinearSupport.cpp',
  "return lhs.error < rhs.error;", "return lhs.error > rhs.error;"),
 ('LS2 LinearSupport never re-checks vertices against the new support (no agenda clean-up)', 'include/AIToolbox/POMDP/Algorithms/LinearSupport.hpp',
  "if (it->belief.dot(best.support->values) > it->currentValue)", "if (false && it->belief.dot(best.support->values) > it->currentValue)"),
]
lib, _ = C.build_lib()
assert lib, 'clean library must be built first'
sel = sys.argv[1:]
for name, f, a, b in M:
    if sel and name.split()[0] not in sel: continue
    p = os.path.join(C.REPO, f); s = open(p).read()
    if s.count(a) != 1:
        print(name, 'PATTERN COUNT', s.count(a)); continue
    open(p, 'w').write(s.replace(a, b))
    try:
        extra = [p] if f.endswith('.cpp') else []          # a mutated .cpp is compiled into the harness ahead of the archive
        exe, log = C.build_harness('harness/c04.cpp', lib, extra_flags=['-fno-access-control', '-DC04_MUTATION_' + name.split()[0]], extra_srcs=extra)
        if not exe:
            print('==', name, 'HARNESS BUILD FAILED', log[-400:]); continue
        lines, crashes, done = C.run_harness(exe, 1, 'quick', 900, case_timeout=120)
        proto = [l for l in lines if l.strip() and not l.startswith('#')]
        verdicts, err = C.run_driver(proto)
        cnt = collections.Counter(); first = {}
        for ln, v in zip(proto, verdicts or []):
            t = v.split()
            key = t[0] if t[0] in ('ok', 'skip') else ' '.join(t[:3])
            if 'QMDP' in key: continue
            cnt[key] += 1; first.setdefault(key, v[:200])
        print('==', name, '| crashes', len(crashes))
        for k, n in cnt.most_common():
            if k != 'ok': print('    %5d  %s' % (n, first[k]))
        print('    %5d  ok' % cnt['ok'])
    finally:
        subprocess.run(['git', '-C', C.REPO, 'checkout', '--', '.'])
