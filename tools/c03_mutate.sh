#!/bin/bash
# usage: tools/c03_mutate.sh <name> <file> <python-literal old> <python-literal new>      (AITB_REPO = scratch library copy; modified, then reverted)
VERIF_DIR="$(cd "$(dirname "$0")/.." && pwd)"
: "${AITB_REPO:?set AITB_REPO to a scratch copy of the library (it is modified and reverted)}"
cd $AITB_REPO && git checkout -- .
python3 - "$2" "$3" "$4" <<'PY'
import sys
f,old,new=sys.argv[1:4]
s=open(f).read()
assert s.count(old)>=1, 'pattern not found'
s=s.replace(old,new,1)
open(f,'w').write(s)
PY
[ $? -ne 0 ] && { echo "MUTATION $1: pattern not found"; exit 1; }
git -C $AITB_REPO diff --stat | tail -1
cd "$VERIF_DIR" && out=$(python3 tools/check.py C03 --tier quick 2>&1); rc=$?
echo "MUTATION $1: exit=$rc"; echo "$out" | grep -v KNOWN | tail -4
for r in $(echo "$out" | grep -o 'replay=[^ ]*' | cut -d= -f2 | head -3); do python3 -c "
import json,sys; r=json.load(open('$r')); print('   ', r.get('kind'), r.get('component'), r.get('clause'), (r.get('verdict') or r.get('detail') or str(r.get('broken'))[:300])[:260])"; done
git -C $AITB_REPO checkout -- .
