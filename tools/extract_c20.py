#!/usr/bin/env python3
"""C20 translator plug-in: syntactic facts of src/Factored/Utils/Trie.cpp the C20 theorems talk about.

  sizeFirstBound / allIdsFirstBound : the loops of Trie::size / Trie::getAllIds over the lists of the
      smallest factor are bounded by `ids_[0].size()` (True) or by that factor's own list count (False)
  eraseTailGuard : the tail loop of Trie::erase(id, pf) tests `it != end` before `*it == id`

The model (AITB.Model.Trie) takes these as parameters; AITB.Props.C20 proves the full-strength
statements for the guarded/own-size forms and the `_partial` + counterexample for the others, and the
driver runs the model with the values found in the source *now*."""
import re
import extract as E

REL = 'src/Factored/Utils/Trie.cpp'


def body_of(src, header_re, what):
    m = E.find1(header_re, src, what)
    i = src.index('{', m.end() - 1)
    depth, j = 0, i
    while j < len(src):
        if src[j] == '{':
            depth += 1
        elif src[j] == '}':
            depth -= 1
            if depth == 0:
                return src[i:j + 1], E.lineno(src, m.start())
        j += 1
    raise E.ExtractError('unbalanced body: ' + what)


def norm(s):
    return re.sub(r'\s+', '', s)


def loop_bound(body, var, what):
    m = E.find1(r'for\s*\(\s*size_t\s+i\s*=\s*1\s*;\s*i\s*<\s*([^;]+);\s*\+\+i\s*\)', body, what + ' loop')
    b = norm(m.group(1))
    if b == 'ids_[0].size()':
        return True
    if b in (var + '.size()', 'std::size(' + var + ')'):
        return False
    raise E.ExtractError(f'{what}: unrecognised loop bound {b!r}')


def gen_c20():
    src = E.strip_comments(E.read(REL))
    size_body, size_ln = body_of(src, r'size_t\s+Trie::size\s*\(\s*\)\s*const\s*\{', 'Trie::size')
    all_body, all_ln = body_of(src, r'std::vector<size_t>\s+Trie::getAllIds\s*\(\s*\)\s*const\s*\{', 'Trie::getAllIds')
    er_body, er_ln = body_of(src, r'void\s+Trie::erase\s*\(\s*size_t\s+id\s*,\s*const\s+PartialFactors\s*&\s*pf\s*\)\s*\{', 'Trie::erase(id,pf)')
    E.find1(r'min_element', size_body, 'Trie::size picks the smallest factor')
    E.find1(r'min_element', all_body, 'Trie::getAllIds picks the smallest factor')
    size_first = loop_bound(size_body, 'toCount', 'Trie::size')
    all_first = loop_bound(all_body, 'toMerge', 'Trie::getAllIds')
    mt = E.find1(r'for\s*\(\s*;\s*factor\s*<\s*F\.size\(\)\s*;\s*\+\+factor\s*\)\s*\{(.*)\}\s*\}\s*$', er_body, 'erase(id,pf) tail loop', re.S)
    tail = mt.group(1)
    mc = E.find1(r'if\s*\((.*?)\)\s*v\.back\(\)\.erase\(it\)', tail, 'erase(id,pf) tail test', re.S)
    cond = norm(mc.group(1))
    if cond == '*it==id':
        guard = False
    elif cond in ('it!=std::end(v.back())&&*it==id', 'it!=v.back().end()&&*it==id', 'it!=end(v.back())&&*it==id'):
        guard = True
    else:
        raise E.ExtractError(f'erase(id,pf) tail: unrecognised test {cond!r}')
    # the main-loop tests must be guarded (the model assumes so)
    main = er_body[:mt.start()]
    tests = re.findall(r'if\s*\(([^{};]*?)\)\s*v(?:\.back\(\)|\[value\])\.erase\(it\)', main, re.S)
    if len(tests) != 2 or not all('it!=std::end(' in norm(t) and '*it==id' in norm(t) for t in tests):
        raise E.ExtractError('erase(id,pf) main loop: expected two guarded tests, found ' + repr([norm(t) for t in tests]))
    # FilterMap(TrieType, ItemsContainer): size test only, or size test + "every stored id addresses the container" (fixes/C20-4)
    fsrc = E.strip_comments(E.read('include/AIToolbox/Factored/Utils/FilterMap.hpp'))
    ctor_body, ctor_ln = body_of(fsrc, r'FilterMap\s*\(\s*TrieType\s+t\s*,\s*ItemsContainer\s+c\s*\)\s*:[^{]*\{', 'FilterMap(TrieType, ItemsContainer)')
    cb = norm(ctor_body)
    size_test = 'if(ids_.size()!=items_.size())throwstd::invalid_argument('
    if size_test not in cb:
        raise E.ExtractError('FilterMap(trie, items): size test not found')
    rest = cb[cb.index(size_test):]
    rest = rest[rest.index(';') + 1:]
    if rest == '}':
        ctor_range = False
    elif re.fullmatch(r'for\((?:const)?auto(?:&)?id:ids_\.filter\(Factors\{\}\)\)if\(id>=items_\.size\(\)\)throwstd::invalid_argument\("[^"]*"\);\}', rest):
        ctor_range = True
    else:
        raise E.ExtractError(f'FilterMap(trie, items): unrecognised statements after the size test: {rest[:200]!r}')
    # FasterTrie::insert / erase: is an empty key rejected before `pf.first[0]` is read?
    ftsrc = E.strip_comments(E.read('src/Factored/Utils/FasterTrie.cpp'))
    ins_body, ins_ln = body_of(ftsrc, r'size_t\s+FasterTrie::insert\s*\(\s*PartialFactors\s+pf\s*\)\s*\{', 'FasterTrie::insert')
    fer_body, _ = body_of(ftsrc, r'void\s+FasterTrie::erase\s*\(\s*const\s+size_t\s+id\s*,\s*const\s+PartialFactors\s*&\s*pf\s*\)\s*\{', 'FasterTrie::erase')
    ib, eb = norm(ins_body), norm(fer_body)
    ins_guard = re.match(r'\{if\((?:pf\.first\.empty\(\)|!pf\.first\.size\(\)|pf\.first\.size\(\)==0)\)throwstd::invalid_argument\("[^"]*"\);keys_\[pf\.first\[0\]\]', ib) is not None
    ers_guard = re.match(r'\{if\((?:pf\.first\.empty\(\)|!pf\.first\.size\(\)|pf\.first\.size\(\)==0)\)return;auto&keys=keys_\[pf\.first\[0\]\]', eb) is not None
    if not ins_guard and not ib.startswith('{keys_[pf.first[0]]'):
        raise E.ExtractError('FasterTrie::insert: unrecognised statements before the bucket access: ' + ib[:120])
    if not ers_guard and not eb.startswith('{auto&keys=keys_[pf.first[0]]'):
        raise E.ExtractError('FasterTrie::erase: unrecognised statements before the bucket access: ' + eb[:120])
    if ins_guard != ers_guard:
        raise E.ExtractError('FasterTrie::insert and ::erase disagree on the empty-key guard')
    b = lambda x: 'true' if x else 'false'
    body = f'''/- GENERATED by tools/extract_c20.py from {REL} — do not edit. -/
namespace AITB.Gen.C20

/-- {REL}:{size_ln} `Trie::size`: loop bound is `ids_[0].size()` (true) / the chosen factor's own (false) -/
def sizeFirstBound : Bool := {b(size_first)}
/-- {REL}:{all_ln} `Trie::getAllIds`: same -/
def allIdsFirstBound : Bool := {b(all_first)}
/-- {REL}:{er_ln} `Trie::erase(id, pf)`: the tail loop checks `it != end` before `*it == id` -/
def eraseTailGuard : Bool := {b(guard)}
/-- include/AIToolbox/Factored/Utils/FilterMap.hpp:{ctor_ln} `FilterMap(TrieType, ItemsContainer)`: after the size test, rejects a trie
    holding an id outside the container (true) / size test only (false) -/
def ctorChecksIdRange : Bool := {b(ctor_range)}
/-- src/Factored/Utils/FasterTrie.cpp:{ins_ln} `FasterTrie::insert` / `erase`: an empty key is rejected (insert throws `invalid_argument`, erase returns)
    before `pf.first[0]` is read (true) / `pf.first[0]` is read unconditionally (false: out-of-bounds read on an empty key) -/
def ftEmptyKeyGuard : Bool := {b(ins_guard)}

end AITB.Gen.C20
'''
    E.write_if_changed('C20', body)


# ---------------------------------------------------------------------------------------------------------------
# Pinned source sites (round 3).  Every statement of the anchored files that a definition in AITB.Model.Trie /
# AITB.Model.IndexMap transcribes, as a literal of the comment-free, whitespace-free source text with the number of
# times it must occur.  A site that is missing (or occurs a different number of times) means the model no longer
# transcribes the code: ExtractError (broken tie; the harness still runs and looks for a failing input).
# Deliberately NOT pinned, because the theorems do not depend on them: the position at which a new Filter is inserted
# (`upper_bound` by size), the direction in which `erase(id)` scans a row, `reserve`, the shuffles of `reconstruct`.
TRIE = 'src/Factored/Utils/Trie.cpp'
FT = 'src/Factored/Utils/FasterTrie.cpp'
FMAP = 'include/AIToolbox/Factored/Utils/FilterMap.hpp'
IMAP = 'include/AIToolbox/Utils/IndexMap.hpp'
CORE = 'src/Factored/Utils/Core.cpp'
CELL = 'std::begin(ids_[key][value]),std::end(ids_[key][value]),std::begin(ids_[key].back()),std::end(ids_[key].back())'
SITES = [
    # ---- Trie: constructor, insert (T.mk?, walkKeys/walkTail/pushAt)
    (TRIE, 'ctor_min_two_factors', 'if(F.size()<2)throwstd::invalid_argument(', 1),
    (TRIE, 'ctor_lists_per_factor', 'ids_[i].resize(F[i]+1);', 1),
    (TRIE, 'ctor_counter_zero', 'F(std::move(f)),counter_(0)', 1),
    (TRIE, 'insert_unnamed_visit', 'if(factor<pf.first[i]){ids_[factor].back().push_back(counter_);continue;}', 1),
    (TRIE, 'insert_named_visit', 'constsize_tvalue=pf.second[i++];ids_[factor][value].push_back(counter_);', 1),
    (TRIE, 'insert_tail', 'for(;factor<F.size();++factor)ids_[factor].back().push_back(counter_);returncounter_++;', 1),
    (TRIE, 'walk_loop_header', 'for(size_ti=0;i<pf.first.size();++factor){', 2),
    # ---- erase(id) (eraseRowRev / eraseLB)
    (TRIE, 'erase_id_lower_bound', 'autoit=std::lower_bound(std::begin(vv),std::end(vv),id);if(it!=std::end(vv)&&*it==id){vv.erase(it);break;}', 1),
    # ---- erase(id, pf) (eraseAt / eraseTailAt); the tail guard itself is read by gen_c20
    (TRIE, 'erase_pf_unnamed', 'autoit=std::lower_bound(std::begin(v.back()),std::end(v.back()),id);', 2),
    (TRIE, 'erase_pf_named', 'autoit=std::lower_bound(std::begin(v[value]),std::end(v[value]),id);if(it!=std::end(v[value])&&*it==id)v[value].erase(it);', 1),
    # ---- filter / refine (buildFilters, T.filter, T.filterF, T.refine)
    (TRIE, 'filter_cell_ranges', 'Filterfilter(' + CELL + ');if(!filter.isValid())return{};', 2),
    (TRIE, 'filter_pf_empty_query', 'if(!pf.first.size())returngetAllIds();', 1),
    (TRIE, 'filter_f_empty_query', 'if(!f.size())returngetAllIds();', 1),
    (TRIE, 'filter_f_offset', 'for(size_ti=offset;i<f.size()+offset;++i){autoid=i-offset;Filterfilter(std::begin(ids_[i][f[id]]),std::end(ids_[i][f[id]]),std::begin(ids_[i].back()),std::end(ids_[i].back()));if(!filter.isValid())return{};', 1),
    (TRIE, 'filter_apply', 'returnapplyFilters(filters);', 3),
    (TRIE, 'refine_trivial_cases', 'if(!ids.size()||!pf.first.size()){returnids;}', 1),
    (TRIE, 'refine_ids_filter', 'filters.emplace_back(std::end(ids),std::end(ids),std::begin(ids),std::end(ids));', 1),
    # ---- Filter (Filt.advance / step / isValid / getMin / size)
    (TRIE, 'Filter_advance', 'beginNamedFilter=std::lower_bound(beginNamedFilter,endNamedFilter,value);beginUnnamedFilter=std::lower_bound(beginUnnamedFilter,endUnnamedFilter,value);', 1),
    (TRIE, 'Filter_stepAdvance', 'if(beginNamedFilter==endNamedFilter)++beginUnnamedFilter;elseif(beginUnnamedFilter==endUnnamedFilter)++beginNamedFilter;else*beginNamedFilter<*beginUnnamedFilter?++beginNamedFilter:++beginUnnamedFilter;', 1),
    (TRIE, 'Filter_isValid', 'returnbeginUnnamedFilter<endUnnamedFilter||beginNamedFilter<endNamedFilter;', 1),
    (TRIE, 'Filter_getMin', 'if(beginNamedFilter==endNamedFilter)return*beginUnnamedFilter;if(beginUnnamedFilter==endUnnamedFilter)return*beginNamedFilter;returnstd::min(*beginNamedFilter,*beginUnnamedFilter);', 1),
    (TRIE, 'Filter_less_by_size', 'return(endNamedFilter-beginNamedFilter)+(endUnnamedFilter-beginUnnamedFilter)<(other.endNamedFilter-other.beginNamedFilter)+(other.endUnnamedFilter-other.beginUnnamedFilter);', 1),
    # ---- applyFilters (applyCursor: Cur.matchPart / Cur.advPart)
    (TRIE, 'apply_single_filter', 'if(filters.size()==1){while(filters[0].isValid()){matches.push_back(filters[0].getMin());filters[0].stepAdvance();}returnmatches;}', 1),
    (TRIE, 'apply_init', 'size_tlastMaxFound=0,counter=1;size_tcurrentMax=filters[0].getMin();while(true){', 1),
    (TRIE, 'apply_match_part', 'if(counter==filters.size()){matches.push_back(currentMax);filters[0].stepAdvance();if(!filters[0].isValid())break;currentMax=filters[0].getMin();counter=1;lastMaxFound=0;}', 1),
    (TRIE, 'apply_adv_part', 'filters[counter].advance(currentMax);if(!filters[counter].isValid())break;autocurrentId=filters[counter].getMin();if(currentId>currentMax){currentMax=currentId;lastMaxFound=counter;counter=0;}elseif(++counter==lastMaxFound)++counter;}returnmatches;', 1),
    # ---- size / getAllIds (sumCells / mergeCells over the smallest factor; the loop bound is read by gen_c20)
    (TRIE, 'smallest_factor_row', 'ids_[std::min_element(std::begin(F),std::end(F))-std::begin(F)];', 2),
    (TRIE, 'size_sum', 'size_tretval=toCount[0].size();', 1),
    (TRIE, 'size_sum_step', 'retval+=toCount[i].size();', 1),
    (TRIE, 'allids_merge', 'autonewIt=std::copy(std::begin(toMerge[i]),std::end(toMerge[i]),it);std::inplace_merge(std::begin(retval),it,newIt);it=newIt;', 1),
    (TRIE, 'getF', 'FactorsTrie::getF()const{returnF;}', 1),
    # ---- FasterTrie (FT.new / insert / erase / filter / size / reconstruct)
    (FT, 'ctor_buckets', 'keys_[i].resize(F[i]);', 1),
    (FT, 'insert', 'keys_[pf.first[0]][pf.second[0]].emplace_back(counter_,std::move(pf));returncounter_++;', 1),
    (FT, 'erase_swap_pop', 'auto&keys=keys_[pf.first[0]][pf.second[0]];for(size_ti=0;i<keys.size();++i){if(id==keys[i].first){std::swap(keys[i],keys.back());keys.pop_back();return;}}', 1),
    (FT, 'matchPartial', 'for(size_ti=1;i<j&&i<pf.first.size();++i){if(pf.first[i]>=f.size())returntrue;if(f[pf.first[i]]!=pf.second[i])returnfalse;}returntrue;', 1),
    (FT, 'filter_named_part', 'size_ti=0;for(;i<f.size();++i)for(constauto&[id,pf]:keys_[i][f[i]])if(matchPartial(f,pf,f.size()-i))retval.push_back(id);', 1),
    (FT, 'filter_rest_part', 'for(;i<keys_.size();++i)for(constauto&keys:keys_[i])for(constauto&id_pf:keys)retval.push_back(id_pf.first);returnretval;', 1),
    (FT, 'size', 'for(constauto&keysF:keys_)for(constauto&keysV:keysF)retval+=keysV.size();returnretval;', 1),
    (FT, 'recon_init', 'f=F;for(size_ti=0;i<pf.first.size();++i)f[pf.first[i]]=pf.second[i];', 1),
    (FT, 'recon_known_value', 'if(f[o]<F[o]){done=true;keysV=&keys[f[o]];}else{', 1),
    (FT, 'recon_match_test', 'if(f[id]<F[id]&&entrypf.second[q]!=f[id]){match=false;break;}', 1),
    (FT, 'recon_assign', 'if(match){done=true;for(size_tq=0;q<entrypf.first.size();++q){constautoid=entrypf.first[q];f[id]=entrypf.second[q];}', 1),
    (FT, 'recon_remove', 'if(remove){entries.emplace_back(std::move(entry));entry=std::move(keysV->back());keysV->pop_back();--k;}else{entries.push_back(entry);}', 1),
    (FT, 'recon_next_value', 'if(done||++j>=orders_[o+1].size())break;keysV=&keys[orders_[o+1][j]];', 1),
    # ---- FilterMap (FM.emplace / filter / size / ofTrie / get / all)
    (FMAP, 'ctor_size_test', 'if(ids_.size()!=items_.size())throwstd::invalid_argument(', 1),
    (FMAP, 'emplace', 'ids_.insert(pf);items_.emplace_back(std::forward<Args>(args)...);', 1),
    (FMAP, 'filter_factors', 'Iterablefilter(constFactors&f){returnIterable(ids_.filter(f),items_);}', 1),
    (FMAP, 'filter_factors_const', 'ConstIterablefilter(constFactors&f)const{returnConstIterable(ids_.filter(f),items_);}', 1),
    (FMAP, 'filter_offset', 'Iterablefilter(constFactors&f,size_toffset){returnIterable(ids_.filter(f,offset),items_);}', 1),
    (FMAP, 'filter_offset_const', 'ConstIterablefilter(constFactors&f,size_toffset)const{returnConstIterable(ids_.filter(f,offset),items_);}', 1),
    (FMAP, 'filter_partial', 'Iterablefilter(constPartialFactors&pf){returnIterable(ids_.filter(pf),items_);}', 1),
    (FMAP, 'filter_partial_const', 'ConstIterablefilter(constPartialFactors&pf)const{returnConstIterable(ids_.filter(pf),items_);}', 1),
    (FMAP, 'size_is_item_count', 'size_tsize()const{returnitems_.size();}', 1),
    (FMAP, 'subscript', 'operator[](size_tid)const{returnitems_[id];}', 1),
    (FMAP, 'subscript_mut', 'T&operator[](size_tid){returnitems_[id];}', 1),
    (FMAP, 'begin_end', 'begin(){returnitems_.begin();}', 1),
    (FMAP, 'begin_end_const', 'begin()const{returnitems_.begin();}', 1),
    (FMAP, 'end', 'end(){returnitems_.end();}', 1),
    (FMAP, 'end_const', 'end()const{returnitems_.end();}', 1),
    (FMAP, 'getTrie', 'getTrie()const{returnids_;}', 1),
    (FMAP, 'getContainer', 'getContainer()const{returnitems_;}', 1),
    (FMAP, 'getF', 'FactorsgetF()const{returnids_.getF();}', 1),
    # ---- IndexMap / IndexMapIterator (AITB.Model.IndexMap: deref / plus / minus / sub / dist, sortIds)
    (IMAP, 'toContainerId', 'autotoContainerId()const{return*currentId_;}', 1),
    (IMAP, 'deref', 'auto&operator*(){return(*items_)[toContainerId()];}constauto&operator*()const{return(*items_)[toContainerId()];}', 1),
    (IMAP, 'arrow', 'autooperator->(){return&(operator*());}autooperator->()const{return&(operator*());}', 2),
    (IMAP, 'pre_increment', 'auto&operator++(){++currentId_;return*this;}', 1),
    (IMAP, 'post_increment', 'autooperator++(int){autotmp=*this;++currentId_;returntmp;}', 1),
    (IMAP, 'pre_decrement', 'autooperator--(){--currentId_;return*this;}', 1),
    (IMAP, 'post_decrement', 'autooperator--(int){autotmp=*this;--currentId_;returntmp;}', 1),
    (IMAP, 'plus', 'autoretval=IndexMapIterator(currentId_,*items_);retval.currentId_+=diff;returnretval;', 1),
    (IMAP, 'minus', 'autoretval=IndexMapIterator(currentId_,*items_);retval.currentId_-=diff;returnretval;', 1),
    (IMAP, 'plus_eq', 'currentId_+=diff;return*this;', 1),
    (IMAP, 'minus_eq', 'currentId_-=diff;return*this;', 1),
    (IMAP, 'difference', 'autooperator-(IndexMapIteratorother)const{returncurrentId_-other.currentId_;}', 1),
    (IMAP, 'subscript', 'return(*items_)[*(currentId_+diff)];', 2),
    (IMAP, 'equality', 'returncurrentId_==other.currentId_;', 1),
    (IMAP, 'sort_by_item', 'std::sort(std::begin(ids_),std::end(ids_),[this](autolhs,autorhs){returnitems_[lhs]<items_[rhs];});', 1),
    (IMAP, 'begin', 'autobegin(){returniterator(ids_.begin(),items_);}', 1),
    (IMAP, 'cbegin', 'autocbegin()const{returnconst_iterator(ids_.cbegin(),items_);}', 1),
    (IMAP, 'end', 'autoend(){returniterator(ids_.end(),items_);}', 1),
    (IMAP, 'cend', 'autocend()const{returnconst_iterator(ids_.cend(),items_);}', 1),
    (IMAP, 'const_begin_end', 'autobegin()const{returncbegin();}', 2),
    (IMAP, 'size_is_id_count', 'autosize()const{returnids_.size();}', 2),
    # ---- Core.cpp match / merge (matchWalk / matchPF / matchF, mergePF)
    (CORE, 'match_smaller_bigger', 'if(lhsK.size()>rhsK.size()){std::swap(smallerK,biggerK);std::swap(smallerV,biggerV);}', 1),
    (CORE, 'match_walk', 'size_ti=0,j=0;while(j<smallerK->size()&&i<biggerK->size()){if((*biggerK)[i]<(*smallerK)[j])++i;elseif((*biggerK)[i]>(*smallerK)[j])++j;else{if((*biggerV)[i]!=(*smallerV)[j])returnfalse;++i;++j;}}returntrue;', 1),
    (CORE, 'match_factors', 'size_ti=0;for(autok:rhs.first)if(lhs[k]!=rhs.second[i++])returnfalse;returntrue;', 1),
    (CORE, 'merge_walk', 'while(i<lhs.first.size()&&j<rhs.first.size()){if(lhs.first[i]<rhs.first[j]){retval.first.push_back(lhs.first[i]);retval.second.push_back(lhs.second[i]);++i;}else{retval.first.push_back(rhs.first[j]);retval.second.push_back(rhs.second[j]);if(lhs.first[i]==rhs.first[j])++i;++j;}}', 1),
    (CORE, 'merge_tails', 'retval.first.insert(std::end(retval.first),std::begin(lhs.first)+i,std::end(lhs.first));retval.second.insert(std::end(retval.second),std::begin(lhs.second)+i,std::end(lhs.second));retval.first.insert(std::end(retval.first),std::begin(rhs.first)+j,std::end(rhs.first));retval.second.insert(std::end(retval.second),std::begin(rhs.second)+j,std::end(rhs.second));', 1),
    # ---- IndexSkipMap / IndexSkipMapIterator (skipLoop / skipBegin / skipNext / skipWalkGo)
    (IMAP, 'skip_ctor', 'currentId_(start),currentSkipId_(0),ids_(ids),items_(items){skip();}', 1),
    (IMAP, 'skip_loop', 'voidskip(){while(currentId_<items_.size()&&currentSkipId_<ids_.size()&&currentId_==ids_[currentSkipId_]){++currentId_;++currentSkipId_;}}', 1),
    (IMAP, 'skip_increment', 'auto&operator++(){++currentId_;skip();return*this;}', 1),
    (IMAP, 'skip_deref', 'auto&operator*(){returnitems_[toContainerId()];}constauto&operator*()const{returnitems_[toContainerId()];}', 1),
    (IMAP, 'skip_toContainerId', 'autotoContainerId()const{returncurrentId_;}', 1),
    (IMAP, 'skip_equality', '(currentId_==other.currentId_);', 1),
    (IMAP, 'skip_begin', 'autobegin(){returniterator(0,ids_,items_);}', 1),
    (IMAP, 'skip_cbegin', 'autocbegin()const{returnconst_iterator(0,ids_,items_);}', 1),
    (IMAP, 'skip_end', 'autoend(){returniterator(items_.size(),ids_,items_);}', 1),
    (IMAP, 'skip_cend', 'autocend()const{returnconst_iterator(items_.size(),ids_,items_);}', 1),
]


def gen_c20_sites():
    texts, raw = {}, {}
    for rel in (TRIE, FT, FMAP, IMAP, CORE):
        raw[rel] = E.strip_comments(E.read(rel))
        texts[rel] = norm(raw[rel])
    bad, rows = [], []
    for rel, name, lit, n in SITES:
        c = texts[rel].count(lit)
        if c != n:
            bad.append(f'{rel}:{name} (found {c}, expected {n})')
        rows.append(f'  ("{rel.split("/")[-1]}", "{name}", {c}, {n})')
    body = f'/- GENERATED by tools/extract_c20.py — do not edit.  Source sites the C20 model transcribes (file, site, occurrences found, occurrences the model assumes). -/\n' \
           f'namespace AITB.Gen.C20Sites\n\ndef sites : List (String × String × Nat × Nat) := [\n' + ',\n'.join(rows) + '\n]\n\n' \
           f'def pinned : Nat := {len(SITES)}\n\nend AITB.Gen.C20Sites\n'
    E.write_if_changed('C20Sites', body)
    if bad:
        raise E.ExtractError('C20: source sites the model transcribes have changed: ' + '; '.join(bad))


GENERATORS = [gen_c20, gen_c20_sites]
