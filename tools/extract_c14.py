#!/usr/bin/env python3
"""C14 translator plug-in: syntactic facts of src/Factored/Utils/FactoredVectorOps.cpp the C14 theorems talk about.

  minusEqualSubtracts : the body of minusEqual(space, FactoredVector&, const BasisFunction&, clearZero)
      subtracts the incoming basis (True: `minusEqualSubset` on the in-place merge, a negated copy on the
      other merge and on the push) or - as in the snapshot - is a copy of plusEqual (False).
  binopAllocExact : dot/plus/minus(BasisFunction, BasisFunction) size `retval.values` with
      factorSpacePartial(retval.tag, space) (True) or with toIndexPartial(retval.tag, space, space) (False, larger
      than the number of entries written for tags of two or more keys).

AITB.Model.FactoredAlg takes these as parameters; AITB.Props.C14b proves the full-strength statements for the
`True` forms and counterexamples for the `False` forms; the driver runs the model with the values found NOW."""
import re
import extract as E

REL = 'src/Factored/Utils/FactoredVectorOps.cpp'


def body_of(src, header_re, what):
    m = E.find1(header_re, src, what)
    i = src.index('{', m.end() - 1)
    depth, j = 0, i
    while j < len(src):
        if src[j] == '{':
            depth += 1
        elif src[j] == '}':
            depth -= 1
            if depth == 0:
                return src[i:j + 1], E.lineno(src, m.start())
        j += 1
    raise E.ExtractError('unbalanced body: ' + what)


def norm(s):
    return re.sub(r'\s+', '', s)


def gen_c14():
    src = E.strip_comments(E.read(REL))
    me_body, me_ln = body_of(src, r'FactoredVector\s*&\s*minusEqual\s*\(\s*const\s+Factors\s*&\s*space\s*,\s*FactoredVector\s*&\s*retval\s*,\s*const\s+BasisFunction\s*&\s*basis\s*,\s*(?:const\s+)?bool\s+clearZero\s*\)\s*\{', 'minusEqual(FactoredVector&, const BasisFunction&)')
    nb = norm(me_body)
    if 'sequential_sorted_contains(maxBasis.tag,minBasis.tag)' not in nb:
        raise E.ExtractError('minusEqual(FactoredVector, BasisFunction): merge test not found')
    adds_inplace = 'plusEqualSubset(space,curBasis,basis)' in nb
    subs_inplace = 'minusEqualSubset(space,curBasis,basis)' in nb
    if adds_inplace == subs_inplace:
        raise E.ExtractError('minusEqual(FactoredVector, BasisFunction): cannot tell whether the in-place merge adds or subtracts')
    if adds_inplace:
        # the snapshot: other merge adds the un-negated basis, the push appends it un-negated
        if 'curBasis=plusSubset(space,basis,curBasis)' not in nb or 'retval.bases.push_back(basis)' not in nb:
            raise E.ExtractError('minusEqual(FactoredVector, BasisFunction): adding form, but unrecognised other branches')
        subtracts = False
    else:
        # repaired form: every other use of `basis` must go through a negated copy
        if 'plusSubset(space,basis,curBasis)' in nb or re.search(r'push_back\(basis\);(?!retval\.bases\.back\(\)\.values\*=-1)', nb):
            raise E.ExtractError('minusEqual(FactoredVector, BasisFunction): in-place merge subtracts but another branch uses the basis un-negated')
        if not re.search(r'(\*=-1(\.0)?;|=-basis\.values;|=-[a-zA-Z_]+\.values;)', nb):
            raise E.ExtractError('minusEqual(FactoredVector, BasisFunction): no negation of the incoming basis found')
        subtracts = True

    exact = []
    lns = []
    for name in ('dot', 'plus', 'minus'):
        body, ln = body_of(src, r'BasisFunction\s+' + name + r'\s*\(\s*const\s+Factors\s*&\s*space\s*,\s*const\s+BasisFunction\s*&\s*lhs\s*,\s*const\s+BasisFunction\s*&\s*rhs\s*\)\s*\{', name + '(BasisFunction, BasisFunction)')
        m = E.find1(r'retval\.values\.resize\s*\(([^;]*)\)\s*;', body, name + ': resize of retval.values')
        arg = norm(m.group(1))
        if arg == 'toIndexPartial(retval.tag,space,space)':
            exact.append(False)
        elif arg == 'factorSpacePartial(retval.tag,space)':
            exact.append(True)
        else:
            raise E.ExtractError(f'{name}(BasisFunction): unrecognised resize argument {arg!r}')
        lns.append(ln)
    if len(set(exact)) != 1:
        raise E.ExtractError('dot/plus/minus(BasisFunction) size their result differently: ' + repr(exact))
    # CooperativeQLearning constructor: is agentNormRews_ zeroed before it is incremented?
    RELQ = 'src/Factored/MDP/Algorithms/CooperativeQLearning.cpp'
    srcq = E.strip_comments(E.read(RELQ))
    ctor, q_ln = body_of(srcq, r'CooperativeQLearning::CooperativeQLearning\s*\([^)]*\)\s*:[^{]*\{', 'CooperativeQLearning constructor')
    mq = E.find1(r'CooperativeQLearning::CooperativeQLearning\s*\([^)]*\)\s*:([^{]*)\{', srcq, 'CooperativeQLearning initialiser list')
    inits = norm(mq.group(1)); nctor = norm(ctor)
    if '++agentNormRews_[a]' not in nctor:
        raise E.ExtractError('CooperativeQLearning constructor: counting loop over agentNormRews_ not found')
    zeroed = ('agentNormRews_.setZero()' in nctor.split('++agentNormRews_[a]')[0] or 'agentNormRews_.fill(0' in nctor.split('++agentNormRews_[a]')[0]
              or re.search(r'agentNormRews_\((Vector::Zero|Eigen::VectorXd::Zero)\(', inits) is not None)
    if not zeroed and 'agentNormRews_(graph_.getA().size())' not in inits:
        raise E.ExtractError('CooperativeQLearning constructor: unrecognised initialisation of agentNormRews_')
    b = lambda x: 'true' if x else 'false'
    body = f'''/- GENERATED by tools/extract_c14.py from {REL} — do not edit. -/
namespace AITB.Gen.C14

/-- {REL}:{me_ln} `minusEqual(space, FactoredVector&, const BasisFunction&, clearZero)` subtracts the basis
    (true) / is a copy of plusEqual and adds it (false) -/
def minusEqualSubtracts : Bool := {b(subtracts)}
/-- {REL}:{lns[0]},{lns[1]},{lns[2]} dot/plus/minus(BasisFunction) resize the result to factorSpacePartial(tag) (true) /
    to toIndexPartial(tag, space, space) (false) -/
def binopAllocExact : Bool := {b(exact[0])}
/-- {RELQ}:{q_ln} the CooperativeQLearning constructor zeroes `agentNormRews_` before counting (true) / counts on top
    of an uninitialised Eigen vector (false) -/
def coopNormZeroed : Bool := {b(zeroed)}

end AITB.Gen.C14
'''
    E.write_if_changed('C14', body)


GENERATORS = [gen_c14]


# ---------------------------------------------------------------------------------------------------------------
# Pinned source sites (round 3).  Every function of the anchored files (and of the helpers one call level below them:
# Utils/Core.hpp, Utils/Probability.hpp, MDP/QLearning.cpp, Factored/MDP/Utils.cpp) that a definition of
# AITB.Model.Factored / FactoredAlg / FactoredMdp transcribes, as the comment-free, whitespace-free text of the whole
# definition (header + body).  The expected texts live in tools/extract_c14_sites.json (part of the framework, written
# once with `python3 tools/extract_c14.py --pin` after reading the code against the model; never at check time).
# A definition that is missing or whose text differs means the model no longer transcribes the code: ExtractError
# (broken tie; the harness still runs and looks for a failing input).  The three sites whose FORM is read by gen_c14
# (minusEqual's sign, the resize argument of dot/plus/minus, the zeroing of agentNormRews_) are masked / left to it.
import json, os, sys

SITES_JSON = os.path.join(os.path.dirname(os.path.abspath(__file__)), 'extract_c14_sites.json')

# .cpp files: every namespace-level function definition is pinned, except the names listed in SKIP (not modelled / read by gen_c14)
CPP_FILES = {
    'src/Factored/Utils/Core.cpp': [],
    'src/Factored/Utils/FactoredMatrix.cpp': [],
    'src/Factored/Utils/FactoredVectorOps.cpp': ['FactoredVector&minusEqual(constFactors&space,FactoredVector&retval,constBasisFunction&basis,boolclearZero)'],
    'src/Factored/Utils/FactoredMatrix2DOps.cpp': [],
    'src/Factored/Utils/BayesianNetwork.cpp': [],
    'src/Factored/MDP/Utils.cpp': [],
    'src/Factored/MDP/CooperativeModel.cpp': ['::setDiscount('],
    # setters / argument guards are C06's subject, rule-map construction is C20's: not transcribed by the C14 model
    'src/Factored/MDP/Algorithms/JointActionLearner.cpp': ['::setDiscount(', '::setLearningRate('],
    'src/Factored/MDP/Algorithms/CooperativeQLearning.cpp': ['CooperativeQLearning::CooperativeQLearning(', '::setDiscount(', '::setLearningRate(', '::setQFunction('],
    'src/Factored/MDP/Algorithms/SparseCooperativeQLearning.cpp': ['initMap(', 'SparseCooperativeQLearning::SparseCooperativeQLearning(', '::setDiscount(', '::setLearningRate('],
    'src/MDP/Algorithms/QLearning.cpp': ['QLearning::QLearning(', '::setDiscount(', '::setLearningRate(', '::setQFunction('],
}
# header files: named definitions found by a header regex
HPP_SITES = [
    ('include/AIToolbox/Factored/Utils/Core.hpp', 'toFactorsPartial(It)', r'template\s*<\s*typename\s+It\s*>\s*void\s+toFactorsPartial\s*\([^)]*\)\s*\{'),
    ('include/AIToolbox/Utils/Core.hpp', 'checkEqualSmall(double,double)', r'inline\s+bool\s+checkEqualSmall\s*\(\s*const\s+double\s+a\s*,\s*const\s+double\s+b\s*\)\s*\{'),
    ('include/AIToolbox/Utils/Core.hpp', 'checkDifferentSmall(double,double)', r'inline\s+bool\s+checkDifferentSmall\s*\(\s*const\s+double\s+a\s*,\s*const\s+double\s+b\s*\)\s*\{'),
    ('include/AIToolbox/Utils/Core.hpp', 'checkEqualGeneral(double,double)', r'inline\s+bool\s+checkEqualGeneral\s*\(\s*const\s+double\s+a\s*,\s*const\s+double\s+b\s*\)\s*\{'),
    ('include/AIToolbox/Utils/Core.hpp', 'checkEqualGeneral(V,double)', r'bool\s+checkEqualGeneral\s*\(\s*const\s+V\s*&\s*v\s*,\s*const\s+double\s+d\s*\)\s*\{'),
    ('include/AIToolbox/Utils/Core.hpp', 'veccmp', r'std::strong_ordering\s+veccmp\s*\([^)]*\)\s*\{'),
    ('include/AIToolbox/Utils/Core.hpp', 'sequential_sorted_contains(V,V)', r'bool\s+sequential_sorted_contains\s*\(\s*const\s+V\s*&\s*v\s*,\s*const\s+V\s*&\s*elems\s*\)\s*\{'),
    ('include/AIToolbox/Utils/Probability.hpp', 'isProbability(size,row)', r'bool\s+isProbability\s*\(\s*const\s+size_t\s+size\s*,\s*const\s+T\s*&\s*in\s*\)\s*\{'),
    ('include/AIToolbox/Factored/Bandit/FlattenedModel.hpp', 'FlattenedModel::FlattenedModel', r'FlattenedModel<Dist>::FlattenedModel\s*\([^)]*\)\s*:[^{]*\{'),
    ('include/AIToolbox/Factored/Bandit/FlattenedModel.hpp', 'FlattenedModel::sampleR', r'double\s+FlattenedModel<Dist>::sampleR\s*\([^)]*\)\s*const\s*\{'),
]
MASKS = [  # (file, regex on the normalised text, replacement): forms that gen_c14 reads and the model is parameterised by
    ('src/Factored/Utils/FactoredVectorOps.cpp', r'retval\.values\.resize\((?:toIndexPartial\(retval\.tag,space,space\)|factorSpacePartial\(retval\.tag,space\))\);', 'retval.values.resize(<ALLOC>);'),
]


def cpp_definitions(src):
    """namespace-level function definitions of a comment-free .cpp text: [(normalised header, normalised header+body, line)]"""
    out, depth, i, n = [], 0, 0, len(src)
    ns_depth = 0          # braces opened by `namespace … {`
    start = 0             # start of the current namespace-level declaration
    while i < n:
        c = src[i]
        if c == '"':
            j = i + 1
            while j < n and src[j] != '"':
                j += 2 if src[j] == '\\' else 1
            i = j + 1; continue
        if c == '{':
            if depth == ns_depth and src[:i].rstrip()[-1:] in ('(', ','):
                # a brace-initialiser inside a constructor's member-initialiser list, not a body: step over it
                d, j = 0, i
                while j < n:
                    if src[j] == '{':
                        d += 1
                    elif src[j] == '}':
                        d -= 1
                        if d == 0:
                            break
                    j += 1
                i = j + 1; continue
            if depth == ns_depth:
                head = src[start:i]
                if re.search(r'\bnamespace\b[^;{}()]*$', head):
                    ns_depth += 1; depth += 1; start = i + 1; i += 1; continue
                # a definition: find its matching brace
                d, j = 0, i
                while j < n:
                    if src[j] == '"':
                        k = j + 1
                        while k < n and src[k] != '"':
                            k += 2 if src[k] == '\\' else 1
                        j = k
                    elif src[j] == '{':
                        d += 1
                    elif src[j] == '}':
                        d -= 1
                        if d == 0:
                            break
                    j += 1
                if '(' in head:
                    out.append((norm(head), norm(src[start:j + 1]), E.lineno(src, start + len(head) - len(head.lstrip()))))
                i = j + 1; start = i; continue
            depth += 1
        elif c == '}':
            depth -= 1
            if depth < ns_depth:
                ns_depth = depth
            start = i + 1
        elif c == ';' and depth == ns_depth:
            start = i + 1
        i += 1
    return out


def current_sites():
    sites = {}
    for rel, skip in CPP_FILES.items():
        src = E.strip_comments(E.read(rel))
        # preprocessor lines are not part of any definition
        src = re.sub(r'^[ \t]*#[^\n]*$', '', src, flags=re.M)
        for head, text, ln in cpp_definitions(src):
            if any(head.startswith(s) or s in head for s in skip):
                continue
            for f, rx, rep in MASKS:
                if f == rel:
                    text = re.sub(rx, rep, text)
            key = rel + '::' + head
            k, c = key, 2
            while k in sites:           # overloads with the same normalised header cannot happen; keep unique anyway
                k = f'{key}#{c}'; c += 1
            sites[k] = {'text': text, 'line': ln}
    for rel, name, rx in HPP_SITES:
        src = E.strip_comments(E.read(rel))
        body, ln = body_of(src, rx, f'{rel}: {name}')
        m = re.search(rx, src)
        sites[rel + '::' + name] = {'text': norm(m.group(0)[:-1]) + norm(body), 'line': ln}
    return sites


def gen_c14_sites():
    want = json.load(open(SITES_JSON))
    have = current_sites()
    bad, rows = [], []
    for key in sorted(want):
        got = have.get(key)
        ok = got is not None and got['text'] == want[key]
        rel, name = key.split('::', 1)
        rows.append(f'  ("{rel.split("/")[-1]}", "{name[:90]}", {"true" if ok else "false"})')
        if got is None:
            bad.append(f'{key[:140]} (definition not found)')
        elif not ok:
            a, b = got['text'], want[key]
            p = next((i for i in range(min(len(a), len(b))) if a[i] != b[i]), min(len(a), len(b)))
            bad.append(f'{key[:100]} (line {got["line"]}: text differs at char {p}: now …{a[max(0, p - 30):p + 40]}… pinned …{b[max(0, p - 30):p + 40]}…)')
    extra = sorted(k for k in have if k not in want)
    for k in extra:
        bad.append(f'{k[:140]} (new definition in a pinned file: not in the model)')
    body = '/- GENERATED by tools/extract_c14.py — do not edit.  Definitions of the anchored sources the C14 model transcribes (file, definition, text unchanged). -/\n' \
           'namespace AITB.Gen.C14Sites\n\ndef sites : List (String × String × Bool) := [\n' + ',\n'.join(rows) + '\n]\n\n' \
           f'def pinned : Nat := {len(want)}\n\nend AITB.Gen.C14Sites\n'
    E.write_if_changed('C14Sites', body)
    if bad:
        raise E.ExtractError('C14: source definitions the model transcribes have changed: ' + '; '.join(bad[:6]) + (f' … and {len(bad) - 6} more' if len(bad) > 6 else ''))


GENERATORS = [gen_c14, gen_c14_sites]

if __name__ == '__main__' and '--pin' in sys.argv:
    sites = current_sites()
    json.dump({k: v['text'] for k, v in sorted(sites.items())}, open(SITES_JSON, 'w'), indent=1)
    print('pinned', len(sites), 'definitions')
