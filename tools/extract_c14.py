#!/usr/bin/env python3
"""C14 translator plug-in: syntactic facts of src/Factored/Utils/FactoredVectorOps.cpp the C14 theorems talk about.

  minusEqualSubtracts : the body of minusEqual(space, FactoredVector&, const BasisFunction&, clearZero)
      subtracts the incoming basis (True: `minusEqualSubset` on the in-place merge, a negated copy on the
      other merge and on the push) or - as in the snapshot - is a copy of plusEqual (False).
  binopAllocExact : dot/plus/minus(BasisFunction, BasisFunction) size `retval.values` with
      factorSpacePartial(retval.tag, space) (True) or with toIndexPartial(retval.tag, space, space) (False, larger
      than the number of entries written for tags of two or more keys).

AITB.Model.FactoredAlg takes these as parameters; AITB.Props.C14b proves the full-strength statements for the
`True` forms and counterexamples for the `False` forms; the driver runs the model with the values found NOW."""
import re
import extract as E

REL = 'src/Factored/Utils/FactoredVectorOps.cpp'


def body_of(src, header_re, what):
    m = E.find1(header_re, src, what)
    i = src.index('{', m.end() - 1)
    depth, j = 0, i
    while j < len(src):
        if src[j] == '{':
            depth += 1
        elif src[j] == '}':
            depth -= 1
            if depth == 0:
                return src[i:j + 1], E.lineno(src, m.start())
        j += 1
    raise E.ExtractError('unbalanced body: ' + what)


def norm(s):
    return re.sub(r'\s+', '', s)


def gen_c14():
    src = E.strip_comments(E.read(REL))
    me_body, me_ln = body_of(src, r'FactoredVector\s*&\s*minusEqual\s*\(\s*const\s+Factors\s*&\s*space\s*,\s*FactoredVector\s*&\s*retval\s*,\s*const\s+BasisFunction\s*&\s*basis\s*,\s*(?:const\s+)?bool\s+clearZero\s*\)\s*\{', 'minusEqual(FactoredVector&, const BasisFunction&)')
    nb = norm(me_body)
    if 'sequential_sorted_contains(maxBasis.tag,minBasis.tag)' not in nb:
        raise E.ExtractError('minusEqual(FactoredVector, BasisFunction): merge test not found')
    adds_inplace = 'plusEqualSubset(space,curBasis,basis)' in nb
    subs_inplace = 'minusEqualSubset(space,curBasis,basis)' in nb
    if adds_inplace == subs_inplace:
        raise E.ExtractError('minusEqual(FactoredVector, BasisFunction): cannot tell whether the in-place merge adds or subtracts')
    if adds_inplace:
        # the snapshot: other merge adds the un-negated basis, the push appends it un-negated
        if 'curBasis=plusSubset(space,basis,curBasis)' not in nb or 'retval.bases.push_back(basis)' not in nb:
            raise E.ExtractError('minusEqual(FactoredVector, BasisFunction): adding form, but unrecognised other branches')
        subtracts = False
    else:
        # repaired form: every other use of `basis` must go through a negated copy
        if 'plusSubset(space,basis,curBasis)' in nb or re.search(r'push_back\(basis\);(?!retval\.bases\.back\(\)\.values\*=-1)', nb):
            raise E.ExtractError('minusEqual(FactoredVector, BasisFunction): in-place merge subtracts but another branch uses the basis un-negated')
        if not re.search(r'(\*=-1(\.0)?;|=-basis\.values;|=-[a-zA-Z_]+\.values;)', nb):
            raise E.ExtractError('minusEqual(FactoredVector, BasisFunction): no negation of the incoming basis found')
        subtracts = True

    exact = []
    lns = []
    for name in ('dot', 'plus', 'minus'):
        body, ln = body_of(src, r'BasisFunction\s+' + name + r'\s*\(\s*const\s+Factors\s*&\s*space\s*,\s*const\s+BasisFunction\s*&\s*lhs\s*,\s*const\s+BasisFunction\s*&\s*rhs\s*\)\s*\{', name + '(BasisFunction, BasisFunction)')
        m = E.find1(r'retval\.values\.resize\s*\(([^;]*)\)\s*;', body, name + ': resize of retval.values')
        arg = norm(m.group(1))
        if arg == 'toIndexPartial(retval.tag,space,space)':
            exact.append(False)
        elif arg == 'factorSpacePartial(retval.tag,space)':
            exact.append(True)
        else:
            raise E.ExtractError(f'{name}(BasisFunction): unrecognised resize argument {arg!r}')
        lns.append(ln)
    if len(set(exact)) != 1:
        raise E.ExtractError('dot/plus/minus(BasisFunction) size their result differently: ' + repr(exact))
    # CooperativeQLearning constructor: is agentNormRews_ zeroed before it is incremented?
    RELQ = 'src/Factored/MDP/Algorithms/CooperativeQLearning.cpp'
    srcq = E.strip_comments(E.read(RELQ))
    ctor, q_ln = body_of(srcq, r'CooperativeQLearning::CooperativeQLearning\s*\([^)]*\)\s*:[^{]*\{', 'CooperativeQLearning constructor')
    mq = E.find1(r'CooperativeQLearning::CooperativeQLearning\s*\([^)]*\)\s*:([^{]*)\{', srcq, 'CooperativeQLearning initialiser list')
    inits = norm(mq.group(1)); nctor = norm(ctor)
    if '++agentNormRews_[a]' not in nctor:
        raise E.ExtractError('CooperativeQLearning constructor: counting loop over agentNormRews_ not found')
    zeroed = ('agentNormRews_.setZero()' in nctor.split('++agentNormRews_[a]')[0] or 'agentNormRews_.fill(0' in nctor.split('++agentNormRews_[a]')[0]
              or re.search(r'agentNormRews_\((Vector::Zero|Eigen::VectorXd::Zero)\(', inits) is not None)
    if not zeroed and 'agentNormRews_(graph_.getA().size())' not in inits:
        raise E.ExtractError('CooperativeQLearning constructor: unrecognised initialisation of agentNormRews_')
    b = lambda x: 'true' if x else 'false'
    body = f'''/- GENERATED by tools/extract_c14.py from {REL} — do not edit. -/
namespace AITB.Gen.C14

/-- {REL}:{me_ln} `minusEqual(space, FactoredVector&, const BasisFunction&, clearZero)` subtracts the basis
    (true) / is a copy of plusEqual and adds it (false) -/
def minusEqualSubtracts : Bool := {b(subtracts)}
/-- {REL}:{lns[0]},{lns[1]},{lns[2]} dot/plus/minus(BasisFunction) resize the result to factorSpacePartial(tag) (true) /
    to toIndexPartial(tag, space, space) (false) -/
def binopAllocExact : Bool := {b(exact[0])}
/-- {RELQ}:{q_ln} the CooperativeQLearning constructor zeroes `agentNormRews_` before counting (true) / counts on top
    of an uninitialised Eigen vector (false) -/
def coopNormZeroed : Bool := {b(zeroed)}

end AITB.Gen.C14
'''
    E.write_if_changed('C14', body)


GENERATORS = [gen_c14]
