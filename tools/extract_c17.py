#!/usr/bin/env python3
"""Translator plug-in for C17: syntactic facts of the stream writers/readers the Lean codec model is
parameterised by (lean/AITB/Gen/IOPrec.lean).

  scalar / dense / sparse : precision in force while `write(os, double)`, `write(os, const Matrix2D&)` (and
      Vector), `write(os, const SparseMatrix2D&)` stream their floating values: 17 when the function sets
      `os.precision(std::numeric_limits<double>::max_digits10)` (or `std::setprecision(n)`, n literal) before the
      first value and restores it afterwards, otherwise the stream default 6.
  pomdpPolicy : the same for `os << vv.values.transpose()` in operator<<(ostream&, const POMDP::Policy&).
  delegating writers (Matrix3D, SparseMatrix3D, Model, SparseModel, Experience, SparseExperience, PolicyInterface,
      POMDP::Model<M>) must send every floating value through `write(os, …)`: anything else is a broken tie.
  sparseTableViaDouble : `read(istream&, SparseTable2D&)` extracts the count of a triplet into a `double`.
  commitLast : in every operator>> the destination object is assigned only after the last failure exit.
  formattedOnly / neverClears : every reader (and checkRemoveAtSign) touches the stream only through `is >> x`,
      `is >> std::ws`, `peek()` and `setstate(failbit)`: no unformatted extraction, no repositioning, no `clear()`,
      no change of flags / locale / exception mask.  The model's "stream = unread tokens, failbit sticky" rests on it.

Any other shape of these sites raises ExtractError (a broken tie)."""
import re
import extract as X

UTILS = 'src/Utils/IO.cpp'
MDPIO = 'src/MDP/IO.cpp'
POMDPIO = 'src/POMDP/IO.cpp'
POMDPHPP = 'include/AIToolbox/POMDP/IO.hpp'

MAXD = r'std\s*::\s*numeric_limits\s*<\s*double\s*>\s*::\s*max_digits10'


def block_after(src, pos):
    i = src.index('{', pos)
    depth, j = 0, i
    while j < len(src):
        if src[j] == '{':
            depth += 1
        elif src[j] == '}':
            depth -= 1
            if depth == 0:
                return src[i:j + 1]
        j += 1
    raise X.ExtractError('unbalanced braces')


def func(src, header_re, what):
    m = X.find1(header_re, src, what, re.S)
    return block_after(src, m.end() - 1), X.lineno(src, m.start())


def precision_before(body, pos, what):
    """precision in force at offset pos of a function body (6 = stream default)"""
    before = body[:pos]
    cands = []
    for m in re.finditer(r'\bos\s*\.\s*precision\s*\(\s*(' + MAXD + r'|[0-9]+)\s*\)', before):
        cands.append((m.start(), m.group(1)))
    for m in re.finditer(r'std\s*::\s*setprecision\s*\(\s*(' + MAXD + r'|[0-9]+)\s*\)', before):
        cands.append((m.start(), m.group(1)))
    if not cands:
        # a precision call with an argument we cannot read is a broken tie, not "default"
        if re.search(r'\bprecision\s*\(\s*[^)\s]', before) or 'setprecision' in before:
            raise X.ExtractError(what + ': precision set to an expression the translator cannot read')
        return 6
    arg = max(cands)[1]
    return 17 if not arg.isdigit() else int(arg)


def write_prec(src, typ, value_re, what):
    body, ln = func(src, r'std\s*::\s*ostream\s*&\s*write\s*\(\s*std\s*::\s*ostream\s*&\s*os\s*,\s*(?:const\s+)?' + typ + r'\s*(?:&\s*)?\w+\s*\)\s*\{', what)
    m = X.find1(value_re, body, what + ': streamed value')
    return precision_before(body, m.start(), what), ln


def delegates(src, header_re, what, allowed_streams):
    """every `os << …` in the body must be one of the allowed (integer / separator) forms; floats go through write()"""
    body, ln = func(src, header_re, what)
    for m in re.finditer(r'\bos\s*<<\s*([^;]*);', body):
        expr = m.group(1).strip()
        if not any(re.fullmatch(a, expr) for a in allowed_streams):
            raise X.ExtractError(f'{what}: value streamed outside write(): os << {expr}')
    if not re.search(r'\bwrite\s*\(\s*os\s*,', body) and 'operator<<' not in body:
        raise X.ExtractError(what + ': no write(os, …) call found')
    return ln


def commit_last(src, header_re, dest, what):
    """destination `dest` is written (assignment to it or to one of its members) only after the last early exit"""
    body, ln = func(src, header_re, what)
    writes = [m.start() for m in re.finditer(r'(?<![\w.])' + dest + r'\s*(?:\.\s*\w+\s*)?=(?!=)', body)]
    # setters called on the destination, and assignments through a cast of it, are writes too
    writes += [m.start() for m in re.finditer(r'(?<![\w.])' + dest + r'\s*\.\s*set\w*\s*\(', body)]
    writes += [m.start() for m in re.finditer(r'_cast\s*<[^;]*>\s*\(\s*' + dest + r'\s*\)\s*=(?!=)', body)]
    exits = [m.start() for m in re.finditer(r'\breturn\s+is\s*;|\bgoto\s+failure\s*;', body)]
    if not writes:
        raise X.ExtractError(what + ': no assignment to the destination found')
    # the final `return is;` (and the one after the failure label) follow the commit; every other exit must precede it
    first_write = min(writes)
    early = [e for e in exits if e < first_write]
    late = [e for e in exits if e > first_write]
    ok = len(late) <= 2 and all(not re.search(r'\bis\s*>>|\bread\s*\(', body[first_write:e]) for e in late)
    # also: the destination must not be passed to a reader directly
    if re.search(r'\bread\s*\(\s*is\s*,\s*' + dest + r'\b', body) or re.search(r'\bis\s*>>\s*' + dest + r'\b(?!\s*\.)', body):
        ok = False
    return ok and len(early) >= 1, ln


def commit_guarded(src, typ, what):
    """building-block readers of src/Utils/IO.cpp: the destination parameter is written exactly once, under `if (is)`"""
    m = X.find1(r'std\s*::\s*istream\s*&\s*read\s*\(\s*std\s*::\s*istream\s*&\s*is\s*,\s*' + typ + r'\s*&\s*(\w+)\s*\)\s*\{', src, what, re.S)
    dest = m.group(1)
    body = block_after(src, m.end() - 1)
    writes = [w.start() for w in re.finditer(r'(?<![\w.])' + dest + r'\s*(?:=(?!=)|\.\s*(?:setFromTriplets|swap|resize|setZero|fill|coeffRef|insert)\s*\()', body)]
    writes += [w.start() for w in re.finditer(r'(?<![\w.])' + dest + r'\s*[\[(][^;]*[\])]\s*=(?!=)', body)]
    guarded = [w.start() for w in re.finditer(r'if\s*\(\s*is\s*\)\s*' + dest + r'\s*(?:=(?!=)|\.\s*setFromTriplets\s*\()', body)]
    passes = re.search(r'\bis\s*>>\s*' + dest + r'\b|\bread\s*\(\s*is\s*,\s*' + dest + r'\b', body)
    return len(writes) == 1 and len(guarded) == 1 and not passes, X.lineno(src, m.start())


UNFORMATTED = r'\bis\s*\.\s*(get|getline|read|readsome|ignore|unget|putback|seekg|tellg|sync|rdbuf)\s*\(|\bgetline\s*\(\s*is\b'
CLEARS = r'\bis\s*\.\s*(clear|exceptions|imbue|flags|setf|unsetf|width)\s*\(|\bis\s*>>\s*std\s*::\s*(hex|oct|noskipws|hexfloat)\b'


def stream_discipline(body, allow_get=False):
    """(formatted extraction only, stream state never cleared / reconfigured) for one reader body.  The Lean model
    reads a stream as the list of its white-space separated unread tokens with a sticky failbit: that abstraction is
    sound only for readers that use `is >> x`, `is >> std::ws`, `peek` and `setstate(failbit)` and nothing else."""
    b = body
    if allow_get:       # checkRemoveAtSign may consume the '@' it has just peeked at with get()/ignore()
        b = re.sub(r'\bis\s*\.\s*(get|ignore)\s*\(\s*\)', '', b)
    formatted = not re.search(UNFORMATTED, b)
    keeps = not re.search(CLEARS, b) and not re.search(r'setstate\s*\(\s*std\s*::\s*ios(_base)?\s*::\s*goodbit', b)
    return formatted, keeps


def gen_ioprec():
    u = X.strip_comments(X.read(UTILS))
    mdp = X.strip_comments(X.read(MDPIO))
    pcpp = X.strip_comments(X.read(POMDPIO))
    phpp = X.strip_comments(X.read(POMDPHPP))
    scalar, l1 = write_prec(u, 'double', r'\bos\s*<<\s*d\b', 'write(os, double)')
    vec, l2 = write_prec(u, 'Vector', r'\bos\s*<<\s*v\s*\[', 'write(os, Vector)')
    dense, l3 = write_prec(u, 'Matrix2D', r'\bos\s*<<\s*m\s*\(', 'write(os, Matrix2D)')
    sparse, l4 = write_prec(u, 'SparseMatrix2D', r'<<\s*it\s*\.\s*value\s*\(\s*\)', 'write(os, SparseMatrix2D)')
    for typ in ('Matrix3D', 'SparseMatrix3D'):
        delegates(u, r'std\s*::\s*ostream\s*&\s*write\s*\(\s*std\s*::\s*ostream\s*&\s*os\s*,\s*const\s+' + typ + r'\s*&\s*\w+\s*\)\s*\{', f'write(os, {typ})', [])
    sep = [r"exp\s*\.\s*getTimesteps\s*\(\s*\)\s*<<\s*'\\n'"]
    for typ in ('Experience', 'SparseExperience', 'Model', 'SparseModel', 'PolicyInterface'):
        delegates(mdp, r'std\s*::\s*ostream\s*&\s*operator<<\s*\(\s*std\s*::\s*ostream\s*&\s*os\s*,\s*const\s+' + typ + r'\s*&\s*\w+\s*\)\s*\{', f'operator<<(os, {typ})', sep)
    delegates(phpp, r'std\s*::\s*ostream\s*&\s*operator<<\s*\(\s*std\s*::\s*ostream\s*&\s*os\s*,\s*const\s+M\s*&\s*model\s*\)\s*\{', 'operator<<(os, POMDP model)', [])
    body, l5 = func(pcpp, r'std\s*::\s*ostream\s*&\s*operator<<\s*\(\s*std\s*::\s*ostream\s*&\s*os\s*,\s*const\s+Policy\s*&\s*\w+\s*\)\s*\{', 'operator<<(os, POMDP::Policy)')
    m = X.find1(r'\bos\s*<<\s*vv\s*\.\s*values', body, 'POMDP::Policy writer: values')
    ppol = precision_before(body, m.start(), 'operator<<(os, POMDP::Policy)')
    # an explicit Eigen::IOFormat would override the stream precision: not understood here
    if 'IOFormat' in body or '.format(' in body:
        raise X.ExtractError('operator<<(os, POMDP::Policy): Eigen IOFormat in use, precision unknown to the translator')
    # sparse table reader: type of the triplet value
    rb, l6 = func(u, r'std\s*::\s*istream\s*&\s*read\s*\(\s*std\s*::\s*istream\s*&\s*is\s*,\s*SparseTable2D\s*&\s*\w+\s*\)\s*\{', 'read(is, SparseTable2D)')
    mv = X.find1(r'\b(double|unsigned\s+long|size_t|std\s*::\s*size_t|unsigned\s+long\s+long)\s+v\s*;', rb, 'read(is, SparseTable2D): declaration of v')
    via_double = mv.group(1) == 'double'
    if not via_double and not re.search(r'Triplet\s*<\s*(unsigned\s+long|size_t|std\s*::\s*size_t|unsigned\s+long\s+long)\s*>', rb):
        raise X.ExtractError('read(is, SparseTable2D): integer v but the triplets are not integer triplets')
    # commit discipline of the readers
    commits = []
    for typ, dest in (('Experience', 'exp'), ('SparseExperience', 'exp'), ('Model', 'm'), ('SparseModel', 'm'), ('Policy', 'p')):
        ok, ln = commit_last(mdp, r'std\s*::\s*istream\s*&\s*operator>>\s*\(\s*std\s*::\s*istream\s*&\s*is\s*,\s*' + typ + r'\s*&\s*' + dest + r'\s*\)\s*\{', dest, f'operator>>(is, MDP::{typ})')
        commits.append((f'MDP::{typ}', MDPIO, ln, ok))
    ok, ln = commit_last(pcpp, r'std\s*::\s*istream\s*&\s*operator>>\s*\(\s*std\s*::\s*istream\s*&\s*is\s*,\s*Policy\s*&\s*p\s*\)\s*\{', 'p', 'operator>>(is, POMDP::Policy)')
    commits.append(('POMDP::Policy', POMDPIO, ln, ok))
    for typ in ('Model', 'SparseModel'):
        ok, ln = commit_last(phpp, r'std\s*::\s*istream\s*&\s*operator>>\s*\(\s*std\s*::\s*istream\s*&\s*is\s*,\s*' + typ + r'\s*<\s*M\s*>\s*&\s*m\s*\)\s*\{', 'm', f'operator>>(is, POMDP::{typ}<M>)')
        commits.append((f'POMDP::{typ}<M>', POMDPHPP, ln, ok))
    for typ in ('Vector', 'Matrix2D', 'SparseMatrix2D', 'Matrix3D', 'SparseMatrix3D', 'Table2D', 'SparseTable2D', 'Table3D', 'SparseTable3D'):
        ok, ln = commit_guarded(u, typ, f'read(is, {typ}&)')
        commits.append((f'read({typ})', UTILS, ln, ok))
    # stream discipline of every reader (the token-list / sticky-failbit abstraction of the model)
    disc = []
    for typ, dest in (('Experience', 'exp'), ('SparseExperience', 'exp'), ('Model', 'm'), ('SparseModel', 'm'), ('Policy', 'p')):
        body, _ = func(mdp, r'std\s*::\s*istream\s*&\s*operator>>\s*\(\s*std\s*::\s*istream\s*&\s*is\s*,\s*' + typ + r'\s*&\s*' + dest + r'\s*\)\s*\{', f'operator>>(is, MDP::{typ})')
        disc.append((f'MDP::{typ}',) + stream_discipline(body))
    body, _ = func(pcpp, r'std\s*::\s*istream\s*&\s*operator>>\s*\(\s*std\s*::\s*istream\s*&\s*is\s*,\s*Policy\s*&\s*p\s*\)\s*\{', 'operator>>(is, POMDP::Policy)')
    disc.append(('POMDP::Policy',) + stream_discipline(body))
    body, _ = func(pcpp, r'bool\s+checkRemoveAtSign\s*\(\s*std\s*::\s*istream\s*&\s*is\s*\)\s*\{', 'checkRemoveAtSign')
    disc.append(('checkRemoveAtSign',) + stream_discipline(body, allow_get=True))
    for typ in ('Model', 'SparseModel'):
        body, _ = func(phpp, r'std\s*::\s*istream\s*&\s*operator>>\s*\(\s*std\s*::\s*istream\s*&\s*is\s*,\s*' + typ + r'\s*<\s*M\s*>\s*&\s*m\s*\)\s*\{', f'operator>>(is, POMDP::{typ}<M>)')
        disc.append((f'POMDP::{typ}<M>',) + stream_discipline(body))
    for typ in ('Vector', 'Matrix2D', 'SparseMatrix2D', 'Matrix3D', 'SparseMatrix3D', 'Table2D', 'SparseTable2D', 'Table3D', 'SparseTable3D'):
        body, _ = func(u, r'std\s*::\s*istream\s*&\s*read\s*\(\s*std\s*::\s*istream\s*&\s*is\s*,\s*' + typ + r'\s*&\s*\w+\s*\)\s*\{', f'read(is, {typ}&)')
        disc.append((f'read({typ})',) + stream_discipline(body))
    b = lambda x: 'true' if x else 'false'
    out = ['/- GENERATED by tools/extract_c17.py from the library source — do not edit. -/', 'namespace AITB.Gen.IOPrec', '',
           f'/-- {UTILS}:{l1} — precision in force in write(os, double) -/', f'def scalar : Nat := {scalar}',
           f'/-- {UTILS}:{l2} — write(os, const Vector &) -/', f'def vector : Nat := {vec}',
           f'/-- {UTILS}:{l3} — write(os, const Matrix2D &) -/', f'def dense : Nat := {dense}',
           f'/-- {UTILS}:{l4} — write(os, const SparseMatrix2D &) -/', f'def sparse : Nat := {sparse}',
           f'/-- {POMDPIO}:{l5} — `os << vv.values.transpose()` in operator<<(ostream&, const POMDP::Policy&) -/', f'def pomdpPolicy : Nat := {ppol}',
           f'/-- {UTILS}:{l6} — read(is, SparseTable2D&) extracts a triplet\'s count into a `double` -/', f'def sparseTableViaDouble : Bool := {b(via_double)}',
           '', '/-- (reader, destination assigned only after the last failure exit) -/',
           'def commitLast : List (String × Bool) := [' + ', '.join(f'("{n}", {b(ok)})' for n, _, _, ok in commits) + ']',
           '', '/-- (reader, uses formatted extraction / peek / setstate(failbit) only: the stream is its list of unread tokens) -/',
           'def formattedOnly : List (String × Bool) := [' + ', '.join(f'("{n}", {b(f)})' for n, f, _ in disc) + ']',
           '', '/-- (reader, never clears or reconfigures the stream: failbit is sticky across consecutive loads) -/',
           'def neverClears : List (String × Bool) := [' + ', '.join(f'("{n}", {b(k)})' for n, _, k in disc) + ']',
           '', 'end AITB.Gen.IOPrec', '']
    X.write_if_changed('IOPrec', '\n'.join(out))


GENERATORS = [gen_ioprec]
