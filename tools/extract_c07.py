#!/usr/bin/env python3
"""Translator plug-in for C07: syntactic facts of the learned-model sources the Lean model is
parameterised by (lean/AITB/Gen/C07.lean).

  denseN1Clear / sparseN1Clear : does the `visitSum == 1` branch of sync(s,a,s1) clear the whole
      row before writing the 1 (true) or only zero the diagonal entry (false, the code as first read)?
  denseCtorJunk : does the dense constructor call sync() on transition storage that nothing has
      initialised (true, the code as first read) or is the storage initialised before (false)?
  sparseRewardGuard : does the sparse model copy the reward only under checkDifferentSmall?

Any other shape of these sites is a broken tie (ExtractError)."""
import re
import extract as X

DENSE = 'include/AIToolbox/MDP/MaximumLikelihoodModel.hpp'
SPARSE = 'include/AIToolbox/MDP/SparseMaximumLikelihoodModel.hpp'


def block_after(src, pos):
    """text of the brace block whose '{' is the first one at or after pos"""
    i = src.index('{', pos)
    depth, j = 0, i
    while j < len(src):
        if src[j] == '{':
            depth += 1
        elif src[j] == '}':
            depth -= 1
            if depth == 0:
                return src[i:j + 1], i
        j += 1
    raise X.ExtractError('unbalanced braces')


def func_body(src, header_re, what):
    m = X.find1(header_re, src, what, re.S)
    return block_after(src, m.end() - 1)[0], X.lineno(src, m.start())


def n1_clear(rel, cls):
    src = X.strip_comments(X.read(rel))
    body, ln = func_body(src, cls + r'<E>::sync\s*\(\s*const\s+size_t\s+s\s*,\s*const\s+size_t\s+a\s*,\s*const\s+size_t\s+s1\s*\)\s*\{', cls + '::sync(s,a,s1)')
    m = X.find1(r'if\s*\(\s*visitSum\s*==\s*1ul\s*\)\s*\{', body, cls + ' visitSum == 1 branch')
    blk, _ = block_after(body, m.end() - 1)
    sets_one = re.search(r'\(\s*s\s*,\s*s1\s*\)\s*=\s*1\.0\s*;', blk)
    if not sets_one:
        raise X.ExtractError(cls + ': visitSum == 1 branch does not set (s,s1) = 1.0')
    clears_row = re.search(r'row\s*\(\s*s\s*\)\s*(\.setZero\s*\(\s*\)|\.fill\s*\(\s*0(\.0)?\s*\)|\*=\s*0(\.0)?\s*;)', blk)
    zero_diag = re.search(r'\(\s*s\s*,\s*s\s*\)\s*=\s*0\.0\s*;', blk)
    if clears_row and clears_row.start() < sets_one.start():
        return True, ln
    if zero_diag and zero_diag.start() < sets_one.start():
        return False, ln
    raise X.ExtractError(cls + ': visitSum == 1 branch has an unknown shape')


def ctor_junk():
    src = X.strip_comments(X.read(DENSE))
    body, ln = func_body(src, r'MaximumLikelihoodModel<E>::MaximumLikelihoodModel\s*\([^)]*\)\s*:[^{]*\{', 'dense constructor')
    m = X.find1(r'\bsync\s*\(\s*\)\s*;', body, 'sync() call in the dense constructor')
    before = body[:m.start()]
    init = re.search(r'transitions_\s*\[\s*a\s*\]\s*\.\s*(setIdentity|setZero)\s*\(\s*\)', before)
    return (init is None), ln


def reward_guard():
    """True: copy guarded by checkDifferentSmall (tolerance).  False: unguarded copy, or guarded by an exact `!=`
    (which is the same assignment)."""
    src = X.strip_comments(X.read(SPARSE))
    tol = len(re.findall(r'if\s*\(\s*checkDifferentSmall\s*\(\s*rewards_\.coeff(Ref)?\s*\(\s*s\s*,\s*a\s*\)\s*,\s*experience_\.getReward\s*\(\s*s\s*,\s*a\s*\)\s*\)\s*\)', src))
    exact = len(re.findall(r'if\s*\(\s*rewards_\.coeff(Ref)?\s*\(\s*s\s*,\s*a\s*\)\s*!=\s*experience_\.getReward\s*\(\s*s\s*,\s*a\s*\)\s*\)', src))
    anyif = len(re.findall(r'if\s*\([^;{]*\)\s*rewards_\.coeffRef\s*\(\s*s\s*,\s*a\s*\)\s*=\s*experience_', src))
    plain = len(re.findall(r'rewards_\.coeffRef\s*\(\s*s\s*,\s*a\s*\)\s*=\s*experience_\.getReward\s*\(\s*s\s*,\s*a\s*\)\s*;', src))
    if plain != 2:
        raise X.ExtractError('sparse model: expected two reward copies, found %d' % plain)
    if anyif != tol + exact:
        raise X.ExtractError('sparse model: a reward copy is guarded by an unknown condition')
    if tol == 2:
        return True
    if tol == 0:
        return False
    raise X.ExtractError('sparse model: reward copies guarded inconsistently')


def sparse_generic_partial():
    """Does the element-wise (non-Eigen experience) branch of SparseMaximumLikelihoodModel::sync(s,a) leave unvisited
    cells untouched (True, as first read) or clear the row before writing (False)?"""
    src = X.strip_comments(X.read(SPARSE))
    body, ln = func_body(src, r'SparseMaximumLikelihoodModel<E>::sync\s*\(\s*const\s+size_t\s+s\s*,\s*const\s+size_t\s+a\s*\)\s*\{', 'SparseMaximumLikelihoodModel::sync(s,a)')
    m0 = X.find1(r'if\s+constexpr\s*\(\s*IsExperienceEigen<E>', body, 'if constexpr (IsExperienceEigen<E> …) in sparse sync(s,a)')
    # skip to the parenthesis closing the condition (it may contain a requires-expression with braces), then to the block
    i = body.index('(', m0.start()); depth = 0
    while True:
        if body[i] == '(':
            depth += 1
        elif body[i] == ')':
            depth -= 1
            if depth == 0:
                break
        i += 1
    j = body.index('{', i)
    eig, start = block_after(body, j)
    rest = body[start + len(eig):]
    m2 = X.find1(r'^\s*else\s*\{', rest, 'else branch of the Eigen test in sparse sync(s,a)')
    els, _ = block_after(rest, m2.end() - 1)
    loop = X.find1(r'for\s*\(', els, 'loop in the element-wise branch')
    guarded = re.search(r'if\s*\(\s*visits\s*>\s*0\s*\)', els)
    clears = re.search(r'row\s*\(\s*s\s*\)\s*(\.setZero\s*\(\s*\)|\*=\s*0(\.0)?\s*;)', els[:loop.start()])
    if clears or not guarded:
        return False, ln
    return True, ln


def gen_c07():
    d, dl = n1_clear(DENSE, 'MaximumLikelihoodModel')
    s, sl = n1_clear(SPARSE, 'SparseMaximumLikelihoodModel')
    j, jl = ctor_junk()
    g = reward_guard()
    sg, sgl = sparse_generic_partial()
    b = lambda x: 'true' if x else 'false'
    body = ['/- GENERATED by tools/extract_c07.py from the library source — do not edit. -/', 'namespace AITB.Gen.C07', '',
            f'/-- {DENSE}:{dl} — `visitSum == 1` branch of sync(s,a,s1) clears the whole row -/',
            f'def denseN1Clear : Bool := {b(d)}',
            f'/-- {SPARSE}:{sl} -/',
            f'def sparseN1Clear : Bool := {b(s)}',
            f'/-- {DENSE}:{jl} — constructor runs sync() over uninitialised transition storage -/',
            f'def denseCtorJunk : Bool := {b(j)}',
            f'/-- {SPARSE} — reward copied only under checkDifferentSmall -/',
            f'def sparseRewardGuard : Bool := {b(g)}',
            f'/-- {SPARSE}:{sgl} — element-wise branch of sync(s,a) writes only the visited cells -/',
            f'def sparseGenericPartial : Bool := {b(sg)}',
            '', 'end AITB.Gen.C07', '']
    X.write_if_changed('C07', '\n'.join(body))


# ---------------------------------------------------------------------------------------------------------------------
# Round 3: the statements the Lean model (AITB.Model.Experience `Cell.record` / `reset`, AITB.Model.ExperienceKeyed `KOp.toOp`,
# `coopIdx`, `coopTransProb`, `coopExpReward`, `fbIdx`; AITB.Model.FactoredAlg `DDNGraph.getId`, `toIndexPartial`) was written
# from, one level below the anchored files included (index helpers, tolerance helpers).  (name, file, signature regex, the
# comment-stripped whitespace-free body).  Any other text is a broken tie: the site is dropped from `Gen/C07Sites.asModelled`
# and the obligation `AITB.Exp.sites_current` no longer holds (and, unless AITB_C07_LENIENT_SITES=1 — mutation trials only, to
# see what the behavioural clauses catch on their own — the translator reports an ExtractError).
import os

C07_SITES = [
('coopExpRecord', 'src/Factored/MDP/CooperativeExperience.cpp', 'CooperativeExperience::record\\s*\\([^)]*\\)\\s*\\{', '{++timesteps_;constauto&S=graph_.getS();for(size_ti=0;i<S.size();++i){auto&rNode=rewards_[i];auto&mNode=M2s_[i];auto&vNode=visits_[i];autoid=graph_.getId(i,s,a);vNode(id,s1[i])+=1;vNode(id,S[i])+=1;constautodelta=rew[i]-rNode(id);rNode(id)+=delta/vNode(id,S[i]);mNode(id)+=delta*(rew[i]-rNode(id));indeces_[i]=id;}returnindeces_;}'),
('coopExpReset', 'src/Factored/MDP/CooperativeExperience.cpp', 'void\\s+CooperativeExperience::reset\\s*\\(\\s*\\)\\s*\\{', '{for(size_ti=0;i<graph_.getS().size();++i){rewards_[i].setZero();M2s_[i].setZero();visits_[i].setZero();}timesteps_=0;}'),
('coopExpCtor', 'src/Factored/MDP/CooperativeExperience.cpp', 'CooperativeExperience::CooperativeExperience\\s*\\([^)]*\\)\\s*:[^{]*\\{', '{constauto&S=graph_.getS();rewards_.reserve(S.size());visits_.reserve(S.size());for(size_ti=0;i<S.size();++i){rewards_.emplace_back(graph_.getSize(i));rewards_.back().setZero();M2s_.emplace_back(graph_.getSize(i));M2s_.back().setZero();visits_.emplace_back(graph_.getSize(i),S[i]+1);visits_.back().setZero();}indeces_.resize(S.size());}'),
('coopMLCtor', 'src/Factored/MDP/CooperativeMaximumLikelihoodModel.cpp', 'CooperativeMaximumLikelihoodModel::CooperativeMaximumLikelihoodModel\\s*\\([^)]*\\)\\s*:[^;]*?\\)\\s*\\{', '{setDiscount(discount);constauto&S=experience_.getS();auto&tProbs=transitions_.transitions;tProbs.reserve(S.size());rewards_.reserve(S.size());for(size_ti=0;i<S.size();++i){constautod1=experience_.getGraph().getSize(i);constautod2=S[i];tProbs.emplace_back(d1,d2);rewards_.emplace_back(d1);tProbs.back().setZero();tProbs.back().col(0).fill(1.0);rewards_.back().setZero();}if(toSync)sync();}'),
('coopMLSync', 'src/Factored/MDP/CooperativeMaximumLikelihoodModel.cpp', 'void\\s+CooperativeMaximumLikelihoodModel::sync\\s*\\(\\s*\\)\\s*\\{', '{constauto&S=experience_.getS();for(size_ti=0;i<S.size();++i){for(size_tj=0;j<getGraph().getSize(i);++j){syncRow(i,j);}}}'),
('coopMLSyncSA', 'src/Factored/MDP/CooperativeMaximumLikelihoodModel.cpp', 'void\\s+CooperativeMaximumLikelihoodModel::sync\\s*\\(\\s*const\\s+State\\s*&\\s*s\\s*,\\s*const\\s+Action\\s*&\\s*a\\s*\\)\\s*\\{', '{constauto&S=experience_.getS();for(size_ti=0;i<S.size();++i){constautoj=experience_.getGraph().getId(i,s,a);syncRow(i,j);}}'),
('coopMLSyncIdx', 'src/Factored/MDP/CooperativeMaximumLikelihoodModel.cpp', 'void\\s+CooperativeMaximumLikelihoodModel::sync\\s*\\(\\s*const\\s+CooperativeExperience::Indeces\\s*&\\s*indeces\\s*\\)\\s*\\{', '{constauto&S=experience_.getS();for(size_ti=0;i<S.size();++i){constautoj=indeces[i];syncRow(i,j);}}'),
('coopMLSyncRow', 'src/Factored/MDP/CooperativeMaximumLikelihoodModel.cpp', 'void\\s+CooperativeMaximumLikelihoodModel::syncRow\\s*\\([^)]*\\)\\s*\\{', '{constauto&S=experience_.getS();constauto&vtable=experience_.getVisitsTable();constauto&rmatrix=experience_.getRewardMatrix();auto&tProbs=transitions_.transitions;constautototalVisits=vtable[i](j,S[i]);if(totalVisits==0)return;tProbs[i].row(j)=vtable[i].row(j).head(S[i]).cast<double>()/totalVisits;rewards_[i][j]=rmatrix[i][j];}'),
('coopMLGetTP', 'src/Factored/MDP/CooperativeMaximumLikelihoodModel.cpp', 'double\\s+CooperativeMaximumLikelihoodModel::getTransitionProbability\\s*\\([^)]*\\)\\s*const\\s*\\{', '{returntransitions_.getTransitionProbability(s,a,s1);}'),
('coopMLGetER', 'src/Factored/MDP/CooperativeMaximumLikelihoodModel.cpp', 'double\\s+CooperativeMaximumLikelihoodModel::getExpectedReward\\s*\\([^)]*\\)\\s*const\\s*\\{', '{constauto&S=experience_.getS();doubleretval=0.0;for(size_ti=0;i<S.size();++i){constautoj=experience_.getGraph().getId(i,s,a);retval+=rewards_[i][j];}returnretval;}'),
('coopMLGetERs', 'src/Factored/MDP/CooperativeMaximumLikelihoodModel.cpp', 'void\\s+CooperativeMaximumLikelihoodModel::getExpectedRewards\\s*\\([^)]*\\)\\s*const\\s*\\{', '{assert(rewsp);constauto&S=experience_.getS();auto&rews=*rewsp;for(size_ti=0;i<S.size();++i){constautoj=experience_.getGraph().getId(i,s,a);rews[i]=rewards_[i][j];}}'),
('coopTSSyncSA', 'src/Factored/MDP/CooperativeThompsonModel.cpp', 'void\\s+CooperativeThompsonModel::sync\\s*\\(\\s*const\\s+State\\s*&\\s*s\\s*,\\s*const\\s+Action\\s*&\\s*a\\s*\\)\\s*\\{', '{constauto&S=experience_.getS();for(size_ti=0;i<S.size();++i){constautoj=experience_.getGraph().getId(i,s,a);syncRow(i,j);}}'),
('coopTSSyncIdx', 'src/Factored/MDP/CooperativeThompsonModel.cpp', 'void\\s+CooperativeThompsonModel::sync\\s*\\(\\s*const\\s+CooperativeExperience::Indeces\\s*&\\s*indeces\\s*\\)\\s*\\{', '{constauto&S=experience_.getS();for(size_ti=0;i<S.size();++i){constautoj=indeces[i];syncRow(i,j);}}'),
('coopTSSyncRow', 'src/Factored/MDP/CooperativeThompsonModel.cpp', 'void\\s+CooperativeThompsonModel::syncRow\\s*\\([^)]*\\)\\s*\\{', '{constauto&S=experience_.getS();constauto&vtable=experience_.getVisitsTable();constauto&rmatrix=experience_.getRewardMatrix();constauto&m2matrix=experience_.getM2Matrix();auto&tProbs=transitions_.transitions;sampleDirichletDistribution(vtable[i].row(j).head(S[i]).array().cast<double>()+0.5,rand_,tProbs[i].row(j));constautototalVisits=vtable[i](j,S[i]);if(totalVisits<2){rewards_[i][j]=rmatrix[i][j];}else{std::student_t_distribution<double>dist(totalVisits-1);rewards_[i][j]=rmatrix[i][j]+dist(rand_)*std::sqrt(m2matrix[i][j]/(totalVisits*(totalVisits-1)));}}'),
('fbExpCtor', 'src/Factored/Bandit/Experience.cpp', 'Experience::Experience\\s*\\([^)]*\\)\\s*:[^{]*\\{', '{qfun_.bases.resize(deps_.size());counts_.resize(deps_.size());M2s_.resize(deps_.size());indeces_.resize(deps_.size());for(size_ti=0;i<qfun_.bases.size();++i){qfun_.bases[i].tag=deps_[i];qfun_.bases[i].values.resize(factorSpacePartial(deps_[i],A));qfun_.bases[i].values.setZero();M2s_[i].resize(qfun_.bases[i].values.size());M2s_[i].setZero();counts_[i].resize(qfun_.bases[i].values.size());}}'),
('fbExpRecord', 'src/Factored/Bandit/Experience.cpp', 'Experience::record\\s*\\([^)]*\\)\\s*\\{', '{assert(static_cast<size_t>(rews.size())==qfun_.bases.size());++timesteps_;for(size_ti=0;i<qfun_.bases.size();++i){constautoaId=toIndexPartial(qfun_.bases[i].tag,A,a);auto&c=counts_[i];auto&q=qfun_.bases[i].values;auto&m=M2s_[i];++c[aId];constautodelta=rews[i]-q[aId];q[aId]+=delta/c[aId];m[aId]+=delta*(rews[i]-q[aId]);indeces_[i]=aId;}returnindeces_;}'),
('fbExpReset', 'src/Factored/Bandit/Experience.cpp', 'void\\s+Experience::reset\\s*\\(\\s*\\)\\s*\\{', '{for(auto&basis:qfun_.bases)basis.values.setZero();for(auto&m:M2s_)m.setZero();for(auto&c:counts_)std::fill(std::begin(c),std::end(c),0);timesteps_=0;}'),
('banditExpRecord', 'src/Bandit/Experience.cpp', 'void\\s+Experience::record\\s*\\([^)]*\\)\\s*\\{', '{++timesteps_;++counts_[a];constautodelta=rew-q_[a];q_[a]+=delta/counts_[a];M2s_[a]+=delta*(rew-q_[a]);}'),
('banditExpReset', 'src/Bandit/Experience.cpp', 'void\\s+Experience::reset\\s*\\(\\s*\\)\\s*\\{', '{q_.setZero();M2s_.setZero();std::fill(std::begin(counts_),std::end(counts_),0);timesteps_=0;}'),
('mdpExpRecord', 'src/MDP/Experience.cpp', 'void\\s+Experience::record\\s*\\([^)]*\\)\\s*\\{', '{++timesteps_;visits_[a](s,s1)+=1;visitsSum_(s,a)+=1;constautodelta=rew-rewards_(s,a);rewards_(s,a)+=delta/visitsSum_(s,a);M2s_(s,a)+=delta*(rew-rewards_(s,a));}'),
('mdpExpReset', 'src/MDP/Experience.cpp', 'void\\s+Experience::reset\\s*\\(\\s*\\)\\s*\\{', '{for(size_ta=0;a<A;++a)visits_[a].setZero();visitsSum_.setZero();rewards_.setZero();M2s_.setZero();timesteps_=0;}'),
('sparseExpRecord', 'src/MDP/SparseExperience.cpp', 'void\\s+SparseExperience::record\\s*\\([^)]*\\)\\s*\\{', '{++timesteps_;visits_[a].coeffRef(s,s1)+=1;visitsSum_.coeffRef(s,a)+=1;constautodelta=rew-rewards_.coeffRef(s,a);rewards_.coeffRef(s,a)+=delta/visitsSum_.coeffRef(s,a);M2s_.coeffRef(s,a)+=delta*(rew-rewards_.coeffRef(s,a));}'),
('sparseExpReset', 'src/MDP/SparseExperience.cpp', 'void\\s+SparseExperience::reset\\s*\\(\\s*\\)\\s*\\{', '{for(size_ta=0;a<A;++a){visits_[a].setZero();visits_[a].makeCompressed();}visitsSum_.setZero();visitsSum_.makeCompressed();rewards_.setZero();rewards_.makeCompressed();M2s_.setZero();M2s_.makeCompressed();timesteps_=0;}'),
('toIndexPartial', 'src/Factored/Utils/Core.cpp', 'size_t\\s+toIndexPartial\\s*\\(\\s*const\\s+PartialKeys\\s*&\\s*ids\\s*,\\s*const\\s+Factors\\s*&\\s*space\\s*,\\s*const\\s+Factors\\s*&\\s*f\\s*\\)\\s*\\{', '{size_tresult=0;size_tmultiplier=1;for(autoid:ids){result+=multiplier*f[id];multiplier*=space[id];}returnresult;}'),
('factorSpacePartial', 'src/Factored/Utils/Core.cpp', 'size_t\\s+factorSpacePartial\\s*\\(\\s*const\\s+PartialKeys\\s*&\\s*ids\\s*,\\s*const\\s+Factors\\s*&\\s*space\\s*\\)\\s*\\{', '{size_tretval=1;for(constautoid:ids){if(std::numeric_limits<size_t>::max()/space[id]<retval)returnstd::numeric_limits<size_t>::max();retval*=space[id];}returnretval;}'),
('ddnGetIdSA', 'src/Factored/Utils/BayesianNetwork.cpp', 'size_t\\s+DDNGraph::getId\\s*\\(\\s*const\\s+size_t\\s+feature\\s*,\\s*const\\s+State\\s*&\\s*s\\s*,\\s*const\\s+Action\\s*&\\s*a\\s*\\)\\s*const\\s*\\{', '{constauto[parentId,actionId]=getIds(feature,s,a);returngetId(feature,parentId,actionId);}'),
('ddnGetId3', 'src/Factored/Utils/BayesianNetwork.cpp', 'size_t\\s+DDNGraph::getId\\s*\\(\\s*const\\s+size_t\\s+feature\\s*,\\s*size_t\\s+parentId\\s*,\\s*size_t\\s+actionId\\s*\\)\\s*const\\s*\\{', '{returnstartIds_[feature][actionId]+parentId;}'),
('ddnGetIdsSA', 'src/Factored/Utils/BayesianNetwork.cpp', 'DDNGraph::getIds\\s*\\(\\s*const\\s+size_t\\s+feature\\s*,\\s*const\\s+State\\s*&\\s*s\\s*,\\s*const\\s+Action\\s*&\\s*a\\s*\\)\\s*const\\s*\\{', '{constautoactionId=toIndexPartial(parents_[feature].agents,A,a);constauto&features=parents_[feature].features[actionId];constautoparentId=toIndexPartial(features,S,s);return{parentId,actionId};}'),
('ddnGetSize', 'src/Factored/Utils/BayesianNetwork.cpp', 'size_t\\s+DDNGraph::getSize\\s*\\(\\s*const\\s+size_t\\s+feature\\s*\\)\\s*const\\s*\\{', '{returnstartIds_[feature].back();}'),
('ddnTransitionProbability', 'src/Factored/Utils/BayesianNetwork.cpp', 'DDN::getTransitionProbability\\s*\\(\\s*const\\s+Factors\\s*&\\s*s\\s*,\\s*const\\s+Factors\\s*&\\s*a\\s*,\\s*const\\s+Factors\\s*&\\s*s1\\s*\\)\\s*const\\s*\\{', '{doubleretval=1.0;for(size_ti=0;i<graph.getS().size();++i){retval*=transitions[i](graph.getId(i,s,a),s1[i]);}returnretval;}'),
('checkEqualSmall', 'include/AIToolbox/Utils/Core.hpp', 'inline\\s+bool\\s+checkEqualSmall\\s*\\(\\s*const\\s+double\\s+a\\s*,\\s*const\\s+double\\s+b\\s*\\)\\s*\\{', '{return(std::fabs(a-b)<=equalToleranceSmall);}'),
('checkDifferentSmall', 'include/AIToolbox/Utils/Core.hpp', 'inline\\s+bool\\s+checkDifferentSmall\\s*\\(\\s*const\\s+double\\s+a\\s*,\\s*const\\s+double\\s+b\\s*\\)\\s*\\{', '{return!checkEqualSmall(a,b);}'),
('sampleDirichletDistribution', 'include/AIToolbox/Utils/Probability.hpp', 'void\\s+sampleDirichletDistribution\\s*\\(\\s*const\\s+TIn\\s*&\\s*params\\s*,\\s*G\\s*&\\s*generator\\s*,\\s*TOut\\s*&&\\s*out\\s*\\)\\s*\\{', '{assert(params.size()==out.size());doublesum=0.0;for(size_ti=0;i<static_cast<size_t>(params.size());++i){std::gamma_distribution<double>dist(params[i],1.0);out[i]=dist(generator);sum+=out[i];}out/=sum;}'),
('thompsonSyncSA', 'include/AIToolbox/MDP/ThompsonModel.hpp', 'void\\s+ThompsonModel<E>::sync\\s*\\(\\s*const\\s+size_t\\s+s\\s*,\\s*const\\s+size_t\\s+a\\s*\\)\\s*\\{', '{ifconstexpr(IsExperienceEigen<E>&&requires{experience_.getVisitsTable(a).row(s).array();}){sampleDirichletDistribution(experience_.getVisitsTable(a).row(s).array().templatecast<double>()+0.5,rand_,transitions_[a].row(s));}else{doublesum=0.0;for(size_ts1=0;s1<S;++s1){std::gamma_distribution<double>dist(experience_.getVisits(s,a,s1)+0.5,1.0);transitions_[a](s,s1)=dist(rand_);sum+=transitions_[a](s,s1);}transitions_[a].row(s)/=sum;}constautovisits=experience_.getVisitsSum(s,a);constautoMLEReward=experience_.getReward(s,a);constautoM2=experience_.getM2(s,a);if(visits<2){rewards_(s,a)=MLEReward;}else{std::student_t_distribution<double>dist(visits-1);rewards_(s,a)=MLEReward+dist(rand_)*std::sqrt(M2/(visits*(visits-1)));}}'),
('thompsonSync', 'include/AIToolbox/MDP/ThompsonModel.hpp', 'void\\s+ThompsonModel<E>::sync\\s*\\(\\s*\\)\\s*\\{', '{for(size_ta=0;a<A;++a)for(size_ts=0;s<S;++s)sync(s,a);}'),
('coopTSSync', 'src/Factored/MDP/CooperativeThompsonModel.cpp', 'void\\s+CooperativeThompsonModel::sync\\s*\\(\\s*\\)\\s*\\{', '{constauto&S=experience_.getS();for(size_ti=0;i<S.size();++i){for(size_tj=0;j<getGraph().getSize(i);++j){syncRow(i,j);}}}'),
('denseMLCtor', 'include/AIToolbox/MDP/MaximumLikelihoodModel.hpp', 'MaximumLikelihoodModel<E>::MaximumLikelihoodModel\\s*\\([^)]*\\)\\s*:[^{]*\\{', '{setDiscount(discount);rewards_.setZero();for(size_ta=0;a<A;++a)transitions_[a].setIdentity();if(toSync)sync();}'),
('denseMLSync', 'include/AIToolbox/MDP/MaximumLikelihoodModel.hpp', 'void\\s+MaximumLikelihoodModel<E>::sync\\s*\\(\\s*\\)\\s*\\{', '{for(size_ta=0;a<A;++a)for(size_ts=0;s<S;++s)sync(s,a);}'),
('denseMLSyncSA', 'include/AIToolbox/MDP/MaximumLikelihoodModel.hpp', 'void\\s+MaximumLikelihoodModel<E>::sync\\s*\\(\\s*const\\s+size_t\\s+s\\s*,\\s*const\\s+size_t\\s+a\\s*\\)\\s*\\{', '{constautovisitSum=experience_.getVisitsSum(s,a);if(visitSum==0ul)return;rewards_(s,a)=experience_.getReward(s,a);constdoublevisitSumReciprocal=1.0/visitSum;ifconstexpr(IsExperienceEigen<E>){transitions_[a].row(s)=experience_.getVisitsTable(a).row(s).templatecast<double>()*visitSumReciprocal;}else{for(size_ts1=0;s1<S;++s1){constautovisits=experience_.getVisits(s,a,s1);transitions_[a](s,s1)=static_cast<double>(visits)*visitSumReciprocal;}}}'),
('denseMLSyncInc', 'include/AIToolbox/MDP/MaximumLikelihoodModel.hpp', 'void\\s+MaximumLikelihoodModel<E>::sync\\s*\\(\\s*const\\s+size_t\\s+s\\s*,\\s*const\\s+size_t\\s+a\\s*,\\s*const\\s+size_t\\s+s1\\s*\\)\\s*\\{', '{constautovisitSum=experience_.getVisitsSum(s,a);if(!(visitSum%PERIODul))returnsync(s,a);rewards_(s,a)=experience_.getReward(s,a);if(visitSum==1ul){transitions_[a].row(s).setZero();transitions_[a](s,s1)=1.0;}else{constdoublenewVisits=static_cast<double>(experience_.getVisits(s,a,s1));constdoublenewTransitionValue=newVisits/static_cast<double>(visitSum-1);constdoublenewVectorSum=1.0+(newTransitionValue-transitions_[a](s,s1));transitions_[a](s,s1)=newTransitionValue;transitions_[a].row(s)/=newVectorSum;}}'),
('denseMLGetTP', 'include/AIToolbox/MDP/MaximumLikelihoodModel.hpp', 'double\\s+MaximumLikelihoodModel<E>::getTransitionProbability\\s*\\([^)]*\\)\\s*const\\s*\\{', '{returntransitions_[a](s,s1);}'),
('denseMLGetER', 'include/AIToolbox/MDP/MaximumLikelihoodModel.hpp', 'double\\s+MaximumLikelihoodModel<E>::getExpectedReward\\s*\\([^)]*\\)\\s*const\\s*\\{', '{returnrewards_(s,a);}'),
('sparseMLCtor', 'include/AIToolbox/MDP/SparseMaximumLikelihoodModel.hpp', 'SparseMaximumLikelihoodModel<E>::SparseMaximumLikelihoodModel\\s*\\([^)]*\\)\\s*:[^{]*\\{', '{setDiscount(discount);if(toSync){sync();for(size_ta=0;a<A;++a){for(size_ts=0;s<S;++s)if(experience_.getVisitsSum(s,a)==0ul)transitions_[a].insert(s,s)=1.0;}}else{for(size_ta=0;a<A;++a)transitions_[a].setIdentity();}}'),
('sparseMLSync', 'include/AIToolbox/MDP/SparseMaximumLikelihoodModel.hpp', 'void\\s+SparseMaximumLikelihoodModel<E>::sync\\s*\\(\\s*\\)\\s*\\{', '{for(size_ta=0;a<A;++a)for(size_ts=0;s<S;++s)sync(s,a);}'),
('sparseMLSyncSA', 'include/AIToolbox/MDP/SparseMaximumLikelihoodModel.hpp', 'void\\s+SparseMaximumLikelihoodModel<E>::sync\\s*\\(\\s*const\\s+size_t\\s+s\\s*,\\s*const\\s+size_t\\s+a\\s*\\)\\s*\\{', '{constautovisitSum=experience_.getVisitsSum(s,a);if(visitSum==0ul)return;if(rewards_.coeff(s,a)!=experience_.getReward(s,a))rewards_.coeffRef(s,a)=experience_.getReward(s,a);if(visitSum==1ul)transitions_[a].coeffRef(s,s)=0.0;constdoublevisitSumReciprocal=1.0/visitSum;ifconstexpr(IsExperienceEigen<E>&&requires{transitions_[a].row(s)=experience_.getVisitsTable(a).row(s).templatecast<double>()*visitSumReciprocal;}){transitions_[a].row(s)=experience_.getVisitsTable(a).row(s).templatecast<double>()*visitSumReciprocal;}else{transitions_[a].row(s)*=0.0;for(size_ts1=0;s1<S;++s1){constautovisits=experience_.getVisits(s,a,s1);if(visits>0)transitions_[a].coeffRef(s,s1)=static_cast<double>(visits)*visitSumReciprocal;}}}'),
('sparseMLSyncInc', 'include/AIToolbox/MDP/SparseMaximumLikelihoodModel.hpp', 'void\\s+SparseMaximumLikelihoodModel<E>::sync\\s*\\(\\s*const\\s+size_t\\s+s\\s*,\\s*const\\s+size_t\\s+a\\s*,\\s*const\\s+size_t\\s+s1\\s*\\)\\s*\\{', '{constautovisitSum=experience_.getVisitsSum(s,a);if(!(visitSum%PERIODul))returnsync(s,a);if(rewards_.coeff(s,a)!=experience_.getReward(s,a))rewards_.coeffRef(s,a)=experience_.getReward(s,a);if(visitSum==1ul){transitions_[a].row(s)*=0.0;transitions_[a].coeffRef(s,s1)=1.0;}else{constdoublenewVisits=static_cast<double>(experience_.getVisits(s,a,s1));constdoublenewTransitionValue=newVisits/static_cast<double>(visitSum-1);constdoublenewVectorSum=1.0+(newTransitionValue-transitions_[a].coeff(s,s1));transitions_[a].coeffRef(s,s1)=newTransitionValue;transitions_[a].row(s)/=newVectorSum;}}'),
('sparseMLGetTP', 'include/AIToolbox/MDP/SparseMaximumLikelihoodModel.hpp', 'double\\s+SparseMaximumLikelihoodModel<E>::getTransitionProbability\\s*\\([^)]*\\)\\s*const\\s*\\{', '{returntransitions_[a].coeff(s,s1);}'),
('sparseMLGetER', 'include/AIToolbox/MDP/SparseMaximumLikelihoodModel.hpp', 'double\\s+SparseMaximumLikelihoodModel<E>::getExpectedReward\\s*\\([^)]*\\)\\s*const\\s*\\{', '{returnrewards_.coeff(s,a);}'),
('coopTSGetTP', 'src/Factored/MDP/CooperativeThompsonModel.cpp', 'double\\s+CooperativeThompsonModel::getTransitionProbability\\s*\\([^)]*\\)\\s*const\\s*\\{', '{returntransitions_.getTransitionProbability(s,a,s1);}'),
('coopTSGetER', 'src/Factored/MDP/CooperativeThompsonModel.cpp', 'double\\s+CooperativeThompsonModel::getExpectedReward\\s*\\([^)]*\\)\\s*const\\s*\\{', '{constauto&S=experience_.getS();doubleretval=0.0;for(size_ti=0;i<S.size();++i){constautoj=experience_.getGraph().getId(i,s,a);retval+=rewards_[i][j];}returnretval;}'),
('coopTSGetERs', 'src/Factored/MDP/CooperativeThompsonModel.cpp', 'void\\s+CooperativeThompsonModel::getExpectedRewards\\s*\\([^)]*\\)\\s*const\\s*\\{', '{assert(rewsp);constauto&S=experience_.getS();auto&rews=*rewsp;for(size_ti=0;i<S.size();++i){constautoj=experience_.getGraph().getId(i,s,a);rews[i]=rewards_[i][j];}}'),
('coopTSCtor', 'src/Factored/MDP/CooperativeThompsonModel.cpp', 'CooperativeThompsonModel::CooperativeThompsonModel\\s*\\([^)]*\\)\\s*:[^;]*?\\)\\s*\\{', '{setDiscount(discount);constauto&S=experience_.getS();auto&tProbs=transitions_.transitions;tProbs.reserve(S.size());rewards_.reserve(S.size());for(size_ti=0;i<S.size();++i){constautod1=experience_.getGraph().getSize(i);constautod2=S[i];tProbs.emplace_back(d1,d2);rewards_.emplace_back(d1);}sync();}'),
]

BN = 'src/Factored/Utils/BayesianNetwork.cpp'
PUSH_TAIL = ('parents_.emplace_back(std::move(parents));auto&newParents=parents_.back();startIds_.emplace_back(newParents.features.size()+1);'
             'auto&newStartIds=startIds_.back();size_tnewStartId=0;for(size_ti=0;i<newParents.features.size();++i){newStartIds[i]=newStartId;'
             'newStartId+=factorSpacePartial(newParents.features[i],S);}newStartIds.back()=newStartId;}')


def _norm_body(src, pat, what):
    m = X.find1(pat, src, what, re.S)
    blk, _ = block_after(src, m.end() - 1)
    # the resync period is extracted on its own (Gen/Constants) and the theorems hold for every period: not part of the pinned text
    return re.sub(r'%\d+ul', '%PERIODul', re.sub(r'\s+', '', blk)), X.lineno(src, m.start())


# sampleDirichletDistribution as of repo 7d816c6: identical to the modelled text when the gamma draws do not all underflow to 0
# (sum != 0) -- the model's theorems (`thompson_rows_valid`, `coop_thompson_posterior`) assume positive draws; the added branch
# (sum == 0: redraw in log space) is outside that hypothesis and is C08's subject (`dirichletWithFallback_valid`)
ALT_TEXTS = {'sampleDirichletDistribution': ('{assert(params.size()==out.size());doublesum=0.0;for(size_ti=0;i<static_cast<size_t>(params.size());++i){std::gamma_distribution<double>dist(params[i],1.0);out[i]=dist(generator);sum+=out[i];}if(sum==0.0){doublemax=-std::numeric_limits<double>::infinity();for(size_ti=0;i<static_cast<size_t>(params.size());++i){out[i]=sampleLogGammaDistribution(params[i],generator);max=std::max(max,out[i]);}for(size_ti=0;i<static_cast<size_t>(params.size());++i){out[i]=std::exp(out[i]-max);sum+=out[i];}}out/=sum;}',)}


def gen_c07_sites():
    lenient = os.environ.get('AITB_C07_LENIENT_SITES') == '1'
    out, errs, cache = [], [], {}
    for name, rel, pat, want in C07_SITES:
        src = cache.setdefault(rel, X.strip_comments(X.read(rel)))
        try:
            got, ln = _norm_body(src, pat, f'{rel}: {name}')
        except X.ExtractError as e:
            errs.append(str(e)); continue
        # a site may have several accepted texts (source forms the model was re-read against)
        if got == want or got in ALT_TEXTS.get(name, ()):
            out.append((name, rel, ln))
        else:
            errs.append(f'{rel}:{ln}: {name} is not in the form the Lean model was written from: {got[:200]}')
    src = cache.setdefault(BN, X.strip_comments(X.read(BN)))
    try:
        body, ln = _norm_body(src, r'void\s+DDNGraph::push\s*\(\s*ParentSet\s+parents\s*\)\s*\{', BN + ': DDNGraph::push')
        if body.endswith(PUSH_TAIL):
            out.append(('ddnPushStartIds', BN, ln))
        else:
            errs.append(f'{BN}:{ln}: DDNGraph::push no longer ends with the modelled startIds_ prefix-sum loop')
    except X.ExtractError as e:
        errs.append(str(e))
    L = ['/- GENERATED by tools/extract_c07.py from the library source — do not edit. -/', 'namespace AITB.Gen.C07Sites', '',
         '/-- functions whose comment-stripped text is, today, exactly the text the C07 Lean model was written from: (name, file, line) -/',
         'def asModelled : List (String × String × Nat) := [']
    for i, (n, rel, ln) in enumerate(out):
        L.append(f'  ("{n}", "{rel}", {ln})' + (',' if i + 1 < len(out) else ''))
    L += [']', '', '/-- every site the model was written from -/', 'def expected : List String := [']
    names = [n for n, _, _, _ in C07_SITES] + ['ddnPushStartIds']
    for i, n in enumerate(names):
        L.append(f'  "{n}"' + (',' if i + 1 < len(names) else ''))
    L += [']', '', 'end AITB.Gen.C07Sites', '']
    X.write_if_changed('C07Sites', '\n'.join(L))
    if errs and not lenient:
        raise X.ExtractError('; '.join(errs))


GENERATORS = [gen_c07, gen_c07_sites]
