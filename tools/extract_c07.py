#!/usr/bin/env python3
"""Translator plug-in for C07: syntactic facts of the learned-model sources the Lean model is
parameterised by (lean/AITB/Gen/C07.lean).

  denseN1Clear / sparseN1Clear : does the `visitSum == 1` branch of sync(s,a,s1) clear the whole
      row before writing the 1 (true) or only zero the diagonal entry (false, the code as first read)?
  denseCtorJunk : does the dense constructor call sync() on transition storage that nothing has
      initialised (true, the code as first read) or is the storage initialised before (false)?
  sparseRewardGuard : does the sparse model copy the reward only under checkDifferentSmall?

Any other shape of these sites is a broken tie (ExtractError)."""
import re
import extract as X

DENSE = 'include/AIToolbox/MDP/MaximumLikelihoodModel.hpp'
SPARSE = 'include/AIToolbox/MDP/SparseMaximumLikelihoodModel.hpp'


def block_after(src, pos):
    """text of the brace block whose '{' is the first one at or after pos"""
    i = src.index('{', pos)
    depth, j = 0, i
    while j < len(src):
        if src[j] == '{':
            depth += 1
        elif src[j] == '}':
            depth -= 1
            if depth == 0:
                return src[i:j + 1], i
        j += 1
    raise X.ExtractError('unbalanced braces')


def func_body(src, header_re, what):
    m = X.find1(header_re, src, what, re.S)
    return block_after(src, m.end() - 1)[0], X.lineno(src, m.start())


def n1_clear(rel, cls):
    src = X.strip_comments(X.read(rel))
    body, ln = func_body(src, cls + r'<E>::sync\s*\(\s*const\s+size_t\s+s\s*,\s*const\s+size_t\s+a\s*,\s*const\s+size_t\s+s1\s*\)\s*\{', cls + '::sync(s,a,s1)')
    m = X.find1(r'if\s*\(\s*visitSum\s*==\s*1ul\s*\)\s*\{', body, cls + ' visitSum == 1 branch')
    blk, _ = block_after(body, m.end() - 1)
    sets_one = re.search(r'\(\s*s\s*,\s*s1\s*\)\s*=\s*1\.0\s*;', blk)
    if not sets_one:
        raise X.ExtractError(cls + ': visitSum == 1 branch does not set (s,s1) = 1.0')
    clears_row = re.search(r'row\s*\(\s*s\s*\)\s*(\.setZero\s*\(\s*\)|\.fill\s*\(\s*0(\.0)?\s*\)|\*=\s*0(\.0)?\s*;)', blk)
    zero_diag = re.search(r'\(\s*s\s*,\s*s\s*\)\s*=\s*0\.0\s*;', blk)
    if clears_row and clears_row.start() < sets_one.start():
        return True, ln
    if zero_diag and zero_diag.start() < sets_one.start():
        return False, ln
    raise X.ExtractError(cls + ': visitSum == 1 branch has an unknown shape')


def ctor_junk():
    src = X.strip_comments(X.read(DENSE))
    body, ln = func_body(src, r'MaximumLikelihoodModel<E>::MaximumLikelihoodModel\s*\([^)]*\)\s*:[^{]*\{', 'dense constructor')
    m = X.find1(r'\bsync\s*\(\s*\)\s*;', body, 'sync() call in the dense constructor')
    before = body[:m.start()]
    init = re.search(r'transitions_\s*\[\s*a\s*\]\s*\.\s*(setIdentity|setZero)\s*\(\s*\)', before)
    return (init is None), ln


def reward_guard():
    """True: copy guarded by checkDifferentSmall (tolerance).  False: unguarded copy, or guarded by an exact `!=`
    (which is the same assignment)."""
    src = X.strip_comments(X.read(SPARSE))
    tol = len(re.findall(r'if\s*\(\s*checkDifferentSmall\s*\(\s*rewards_\.coeff(Ref)?\s*\(\s*s\s*,\s*a\s*\)\s*,\s*experience_\.getReward\s*\(\s*s\s*,\s*a\s*\)\s*\)\s*\)', src))
    exact = len(re.findall(r'if\s*\(\s*rewards_\.coeff(Ref)?\s*\(\s*s\s*,\s*a\s*\)\s*!=\s*experience_\.getReward\s*\(\s*s\s*,\s*a\s*\)\s*\)', src))
    anyif = len(re.findall(r'if\s*\([^;{]*\)\s*rewards_\.coeffRef\s*\(\s*s\s*,\s*a\s*\)\s*=\s*experience_', src))
    plain = len(re.findall(r'rewards_\.coeffRef\s*\(\s*s\s*,\s*a\s*\)\s*=\s*experience_\.getReward\s*\(\s*s\s*,\s*a\s*\)\s*;', src))
    if plain != 2:
        raise X.ExtractError('sparse model: expected two reward copies, found %d' % plain)
    if anyif != tol + exact:
        raise X.ExtractError('sparse model: a reward copy is guarded by an unknown condition')
    if tol == 2:
        return True
    if tol == 0:
        return False
    raise X.ExtractError('sparse model: reward copies guarded inconsistently')


def sparse_generic_partial():
    """Does the element-wise (non-Eigen experience) branch of SparseMaximumLikelihoodModel::sync(s,a) leave unvisited
    cells untouched (True, as first read) or clear the row before writing (False)?"""
    src = X.strip_comments(X.read(SPARSE))
    body, ln = func_body(src, r'SparseMaximumLikelihoodModel<E>::sync\s*\(\s*const\s+size_t\s+s\s*,\s*const\s+size_t\s+a\s*\)\s*\{', 'SparseMaximumLikelihoodModel::sync(s,a)')
    m0 = X.find1(r'if\s+constexpr\s*\(\s*IsExperienceEigen<E>', body, 'if constexpr (IsExperienceEigen<E> …) in sparse sync(s,a)')
    # skip to the parenthesis closing the condition (it may contain a requires-expression with braces), then to the block
    i = body.index('(', m0.start()); depth = 0
    while True:
        if body[i] == '(':
            depth += 1
        elif body[i] == ')':
            depth -= 1
            if depth == 0:
                break
        i += 1
    j = body.index('{', i)
    eig, start = block_after(body, j)
    rest = body[start + len(eig):]
    m2 = X.find1(r'^\s*else\s*\{', rest, 'else branch of the Eigen test in sparse sync(s,a)')
    els, _ = block_after(rest, m2.end() - 1)
    loop = X.find1(r'for\s*\(', els, 'loop in the element-wise branch')
    guarded = re.search(r'if\s*\(\s*visits\s*>\s*0\s*\)', els)
    clears = re.search(r'row\s*\(\s*s\s*\)\s*(\.setZero\s*\(\s*\)|\*=\s*0(\.0)?\s*;)', els[:loop.start()])
    if clears or not guarded:
        return False, ln
    return True, ln


def gen_c07():
    d, dl = n1_clear(DENSE, 'MaximumLikelihoodModel')
    s, sl = n1_clear(SPARSE, 'SparseMaximumLikelihoodModel')
    j, jl = ctor_junk()
    g = reward_guard()
    sg, sgl = sparse_generic_partial()
    b = lambda x: 'true' if x else 'false'
    body = ['/- GENERATED by tools/extract_c07.py from the library source — do not edit. -/', 'namespace AITB.Gen.C07', '',
            f'/-- {DENSE}:{dl} — `visitSum == 1` branch of sync(s,a,s1) clears the whole row -/',
            f'def denseN1Clear : Bool := {b(d)}',
            f'/-- {SPARSE}:{sl} -/',
            f'def sparseN1Clear : Bool := {b(s)}',
            f'/-- {DENSE}:{jl} — constructor runs sync() over uninitialised transition storage -/',
            f'def denseCtorJunk : Bool := {b(j)}',
            f'/-- {SPARSE} — reward copied only under checkDifferentSmall -/',
            f'def sparseRewardGuard : Bool := {b(g)}',
            f'/-- {SPARSE}:{sgl} — element-wise branch of sync(s,a) writes only the visited cells -/',
            f'def sparseGenericPartial : Bool := {b(sg)}',
            '', 'end AITB.Gen.C07', '']
    X.write_if_changed('C07', '\n'.join(body))


GENERATORS = [gen_c07]
