#!/usr/bin/env python3
"""Entry point of every registered check:  tools/check.py Cxx --tier quick|thorough [--replay file]

Layers (DESIGN.md §1):  L1 Lean theorems (built + axiom-audited on every run),
L2 tie = translator-regenerated Gen modules + correspondence harness run against /repo's
current working tree, L3 Lean-evaluated checkers on the implementation's exact outputs.
Exit 0 = property held on everything explored; exit 1 + VIOLATION line otherwise."""
import re
import argparse, importlib, json, os, sys, time, collections

sys.path.insert(0, os.path.dirname(os.path.abspath(__file__)))
import common as C


def load_spec(pid):
    return importlib.import_module('props.' + pid.lower()).SPEC


def main():
    ap = argparse.ArgumentParser()
    ap.add_argument('prop')
    ap.add_argument('--tier', default=os.environ.get('VERIF_TIER', 'quick'))
    ap.add_argument('--replay')
    ap.add_argument('--limit', type=int)
    a = ap.parse_args()
    pid = a.prop.upper()
    spec = load_spec(pid)
    seed = int(os.environ.get('VERIF_SEED', '1'))
    tier = a.tier
    t0 = time.time()
    only = None
    if a.replay:
        rp = json.load(open(a.replay))
        seed, tier, only = rp.get('seed', seed), rp.get('tier', tier), rp.get('case')

    out_lines = []          # VIOLATION / KNOWN-FINDING lines
    notes = []
    broken = []             # broken obligations / correspondences (names)
    known = C.load_known()

    # ---- L2a translator
    ok, log = C.run_extract()
    if not ok:
        # a generator that fails breaks this property's tie only when one of the Gen modules it writes is imported
        # (transitively) by this property's Lean modules or driver module; errors without a module tag count for everyone
        need = C.gen_closure(spec.get('lean_modules', []) + ['Driver.' + pid])
        mine, others = [], []
        for ln in log.splitlines():
            m = re.match(r'EXTRACT-ERROR \S+ \[([\w,]*)\]:', ln)
            if m and m.group(1) and not (set(m.group(1).split(',')) & need):
                others.append(ln)
            elif ln.strip():
                mine.append(ln)
        if mine:
            broken.append({'what': 'translator', 'name': 'tools/extract.py', 'log': '\n'.join(mine)[-2000:]})
        if others:
            notes.append('translator errors in Gen modules this property does not import (not counted): ' + '; '.join(o[:160] for o in others))

    # ---- C++ builds from /repo's current working tree (sanitized library + harness)
    lib, exe = None, None
    probe_stats, probe_fails = collections.Counter(), []
    if spec.get('harness'):
        if spec.get('needs_lib', True):
            lib, blog = C.build_lib()
            if lib is None:
                broken.append({'what': 'library-build', 'name': 'sanitized build of /repo/src', 'log': blog[-3000:]})
        # compile probes: a template instantiation the property quantifies over must compile; when it does the harness
        # is built with the probe's define and exercises it, when it does not that is a failing "input" (component, kind)
        probe_flags = []
        for pr in spec.get('compile_probes', []):
            pok, perr = C.compile_probe(pr['src'])
            probe_stats['probe:' + pr['define'] + (':compiles' if pok else ':does_not_compile')] += 1
            if pok:
                probe_flags.append('-D' + pr['define'])
            else:
                probe_fails.append({'case': None, 'line': 'compile ' + pr['src'], 'verdict': 'fail %s %s %s' % (pr['component'], pr['kind'], perr),
                                    'component': pr['component'], 'kind': pr['kind']})
        if lib is not None or not spec.get('needs_lib', True):
            exe, hlog = C.build_harness(spec['harness'], lib, extra_flags=tuple(spec.get('harness_flags', ())) + tuple(probe_flags))
            if exe is None:
                broken.append({'what': 'harness-build', 'name': spec['harness'], 'log': hlog})
    if spec.get('post_build'):
        try:
            spec['post_build'](C, lib, exe)
        except Exception as e:  # a generator that cannot find its site is a broken tie
            broken.append({'what': 'translator', 'name': 'post_build: %s' % e})

    # ---- L1 Lean build + audit
    mods = spec.get('lean_modules', [])
    theorems = spec.get('theorems', [])
    targets = mods + ['aitb-driver']
    lok, llog = C.lean_build(targets)
    obligations = len(theorems) + len(spec.get('gen_obligations', []))
    discharged = 0
    audit = {'ok': False, 'problems': ['lean build failed'], 'axioms': {}}
    if lok:
        audit = C.lean_audit(mods, theorems + spec.get('gen_obligations', []))
        discharged = len([t for t in audit['axioms'] if all(x in C.ALLOWED_AXIOMS for x in audit['axioms'][t])])
        if not audit['ok']:
            broken.append({'what': 'proof-audit', 'name': '; '.join(audit['problems'])[:1500]})
    else:
        # find which module failed
        failed = re.findall(r'error: ([^\n]*)', llog)
        # the driver may still be usable from a previous build only if its own modules built
        broken.append({'what': 'proof-obligation', 'name': 'lake build ' + ' '.join(mods), 'log': llog[-3000:], 'errors': failed[:10]})
        # try to (re)build the driver alone so the search for a failing input can proceed
        C.lean_build(['aitb-driver'])
        # audit the modules that still build, so one re-opened obligation does not hide the others' status
        okmods = [m for m in mods if C.lean_build([m])[0]]
        if okmods and len(mods) > 1:
            audit = C.lean_audit(okmods, theorems + spec.get('gen_obligations', []))
            discharged = len([t for t in audit['axioms'] if all(x in C.ALLOWED_AXIOMS for x in audit['axioms'][t])])
    lc = None
    if tier == 'thorough' and lok and not a.replay:
        lc = {}
        for m in mods:
            okc, lg = C.leanchecker(m)
            lc[m] = okc
            if not okc:
                broken.append({'what': 'leanchecker', 'name': m, 'log': lg})

    # ---- L2b/L3 harness + driver
    stats = collections.Counter()
    verdict_counts = collections.Counter()
    samples, fails, diffs, crashes_all = [], [], [], []
    stats.update(probe_stats); fails += probe_fails
    n_eval = 0
    distinct = set()
    harness_done = True
    if spec.get('harness'):
        if exe is not None:
            to = spec.get('timeout', {}).get(tier, 600 if tier == 'quick' else 3600)
            lines, crashes, harness_done = C.run_harness(exe, seed, tier, to, case_timeout=spec.get('case_timeout', 60), only=only, limit=a.limit)
            crashes_all = crashes
            case_of = {}
            cur = None
            proto = []
            for ln in lines:
                if ln.startswith('#case '):
                    cur = int(ln.split()[1])
                elif ln.startswith('#stat '):
                    parts = ln.split()
                    stats[parts[1]] += int(parts[2]) if len(parts) > 2 else 1
                elif ln.startswith('#escaped '):
                    crashes_all.append({'case': cur, 'kind': 'escaped-exception', 'detail': ln})
                elif ln.startswith('#'):
                    pass
                elif ln.strip():
                    case_of[len(proto)] = cur
                    proto.append(ln)
            if spec.get('extra_cases'):
                for cid, ln in spec['extra_cases'](C, tier, seed):
                    case_of[len(proto)] = cid
                    proto.append(ln)
            verdicts, derr = C.run_driver(proto, timeout=spec.get('driver_timeout', {}).get(tier, 1800), jobs=spec.get('driver_jobs', 1)) if proto else ([], '')
            if verdicts is None:
                broken.append({'what': 'driver', 'name': derr})
                verdicts = []
            for i, v in enumerate(verdicts):
                n_eval += 1
                head = v.split(' ', 1)[0]
                verdict_counts[head] += 1
                toks = v.split()
                if head == 'ok':
                    for tg in toks[1:]:
                        stats['tag:' + tg] += 1
                    if 'trivial' not in toks[1:]:
                        distinct.add(C.sha(proto[i]))
                    if len(samples) < 4 and len(proto[i]) < 600 and (i % max(1, len(verdicts) // 4) == 0):
                        samples.append({'case': case_of[i], 'line': proto[i], 'verdict': v})
                elif head == 'skip':
                    stats['skip:' + (toks[1] if len(toks) > 1 else '')] += 1
                elif head == 'fail':
                    fails.append({'case': case_of[i], 'line': proto[i], 'verdict': v,
                                  'component': toks[1] if len(toks) > 1 else '?', 'kind': toks[2] if len(toks) > 2 else '?'})
                elif head == 'diff':
                    diffs.append({'case': case_of[i], 'line': proto[i], 'verdict': v,
                                  'component': toks[1] if len(toks) > 1 else '?'})
                else:
                    diffs.append({'case': case_of[i], 'line': proto[i], 'verdict': v, 'component': 'protocol'})
            # a property may bound the share of cases its driver sets aside as ill-conditioned: beyond it the
            # correspondence is no longer shown (a systematic change hiding behind the tolerance)
            msf = spec.get('max_skip_fraction')
            if msf is not None and n_eval and verdict_counts.get('skip', 0) > msf * n_eval:
                broken.append({'what': 'correspondence', 'name': 'skipped (ill-conditioned) cases: %d of %d exceed the allowed fraction %g'
                               % (verdict_counts.get('skip', 0), n_eval, msf)})
            if not harness_done and only is None:
                notes.append('harness stopped before finishing all cases (time budget)')

    # ---- decide
    violations = 0
    nrep = 0
    known_hit = {}
    seen_crash = set()
    # crashes: attributed to component named by the harness (#comp) or the property itself
    for cr in crashes_all:
        comp, kind = spec.get('crash_component', pid), cr['kind']
        # harness may classify crash components through a spec hook
        if spec.get('classify_crash'):
            comp, kind = spec['classify_crash'](cr)
        k = C.known_match(known, pid, comp, kind)
        if k:
            known_hit.setdefault(k['id'], k)
            continue
        sig = (comp, kind, cr.get('detail', '')[:80])
        if sig in seen_crash:
            violations += 1
            continue
        seen_crash.add(sig)
        nrep += 1
        p = C.write_replay(pid, seed, nrep, {'property': pid, 'seed': seed, 'tier': tier, 'case': cr['case'], 'kind': 'V1-' + cr['kind'],
                                             'component': comp, 'detail': cr['detail'], 'stderr_tail': cr.get('stderr_tail', '')})
        out_lines.append(f'VIOLATION property={pid} replay={p}')
        violations += 1
    seen_fail = set()
    for f in fails:
        k = C.known_match(known, pid, f['component'], f['kind'])
        if k:
            known_hit.setdefault(k['id'], k)
            continue
        key = (f['component'], f['kind'])
        if key in seen_fail:
            violations += 1
            continue
        seen_fail.add(key)
        nrep += 1
        p = C.write_replay(pid, seed, nrep, {'property': pid, 'seed': seed, 'tier': tier, 'case': f['case'], 'kind': 'V1',
                                             'component': f['component'], 'clause': f['kind'], 'line': f['line'], 'verdict': f['verdict']})
        out_lines.append(f'VIOLATION property={pid} replay={p}')
        violations += 1
    # correspondence differences / broken obligations: V1 if a failing input was found above, else V3
    found_input = violations > 0
    seen_diff = set()
    for d in diffs:
        if d['component'] in seen_diff:
            continue
        seen_diff.add(d['component'])
        broken.append({'what': 'correspondence', 'name': d['component'], 'case': d['case'], 'line': d['line'][:2000], 'verdict': d['verdict'][:2000]})
    if broken and not found_input:
        nrep += 1
        p = C.write_replay(pid, seed, nrep, {'property': pid, 'seed': seed, 'tier': tier, 'kind': 'V3', 'broken': broken,
                                             'note': 'a proof obligation or the model/implementation correspondence no longer checks; the search over %d generated cases found no input on which the property itself fails' % n_eval})
        out_lines.append(f'VIOLATION property={pid} replay={p} no-failing-input-found')
        violations += 1
    elif broken:
        notes.append('broken obligations/correspondences accompany the violation(s): ' + '; '.join(b['what'] + ':' + b['name'][:80] for b in broken))

    for kid, k in known_hit.items():
        print(f"KNOWN-FINDING: property={pid} {k['component']} {k['kind']}: {k['what']}")
    for l in out_lines:
        print(l)

    # ---- evidence
    tb = ['Lean 4.33.0 kernel', 'axioms: ' + ', '.join(sorted({x for v in audit['axioms'].values() for x in v}) or ['none']),
          'tools/extract.py (translator)', 'harness ' + str(spec.get('harness')) + ' + aitb-driver (correspondence, differential testing)',
          'IEEE double arithmetic read as exact rational arithmetic (modelled, not verified)'] + spec.get('trusted_base', [])
    cov = {
        'obligations': max(obligations, 1), 'discharged': discharged,
        'checker_cmd': f'cd lean && lake build {" ".join(mods)} && lake env lean <audit: #print axioms of {len(theorems)} theorems>',
        'trusted_base': tb,
        'theorems': theorems, 'axioms_by_theorem': audit['axioms'],
        'leanchecker': lc,
        'evaluations': n_eval, 'distinct_nontrivial': len(distinct),
        'rule': spec.get('rule', 'cases generated by the seeded harness; a case is non-trivial unless the driver tags it trivial; distinct by protocol-line hash'),
        'samples': samples or [{'note': 'no harness cases in this run'}],
        'verdicts': dict(verdict_counts), 'distribution': dict(stats),
        'crashes': [{k: v for k, v in c.items() if k != 'stderr_tail'} for c in crashes_all][:10],
        'known_findings_hit': sorted(known_hit),
        'broken': [b['what'] + ':' + b['name'][:200] for b in broken],
        'traces_validated_against_impl': n_eval,
        'modelled_not_verified': spec.get('modelled', []),
        'notes': notes,
    }
    ev = {'property_id': pid, 'tier': 'thorough' if tier == 'thorough' else 'quick', 'seed': seed, 'level': spec.get('level', 'proof'),
          'coverage': cov, 'assumptions': spec.get('assumptions', []), 'wall_s': round(time.time() - t0, 2), 'violations': violations}
    if not a.replay:
        C.write_evidence(pid, ev)
    print(f'[{pid}] tier={tier} seed={seed} theorems={discharged}/{obligations} cases={n_eval} ok={verdict_counts.get("ok",0)} fail={len(fails)} diff={len(diffs)} crashes={len(crashes_all)} known={len(known_hit)} wall={time.time()-t0:.1f}s')
    sys.exit(1 if violations else 0)


if __name__ == '__main__':
    main()
