#!/usr/bin/env python3
"""C03 translator plug-in: syntactic facts of the bound solvers the Lean theorems depend on.

  * the start value of the Blind-strategies iteration (`minCoeff` of the action's reward row) and of the
    FastInformedBound iteration (`maxCoeff` of all rewards), and the literal both clamp `1 - discount` with;
  * the reduction FastInformedBound applies over next actions (`rowwise().maxCoeff()`);
  * that SARSOP and GapMin start their lower bound from the *fast* blind iteration and their upper bound from FIB,
    that SARSOP's upper surface is read through `sawtoothInterpolation` / GapMin's through `LPInterpolation`;
  * the `checkEqualSmall(prob, 0.0)` skip of bestConservativeAction / bestPromisingAction.

The monotone-soundness theorems (`blind_fast_lower`, `fib_upper`) are stated for the start the *source* has
(`Gen.C03Src.blindStartIsMin`, `fibStartIsMax`, `fibInnerIsMax`); if a flag flips they no longer apply to the model the driver runs
and `Props/C03.lean` stops compiling (`src_*` obligations).  Unrecognised text is a broken tie (ExtractError)."""
import re
import extract as E

BLIND = 'include/AIToolbox/POMDP/Algorithms/BlindStrategies.hpp'
FIB = 'include/AIToolbox/POMDP/Algorithms/FastInformedBound.hpp'
UTILS = 'include/AIToolbox/POMDP/Utils.hpp'
SARSOP = 'include/AIToolbox/POMDP/Algorithms/SARSOP.hpp'
GAPMIN = 'include/AIToolbox/POMDP/Algorithms/GapMin.hpp'
PERSEUS = 'include/AIToolbox/POMDP/Algorithms/PERSEUS.hpp'

NUM = r'([0-9]+\.?[0-9]*(?:[eE][+-]?[0-9]+)?)'


def flat(rel):
    return re.sub(r'\s+', ' ', E.strip_comments(E.read(rel)))


def minmax(tok, what):
    if tok == 'minCoeff':
        return False
    if tok == 'maxCoeff':
        return True
    raise E.ExtractError(what + ': reduction not recognised: ' + tok)


def gen_c03src():
    b = flat(BLIND)
    m = E.find1(r'oldAlpha\.fill\(\s*ir\.row\(a\)\.(\w+)\(\)\s*/\s*std::max\(\s*' + NUM + r'\s*,\s*1\.0\s*-\s*m\.getDiscount\(\)\s*\)\s*\)\s*;', b,
                'BlindStrategies fast start')
    blind_is_min = not minmax(m.group(1), 'BlindStrategies fast start')
    blind_clamp = E.lit_to_rat(m.group(2))
    E.find1(r'else\s+oldAlpha\s*=\s*ir\.row\(a\)\s*;', b, 'BlindStrategies plain start')
    E.find1(r'newAlpha\s*=\s*ir\.row\(a\)\s*\+\s*\(\s*m\.getDiscount\(\)\s*\*\s*m\.getTransitionFunction\(a\)\s*\*\s*oldAlpha\s*\)\.transpose\(\)\s*;', b,
            'BlindStrategies step')

    f = flat(FIB)
    m1 = E.find1(r'else\s+max\s*=\s*ir\.(\w+)\(\)\s*;', f, 'FastInformedBound start reduction')
    fib_is_max = minmax(m1.group(1), 'FastInformedBound start')
    m2 = E.find1(r'oldQ\.fill\(\s*max\s*/\s*std::max\(\s*' + NUM + r'\s*,\s*1\.0\s*-\s*m\.getDiscount\(\)\s*\)\s*\)\s*;', f, 'FastInformedBound start fill')
    fib_clamp = E.lit_to_rat(m2.group(1))
    m3 = E.find1(r'newQ\.col\(a\)\s*\+=\s*\(\s*sosa\[a\]\[o\]\s*\*\s*oldQ\s*\)\.rowwise\(\)\.(\w+)\(\)\s*;', f, 'FastInformedBound inner reduction')
    fib_inner_max = minmax(m3.group(1), 'FastInformedBound inner reduction')
    E.find1(r'newQ\s*\*=\s*m\.getDiscount\(\)\s*;\s*newQ\s*\+=\s*ir\s*;', f, 'FastInformedBound discount/reward')

    if blind_clamp != fib_clamp:
        raise E.ExtractError('Blind and FIB clamp literals differ: the model has one `clamp`')

    u = flat(UTILS)
    # bestConservativeAction: what happens to an observation that cannot occur from the query belief
    mc = E.find1(r'bestConservativeAction\(const M & pomdp.*?return std::make_tuple\(id, v\);', u, 'bestConservativeAction body')
    cons = mc.group(0)
    if re.search(r'if\s*\(\s*checkEqualSmall\(\s*nextBeliefProbability\s*,\s*0\.0\s*\)\s*\)\s*continue\s*;', cons):
        cons_skips = True
    elif re.search(r'if\s*\(\s*checkDifferentSmall\(\s*nextBeliefProbability\s*,\s*0\.0\s*\)\s*\)\s*nextBelief\s*/=\s*nextBeliefProbability\s*;', cons) \
            and not re.search(r'continue\s*;', cons):
        cons_skips = False
    else:
        raise E.ExtractError('bestConservativeAction: treatment of zero-probability observations not recognised')
    mp = E.find1(r'bestPromisingAction\(const M & pomdp.*?return std::make_tuple\(bestAction, bestValue\);', u, 'bestPromisingAction body')
    E.find1(r'if\s*\(\s*checkEqualSmall\(\s*prob\s*,\s*0\.0\s*\)\s*\)\s*continue\s*;', mp.group(0), 'bestPromisingAction zero-probability skip')
    E.find1(r'immediateRewards\.col\(a\)\s*\+=\s*pomdp\.getDiscount\(\)\s*\*\s*pomdp\.getTransitionFunction\(a\)\s*\*\s*bpAlpha\s*;', u, 'bestConservativeAction alpha')
    E.find1(r'bpAlpha\s*\+=\s*pomdp\.getObservationFunction\(a\)\.col\(o\)\.cwiseProduct\(\s*it->values\s*\)\s*;', u, 'bestConservativeAction per-observation term')

    s = flat(SARSOP)
    g = flat(GAPMIN)
    for nm, src in (('SARSOP', s), ('GapMin', g)):
        E.find1(r'VList\s+lbVList\s*=\s*std::get<1>\(\s*bs\(\s*pomdp\s*,\s*true\s*\)\s*\)\s*;', src, nm + ': initial lower bound = fast blind strategies')
        E.find1(r'MDP::QFunction\s+ubQ\s*=\s*std::get<1>\(\s*fib\(\s*pomdp\s*\)\s*\)\s*;', src, nm + ': initial upper bound = FIB')
    E.find1(r'ubQ\(\s*s\s*,\s*maxAction\s*\)\s*=\s*node\.UB\s*;', s, 'SARSOP corner overwrite')
    E.find1(r'ub\s*=\s*std::get<0>\(\s*LPInterpolation\(\s*initialBelief\s*,\s*ubQ\s*,\s*ubV\s*\)\s*\)\s*;', g, 'GapMin ub = LPInterpolation(initialBelief)')

    # GapMin::makeNewPomdp: the two 1e-6 cut-offs (Props/C03Trunc.lean: `libCut_residual`, `anytimeT_sound`)
    mk = E.find1(r'GapMin::makeNewPomdp\(const M& model.*?return std::make_tuple\(', g, 'GapMin::makeNewPomdp body').group(0)
    gap_weight_cut = bool(re.search(r'if\s*\(\s*checkDifferentSmall\(\s*dist\[i\]\s*,\s*0\.0\s*\)\s*\)\s*m\.insert\(\s*index\s*,\s*i\s*\)\s*=\s*dist\[i\]\s*;', mk))
    if not gap_weight_cut and not re.search(r'm\.insert\(\s*index\s*,\s*i\s*\)\s*=\s*dist\[i\]\s*;', mk):
        raise E.ExtractError('GapMin::makeNewPomdp: how interpolation weights are stored not recognised')
    gap_mass_cut = bool(re.search(r'auto sum = helper\.sum\(\)\s*;\s*if\s*\(\s*checkDifferentSmall\(\s*sum\s*,\s*0\.0\s*\)\s*\)', mk))
    E.find1(r'Vector dist = std::get<1>\(\s*LPInterpolation\(\s*helper\s*,\s*ubQ\s*,\s*ubV\s*\)\s*\)\s*;', mk, 'GapMin::makeNewPomdp rows = LPInterpolation weights of the unnormalised successor')
    E.find1(r'R\.row\(\s*model\.getS\(\)\s*\+\s*b\s*\)\s*=\s*ubV\.first\[b\]\.transpose\(\)\s*\*\s*ir\s*;', mk, 'GapMin::makeNewPomdp belief rows of R = expected reward of that belief')
    core = flat('include/AIToolbox/Utils/Core.hpp')
    E.find1(r'inline bool checkEqualSmall\(const double a, const double b\)\s*\{\s*return\s*\(\s*std::fabs\(a - b\)\s*<=\s*equalToleranceSmall\s*\)\s*;\s*\}', core, 'checkEqualSmall')
    E.find1(r'inline bool checkDifferentSmall\(const double a, const double b\)\s*\{\s*return\s*!checkEqualSmall\(a,\s*b\)\s*;\s*\}', core, 'checkDifferentSmall')

    # Projecter: the reward share and the possible-observation cut (Props/C03Trunc.lean `pointBackup_cut_sound`; the driver's `backupVec` links)
    pj = flat('include/AIToolbox/POMDP/Algorithms/Utils/Projecter.hpp')
    E.find1(r'immediateRewards_\s*/=\s*static_cast<double>\(O\)\s*;', pj, 'Projecter: reward share R/|O|')
    E.find1(r'if\s*\(\s*!possibleObservations_\[a\]\[o\]\s*\)\s*\{\s*projections\[o\]\.emplace_back\(\s*immediateRewards_\.row\(a\)\s*,\s*a\s*,\s*VObs\(1,\s*0\)\s*\)\s*;\s*continue\s*;', pj,
            'Projecter: impossible observation = bare reward share')
    E.find1(r'projections\[o\]\.emplace_back\(\s*vproj\s*\*\s*discount_\s*\+\s*immediateRewards_\.row\(a\)\.transpose\(\)\s*,\s*a\s*,\s*VObs\(1,\s*i\)\s*\)\s*;', pj,
            'Projecter: projection = discount * T (O . v) + reward share')
    if re.search(r'if\s*\(\s*checkDifferentSmall\(\s*model_\.getObservationProbability\(s,\s*a,\s*o\)\s*,\s*0\.0\s*\)\s*\)\s*\{\s*possibleObservations_\[a\]\[o\]\s*=\s*true\s*;\s*break\s*;', pj):
        proj_obs_cut = True         # possible = some successor with probability above equalToleranceSmall
    elif re.search(r'if\s*\(\s*model_\.getObservationProbability\(s,\s*a,\s*o\)\s*>\s*0\.0\s*\)\s*\{\s*possibleObservations_\[a\]\[o\]\s*=\s*true\s*;\s*break\s*;', pj):
        proj_obs_cut = False        # possible = some successor with positive probability
    else:
        raise E.ExtractError('Projecter::computePossibleObservations: test not recognised')

    p = flat(PERSEUS)
    E.find1(r'v\[0\]\[0\]\.values\.fill\(\s*minReward\s*/\s*\(\s*1\.0\s*-\s*model\.getDiscount\(\)\s*\)\s*\)\s*;', p, 'PERSEUS start')

    bb = lambda x: 'true' if x else 'false'
    body = f"""/- GENERATED by tools/extract_c03.py — do not edit. -/
namespace AITB.Gen.C03Src

/-- {BLIND}: the fast start divides `ir.row(a).minCoeff()` (true) / `maxCoeff()` (false) -/
def blindStartIsMin : Bool := {bb(blind_is_min)}
/-- {FIB}: the default start divides `ir.maxCoeff()` (true) / `minCoeff()` (false) -/
def fibStartIsMax : Bool := {bb(fib_is_max)}
/-- {FIB}: reduction over next actions is `rowwise().maxCoeff()` -/
def fibInnerIsMax : Bool := {bb(fib_inner_max)}
/-- {UTILS}: bestConservativeAction leaves out (`continue`) observations of probability below 1e-6 from the query belief -/
def consSkips : Bool := {bb(cons_skips)}
/-- {GAPMIN} makeNewPomdp: interpolation weights `w` with `|w| <= equalToleranceSmall` are not stored -/
def gapminWeightCut : Bool := {bb(gap_weight_cut)}
/-- {GAPMIN} makeNewPomdp: the row of a successor whose mass is `<= equalToleranceSmall` is left empty -/
def gapminMassCut : Bool := {bb(gap_mass_cut)}
/-- Projecter::computePossibleObservations: an (action, observation) pair counts as possible only if some successor has probability ABOVE equalToleranceSmall (true) / above 0 (false) -/
def projecterObsCut : Bool := {bb(proj_obs_cut)}
/-- literal in `std::max(<clamp>, 1.0 - discount)` (same in both files) -/
def clamp : Rat := {E.lean_rat(blind_clamp)}

end AITB.Gen.C03Src
"""
    E.write_if_changed('C03Src', body)


GENERATORS = [gen_c03src]
