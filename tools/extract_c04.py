#!/usr/bin/env python3
"""Translator plug-in for C04: syntactic facts of the link-handling code the Lean model (AITB.Model.Plan / PlanOps)
is parameterised by -> lean/AITB/Gen/C04.lean.

  IncrementalPruning.hpp   the merge schedule: initial stepsize/diff, their per-pass multipliers, the sign test that
                           becomes crossSum's `order` argument, the front/back updates, the final move to slot 0
  IncrementalPruning.cpp   crossSum: which operand's links come first when `order` is true
  Policy.cpp               sampleAction(id,o,horizon): reads policy_[horizon+K][id].observations[o], then
                           policy_[horizon][newId].action
  Projecter.hpp            projected vectors are tagged VObs(1,i); the filler entry of an impossible observation VObs(1,K)

Whitespace / const / brace-style changes are tolerated; any other shape of these sites is a broken tie (ExtractError)."""
import re
import extract as X

IPH = 'include/AIToolbox/POMDP/Algorithms/IncrementalPruning.hpp'
IPC = 'src/POMDP/Algorithms/IncrementalPruning.cpp'
POL = 'src/POMDP/Policies/Policy.cpp'
PRJ = 'include/AIToolbox/POMDP/Algorithms/Utils/Projecter.hpp'

W = r'\s*'


def rx(s):
    """turn a readable token string into a whitespace-tolerant regex: single spaces match any whitespace run (or none)"""
    parts = [re.escape(t) for t in s.split(' ')]
    return W.join(parts)


def schedule():
    src = X.strip_comments(X.read(IPH))
    f = {}
    X.find1(rx('bool oddOld = O % 2 ;'), src, 'IncrementalPruning: bool oddOld = O % 2')
    m = X.find1(rx('int i , front = 0 , back = O - oddOld , stepsize =') + W + r'(-?\d+)' + W + rx(', diff =') + W + r'(-?\d+)' + W + rx(', elements = O ;'),
                src, 'IncrementalPruning: int i, front = 0, back = O - oddOld, stepsize = .., diff = .., elements = O')
    f['stepsize0'], f['diff0'] = int(m.group(1)), int(m.group(2))
    f['line'] = X.lineno(src, m.start())
    X.find1(rx('while ( elements > 1 )'), src, 'IncrementalPruning: while (elements > 1)')
    X.find1(rx('for ( i = front ; i != back ; i += stepsize )'), src, 'IncrementalPruning: for (i = front; i != back; i += stepsize)')
    m = X.find1(rx('projs[a][i] = crossSum ( projs[a][i] , projs[a][i + diff] , a ,') + W + r'(stepsize|diff)' + W + r'([<>])' + W + rx('0 ) ;'),
                src, 'IncrementalPruning: projs[a][i] = crossSum(projs[a][i], projs[a][i + diff], a, <sign test>)')
    f['orderWhenForward'] = (m.group(2) == '>')
    X.find1(rx('-- elements ;'), src, 'IncrementalPruning: --elements')
    X.find1(r'(const' + W + r')?bool' + W + rx('oddNew = elements % 2 ;'), src, 'IncrementalPruning: oddNew = elements % 2')
    X.find1(r'(const' + W + r')?int' + W + rx('tmp = back ;'), src, 'IncrementalPruning: tmp = back')
    X.find1(rx('back = front - ( oddNew ? 0 : stepsize ) ;'), src, 'IncrementalPruning: back = front - (oddNew ? 0 : stepsize)')
    X.find1(rx('front = tmp - ( oddOld ? 0 : stepsize ) ;'), src, 'IncrementalPruning: front = tmp - (oddOld ? 0 : stepsize)')
    m = X.find1(rx('stepsize *=') + W + r'(-?\d+)' + W + ';', src, 'IncrementalPruning: stepsize *= ..')
    f['stepMul'] = int(m.group(1))
    m = X.find1(rx('diff *=') + W + r'(-?\d+)' + W + ';', src, 'IncrementalPruning: diff *= ..')
    f['diffMul'] = int(m.group(1))
    X.find1(rx('oddOld = oddNew ;'), src, 'IncrementalPruning: oddOld = oddNew')
    X.find1(rx('if ( front != 0 )') + W + r'\{?' + W + rx('projs[a][0] = std::move ( projs[a][front] ) ;'), src,
            'IncrementalPruning: if (front != 0) projs[a][0] = std::move(projs[a][front])')
    return f


def cross_sum():
    src = X.strip_comments(X.read(IPC))
    ins = lambda: rx('obs.insert ( std::end ( obs ) , O') + r'(\d)' + rx('begin , O') + r'\d' + rx('end ) ;')
    m = X.find1(rx('if ( order ) {') + W + ins() + W + ins() + W + rx('} else {') + W + ins() + W + ins() + W + r'\}', src,
                'IncrementalPruning::crossSum: if (order) { insert, insert } else { insert, insert }')
    g = tuple(int(x) for x in m.groups())
    if g == (1, 2, 2, 1):
        first = True
    elif g == (2, 1, 1, 2):
        first = False
    else:
        raise X.ExtractError('IncrementalPruning::crossSum: unknown link concatenation order %s' % (g,))
    X.find1(rx('c.emplace_back ( std::move ( v ) , a , std::move ( obs ) ) ;'), src, 'crossSum: emplace_back(v, a, obs)')
    X.find1(r'auto' + W + rx('v = v1.values + v2.values ;'), src, 'crossSum: v = v1.values + v2.values')
    return first, X.lineno(src, m.start())


def policy():
    src = X.strip_comments(X.read(POL))
    m = X.find1(r'(const' + W + r')?auto' + W + '&' + W + rx('vlist = policy_[horizon') + W + r'\+' + W + r'(\d+)' + W + rx('] ;') + W +
                r'(const' + W + r')?size_t' + W + rx('newId = vlist[id].observations[o] ;') + W +
                r'(const' + W + r')?size_t' + W + rx('action = policy_[horizon][newId].action ;'), src,
                'Policy::sampleAction(id,o,horizon): vlist = policy_[horizon+K]; newId = vlist[id].observations[o]; action = policy_[horizon][newId].action')
    X.find1(rx('return std::make_tuple ( action , newId ) ;'), src[m.end():m.end() + 200], 'Policy::sampleAction(id,o,horizon): return (action, newId)')
    return int(m.group(2)), X.lineno(src, m.start())


def projecter():
    src = X.strip_comments(X.read(PRJ))
    m1 = X.find1(rx('projections[o].emplace_back ( immediateRewards_.row ( a ) , a , VObs ( 1 ,') + W + r'(\d+)' + W + rx(') ) ;'), src,
                 'Projecter: filler entry for an impossible observation')
    m2 = X.find1(rx('projections[o].emplace_back ( vproj * discount_ + immediateRewards_.row ( a ) .transpose ( ) , a , VObs ( 1 ,') + W + r'(\w+)' + W + rx(') ) ;'), src,
                 'Projecter: projected vector tagged with its parent id')
    X.find1(rx('for ( size_t i = 0 ; i < w.size ( ) ; ++i )'), src, 'Projecter: loop over the previous list with index i')
    if m2.group(1) != 'i':
        raise X.ExtractError('Projecter: projected vector is tagged with %r, not with the parent index i' % m2.group(1))
    X.find1(rx('immediateRewards_ /= static_cast<double> ( O ) ;'), src, 'Projecter: immediateRewards_ /= O')
    return int(m1.group(1)), X.lineno(src, m2.start())


WIT = 'include/AIToolbox/POMDP/Algorithms/Witness.hpp'
PBV = 'include/AIToolbox/POMDP/Algorithms/PBVI.hpp'
PER = 'include/AIToolbox/POMDP/Algorithms/PERSEUS.hpp'
LSU = 'include/AIToolbox/POMDP/Algorithms/LinearSupport.hpp'
UTH = 'include/AIToolbox/POMDP/Utils.hpp'
UTC = 'src/POMDP/Utils.cpp'


def _body_after(src, header_rx, what):
    """text of the brace block that follows the first match of header_rx"""
    m = X.find1(header_rx, src, what)
    i = src.index('{', m.end() - 1)
    depth, j = 0, i
    while j < len(src):
        if src[j] == '{':
            depth += 1
        elif src[j] == '}':
            depth -= 1
            if depth == 0:
                return src[i:j + 1], X.lineno(src, m.start())
        j += 1
    raise X.ExtractError('unbalanced braces after ' + what)


def _uses_of_v(body):
    """every use of the solver's value function variable `v` (as `v[...]`, `v.member`, `v =`, or bare), normalised"""
    uses = []
    for m in re.finditer(r'(?<![\w.:>])v\b(?!\w)', body):
        rest = body[m.end():]
        k = re.match(r'\s*(\[[^\]]*\](\s*\[[^\]]*\])*(\s*\.\s*\w+)*|\.\s*\w+(\s*\(\s*\))?|=(?!=)[^;]*)?', rest)
        uses.append(re.sub(r'\s+', '', 'v' + (k.group(0) if k else '')))
    return uses


def levels():
    """How each solver reads and grows its value function `v`.  The theorems ( *_consistent ) are about loops that project
    the LAST list of `v` and append the new list, and never touch a stored list again (links refer to the previous list
    by position: pruning / permuting it after it has been linked to would break every plan above it).  We pin the complete
    list of uses of `v` in each operator() body."""
    f = {}
    grow = ['v.emplace_back']
    conv = ['v[timestep-1]', 'v[timestep]']
    spec = {
        'IncrementalPruning': (IPH, rx('IncrementalPruning::operator() ( const M & model )'),
                               ['v=makeValueFunction(S)', 'v[timestep-1]'] + grow + conv + ['v']),
        'Witness': (WIT, rx('Witness::operator() ( const M & model )'),
                    ['v=makeValueFunction(S)', 'v[timestep-1].size', 'v[timestep-1]'] + grow + conv + ['v']),
        'LinearSupport': (LSU, rx('LinearSupport::operator() ( const M & model )'),
                          ['v=makeValueFunction(S)', 'v[timestep-1]'] + grow + conv + ['v']),
        'PERSEUS': (PER, rx('PERSEUS::operator() ( const M & model , const double minReward )'),
                    ['v=makeValueFunction(S)', 'v[0][0].values.fill', 'v[timestep-1]', 'v.emplace_back', 'v[timestep-1]'] + conv + ['v']),
    }
    for name, (path, hdr, want) in spec.items():
        src = X.strip_comments(X.read(path))
        body, line = _body_after(src, hdr, name + '::operator()')
        got = _uses_of_v(body)
        if got != want:
            raise X.ExtractError('%s::operator(): the uses of the value function `v` changed: %s (expected %s)' % (name, got, want))
        X.find1(rx('++ timestep ;'), body, name + ': ++timestep')
        f[name] = line
    # PBVI (warm start): which list is projected
    src = X.strip_comments(X.read(PBV))
    body, line = _body_after(src, rx('PBVI::operator() ( const M & model , const std::vector<Belief> & beliefs , ValueFunction v )'),
                             'PBVI::operator()(model, beliefs, v)')
    got = _uses_of_v(body)
    back = ['v.size()', 'v=makeValueFunction(S)', 'v.back()', 'v.emplace_back', 'v[v.size()-2]', 'v.size()', 'v.back()', 'v']
    idx = ['v.size()', 'v=makeValueFunction(S)', 'v[timestep-1]', 'v.emplace_back', 'v[v.size()-2]', 'v.size()', 'v.back()', 'v']
    if got == back:
        f['pbviBack'] = True
    elif got == idx:
        f['pbviBack'] = False
    else:
        raise X.ExtractError('PBVI::operator()(model, beliefs, v): the uses of `v` changed: %s' % got)
    X.find1(rx('if ( v.size ( ) == 0 )') + W + rx('v = makeValueFunction ( S ) ;'), body, 'PBVI: empty warm start replaced by makeValueFunction(S)')
    X.find1(rx('auto projs = projecter (') + W + r'v(\.back\(\)|\[timestep\s*-\s*1\])' + W + rx(') ;'), body, 'PBVI: auto projs = projecter(<previous list>)')
    f['PBVI'] = line
    body2, _ = _body_after(src, rx('PBVI::operator() ( const M & model , ValueFunction v )'), 'PBVI::operator()(model, v)')
    X.find1(rx('return operator() ( model , bGen ( beliefSize_ ) , v ) ;'), body2, 'PBVI::operator()(model, v) forwards v')
    return f


def witness_skip():
    src = X.strip_comments(X.read(WIT))
    body, line = _body_after(src, rx('Witness::operator() ( const M & model )'), 'Witness::operator()')
    X.find1(rx('auto best = crossSumBestAtBelief ( *witness , projections[a] , a ) ;'), body, 'Witness: best = crossSumBestAtBelief(*witness, projections[a], a)')
    push = X.find1(rx('U[a].push_back ( std::move ( best ) ) ;') + W + rx('lp.addOptimalRow ( U[a].back ( ) .values ) ;') + W +
                   rx('addVariations ( projections[a] , U[a].back ( ) ) ;'), body, 'Witness: U[a].push_back(best); addOptimalRow; addVariations')
    skip = re.search(rx('const auto sameValues = [&best] ( const VEntry & e ) { return e.values == best.values ; } ;') + W +
                     rx('if ( std::any_of ( std::begin ( U[a] ) , std::end ( U[a] ) , sameValues ) ) {') + W +
                     rx('agenda_.pop_back ( ) ; continue ; }') + W + rx('U[a].push_back'), body)
    if not skip and re.search(r'sameValues|any_of', body):
        raise X.ExtractError('Witness: the known-vector test before U[a].push_back has an unknown shape')
    X.find1(rx('else') + W + rx('agenda_.pop_back ( ) ;'), body, 'Witness: else agenda_.pop_back()')
    X.find1(rx('lp.findWitness ( agenda_.back ( ) )'), body, 'Witness: lp.findWitness(agenda_.back())')
    return bool(skip), line


def loops():
    """the decisions of the point-based loops the models copy (perseusLoop, pbviStep / pbviSelect, lsScan / lsLoop): pinned, so
    that a change of a comparison or of the call that assembles an entry is a broken tie even where the harness streams would
    need luck to see it"""
    per = X.strip_comments(X.read(PER))
    X.find1(rx('if ( !start ) {') + W + rx('findBestAtPoint ( b , rbegin , rend , &currentValue , unwrap ) ;') + W +
            rx('findBestAtPoint ( b , obegin , oend , &oldValue , unwrap ) ;') + W + rx('if ( currentValue >= oldValue ) continue ; }'), per,
            'PERSEUS::crossSum: skip a belief iff currentValue >= oldValue')
    X.find1(rx('result.emplace_back ( crossSumBestAtBelief ( b , projs ) ) ;'), per, 'PERSEUS::crossSum: result.emplace_back(crossSumBestAtBelief(b, projs))')
    X.find1(rx('result.erase ( extractDominated ( rbegin , rend , unwrap ) , std::end ( result ) ) ;'), per, 'PERSEUS::crossSum: final extractDominated')
    X.find1(rx('v.emplace_back ( crossSum ( projs , beliefs , v[timestep-1] ) ) ;'), per, 'PERSEUS: v.emplace_back(crossSum(projs, beliefs, v[timestep-1]))')
    pb = X.strip_comments(X.read(PBV))
    X.find1(rx('for ( const auto & b : bl )') + W + rx('result.emplace_back ( crossSumBestAtBelief ( b , projs , a ) ) ;'), pb,
            'PBVI::crossSum: one crossSumBestAtBelief(b, projs, a) per belief')
    X.find1(rx('result.erase ( extractDominated ( rbegin , rend , unwrap ) , rend ) ;'), pb, 'PBVI::crossSum: extractDominated')
    X.find1(rx('projs[a][0] = crossSum ( projs[a] , a , beliefs ) ;'), pb, 'PBVI: projs[a][0] = crossSum(projs[a], a, beliefs)')
    X.find1(rx('for ( const auto & belief : beliefs )') + W + rx('bound = extractBestAtPoint ( belief , begin , bound , end , unwrap ) ;') + W +
            rx('w.erase ( bound , std::end ( w ) ) ;'), pb, 'PBVI: per-belief extractBestAtPoint, then erase(bound, end)')
    ls = X.strip_comments(X.read(LSU))
    X.find1(rx('const auto [ it , inserted ] = allSupports.emplace ( crossSumBestAtBelief ( corner , projections ) ) ;') + W +
            rx('if ( inserted ) goodSupports.push_back ( *it ) ;'), ls, 'LinearSupport: corner supports')
    X.find1(rx('auto support = crossSumBestAtBelief ( vertex , projections , &trueValue ) ;'), ls, 'LinearSupport: support = crossSumBestAtBelief(vertex, projections, &trueValue)')
    X.find1(rx('if ( diff > tolerance_ && checkDifferentGeneral ( diff , tolerance_ ) )'), ls, 'LinearSupport: diff > tolerance_ && checkDifferentGeneral(diff, tolerance_)')
    X.find1(rx('if ( it->belief.dot ( best.support->values ) > it->currentValue )'), ls, 'LinearSupport: obsolete-vertex test')
    X.find1(rx('goodSupports.push_back ( *best.support ) ;'), ls, 'LinearSupport: goodSupports.push_back(*best.support)')
    X.find1(rx('v.emplace_back ( std::move ( goodSupports ) ) ;'), ls, 'LinearSupport: v.emplace_back(goodSupports)')
    pol = X.strip_comments(X.read(POL))
    X.find1(rx('const auto & vlist = policy_[horizon] ;') + W + rx('const auto bestMatch = findBestAtPoint ( b , std::begin ( vlist ) , std::end ( vlist ) , nullptr , unwrap ) ;') + W +
            rx('const size_t action = bestMatch->action ;') + W + rx('const size_t id = std::distance ( std::begin ( vlist ) , bestMatch ) ;'), pol,
            'Policy::sampleAction(b, horizon): best entry of policy_[horizon], its action and its position')
    X.find1(rx('const auto & vlist = policy_.back ( ) ;'), pol, 'Policy::sampleAction(b): policy_.back()')
    X.find1(rx('Base ( s , a ) , O ( o ) , H ( v.size ( ) -1 ) , policy_ ( v )'), pol, 'Policy(s,a,o,v): H = v.size()-1, policy_ = v')


def helpers():
    """makeValueFunction / makeVEntry / crossSumBestAtBelief: the shapes the model copies"""
    src = X.strip_comments(X.read(UTC))
    X.find1(rx('return ValueFunction ( 1 , VList ( 1 , { values , 0 , VObs ( ) } ) ) ;'), src, 'makeValueFunction: one list, one entry {zeros, 0, no links}')
    X.find1(rx('values.setZero ( ) ;'), src, 'makeValueFunction: values.setZero()')
    h = X.strip_comments(X.read(UTH))
    X.find1(rx('entry.observations.resize ( O ) ;'), h, 'makeVEntry: observations.resize(O)')
    X.find1(rx('out.values += bestMatch->values ;'), h, 'crossSumBestAtBelief: out.values += bestMatch->values')
    m = X.find1(rx('out.observations[o] = bestMatch->observations[') + W + r'(\w+)' + W + rx('] ;'), h, 'crossSumBestAtBelief: out.observations[o] = bestMatch->observations[0]')
    if m.group(1) != '0':
        raise X.ExtractError('crossSumBestAtBelief copies observations[%s], not the parent tag observations[0]' % m.group(1))
    m = X.find1(rx('if ( tmp') + W + r'(>=|>)' + W + rx('bestValue ) {') + W + rx('bestValue = tmp ;') + W + rx('std::swap ( entry , helper ) ;'), h,
                'crossSumBestAtBelief(all actions): if (tmp > bestValue) { bestValue = tmp; swap(entry, helper) }')
    X.find1(rx('helper.action = a ;') + W + rx('crossSumBestAtBelief ( b , projs[a] , &helper , &tmp ) ;'), h, 'crossSumBestAtBelief(all actions): helper.action = a')
    if m.group(1) != '>':
        raise X.ExtractError('crossSumBestAtBelief(all actions) replaces its entry on `tmp %s bestValue`; the model (crossSumBestAtBeliefAll) has `>`' % m.group(1))
    return True, X.lineno(h, m.start())


def gen_c04():
    f = schedule()
    first, cl = cross_sum()
    k, pl = policy()
    z, jl = projecter()
    lv = levels()
    wskip, wl = witness_skip()
    strict, hl = helpers()
    loops()
    b = lambda x: 'true' if x else 'false'
    body = ['/- GENERATED by tools/extract_c04.py from the library source — do not edit. -/', 'namespace AITB.Gen.C04', '',
            f'/-- {IPH}:{f["line"]} — initial `stepsize` -/', f'def stepsize0 : Int := {f["stepsize0"]}',
            f'/-- {IPH}:{f["line"]} — initial `diff` -/', f'def diff0 : Int := {f["diff0"]}',
            f'/-- {IPH} — `stepsize *= k` after every pass -/', f'def stepMul : Int := {f["stepMul"]}',
            f'/-- {IPH} — `diff *= k` after every pass -/', f'def diffMul : Int := {f["diffMul"]}',
            f'/-- {IPH} — crossSum is called with `order` = (the pass moves towards higher indices) -/',
            f'def orderWhenForward : Bool := {b(f["orderWhenForward"])}',
            f'/-- {IPC}:{cl} — with `order` true the links of the FIRST operand come first -/',
            f'def crossSumL1First : Bool := {b(first)}',
            f'/-- {POL}:{pl} — sampleAction(id,o,horizon) reads the link in policy_[horizon + k] -/',
            f'def policyLinkLevel : Nat := {k}',
            f'/-- {PRJ}:{jl} — link carried by the filler entry of an impossible observation -/',
            f'def projImpossibleLink : Nat := {z}',
            f'/-- {WIT}:{wl} — Witness pops the agenda instead of adding a vector whose values are already in U[a] -/',
            f'def witnessSkipsKnown : Bool := {b(wskip)}',
            f'/-- {PBV}:{lv["PBVI"]} — the warm-startable PBVI projects `v.back()` (false: `v[timestep-1]`) -/',
            f'def pbviProjectsBack : Bool := {b(lv["pbviBack"])}',
            f'/-- {UTH}:{hl} — the all-actions crossSumBestAtBelief replaces its entry on a STRICTLY larger value -/',
            f'def crossSumAllStrict : Bool := {b(strict)}',
            '/-- pinned (ExtractError otherwise): in IncrementalPruning / Witness / LinearSupport / PERSEUS ::operator() the value function `v` is only',
            '    created by makeValueFunction, read at [timestep-1] / [timestep], and grown by emplace_back — no stored list is modified after',
            f'    being linked to (IncrementalPruning.hpp:{lv["IncrementalPruning"]}, Witness.hpp:{lv["Witness"]}, LinearSupport.hpp:{lv["LinearSupport"]}, PERSEUS.hpp:{lv["PERSEUS"]}) -/',
            'def storedListsNeverModified : Bool := true',
            '', 'end AITB.Gen.C04', '']
    X.write_if_changed('C04', '\n'.join(body))


GENERATORS = [gen_c04]
