#!/usr/bin/env python3
"""Translator plug-in for C04: syntactic facts of the link-handling code the Lean model (AITB.Model.Plan / PlanOps)
is parameterised by -> lean/AITB/Gen/C04.lean.

  IncrementalPruning.hpp   the merge schedule: initial stepsize/diff, their per-pass multipliers, the sign test that
                           becomes crossSum's `order` argument, the front/back updates, the final move to slot 0
  IncrementalPruning.cpp   crossSum: which operand's links come first when `order` is true
  Policy.cpp               sampleAction(id,o,horizon): reads policy_[horizon+K][id].observations[o], then
                           policy_[horizon][newId].action
  Projecter.hpp            projected vectors are tagged VObs(1,i); the filler entry of an impossible observation VObs(1,K)

Whitespace / const / brace-style changes are tolerated; any other shape of these sites is a broken tie (ExtractError)."""
import re
import extract as X

IPH = 'include/AIToolbox/POMDP/Algorithms/IncrementalPruning.hpp'
IPC = 'src/POMDP/Algorithms/IncrementalPruning.cpp'
POL = 'src/POMDP/Policies/Policy.cpp'
PRJ = 'include/AIToolbox/POMDP/Algorithms/Utils/Projecter.hpp'

W = r'\s*'


def rx(s):
    """turn a readable token string into a whitespace-tolerant regex: single spaces match any whitespace run (or none)"""
    parts = [re.escape(t) for t in s.split(' ')]
    return W.join(parts)


def schedule():
    src = X.strip_comments(X.read(IPH))
    f = {}
    X.find1(rx('bool oddOld = O % 2 ;'), src, 'IncrementalPruning: bool oddOld = O % 2')
    m = X.find1(rx('int i , front = 0 , back = O - oddOld , stepsize =') + W + r'(-?\d+)' + W + rx(', diff =') + W + r'(-?\d+)' + W + rx(', elements = O ;'),
                src, 'IncrementalPruning: int i, front = 0, back = O - oddOld, stepsize = .., diff = .., elements = O')
    f['stepsize0'], f['diff0'] = int(m.group(1)), int(m.group(2))
    f['line'] = X.lineno(src, m.start())
    X.find1(rx('while ( elements > 1 )'), src, 'IncrementalPruning: while (elements > 1)')
    X.find1(rx('for ( i = front ; i != back ; i += stepsize )'), src, 'IncrementalPruning: for (i = front; i != back; i += stepsize)')
    m = X.find1(rx('projs[a][i] = crossSum ( projs[a][i] , projs[a][i + diff] , a ,') + W + r'(stepsize|diff)' + W + r'([<>])' + W + rx('0 ) ;'),
                src, 'IncrementalPruning: projs[a][i] = crossSum(projs[a][i], projs[a][i + diff], a, <sign test>)')
    f['orderWhenForward'] = (m.group(2) == '>')
    X.find1(rx('-- elements ;'), src, 'IncrementalPruning: --elements')
    X.find1(r'(const' + W + r')?bool' + W + rx('oddNew = elements % 2 ;'), src, 'IncrementalPruning: oddNew = elements % 2')
    X.find1(r'(const' + W + r')?int' + W + rx('tmp = back ;'), src, 'IncrementalPruning: tmp = back')
    X.find1(rx('back = front - ( oddNew ? 0 : stepsize ) ;'), src, 'IncrementalPruning: back = front - (oddNew ? 0 : stepsize)')
    X.find1(rx('front = tmp - ( oddOld ? 0 : stepsize ) ;'), src, 'IncrementalPruning: front = tmp - (oddOld ? 0 : stepsize)')
    m = X.find1(rx('stepsize *=') + W + r'(-?\d+)' + W + ';', src, 'IncrementalPruning: stepsize *= ..')
    f['stepMul'] = int(m.group(1))
    m = X.find1(rx('diff *=') + W + r'(-?\d+)' + W + ';', src, 'IncrementalPruning: diff *= ..')
    f['diffMul'] = int(m.group(1))
    X.find1(rx('oddOld = oddNew ;'), src, 'IncrementalPruning: oddOld = oddNew')
    X.find1(rx('if ( front != 0 )') + W + r'\{?' + W + rx('projs[a][0] = std::move ( projs[a][front] ) ;'), src,
            'IncrementalPruning: if (front != 0) projs[a][0] = std::move(projs[a][front])')
    return f


def cross_sum():
    src = X.strip_comments(X.read(IPC))
    ins = lambda: rx('obs.insert ( std::end ( obs ) , O') + r'(\d)' + rx('begin , O') + r'\d' + rx('end ) ;')
    m = X.find1(rx('if ( order ) {') + W + ins() + W + ins() + W + rx('} else {') + W + ins() + W + ins() + W + r'\}', src,
                'IncrementalPruning::crossSum: if (order) { insert, insert } else { insert, insert }')
    g = tuple(int(x) for x in m.groups())
    if g == (1, 2, 2, 1):
        first = True
    elif g == (2, 1, 1, 2):
        first = False
    else:
        raise X.ExtractError('IncrementalPruning::crossSum: unknown link concatenation order %s' % (g,))
    X.find1(rx('c.emplace_back ( std::move ( v ) , a , std::move ( obs ) ) ;'), src, 'crossSum: emplace_back(v, a, obs)')
    X.find1(r'auto' + W + rx('v = v1.values + v2.values ;'), src, 'crossSum: v = v1.values + v2.values')
    return first, X.lineno(src, m.start())


def policy():
    src = X.strip_comments(X.read(POL))
    m = X.find1(r'(const' + W + r')?auto' + W + '&' + W + rx('vlist = policy_[horizon') + W + r'\+' + W + r'(\d+)' + W + rx('] ;') + W +
                r'(const' + W + r')?size_t' + W + rx('newId = vlist[id].observations[o] ;') + W +
                r'(const' + W + r')?size_t' + W + rx('action = policy_[horizon][newId].action ;'), src,
                'Policy::sampleAction(id,o,horizon): vlist = policy_[horizon+K]; newId = vlist[id].observations[o]; action = policy_[horizon][newId].action')
    X.find1(rx('return std::make_tuple ( action , newId ) ;'), src[m.end():m.end() + 200], 'Policy::sampleAction(id,o,horizon): return (action, newId)')
    return int(m.group(2)), X.lineno(src, m.start())


def projecter():
    src = X.strip_comments(X.read(PRJ))
    m1 = X.find1(rx('projections[o].emplace_back ( immediateRewards_.row ( a ) , a , VObs ( 1 ,') + W + r'(\d+)' + W + rx(') ) ;'), src,
                 'Projecter: filler entry for an impossible observation')
    m2 = X.find1(rx('projections[o].emplace_back ( vproj * discount_ + immediateRewards_.row ( a ) .transpose ( ) , a , VObs ( 1 ,') + W + r'(\w+)' + W + rx(') ) ;'), src,
                 'Projecter: projected vector tagged with its parent id')
    X.find1(rx('for ( size_t i = 0 ; i < w.size ( ) ; ++i )'), src, 'Projecter: loop over the previous list with index i')
    if m2.group(1) != 'i':
        raise X.ExtractError('Projecter: projected vector is tagged with %r, not with the parent index i' % m2.group(1))
    X.find1(rx('immediateRewards_ /= static_cast<double> ( O ) ;'), src, 'Projecter: immediateRewards_ /= O')
    return int(m1.group(1)), X.lineno(src, m2.start())


def gen_c04():
    f = schedule()
    first, cl = cross_sum()
    k, pl = policy()
    z, jl = projecter()
    b = lambda x: 'true' if x else 'false'
    body = ['/- GENERATED by tools/extract_c04.py from the library source — do not edit. -/', 'namespace AITB.Gen.C04', '',
            f'/-- {IPH}:{f["line"]} — initial `stepsize` -/', f'def stepsize0 : Int := {f["stepsize0"]}',
            f'/-- {IPH}:{f["line"]} — initial `diff` -/', f'def diff0 : Int := {f["diff0"]}',
            f'/-- {IPH} — `stepsize *= k` after every pass -/', f'def stepMul : Int := {f["stepMul"]}',
            f'/-- {IPH} — `diff *= k` after every pass -/', f'def diffMul : Int := {f["diffMul"]}',
            f'/-- {IPH} — crossSum is called with `order` = (the pass moves towards higher indices) -/',
            f'def orderWhenForward : Bool := {b(f["orderWhenForward"])}',
            f'/-- {IPC}:{cl} — with `order` true the links of the FIRST operand come first -/',
            f'def crossSumL1First : Bool := {b(first)}',
            f'/-- {POL}:{pl} — sampleAction(id,o,horizon) reads the link in policy_[horizon + k] -/',
            f'def policyLinkLevel : Nat := {k}',
            f'/-- {PRJ}:{jl} — link carried by the filler entry of an impossible observation -/',
            f'def projImpossibleLink : Nat := {z}',
            '', 'end AITB.Gen.C04', '']
    X.write_if_changed('C04', '\n'.join(body))


GENERATORS = [gen_c04]
