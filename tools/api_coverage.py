#!/usr/bin/env python3
"""Public-API coverage of the harnesses (C10: every public operation is usable and free of UB).

PUBLIC API  = every function the clang-14 AST declares under namespace AIToolbox in a header of include/AIToolbox:
              free functions, public methods / constructors / conversion operators of public classes, function templates,
              and the public members of class templates.  Skipped: implicit / deleted / defaulted / pure functions,
              destructors, private and protected members (AccessSpecDecl tracking; default access from `tagUsed`), members of
              private nested classes, deduction guides, namespaces Impl / detail / Verif, the Python bindings (not under include/).
REFERENCED  = every harness/c*.cpp is compiled to an object (g++ -O0, unsanitized, with the SPEC's harness_flags and the
              defines of its compile probes) and `nm` lists the symbols the object refers to (U: library function called
              from code the harness odr-uses) or defines (W/T/t/V/u: inline / template code g++ emitted because the harness
              odr-uses it, directly or through other header code; at -O0 g++ emits every odr-used inline function).
              A strong definition (T: a NON-inline function defined in a header, emitted for the mere #include) counts only
              when a relocation of the object names it (readelf -r); such definitions are also reported in a NOTE, because a
              program with two TUs including that header does not link.
MATCHING    = non-template functions by mangled name (constructor variants C1/C2 unified); function templates and members
              of class templates by demangled qualified name with the template argument lists stripped + number of
              parameters + const qualifier; overloads this key cannot separate are separated by coarse parameter kinds
              (size_t / double / pointer / other, reference or not) when a symbol identifies one of them, else lumped (-v lists them).
IMPRECISION = virtual functions called through a base reference leave no symbol reference (flagged {virtual}; `~name in cNN`
              says which harness TEXT mentions the name); virtual members of an instantiated class template are emitted with
              its vtable, called or not; "referenced" includes code reached only through other header code the harness uses;
              functions called only from library .cpp code are NOT referenced (the harness object has no symbol for them).
uncovered   = public - referenced by any harness; tools/props/c10_api_accounted.py explains categories of them; what is
              neither covered nor accounted is printed under UNACCOUNTED.

Everything is cached under C.CACHE/apicov (per harness: nm output; per header: declarations; the result by include tree +
harness bytes), so a second call is instant.

    AITB_REPO=/var/tmp/rp/c10 AITB_CACHE=/var/tmp/aitb-cache python3 tools/api_coverage.py [-v] [--covered] [--json]
"""
import fnmatch, glob, importlib, json, os, re, subprocess, sys, threading, time
from concurrent.futures import ThreadPoolExecutor

sys.path.insert(0, os.path.dirname(os.path.abspath(__file__)))
import common as C

sys.setrecursionlimit(20000)

VERSION = 'apicov-7'
SYMS_VERSION = 'apicov-4'      # harness object symbols: independent of the declaration walker's version
WORK = os.path.join(C.CACHE, 'apicov')
INC = os.path.join(C.REPO, 'include')
SKIP_NS = {'Impl', 'detail', 'Detail', 'Verif'}
FN_KINDS = {'FunctionDecl', 'CXXMethodDecl', 'CXXConstructorDecl', 'CXXConversionDecl'}
CLASS_TEMPLATES = {'ClassTemplateDecl', 'ClassTemplatePartialSpecializationDecl'}


# ------------------------------------------------------------------------------------------------ declarations (clang AST)
def strip_targs(s):
    """remove balanced <...> template argument lists; `operator<`, `operator<<`, `operator<=>`, `operator->` ... are kept"""
    out, i, n, depth = [], 0, len(s), 0
    while i < n:
        if s.startswith('operator', i) and (i == 0 or not (s[i - 1].isalnum() or s[i - 1] == '_')) and depth == 0:
            j = i + 8
            m = re.match(r'\s*(<=>|<<=|>>=|<<|>>|<=|>=|<|>|->\*|->|\(\)|\[\])', s[j:])
            if m:
                out.append(s[i:j + m.end()]); i = j + m.end(); continue
        c = s[i]
        if c == '<':
            depth += 1
        elif c == '>' and depth:
            depth -= 1
        elif depth == 0:
            out.append(c)
        i += 1
    return ''.join(out)


_PRIM = {'unsignedlong': 'ul', 'size_t': 'ul', 'std::size_t': 'ul', 'unsignedint': 'u', 'unsigned': 'u', 'double': 'd', 'bool': 'b', 'int': 'i', 'long': 'l',
         'float': 'f', 'char': 'c'}


def type_cat(t):
    """coarse parameter category shared by clang's type spelling and the demangler's: primitive kind / pointer / other, + reference"""
    t = re.sub(r'\b(const|volatile)\b', '', t).strip()
    ref = ''
    while t.endswith('&'):
        ref = '&'; t = t[:-1].strip()
    if t.endswith('*'):
        return 'ptr' + ref
    return _PRIM.get(t.replace(' ', ''), 'X') + ref


def _params(node):
    ps, cats = [], []
    pack = False
    for ch in node.get('inner', []) or []:
        if ch.get('kind') == 'ParmVarDecl':
            t = ch.get('type', {}).get('qualType', '?')
            if ch.get('isParameterPack') or t.endswith('...'):
                pack = True
            ps.append(t)
            cats.append(type_cat(ch.get('type', {}).get('desugaredQualType') or t))
    if node.get('variadic'):
        pack = True
    return ps, pack, cats


def _unwrap(e):
    while isinstance(e, dict) and e.get('kind') in ('ImplicitCastExpr', 'ParenExpr', 'ExprWithCleanups', 'MaterializeTemporaryExpr', 'CXXBindTemporaryExpr',
                                                     'CXXConstructExpr', 'CXXFunctionalCastExpr', 'CXXStaticCastExpr') and len(e.get('inner', []) or []) == 1:
        e = e['inner'][0]
    return e


def _is_member_of_this(e):
    e = _unwrap(e)
    if not isinstance(e, dict) or e.get('kind') != 'MemberExpr':
        return False
    b = _unwrap((e.get('inner') or [{}])[0])
    return b.get('kind') == 'CXXThisExpr'


def body_kind(node):
    """'getter' for `{ return member_; }`, 'setter' for `{ member_ = parameter; }`, else ''"""
    body = [ch for ch in node.get('inner', []) or [] if ch.get('kind') == 'CompoundStmt']
    if not body:
        return ''
    st = body[0].get('inner', []) or []
    if len(st) != 1:
        return ''
    st = st[0]
    if st.get('kind') == 'ReturnStmt' and len(st.get('inner', []) or []) == 1 and _is_member_of_this(st['inner'][0]):
        return 'getter'
    st = _unwrap(st)
    if st.get('kind') == 'BinaryOperator' and st.get('opcode') == '=' and len(st.get('inner', [])) == 2:
        l, r = st['inner']
        r = _unwrap(r)
        if _is_member_of_this(l) and r.get('kind') == 'DeclRefExpr' and r.get('referencedDecl', {}).get('kind') == 'ParmVarDecl':
            return 'setter'
    return ''


class Walker:
    def __init__(self):
        self.cur_file = ''
        self.out = {}
        self.ids = {}
        self.noninline = {}

    def files(self, obj):
        """clang prints `file` only when it changes: resolve the file of every node in document order"""
        if isinstance(obj, dict):
            for k, v in obj.items():
                if k == 'file':
                    self.cur_file = v
                elif k == 'includedFrom':
                    continue          # names the includer, not the location
                elif k == 'loc':
                    self.files(v)
                    obj_file = self.cur_file
                elif isinstance(v, (dict, list)):
                    self.files(v)
            if 'loc' in obj:
                obj['_file'] = obj_file
        elif isinstance(obj, list):
            for v in obj:
                self.files(v)

    def fn(self, node, scope, templated, tparams_pack=False):
        if node.get('isImplicit') or node.get('explicitlyDeleted') or node.get('explicitlyDefaulted') or node.get('pure'):
            return
        f = node.get('_file', '')
        if not f.startswith(os.path.join(INC, 'AIToolbox')):
            return
        name = strip_targs(node.get('name', ''))
        if not name:
            return
        ps, pack, cats = _params(node)
        qt = node.get('type', {}).get('qualType', '')
        tail = qt[qt.rfind(')') + 1:] if ')' in qt else ''
        const = bool(re.search(r'\bconst\b', tail))
        q = '::'.join(scope + [name])
        mn = node.get('mangledName') if not templated else None
        sig = q + '(' + ', '.join(ps) + ')' + (' const' if const else '')
        key = mn or ('T:' + sig)
        has_body = any(ch.get('kind') in ('CompoundStmt', 'CXXTryStmt') for ch in node.get('inner', []))
        rec = self.out.setdefault(key, {'q': q, 'sig': sig, 'n': len(ps), 'const': const, 'pack': pack, 'cats': cats, 'mangled': mn, 'templated': bool(templated),
                                        'file': os.path.relpath(f, INC), 'line': node.get('loc', {}).get('line') or node.get('loc', {}).get('expansionLoc', {}).get('line'),
                                        'cls': '::'.join(scope), 'body': False, 'trivial': '', 'virtual': bool(node.get('virtual')),
                                        'kind': node.get('kind')})
        rec['body'] = rec['body'] or has_body
        if has_body:
            rec['trivial'] = body_kind(node)
        if node.get('id'):
            self.ids[node['id']] = key

    def record(self, node, scope, templated, public):
        """children of a class definition, with access tracking"""
        access_public = node.get('tagUsed') in ('struct', 'union')
        for ch in node.get('inner', []) or []:
            if not isinstance(ch, dict):
                continue
            k = ch.get('kind')
            if k == 'AccessSpecDecl':
                access_public = ch.get('access') == 'public'
                continue
            if k == 'FriendDecl':
                # hidden friends are namespace-scope functions
                for g in ch.get('inner', []) or []:
                    if g.get('kind') == 'FunctionDecl' and public:
                        self.fn(g, self.ns_of(scope), templated)
                    elif g.get('kind') == 'FunctionTemplateDecl' and public:
                        self.ftemplate(g, self.ns_of(scope))
                continue
            self.member(ch, scope, templated, public and access_public)

    def ns_of(self, scope):
        return scope[:self.ns_depth]

    def ftemplate(self, node, scope):
        for g in node.get('inner', []) or []:
            if g.get('kind') in FN_KINDS:
                self.fn(g, scope, True)
                return       # the following children are the instantiations seen in this TU

    def ctemplate(self, node, scope, public):
        for g in node.get('inner', []) or []:
            if g.get('kind') == 'CXXRecordDecl':
                self.cls(g, scope, True, public)
                return

    def cls(self, node, scope, templated, public):
        name = node.get('name', '')
        if not name or (not node.get('completeDefinition', False) and not node.get('inner')):
            return
        self.record(node, scope + [strip_targs(name)], templated, public)

    def member(self, ch, scope, templated, public):
        k = ch.get('kind')
        if k in FN_KINDS:
            if public:
                self.fn(ch, scope, templated)
        elif k == 'FunctionTemplateDecl':
            if public:
                self.ftemplate(ch, scope)
        elif k == 'CXXRecordDecl':
            self.cls(ch, scope, templated, public)
        elif k in CLASS_TEMPLATES:
            if k == 'ClassTemplateDecl':
                self.ctemplate(ch, scope, public)
            else:
                self.cls(ch, scope, True, public)

    def namespace(self, node, scope):
        name = node.get('name', '')
        if name in SKIP_NS:
            return
        sc = scope + [name] if name else scope + ['(anonymous namespace)']
        self.ns_depth = len(sc)
        for ch in node.get('inner', []) or []:
            if not isinstance(ch, dict):
                continue
            k = ch.get('kind')
            if k in FN_KINDS and ch.get('mangledName') and not ch.get('inline') and not ch.get('constexpr') and ch.get('storageClass') != 'static' \
                    and any(x.get('kind') == 'CompoundStmt' for x in ch.get('inner', []) or []) and ch.get('_file', '').startswith(os.path.join(INC, 'AIToolbox')):
                # a non-template, non-inline function DEFINED at namespace scope of a header (free function, out-of-line member,
                # explicit specialisation of a member): every TU that includes the header emits a strong definition
                self.noninline[ch['mangledName']] = '%s:%s' % (os.path.relpath(ch['_file'], INC), ch.get('loc', {}).get('line', '?'))
            if k == 'NamespaceDecl':
                self.namespace(ch, sc)
                self.ns_depth = len(sc)
            elif 'parentDeclContextId' in ch:
                # out-of-line definition of a member: declared (with its access) inside the class; only its body is of interest
                g = ch
                if k == 'FunctionTemplateDecl':
                    g = next((x for x in ch.get('inner', []) or [] if x.get('kind') in FN_KINDS), {})
                key = self.ids.get(g.get('previousDecl'))
                if key and any(x.get('kind') == 'CompoundStmt' for x in g.get('inner', []) or []):
                    self.out[key]['body'] = True
                    self.out[key]['trivial'] = body_kind(g)
                continue
            elif k == 'ClassTemplateSpecializationDecl':
                # explicit specialisation written in the header (implicit instantiations hang below their ClassTemplateDecl):
                # a plain class whose members carry mangled names
                if ch.get('completeDefinition'):
                    args = [g.get('type', {}).get('qualType', '?') for g in ch.get('inner', []) or [] if g.get('kind') == 'TemplateArgument']
                    self.record(ch, sc + [ch.get('name', '') + '<' + ', '.join(args) + '>'], False, True)
            else:
                self.member(ch, sc, False, True)


def dump_header(rel):
    """declarations of one header (cached by include tree hash + header name)"""
    cache = os.path.join(WORK, 'hdr-' + C.sha(VERSION, C.include_hash(), rel) + '.json')
    if os.path.exists(cache):
        return json.load(open(cache))
    src = '#include <%s>\n' % rel
    p = subprocess.run(['clang++-14', '-std=c++20', '-fsyntax-only', '-w', '-D' + C.GUARD, '-I' + INC, '-I/usr/include/eigen3',
                        '-Xclang', '-ast-dump=json', '-Xclang', '-ast-dump-filter=AIToolbox', '-x', 'c++', '-'],
                       input=src, stdout=subprocess.PIPE, stderr=subprocess.DEVNULL, text=True)
    w = Walker()
    dec = json.JSONDecoder()
    txt = p.stdout
    i, n = 0, len(txt)
    ndocs = 0
    while i < n:
        while i < n and txt[i] != '{':
            i += 1
        if i >= n:
            break
        try:
            obj, j = dec.raw_decode(txt, i)
        except json.JSONDecodeError:
            break
        i = j
        ndocs += 1
        w.files(obj)
        # the filter prints each outermost match: namespace AIToolbox blocks (plus out-of-namespace matches such as
        # specialisations of std:: templates, which are not API)
        if obj.get('kind') == 'NamespaceDecl' and obj.get('name') == 'AIToolbox':
            w.namespace(obj, [])
    res = {'rc': p.returncode, 'docs': ndocs, 'decls': w.out, 'noninline': w.noninline}
    if ndocs:                 # an empty dump is a transient failure (clang killed ...): do not remember it
        tmp = cache + '.tmp%d' % os.getpid()
        json.dump(res, open(tmp, 'w'))
        os.replace(tmp, cache)
    return res


def _dump_header_subprocess(rel):
    """JSON decoding holds the GIL: run each header in its own interpreter"""
    cache = os.path.join(WORK, 'hdr-' + C.sha(VERSION, C.include_hash(), rel) + '.json')
    if not os.path.exists(cache):
        subprocess.run([sys.executable, os.path.abspath(__file__), '--dump-header', rel], stdout=subprocess.DEVNULL, stderr=subprocess.DEVNULL)
    if os.path.exists(cache):
        return json.load(open(cache))
    return {'rc': 1, 'docs': 0, 'decls': {}}


def public_api():
    """{key: record} of every public function declared by the headers"""
    os.makedirs(WORK, exist_ok=True)
    C.include_hash()
    headers = []
    for dp, dn, fn in sorted(os.walk(os.path.join(INC, 'AIToolbox'))):
        for f in sorted(fn):
            if f.endswith('.hpp'):
                headers.append(os.path.relpath(os.path.join(dp, f), INC))
    decls, bad = {}, []
    public_api.noninline = {}
    with ThreadPoolExecutor(max_workers=C.NPROC) as ex:
        for rel, res in zip(headers, ex.map(_dump_header_subprocess, headers)):
            public_api.noninline.update(res.get('noninline', {}))
            if not res['docs']:
                bad.append(rel)       # (rc != 0 alone is not fatal: clang-14 lacks P0960 and rejects some emplace_back calls
                                      #  inside function bodies of the POMDP headers; the declarations are still dumped)
            for k, rec in res['decls'].items():
                r = decls.setdefault(k, rec)
                r['body'] = r['body'] or rec['body']
                r['trivial'] = r.get('trivial') or rec.get('trivial', '')
    _src_trivial(decls)
    return decls, headers, bad


_GET = re.compile(r'\b(\w+)::(\w+)\s*\(\s*\)\s*const\s*(?:noexcept\s*)?\{\s*return\s+([A-Za-z_]\w*)\s*;\s*\}')
_SET = re.compile(r'\b(\w+)::(\w+)\s*\(\s*(?:const\s+)?[\w:<>]+(?:\s*&)?\s+(\w+)\s*\)\s*\{\s*([A-Za-z_]\w*)\s*=\s*(\w+)\s*;\s*\}')


def _src_trivial(decls):
    """members defined in src/*.cpp: `T C::f() const { return m_; }` is a getter, `void C::f(T x) { m_ = x; }` a setter (textual)"""
    got = {}
    for f in C.repo_sources():
        txt = re.sub(r'//[^\n]*', '', open(f, errors='replace').read())
        for m in _GET.finditer(txt):
            got[(m.group(1), m.group(2), 0)] = 'getter'
        for m in _SET.finditer(txt):
            if m.group(3) == m.group(5):
                got[(m.group(1), m.group(2), 1)] = 'setter'
    for rec in decls.values():
        if not rec.get('trivial') and not rec['body']:
            parts = rec['q'].split('::')
            if len(parts) >= 2:
                rec['trivial'] = got.get((strip_targs(parts[-2]), parts[-1], rec['n']), '')


# ------------------------------------------------------------------------------------------------ harness objects
def harness_specs():
    """{harness path relative to VERIF: (flags, [probe dicts])} from the SPECs; harnesses without a SPEC get no flags"""
    out = {}
    here = os.path.join(C.VERIF, 'tools', 'props')
    for f in sorted(glob.glob(os.path.join(here, 'c[0-9][0-9].py'))):
        try:
            sp = importlib.import_module('props.' + os.path.splitext(os.path.basename(f))[0]).SPEC
        except Exception:
            continue
        if sp.get('harness'):
            flags = [x for x in sp.get('harness_flags', ()) if not x.startswith('-Wl,')]
            out[sp['harness']] = (flags, list(sp.get('compile_probes', [])))
    return out


_IH = None
_LOCKS, _LOCKS_GUARD = {}, threading.Lock()


def _ih():
    global _IH
    if _IH is None:
        _IH = C.include_hash()
    return _IH


def _common_bytes():
    return [C.file_bytes(p) for p in sorted(glob.glob(os.path.join(C.VERIF, 'harness', 'common', '*')))]


def harness_syms(rel, flags=()):
    """nm output (type, mangled name) of the AIToolbox symbols of the harness object; (None, log) when it does not compile"""
    os.makedirs(WORK, exist_ok=True)
    src = os.path.join(C.VERIF, rel)
    key = C.sha(SYMS_VERSION, _ih(), ' '.join(flags), C.file_bytes(src), *_common_bytes())
    cache = os.path.join(WORK, key + '.syms')
    with _LOCKS_GUARD:
        lock = _LOCKS.setdefault(key, threading.Lock())
    with lock:          # a compile probe is also a harness/c*.cpp of its own: compile it once
        return _harness_syms(src, flags, key, cache)


def _harness_syms(src, flags, key, cache):
    if os.path.exists(cache):
        txt = open(cache).read()
        if txt.startswith('#FAILED'):
            return None, txt
        return [tuple(l.split(' ', 1)) for l in txt.split('\n') if l], ''
    obj = os.path.join(WORK, key + '.%d.%d.o' % (os.getpid(), threading.get_ident()))
    cmd = [C.CXX, '-std=c++20', '-O0', '-c', '-w', '-D' + C.GUARD, '-I' + INC, '-I/usr/include/eigen3', '-I' + os.path.join(C.VERIF, 'harness')] + list(flags) + [src, '-o', obj]
    rc, out = C.sh(cmd, timeout=1500)
    tmp = cache + '.tmp%d.%d' % (os.getpid(), threading.get_ident())
    if rc != 0:
        if os.path.exists(obj):
            os.remove(obj)
        txt = '#FAILED rc=%d\n' % rc + '\n'.join([l for l in out.split('\n') if 'error' in l][:5])
        open(tmp, 'w').write(txt); os.replace(tmp, cache)
        return None, txt
    rc, out = C.sh(['nm', obj], timeout=300)
    syms = []
    for ln in out.split('\n'):
        parts = ln.split()
        if len(parts) >= 2 and len(parts[-2]) == 1 and 'AIToolbox' in parts[-1]:
            syms.append((parts[-2], parts[-1]))
    # a strong definition (T) comes from a NON-inline function defined in a header: g++ emits it for the mere #include; it is
    # referenced only when some relocation names it (pseudo type R)
    strong = {s for t, s in syms if t == 'T'}
    if strong:
        rc, out = C.sh(['readelf', '-rW', obj], timeout=300)
        rel = set()
        for ln in out.split('\n'):
            parts = ln.split()
            if len(parts) >= 5 and parts[4] in strong:
                rel.add(parts[4])
        syms += [('R', x) for x in sorted(rel)]
    os.remove(obj)
    open(tmp, 'w').write('\n'.join(t + ' ' + s for t, s in syms)); os.replace(tmp, cache)
    return syms, ''


def all_harness_syms():
    specs = harness_specs()
    files = sorted(os.path.relpath(p, C.VERIF) for p in glob.glob(os.path.join(C.VERIF, 'harness', 'c*.cpp')))

    def job(rel):
        flags, probes = specs.get(rel, ((), ()))
        flags = list(flags)
        for pr in probes:
            ps, _ = harness_syms(pr['src'])
            if ps is not None:
                flags.append('-D' + pr['define'])
        return rel, harness_syms(rel, tuple(flags))
    res, failed = {}, {}
    with ThreadPoolExecutor(max_workers=C.NPROC) as ex:
        for rel, (syms, log) in ex.map(job, files):
            if syms is None:
                failed[rel] = log
            else:
                res[rel] = syms
    return res, failed


# ------------------------------------------------------------------------------------------------ matching
def norm_mangled(m):
    """constructor / destructor variants: complete-object, base-object and allocating constructors are one declaration"""
    return re.sub(r'(?<=[0-9A-Za-z_])C[123](?=E)', 'C1', m)


def split_top(s, sep=','):
    out, depth, cur = [], 0, []
    i, n = 0, len(s)
    while i < n:
        c = s[i]
        if c in '<([{':
            depth += 1
        elif c in '>)]}':
            depth -= 1
        if c == sep and depth == 0:
            out.append(''.join(cur)); cur = []
        else:
            cur.append(c)
        i += 1
    if cur or out:
        out.append(''.join(cur))
    return out


def parse_demangled(d):
    """'ret ns::Cls<Args>::name<Args>(params) const [clone]' -> (qualified name without template arguments, #params, const) or None"""
    d = re.sub(r'\s*\[clone [^\]]*\]', '', d).replace('[abi:cxx11]', '')
    if not d.endswith(')') and not re.search(r'\)\s*(const|volatile|&|&&|\s)*$', d):
        return None
    # parameter list: the last top-level (...) group
    end = d.rfind(')')
    tail = d[end + 1:]
    depth, i = 0, end
    while i >= 0:
        c = d[i]
        if c == ')':
            depth += 1
        elif c == '(':
            depth -= 1
            if depth == 0:
                break
        i -= 1
    if i <= 0:
        return None
    params = d[i + 1:end].strip()
    prefix = d[:i]
    return _finish(prefix, params, tail)


def _finish(prefix, params, tail):
    p = strip_targs(prefix)
    # drop the return type of function templates: the name is what follows the last top-level blank
    depth, cut = 0, -1
    i, n = 0, len(p)
    while i < n:
        c = p[i]
        if c in '([{':
            depth += 1
        elif c in ')]}':
            depth -= 1
        elif c == ' ' and depth == 0:
            if p.startswith('operator', max(0, i - 8)) and p[i - 8:i] == 'operator':
                pass          # 'operator new', conversion 'operator unsigned long'
            else:
                cut = i
        i += 1
    name = p[cut + 1:]
    if 'AIToolbox' not in name:
        return None
    pl = [] if params in ('', 'void') else split_top(params)
    return name, len(pl), bool(re.search(r'\bconst\b', tail)), tuple(type_cat(x) for x in pl)


def demangle(names):
    if not names:
        return {}
    p = subprocess.run(['c++filt'], input='\n'.join(names) + '\n', stdout=subprocess.PIPE, text=True)
    out = p.stdout.split('\n')
    return dict(zip(names, out))


def parsed_name(d):
    r = parse_demangled(d) if d else None
    return r[0] if r else None


def parse_symbol(d):
    """demangled symbol -> (qualified name, nparams, const) ; copes with operator() whose own '()' is not the parameter list"""
    r = parse_demangled(d)
    return r


# ------------------------------------------------------------------------------------------------ coverage
def coverage(use_cache=True):
    os.makedirs(WORK, exist_ok=True)
    files = sorted(glob.glob(os.path.join(C.VERIF, 'harness', 'c*.cpp')))
    specs = harness_specs()
    key = C.sha(VERSION, _ih(), C.file_bytes(os.path.abspath(__file__)), json.dumps({k: v[0] for k, v in specs.items()}, sort_keys=True),
                *([C.file_bytes(p) for p in files] + _common_bytes()))
    cache = os.path.join(WORK, 'result-' + key + '.json')
    if use_cache and os.path.exists(cache):
        return json.load(open(cache))
    t0 = time.time()
    with ThreadPoolExecutor(max_workers=2) as ex:
        fa = ex.submit(public_api)
        fh = ex.submit(all_harness_syms)
        decls, headers, bad = fa.result()
        syms, failed = fh.result()
    allsyms = sorted({s for v in syms.values() for _, s in v})
    dem = demangle(allsyms)
    by_mangled, by_name = {}, {}
    strong_defs = set()
    for h, v in list(syms.items()):
        rel = {s for t, s in v if t == 'R'}
        strong_defs |= {dem.get(s, s) for t, s in v if t == 'T' and (parsed_name(dem.get(s, '')) or '').startswith('AIToolbox::')}
        syms[h] = v = [(t, s) for t, s in v if t != 'R' and (t != 'T' or s in rel)]
        for t, s in v:
            by_mangled.setdefault(norm_mangled(s), set()).add(h)
    parsed = {}
    for s, d in dem.items():
        r = parse_symbol(d)
        if r:
            parsed[s] = r
    for h, v in syms.items():
        for t, s in v:
            r = parsed.get(s)
            if r:
                by_name.setdefault(r[0], {}).setdefault((r[1], r[2]), {}).setdefault(r[3], set()).add(h)
    # templated declarations: (qualified name, arity, const); overloads that this key cannot tell apart are separated by the
    # coarse parameter categories when a symbol positively identifies one of them, else every overload of the group is marked
    tdecls, thits = {}, {}
    for k, rec in decls.items():
        if not rec['mangled']:
            tdecls.setdefault(rec['q'], []).append(k)
    for q, d in by_name.items():
        for (n, const), bycat in d.items():
            group = [k for k in tdecls.get(q, []) if (const == decls[k]['const'] or decls[k]['kind'] == 'CXXConstructorDecl')
                     and (n == decls[k]['n'] or (decls[k]['pack'] and n >= decls[k]['n'] - 1))]
            for cats, hh in bycat.items():
                exact = [k for k in group if not decls[k]['pack'] and tuple(decls[k].get('cats', ())) == cats]
                for k in (exact if exact and len(group) > 1 else group):
                    thits.setdefault(k, set()).update(hh)
    covered, uncovered, by_harness = {}, [], {}
    for k, rec in decls.items():
        hs = by_mangled.get(norm_mangled(rec['mangled']), set()) if rec['mangled'] else thits.get(k, set())
        if hs:
            covered[k] = sorted(hs)
            for h in hs:
                by_harness[h] = by_harness.get(h, 0) + 1
        else:
            uncovered.append(k)
    # hint for triage: harnesses whose TEXT mentions `name(` although no object references the function (virtual call through
    # a reference, constant evaluation, a different overload, a same-named member of another class ...)
    texts = {os.path.basename(p)[:-4]: re.sub(r'//[^\n]*', '', open(p, errors='replace').read()) for p in files}
    hint_cache = {}

    def hint(q):
        name = q.rsplit('::', 1)[-1]
        if name not in hint_cache:
            if name.startswith('operator'):
                hint_cache[name] = []
            else:
                cls = q.rsplit('::', 2)[-2] if q.count('::') >= 2 else ''
                pat = re.compile(r'\b' + re.escape(name) + r'\s*[(<{]')
                hint_cache[name] = sorted(h for h, t in texts.items() if pat.search(t))
        return hint_cache[name]
    # overloads of templated functions that the (name, arity, const) key cannot tell apart
    groups = {}
    for k, rec in decls.items():
        if not rec['mangled']:
            groups.setdefault((rec['q'], rec['n'], rec['const'], tuple(rec.get('cats', ()))), []).append(rec['sig'])
    ambiguous = sorted(s for g in groups.values() if len(g) > 1 for s in g)
    res = {'public': len(decls), 'covered': len(covered), 'uncovered': sorted(decls[k]['sig'] for k in uncovered),
           'uncovered_detail': sorted(({'sig': decls[k]['sig'], 'q': decls[k]['q'], 'file': decls[k]['file'], 'line': decls[k]['line'], 'cls': decls[k]['cls'],
                                        'templated': decls[k]['templated'], 'virtual': decls[k]['virtual'], 'body': decls[k]['body'],
                                        'kind': decls[k]['kind'], 'trivial': decls[k].get('trivial', ''), 'text_hint': hint(decls[k]['q'])} for k in uncovered),
                                      key=lambda r: (r['file'], r['cls'], r['line'] or 0, r['sig'])),
           'covered_detail': {decls[k]['sig']: v for k, v in sorted(covered.items(), key=lambda kv: decls[kv[0]]['sig'])},
           'by_harness': by_harness, 'harness_failed': failed, 'headers': len(headers), 'headers_failed': bad,
           'ambiguous_template_overloads': ambiguous, 'strong_definitions_from_headers': sorted(strong_defs),
           'noninline_header_definitions': sorted('%s  [%s]' % (d, w) for d, w in zip(demangle(sorted(public_api.noninline)).values(),
                                                                                      [public_api.noninline[m] for m in sorted(public_api.noninline)])), 'seconds': round(time.time() - t0, 1)}
    if not bad:               # a header without any declaration dump makes the result incomplete: recompute next time
        tmp = cache + '.tmp%d' % os.getpid()
        json.dump(res, open(tmp, 'w'))
        os.replace(tmp, cache)
    return res


def accounted_for(res):
    """split the uncovered list with tools/props/c10_api_accounted.py: (accounted {sig: (pattern, reason)}, unaccounted [detail])"""
    try:
        from props.c10_api_accounted import ACCOUNTED
    except Exception:
        ACCOUNTED = {}
    acc, un = {}, []
    for r in res['uncovered_detail']:
        hit = None
        tags = {'@trivial-' + r['trivial']} if r.get('trivial') else set()
        for pat, why in ACCOUNTED.items():
            if pat in tags or (not pat.startswith('@') and (fnmatch.fnmatchcase(r['sig'], pat) or fnmatch.fnmatchcase(r['q'], pat))):
                hit = (pat, why); break
        if hit:
            acc[r['sig']] = hit
        else:
            un.append(r)
    unused = [p for p in ACCOUNTED if not any(h[0] == p for h in acc.values())]
    return acc, un, unused


def _print_grouped(rows):
    last = None
    for r in rows:
        g = (r['file'], r['cls'])
        if g != last:
            print('  %s  [%s]' % (r['cls'], r['file']))
            last = g
        short = r['sig'][len(r['cls']) + 2:] if r['sig'].startswith(r['cls'] + '::') else r['sig']
        print('      %s%s   :%s%s' % (short, ('  {template}' if r['templated'] else '') + ('  {virtual}' if r['virtual'] else ''), r['line'],
                                     ('   ~name in ' + (','.join(r['text_hint']) if len(r['text_hint']) <= 6 else 'many')) if r.get('text_hint') else ''))


if __name__ == '__main__':
    import signal
    signal.signal(signal.SIGPIPE, signal.SIG_DFL)
    if len(sys.argv) >= 3 and sys.argv[1] == '--dump-header':
        os.makedirs(WORK, exist_ok=True)
        dump_header(sys.argv[2])
        sys.exit(0)
    t0 = time.time()
    res = coverage(use_cache='--no-cache' not in sys.argv)
    if '--json' in sys.argv:
        json.dump(res, sys.stdout, indent=1)
        sys.exit(0)
    acc, un, unused = accounted_for(res)
    print('public API functions: %d (from %d headers)   covered: %d   uncovered: %d   accounted: %d   UNACCOUNTED: %d   [%.1fs, computed in %ss]'
          % (res['public'], res['headers'], res['covered'], len(res['uncovered']), len(acc), len(un), time.time() - t0, res['seconds']))
    for h, log in res['harness_failed'].items():
        print('HARNESS DOES NOT COMPILE (ignored): %s  %s' % (h, log.replace('\n', ' | ')[:300]))
    if res.get('noninline_header_definitions') or res.get('strong_definitions_from_headers'):
        print('NOTE non-inline functions DEFINED in a header (every including TU emits a strong symbol: a program with two such TUs does not link):')
        for d in res.get('noninline_header_definitions', []):
            print('     AST:', d)
        for d in res['strong_definitions_from_headers']:
            print('     T symbol in a harness object:', d)
    if res['headers_failed']:
        print('HEADERS WITH CLANG ERRORS (declarations may be missing):', ' '.join(res['headers_failed']))
    print('functions referenced, per harness:', ' '.join('%s:%d' % (os.path.basename(h), n) for h, n in sorted(res['by_harness'].items())))
    if '--covered' in sys.argv:
        print('COVERED:')
        for s, hs in res['covered_detail'].items():
            print('  ', s, '  <-', ' '.join(os.path.basename(h)[:-4] for h in hs))
    if '-v' in sys.argv:
        print('ACCOUNTED (uncovered, explained by tools/props/c10_api_accounted.py):')
        for s, (pat, why) in sorted(acc.items()):
            print('   %s   <- %s: %s' % (s, pat, why))
        print('template overloads not told apart by (name, arity, const, coarse parameter kinds) - covered if any of the group is:')
        for s in res['ambiguous_template_overloads']:
            print('  ', s)
    if unused:
        print('ACCOUNTED patterns that match nothing uncovered (stale):', '; '.join(unused))
    print('UNACCOUNTED (public, referenced by no harness object, not explained):')
    _print_grouped(un)
