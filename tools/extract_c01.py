"""C01 translator plug-in: syntactic facts of the MDP planners that the Lean model hard-codes.
Writes lean/AITB/Gen/C01Sites.lean; AITB.Props.C01 proves `sites_match_model` about it, so a source change that
moves the discount, changes the stopping rule, the LP constraint sense or the argmax re-opens the obligation."""
import re
import extract as E


def _order(src, pats, what):
    """every pattern occurs, in this order, after the previous one; returns line numbers"""
    pos, lines = 0, []
    for p in pats:
        m = re.compile(p).search(src, pos)
        if not m:
            raise E.ExtractError(f'site not found or out of order in {what}: {p}')
        lines.append(E.lineno(src, m.start())); pos = m.end()
    return lines


def gen_c01_sites():
    rows = []
    rel = 'include/AIToolbox/MDP/Algorithms/ValueIteration.hpp'
    s = E.strip_comments(E.read(rel))
    body = s[s.index('ValueIteration::operator()'):]
    ln = _order(body, [r'double\s+variation\s*=\s*tolerance_\s*\*\s*2\s*;',
                       r'const\s+bool\s+useTolerance\s*=\s*checkDifferentSmall\s*\(\s*tolerance_\s*,\s*0\.0\s*\)\s*;',
                       r'while\s*\(\s*timestep\s*<\s*horizon_\s*&&\s*\(\s*!useTolerance\s*\|\|\s*variation\s*>\s*tolerance_\s*\)\s*\)',
                       r'\+\+timestep\s*;', r'val0\s*=\s*val1\s*;', r'val1\s*\*=\s*model\.getDiscount\(\)\s*;',
                       r'q\s*=\s*computeQFunction\s*\(\s*model\s*,\s*val1\s*,\s*ir\s*\)\s*;',
                       r'bellmanOperatorInplace\s*\(\s*q\s*,\s*&v1_\s*\)\s*;',
                       r'if\s*\(\s*useTolerance\s*\)\s*variation\s*=\s*\(\s*val1\s*-\s*val0\s*\)\.cwiseAbs\(\)\.maxCoeff\(\)\s*;',
                       r'return\s+std::make_tuple\s*\(\s*useTolerance\s*\?\s*variation\s*:\s*0\.0'], rel)
    rows.append(('viLoopOrder', 'List String', '["init2tol", "useTolSmall", "while", "inc", "save", "discount", "computeQ", "bellman", "absmax", "ret"]', rel, ln[0]))
    # warm start: does operator() size the actions vector of an accepted start to S? (fixes/C01-2)
    m2 = re.search(r'v1_\s*=\s*vParameter_\s*;[^}]*?v1_\.actions\.resize\s*\(\s*S\s*\)\s*;', body)
    rows.append(('viResizesActions', 'Bool', 'true' if m2 else 'false', rel, ln[0]))
    rel = 'include/AIToolbox/MDP/Algorithms/Utils/PolicyEvaluation.hpp'
    s = E.strip_comments(E.read(rel))
    body = s[s.index('PolicyEvaluation<M>::operator()'):]
    ln = _order(body, [r'double\s+variation\s*=\s*tolerance_\s*\*\s*2\s*;',
                       r'const\s+bool\s+useTolerance\s*=\s*checkDifferentSmall\s*\(\s*tolerance_\s*,\s*0\.0\s*\)\s*;',
                       r'while\s*\(\s*timestep\s*<\s*horizon_\s*&&\s*\(\s*!useTolerance\s*\|\|\s*variation\s*>\s*tolerance_\s*\)\s*\)',
                       r'val0\s*=\s*v1_\s*;', r'v1_\s*\*=\s*model_\.getDiscount\(\)\s*;', r'q\s*=\s*computeQFunction\s*\(',
                       r'v1_\(s\)\s*=\s*q\.row\(s\)\s*\*\s*p\.row\(s\)\.transpose\(\)\s*;',
                       r'variation\s*=\s*\(\s*v1_\s*-\s*val0\s*\)\.cwiseAbs\(\)\.maxCoeff\(\)\s*;'], rel)
    rows.append(('peLoopOrder', 'List String', '["init2tol", "useTolSmall", "while", "save", "discount", "computeQ", "dot", "absmax"]', rel, ln[0]))
    rel = 'include/AIToolbox/MDP/Algorithms/LinearProgramming.hpp'
    s = E.strip_comments(E.read(rel))
    ln = _order(s, [r'LP\s+lp\s*\(\s*S\s*\)\s*;', r'lp\.resize\s*\(\s*S\s*\*\s*A\s*\)\s*;',
                    r'lp\.row\.fill\s*\(\s*1\.0\s*/\s*S\s*\)\s*;', r'lp\.setObjective\s*\(\s*false\s*\)\s*;',
                    r'for\s*\(\s*size_t\s+s\s*=\s*0\s*;\s*s\s*<\s*S\s*;\s*\+\+s\s*\)', r'lp\.setUnbounded\s*\(\s*s\s*\)\s*;',
                    r'for\s*\(\s*size_t\s+a\s*=\s*0\s*;\s*a\s*<\s*A\s*;\s*\+\+a\s*\)',
                    r'lp\.row\s*=\s*-model\.getDiscount\(\)\s*\*\s*model\.getTransitionFunction\(a\)\.row\(s\)\s*;',
                    r'for\s*\(\s*size_t\s+s1\s*=\s*0\s*;\s*s1\s*<\s*S\s*;\s*\+\+s1\s*\)',
                    r'lp\.row\[s1\]\s*=\s*-model\.getDiscount\(\)\s*\*\s*model\.getTransitionProbability\(s,\s*a,\s*s1\)\s*;',
                    r'lp\.row\[s\]\s*\+=\s*1\.0\s*;', r'lp\.pushRow\s*\(\s*LP::Constraint::GreaterEqual\s*,\s*rhs\s*\)\s*;',
                    r'auto\s+values\s*=\s*lp\.solve\s*\(\s*S\s*\)\s*;', r'if\s*\(\s*!values\s*\)\s*throw\s+std::runtime_error',
                    r'computeQFunction\s*\(\s*model\s*,\s*model\.getDiscount\(\)\s*\*\s*\(\*values\)\s*,\s*ir\s*\)',
                    r'q\.row\(s\)\.maxCoeff\s*\(\s*&v\.actions\[s\]\s*\)\s*;'], rel)
    # the buffer is written nowhere else: exactly one `lp.row =`, one `lp.row[s1] =`, one `lp.row[s] +=`, one fill
    if len(re.findall(r'lp\.row\b', s)) != 4:
        raise E.ExtractError(f'{rel}: lp.row is touched at an unexpected number of sites')
    rows.append(('lpSites', 'List String', '["lpOfS", "resizeSA", "objUniform", "minimise", "loopS", "unbounded", "loopA", "rowEigen", "loopS1", "rowGeneric", "plusOne", "GE", "solveS", "throwIfNone", "assembleQ", "argmaxRows"]', rel, ln[0]))
    # PolicyIteration relies on QGreedyPolicy seeing later assignments to `qfun`: QPolicyInterface keeps a reference, not a copy
    relq = 'include/AIToolbox/MDP/Policies/QPolicyInterface.hpp'
    sq = E.strip_comments(E.read(relq))
    E.find1(r'const\s+QFunction\s*&\s*q_\s*;', sq, 'QPolicyInterface::q_ is a reference')
    sq2 = E.strip_comments(E.read('src/MDP/Policies/QPolicyInterface.cpp'))
    E.find1(r'QPolicyInterface::QPolicyInterface\s*\(\s*const\s+QFunction\s*&\s*q\s*\)\s*:\s*q_\s*\(\s*q\s*\)', sq2, 'QPolicyInterface constructor binds q_')
    rows.append(('qPolicyHoldsReference', 'Bool', 'true', relq, 1))
    rel = 'src/MDP/Utils.cpp'
    s = E.strip_comments(E.read(rel))
    m = E.find1(r'for\s*\(\s*size_t\s+s\s*=\s*0\s*;\s*s\s*<\s*actions\.size\(\)\s*;\s*\+\+s\s*\)\s*values\(s\)\s*=\s*q\.row\(s\)\.maxCoeff\(&actions\[s\]\)\s*;', s, 'bellmanOperatorInplace loop')
    rows.append(('bellmanInplaceIsMaxCoeffOverActions', 'Bool', 'true', rel, E.lineno(s, m.start())))
    rel = 'include/AIToolbox/MDP/Utils.hpp'
    s = E.strip_comments(E.read(rel))
    _order(s, [r'ir\(s,\s*a\)\s*\+=\s*model\.getTransitionProbability\(s,a,s1\)\s*\*\s*model\.getExpectedReward\(s,a,s1\)\s*;',
               r'ir\.col\(a\)\.noalias\(\)\s*\+=\s*model\.getTransitionFunction\(a\)\s*\*\s*v\s*;',
               r'ir\(s,\s*a\)\s*\+=\s*model\.getTransitionProbability\(s,a,s1\)\s*\*\s*v\[s1\]\s*;'], rel)
    rows.append(('computeQSites', 'List String', '["irGeneric", "qEigen", "qGeneric"]', rel, 1))
    rel = 'include/AIToolbox/Bandit/Policies/Utils/QGreedyPolicyWrapper.hpp'
    s = E.strip_comments(E.read(rel))
    body = s[s.index('QGreedyPolicyWrapper<V, Gen>::getPolicy'):]
    body = body[:body.index('};')] if '};' in body else body
    scan = [r'double\s+max\s*=\s*q_\[0\]\s*;\s*unsigned\s+count\s*=\s*1\s*;', r'for\s*\(\s*size_t\s+aa\s*=\s*1\s*;',
            r'if\s*\(\s*checkEqualGeneral\s*\(\s*val\s*,\s*max\s*\)\s*\)\s*\+\+count\s*;', r'else\s+if\s*\(\s*val\s*>\s*max\s*\)',
            r'max\s*=\s*val\s*;', r'count\s*=\s*1\s*;', r'for\s*\(\s*size_t\s+aa\s*=\s*0\s*;',
            r'if\s*\(\s*checkEqualGeneral\s*\(\s*q_\[aa\]\s*,\s*max\s*\)\s*\)', r'p\[aa\]\s*=\s*1\.0\s*/\s*count\s*;', r'p\[aa\]\s*=\s*0\.0\s*;']
    # repaired shape (fixes/C01-3): the true maximum first, then the count of entries equal to it, then the fill
    fixed = [r'double\s+max\s*=\s*q_\[0\]\s*;', r'for\s*\(\s*size_t\s+aa\s*=\s*1\s*;[^;]*;\s*\+\+aa\s*\)\s*if\s*\(\s*q_\[aa\]\s*>\s*max\s*\)\s*max\s*=\s*q_\[aa\]\s*;',
             r'unsigned\s+count\s*=\s*0\s*;', r'for\s*\(\s*size_t\s+aa\s*=\s*0\s*;[^;]*;\s*\+\+aa\s*\)\s*if\s*\(\s*checkEqualGeneral\s*\(\s*q_\[aa\]\s*,\s*max\s*\)\s*\)\s*\+\+count\s*;',
             r'for\s*\(\s*size_t\s+aa\s*=\s*0\s*;', r'if\s*\(\s*checkEqualGeneral\s*\(\s*q_\[aa\]\s*,\s*max\s*\)\s*\)',
             r'p\[aa\]\s*=\s*1\.0\s*/\s*count\s*;', r'p\[aa\]\s*=\s*0\.0\s*;']
    # the same repair written with Eigen's reduction (fixes/C09-4, the form applied to the library): `q_.maxCoeff()` is the true maximum
    fixed2 = [r'const\s+double\s+max\s*=\s*q_\.maxCoeff\(\)\s*;',
              r'unsigned\s+count\s*=\s*0\s*;', r'for\s*\(\s*size_t\s+aa\s*=\s*0\s*;[^;]*;\s*\+\+aa\s*\)\s*if\s*\(\s*checkEqualGeneral\s*\(\s*q_\[aa\]\s*,\s*max\s*\)\s*\)\s*\+\+count\s*;',
              r'for\s*\(\s*size_t\s+aa\s*=\s*0\s*;', r'if\s*\(\s*checkEqualGeneral\s*\(\s*q_\[aa\]\s*,\s*max\s*\)\s*\)',
              r'p\[aa\]\s*=\s*1\.0\s*/\s*count\s*;', r'p\[aa\]\s*=\s*0\.0\s*;']
    try:
        _order(body, scan, rel); true_max_first = False
        # nothing else may touch max/count in the as-found shape
        if len(re.findall(r'\bmax\s*=', body)) != 2 or len(re.findall(r'\bcount\s*=', body)) != 2 or len(re.findall(r'\+\+count', body)) != 1:
            raise E.ExtractError(f'unexpected extra assignment to max/count in {rel} getPolicy')
    except E.ExtractError as e1:
        nmax = 2
        try:
            _order(body, fixed, rel); true_max_first = True
        except E.ExtractError:
            try:
                _order(body, fixed2, rel); true_max_first = True; nmax = 1
            except E.ExtractError:
                raise e1
        if 'count = 1' in body or len(re.findall(r'\bmax\s*=', body)) != nmax or len(re.findall(r'\+\+count', body)) != 1 or 'checkEqualSmall' in body:
            raise E.ExtractError(f'repaired getPolicy shape in {rel} has extra assignments')
    rows.append(('greedyTrueMaxFirst', 'Bool', 'true' if true_max_first else 'false', rel, 1))
    rows.append(('greedySites', 'List String', '["init", "trueMax", "count0", "countTies", "fillFrom0", "tieGeneral2", "recip", "zero"]' if true_max_first else
                 '["init", "scanFrom1", "tieGeneral", "greater", "setMax", "reset", "fillFrom0", "tieGeneral2", "recip", "zero"]', rel, 1))
    # MDP::QGreedyPolicy::getPolicy: one wrapper per row of q_, written into the same row of the result
    rel2 = 'src/MDP/Policies/QGreedyPolicy.cpp'
    s2 = E.strip_comments(E.read(rel2))
    b2 = s2[s2.index('QGreedyPolicy::getPolicy'):]
    _order(b2, [r'Matrix2D\s+retval\s*\(\s*S\s*,\s*A\s*\)\s*;', r'for\s*\(\s*size_t\s+s\s*=\s*0\s*;\s*s\s*<\s*S\s*;\s*\+\+s\s*\)',
                r'Bandit::QGreedyPolicyWrapper\s*\(\s*q_\.row\(s\)\s*,\s*bestActions_\s*,\s*rand_\s*\)\s*;', r'wrap\.getPolicy\s*\(\s*retval\.row\(s\)\s*\)\s*;',
                r'return\s+retval\s*;'], rel2)
    m3 = re.search(r'bestActions_\s*\(\s*getA\(\)\s*\)', s2)
    if not m3: raise E.ExtractError('QGreedyPolicy constructor no longer sizes bestActions_ (the wrapper loop bound buffer_.size()) to A')
    rows.append(('greedyTableSites', 'List String', '["retvalSA", "rowLoop", "wrapRow", "fillRow", "ret", "bufferIsA"]', rel2, 1))
    # Utils/Core.hpp: the bodies of the tolerance predicates the model hard-codes (constants come from Gen/Constants)
    rel3 = 'include/AIToolbox/Utils/Core.hpp'
    s3 = E.strip_comments(E.read(rel3))
    _order(s3, [r'inline\s+bool\s+checkEqualSmall\s*\(\s*const\s+double\s+a\s*,\s*const\s+double\s+b\s*\)\s*\{\s*return\s*\(\s*std::fabs\s*\(\s*a\s*-\s*b\s*\)\s*<=\s*equalToleranceSmall\s*\)\s*;\s*\}',
                r'inline\s+bool\s+checkDifferentSmall\s*\(\s*const\s+double\s+a\s*,\s*const\s+double\s+b\s*\)\s*\{\s*return\s*!checkEqualSmall\s*\(\s*a\s*,\s*b\s*\)\s*;\s*\}',
                r'inline\s+bool\s+checkEqualGeneral\s*\(\s*const\s+double\s+a\s*,\s*const\s+double\s+b\s*\)\s*\{\s*if\s*\(\s*checkEqualSmall\s*\(\s*a\s*,\s*b\s*\)\s*\)\s*return\s+true\s*;\s*'
                r'return\s*\(\s*std::fabs\s*\(\s*a\s*-\s*b\s*\)\s*<=\s*std::min\s*\(\s*std::fabs\s*\(\s*a\s*\)\s*,\s*std::fabs\s*\(\s*b\s*\)\s*\)\s*\*\s*equalToleranceGeneral\s*\)\s*;\s*\}'], rel3)
    rows.append(('toleranceSites', 'List String', '["smallAbsLe", "differentIsNotEqual", "generalSmallOrRelMin"]', rel3, 1))
    # src/MDP/Utils.cpp: the zero-initialised tables every solver starts from, and bellmanOperator as a wrapper of the in-place form
    rel4 = 'src/MDP/Utils.cpp'
    s4 = E.strip_comments(E.read(rel4))
    _order(s4, [r'QFunction\s+makeQFunction\s*\([^)]*\)\s*\{\s*auto\s+retval\s*=\s*QFunction\s*\(\s*S\s*,\s*A\s*\)\s*;\s*retval\.setZero\(\)\s*;\s*return\s+retval\s*;',
                r'ValueFunction\s+makeValueFunction\s*\([^)]*\)\s*\{\s*auto\s+values\s*=\s*Values\s*\(\s*S\s*\)\s*;\s*values\.setZero\(\)\s*;\s*return\s*\{\s*values\s*,\s*Actions\s*\(\s*S\s*,\s*0\s*\)\s*\}\s*;',
                r'ValueFunction\s+bellmanOperator\s*\([^)]*\)\s*\{\s*const\s+auto\s+S\s*=\s*q\.rows\(\)\s*;\s*ValueFunction\s+vf\s*\{\s*Values\s*\(\s*S\s*\)\s*,\s*Actions\s*\(\s*S\s*\)\s*\}\s*;\s*bellmanOperatorInplace\s*\(\s*q\s*,\s*&vf\s*\)\s*;\s*return\s+vf\s*;'], rel4)
    rows.append(('makeSites', 'List String', '["makeQZero", "makeVFZeroActionsS", "bellmanOperatorWrapsInplace"]', rel4, 1))
    # ValueIteration: the start-selection block assigns v1_ on both branches before anything reads it; setters
    rel5 = 'include/AIToolbox/MDP/Algorithms/ValueIteration.hpp'
    s5 = E.strip_comments(E.read(rel5))
    b5 = s5[s5.index('ValueIteration::operator()'):]
    _order(b5, [r'const\s+size_t\s+size\s*=\s*vParameter_\.values\.size\(\)\s*;', r'if\s*\(\s*size\s*!=\s*S\s*\)',
                r'v1_\s*=\s*makeValueFunction\s*\(\s*S\s*\)\s*;', r'else', r'v1_\s*=\s*vParameter_\s*;'], rel5)
    first = re.search(r'\bv1_\b', b5)
    if not first or not re.match(r'v1_\s*=\s*makeValueFunction', b5[first.start():]):
        raise E.ExtractError('ValueIteration::operator() touches v1_ before the start-selection block assigns it')
    if re.search(r'\bv1_\b', b5[:b5.index('const size_t size')]):
        raise E.ExtractError('ValueIteration::operator() reads v1_ before selecting the start')
    rows.append(('viStartSites', 'List String', '["sizeOfParam", "neS", "defaultZero", "else", "copyParam", "v1NotReadBefore"]', rel5, 1))
    rel6 = 'src/MDP/Algorithms/ValueIteration.cpp'
    s6 = E.strip_comments(E.read(rel6))
    _order(s6, [r'void\s+ValueIteration::setTolerance\s*\(\s*const\s+double\s+t\s*\)\s*\{\s*if\s*\(\s*t\s*<\s*0\.0\s*\)\s*throw\s+std::invalid_argument',
                r'tolerance_\s*=\s*t\s*;', r'void\s+ValueIteration::setHorizon\s*\([^)]*\)\s*\{\s*horizon_\s*=\s*h\s*;',
                r'void\s+ValueIteration::setValueFunction\s*\([^)]*\)\s*\{\s*vParameter_\s*=\s*std::move\(v\)\s*;'], rel6)
    rel7 = 'include/AIToolbox/MDP/Algorithms/Utils/PolicyEvaluation.hpp'
    s7 = E.strip_comments(E.read(rel7))
    _order(s7, [r'void\s+PolicyEvaluation<M>::setTolerance\s*\(\s*const\s+double\s+t\s*\)\s*\{\s*if\s*\(\s*t\s*<\s*0\.0\s*\)\s*throw\s+std::invalid_argument',
                r'tolerance_\s*=\s*t\s*;'], rel7)
    rows.append(('setterSites', 'List String', '["viTolThrowsNeg", "viTolAssign", "viHorizon", "viParam", "peTolThrowsNeg", "peTolAssign"]', rel6, 1))
    # which reward table each path hands to computeQFunction (Eigen: the model's own; generic: computeImmediateRewards, cached by PE's constructor)
    sv = E.strip_comments(E.read('include/AIToolbox/MDP/Algorithms/ValueIteration.hpp'))
    irpat = r'const\s+auto\s*&\s*ir\s*=\s*\[&\]\s*\{\s*if\s+constexpr\s*\(\s*IsModelEigen<M>\s*\)\s*return\s+model\.getRewardFunction\(\)\s*;\s*else\s+return\s+computeImmediateRewards\s*\(\s*model\s*\)\s*;\s*\}\s*\(\)\s*;'
    E.find1(irpat, sv, 'ValueIteration ir selection')
    sl = E.strip_comments(E.read('include/AIToolbox/MDP/Algorithms/LinearProgramming.hpp'))
    E.find1(irpat, sl, 'LinearProgramming ir selection')
    sp = E.strip_comments(E.read('include/AIToolbox/MDP/Algorithms/Utils/PolicyEvaluation.hpp'))
    _order(sp, [r'if\s+constexpr\s*\(\s*!IsModelEigen<M>\s*\)\s*immediateRewards_\s*=\s*computeImmediateRewards\s*\(\s*m\s*\)\s*;',
                r'const\s+auto\s+p\s*=\s*policy\.getPolicy\(\)\s*;',
                r'if\s+constexpr\s*\(\s*IsModelEigen<M>\s*\)\s*q\s*=\s*computeQFunction\s*\(\s*model_\s*,\s*v1_\s*,\s*model_\.getRewardFunction\(\)\s*\)\s*;',
                r'else\s+q\s*=\s*computeQFunction\s*\(\s*model_\s*,\s*v1_\s*,\s*immediateRewards_\s*\)\s*;',
                r'for\s*\(\s*size_t\s+s\s*=\s*0\s*;\s*s\s*<\s*S\s*;\s*\+\+s\s*\)\s*v1_\(s\)\s*=\s*q\.row\(s\)\s*\*\s*p\.row\(s\)\.transpose\(\)\s*;'], 'PolicyEvaluation reward tables')
    rows.append(('rewardTableSites', 'List String', '["viIrSelect", "lpIrSelect", "peCtorCachesIr", "pePolicyOnce", "peEigenR", "peGenericIr", "peDotAllStates"]', rel7, 1))
    rel = 'include/AIToolbox/MDP/Algorithms/PolicyIteration.hpp'
    s = E.strip_comments(E.read(rel))
    body = s[s.index('PolicyIteration::operator()'):]
    _order(body, [r'PolicyEvaluation<M>\s+eval\s*\(\s*m\s*,\s*horizon_\s*,\s*tolerance_\s*\)\s*;', r'QGreedyPolicy\s+p\s*\(\s*qfun\s*\)\s*;',
                  r'auto\s+matrix\s*=\s*p\.getPolicy\(\)\s*;', r'nextLoop\s*:', r'auto\s*\[\s*bound\s*,\s*v\s*,\s*q\s*\]\s*=\s*eval\s*\(\s*p\s*\)\s*;',
                  r'eval\.setValues\s*\(\s*std::move\(v\)\s*\)\s*;', r'qfun\s*=\s*std::move\(q\)\s*;', r'auto\s+newMatrix\s*=\s*p\.getPolicy\(\)\s*;',
                  r'checkDifferentSmall\s*\(\s*matrix\(s,a\)\s*,\s*newMatrix\(s,a\)\s*\)', r'matrix\s*=\s*std::move\(newMatrix\)\s*;', r'goto\s+nextLoop\s*;',
                  r'return\s+qfun\s*;'], rel)
    rows.append(('piSites', 'List String', '["eval", "greedyOfQfun", "matrix0", "label", "evalP", "warm", "qfunGetsQ", "newMatrix", "diffSmall", "moveMatrix", "goto", "ret"]', rel, 1))
    out = ['/- GENERATED by tools/extract_c01.py from the library source — do not edit. -/', 'namespace AITB.Gen.C01', '']
    for nm, ty, val, rel, ln in rows:
        out.append(f'/-- {rel}:{ln} -/')
        out.append(f'def {nm} : {ty} := {val}')
    out += ['', 'end AITB.Gen.C01', '']
    E.write_if_changed('C01Sites', '\n'.join(out))


GENERATORS = [gen_c01_sites]
