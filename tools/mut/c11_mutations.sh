#!/bin/bash
# C11 mutation trials: apply one realistic change to the scratch library copy, run the quick check, revert.
# usage: tools/mut/c11_mutations.sh [names…]   (AITB_REPO must point at a scratch worktree of the library)
set -u
cd "$(dirname "$0")/../.."
R=${AITB_REPO:?}
declare -A FILE SED TEST
FILE[ql_sign]=src/MDP/Algorithms/QLearning.cpp
SED[ql_sign]='s|rew + discount_ \* q_.row(s1).maxCoeff()|rew - discount_ * q_.row(s1).maxCoeff()|'
FILE[trace_decay_twice]=src/MDP/Algorithms/Utils/OffPolicyTemplate.cpp
SED[trace_decay_twice]='s|el \*= traceDiscount;|el *= traceDiscount * traceDiscount;|'
FILE[ps_threshold]=include/AIToolbox/MDP/Algorithms/PrioritizedSweeping.hpp
SED[ps_threshold]='s|if ( delta > theta_ )|if ( delta < theta_ )|'
FILE[swap_pop_skip]=src/MDP/Algorithms/SARSAL.cpp
SED[swap_pop_skip]='s|^\( *\)--i;|\1;|'
FILE[eps_not_divided]=include/AIToolbox/MDP/Algorithms/Utils/OffPolicyTemplate.hpp
SED[eps_not_divided]='s|expectedQ \*= epsilon_ / A;|expectedQ *= epsilon_;|'
FILE[retrace_no_min]=include/AIToolbox/MDP/Algorithms/RetraceL.hpp
SED[retrace_no_min]='s|return lambda_ \* std::min(1.0, target_.getActionProbability(s, a) / behaviour_.getActionProbability(s, a));|return lambda_ * (target_.getActionProbability(s, a) / behaviour_.getActionProbability(s, a));|'
FILE[esarsa_wrong_state]=src/MDP/Algorithms/ExpectedSARSA.cpp
SED[esarsa_wrong_state]='s|policy_.getActionProbability(s1, ai) \* q_(s1, ai)|policy_.getActionProbability(s, ai) * q_(s1, ai)|'
FILE[dq_same_table]=src/MDP/Algorithms/DoubleQLearning.cpp
SED[dq_same_table]='s|discount_ \* (qc_(s1, a1) - qa_(s1, a1)) - qa_(s, a)|discount_ * qa_(s1, a1) - qa_(s, a)|'
FILE[hyst_swapped]=src/MDP/Algorithms/HystereticQLearning.cpp
SED[hyst_swapped]='s|if (delta >= 0)|if (delta < 0)|'
FILE[sarsal_trace_not_reset]=src/MDP/Algorithms/SARSAL.cpp
SED[sarsal_trace_not_reset]='s|el = 1.0;|el += 1.0;|'
FILE[ps_abs_dropped]=include/AIToolbox/MDP/Algorithms/PrioritizedSweeping.hpp
SED[ps_abs_dropped]='s|p = std::fabs(values\[s\] - p);|p = values[s] - p;|'
FILE[ps_min_heap]=include/AIToolbox/MDP/Algorithms/PrioritizedSweeping.hpp
SED[ps_min_heap]='s|return priority < arg2.priority;|return priority > arg2.priority;|'
FILE[dyna2_traces_not_shared]=include/AIToolbox/MDP/Algorithms/Dyna2.hpp
SED[dyna2_traces_not_shared]='s|transientLearning_.setTraces(permanentLearning_.getTraces());|;|'
FILE[dynaq_batch_wrong_pair]=include/AIToolbox/MDP/Algorithms/DynaQ.hpp
SED[dynaq_batch_wrong_pair]='s|^            qLearning_.stepUpdateQ(s, a, s1, rew);|            qLearning_.stepUpdateQ(s1, a, s1, rew);|'
FILE[dyna2_reset_reversed]=include/AIToolbox/MDP/Algorithms/Dyna2.hpp
SED[dyna2_reset_reversed]='s|transientLearning_.setQFunction(permanentLearning_.getQFunction());|permanentLearning_.setQFunction(transientLearning_.getQFunction());|'
FILE[dyna2_batch_on_permanent]=include/AIToolbox/MDP/Algorithms/Dyna2.hpp
SED[dyna2_batch_on_permanent]='s|^            transientLearning_.stepUpdateQ(s, a, s1, a1, rew);|            permanentLearning_.stepUpdateQ(s, a, s1, a1, rew);|'
FILE[ps_generic_discounts_reward]=include/AIToolbox/MDP/Algorithms/PrioritizedSweeping.hpp
SED[ps_generic_discounts_reward]='s|probability \* ( model_.getExpectedReward(s,a,s1) + model_.getDiscount() \* values\[s1\] );|probability * model_.getDiscount() * ( model_.getExpectedReward(s,a,s1) + values[s1] );|'
# ---- round 3: helpers OUTSIDE the anchored files and cooperating sites
FILE[eps_weights_swapped]=include/AIToolbox/EpsilonPolicyInterface.hpp
SED[eps_weights_swapped]='136s|return (1.0 - epsilon_) \* policy_.getActionProbability(s,a) + epsilon_ \* getRandomActionProbability();|return epsilon_ * policy_.getActionProbability(s,a) + (1.0 - epsilon_) * getRandomActionProbability();|'
FILE[greedy_exact_ties_only]=include/AIToolbox/Bandit/Policies/Utils/QGreedyPolicyWrapper.hpp
SED[greedy_exact_ties_only]='/getActionProbability(const size_t a) const {/,/^    }/s|if ( checkEqualGeneral(q_\[aa\], max) ) ++count;|if ( q_[aa] == max ) ++count;|'
FILE[model_sampleSR_reward_of_next]=src/MDP/Model.cpp
SED[model_sampleSR_reward_of_next]='s|return std::make_tuple(s1, rewards_(s, a));|return std::make_tuple(s1, rewards_(s1, a));|'
FILE[sparse_sampleSR_reward_of_next]=src/MDP/SparseModel.cpp
SED[sparse_sampleSR_reward_of_next]='s|return std::make_tuple(s1, getExpectedReward(s, a, s1));|return std::make_tuple(s1, getExpectedReward(s1, a, s));|'
FILE[sarsal_setTraces_appends]=src/MDP/Algorithms/SARSAL.cpp
SED[sarsal_setTraces_appends]='/void SARSAL::setTraces/,/^    }/s|traces_ = t;|traces_.insert(traces_.end(), t.begin(), t.end());|'
FILE[offpolicy_setTraces_appends]=src/MDP/Algorithms/Utils/OffPolicyTemplate.cpp
SED[offpolicy_setTraces_appends]='/void OffPolicyBase::setTraces/,/^    }/s|traces_ = t;|traces_.insert(traces_.end(), t.begin(), t.end());|'
FILE[sarsal_setDiscount_stale_gammaL]=src/MDP/Algorithms/SARSAL.cpp
SED[sarsal_setDiscount_stale_gammaL]='/void SARSAL::setDiscount/,/^    }/s|gammaL_ = lambda_ \* discount_;|;|'
FILE[ql_setDiscount_not_stored]=src/MDP/Algorithms/QLearning.cpp
SED[ql_setDiscount_not_stored]='/void QLearning::setDiscount/,/^    }/s|discount_ = d;|;|'
FILE[model_isTerminal_skips_action0]=src/MDP/Model.cpp
SED[model_isTerminal_skips_action0]='/bool Model::isTerminal/,/^    }/s|for ( size_t a = 0; a < A; ++a )|for ( size_t a = 1; a < A; ++a )|'
FILE[ps_setQFunction_resets_values]=include/AIToolbox/MDP/Algorithms/PrioritizedSweeping.hpp
SED[ps_setQFunction_resets_values]='s|^        qfun_ = qfun;|        qfun_ = qfun; vfun_.values = qfun_.rowwise().maxCoeff();|'
FILE[core_general_drops_small]=include/AIToolbox/Utils/Core.hpp
SED[core_general_drops_small]='s|if ( checkEqualSmall(a,b) ) return true;|if ( a == b ) return true;|'
FILE[sarsa_optimistic_init]=src/MDP/Algorithms/SARSA.cpp
SED[sarsa_optimistic_init]='s|q_(makeQFunction(S, A))|q_(QFunction::Ones(S, A))|'
TEST[sarsa_optimistic_init]="MDP/SARSATests"
FILE[mlm_first_visit_keeps_selfloop]=include/AIToolbox/MDP/MaximumLikelihoodModel.hpp
SED[mlm_first_visit_keeps_selfloop]='s|^            transitions_\[a\].row(s).setZero();|            ;|'
TEST[mlm_first_visit_keeps_selfloop]="MDP/MaximumLikelihoodModelTests MDP/PrioritizedSweepingTests"
FILE[mlm_sync_reward_not_refreshed]=include/AIToolbox/MDP/MaximumLikelihoodModel.hpp
SED[mlm_sync_reward_not_refreshed]='/::sync(const size_t s, const size_t a, const size_t s1) {/,/^    }/s|rewards_(s, a) = experience_.getReward(s, a);|;|'
TEST[mlm_sync_reward_not_refreshed]="MDP/MaximumLikelihoodModelTests MDP/PrioritizedSweepingTests"
TEST[eps_weights_swapped]="MDP/QGreedyPolicyTests MDP/ExpectedSARSATests MDP/RetraceLTests"
TEST[greedy_exact_ties_only]="MDP/QGreedyPolicyTests MDP/ExpectedSARSATests"
TEST[model_sampleSR_reward_of_next]="MDP/ModelTests MDP/DynaQTests MDP/Dyna2Tests"
TEST[sparse_sampleSR_reward_of_next]="MDP/SparseModelTests"
TEST[sarsal_setTraces_appends]="MDP/SARSALTests MDP/Dyna2Tests"
TEST[offpolicy_setTraces_appends]="MDP/QLTests MDP/RetraceLTests MDP/TreeBackupLTests"
TEST[sarsal_setDiscount_stale_gammaL]="MDP/SARSALTests MDP/Dyna2Tests"
TEST[ql_setDiscount_not_stored]="MDP/QLearningTests MDP/DynaQTests"
TEST[model_isTerminal_skips_action0]="MDP/ModelTests MDP/Dyna2Tests"
TEST[ps_setQFunction_resets_values]="MDP/PrioritizedSweepingTests"
TEST[core_general_drops_small]="UtilsCoreTests MDP/QGreedyPolicyTests"
TEST[dyna2_reset_reversed]=Dyna2Tests; TEST[dyna2_batch_on_permanent]=Dyna2Tests; TEST[ps_generic_discounts_reward]=PrioritizedSweepingTests; TEST[dynaq_batch_wrong_pair]=DynaQTests
names=("$@"); [ ${#names[@]} -eq 0 ] && names=(ql_sign trace_decay_twice ps_threshold swap_pop_skip eps_not_divided retrace_no_min esarsa_wrong_state dq_same_table hyst_swapped sarsal_trace_not_reset ps_abs_dropped ps_min_heap dyna2_traces_not_shared dynaq_batch_wrong_pair)
for m in "${names[@]}"; do
  git -C "$R" checkout -- . 
  sed -i "${SED[$m]}" "$R/${FILE[$m]}"
  if git -C "$R" diff --quiet; then echo "MUTATION $m: sed did not apply"; continue; fi
  out=$(timeout 1500 python3 tools/check.py C11 --tier quick 2>&1); rc=$?
  echo "MUTATION $m (${FILE[$m]}): rc=$rc"
  echo "$out" | grep -E "VIOLATION|KNOWN|^\[C11\]" | head -4
  for f in $(echo "$out" | grep -o 'replays/[^ ]*json' | head -1); do python3 - "$f" <<'PY'
import json,sys
e=json.load(open(sys.argv[1]))
if 'verdict' in e: print('   ', e['verdict'][:160])
for b in e.get('broken',[])[:2]: print('   ', b['what'], b['name'][:60], (b.get('verdict') or '')[:120])
PY
  done
  for t in ${TEST[$m]:-}; do
    case "$t" in */*|Utils*) src="$R/test/$t.cpp";; *) src="$R/test/MDP/$t.cpp";; esac
    tn=$(basename "$t")
    LIB=$(ls -t ${AITB_CACHE:-.cache}/lib/*.a | head -1)
    mkdir -p /var/tmp/c11tmp
    if g++ -std=c++20 -O1 -fsanitize=address,undefined -w -I"$R/include" -I"$R/test" -I/usr/include/eigen3 "$src" "$LIB" /usr/lib/liblpsolve55.a -lcolamd -ldl -lboost_unit_test_framework -o /var/tmp/c11tmp/$tn-$m 2>/tmp/c11_ut_err.txt; then
      echo "    repo unit test $t on the mutated library: $(cd "$R/test" && ASAN_OPTIONS=detect_leaks=0 timeout 600 /var/tmp/c11tmp/$tn-$m 2>&1 | grep -a -o "No errors detected\|[0-9]* failure[s]* [a-z ]*detected" | head -1)"
    else echo "    repo unit test $t: did not build"; tail -3 /tmp/c11_ut_err.txt; fi
  done
  git -C "$R" checkout -- .
done
