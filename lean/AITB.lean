import AITB.Model.Num
import AITB.Model.Proto
import AITB.Model.Factored
import AITB.Props.C14
