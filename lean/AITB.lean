import AITB.Model.Num
import AITB.Model.Proto
import AITB.Model.Factored
import AITB.Props.C14
import AITB.Model.Hidden
import AITB.Props.C16
import AITB.Model.Cursor
import AITB.Props.C10
