import AITB.Model.Num
import AITB.Model.Proto
import AITB.Model.Factored
import AITB.Model.Prune
import AITB.Model.Interp
import AITB.Model.C12Check
import AITB.Props.C14
import AITB.Props.C12Defs
