import AITB.Model.Num
import AITB.Model.Proto
import AITB.Model.Factored
import AITB.Props.C14
import AITB.Model.VE
import AITB.Model.VETable
import AITB.Model.GVE
