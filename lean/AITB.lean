import AITB.Model.Num
import AITB.Model.Proto
import AITB.Model.Factored
import AITB.Props.C14
import AITB.Model.Trie
import AITB.Props.C20
