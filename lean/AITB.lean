import AITB.Model.Num
import AITB.Model.Proto
import AITB.Model.Factored
import AITB.Model.MDP
import AITB.Props.C14
import AITB.Props.C01
