import AITB.Model.Num
import AITB.Model.Proto
import AITB.Model.Factored
import AITB.Props.C14
import AITB.Model.Belief
import AITB.Props.C05
import AITB.Props.C05Src
import AITB.Props.C05Round
