/-
  Driver.C12LP — an exact rational simplex (Bland's rule), used by the C12 driver as an UNTRUSTED, lp_solve-independent
  finder of certificates: witness beliefs, Farkas multipliers, primal/dual solutions of the interpolation LP.
  Nothing here is proved and nothing needs to be: every answer is re-checked by the Lean-evaluated checkers of
  `AITB.Model.C12Check` (proved sound in `AITB.Props.C12CheckSound` / `C12LpCert`); a wrong answer can only
  turn a verdict into `skip`.
-/
import AITB.Model.Prune
namespace DrvC12LP
open AITB.Prune

structure Tab where
  rows : Array (Array Rat)   -- each of width nv + m + 1: structural columns, slack columns, right-hand side
  z : Array Rat              -- reduced-cost row of the same width (`z_j < 0` = improving column), last entry = objective
  basis : Array Nat          -- basic column of each row

def Tab.at (t : Tab) (i j : Nat) : Rat := (t.rows.getD i #[]).getD j 0
def Tab.zAt (t : Tab) (j : Nat) : Rat := t.z.getD j 0

def axpy (f : Rat) (x y : Array Rat) : Array Rat := (Array.range y.size).map (fun i => y.getD i 0 - f * x.getD i 0)

def pivot (t : Tab) (r c : Nat) : Tab :=
  let pr := t.rows.getD r #[]
  let p := pr.getD c 0
  let prn := pr.map (fun x => x / p)
  let rows := (Array.range t.rows.size).map (fun i =>
    if i == r then prn else
      let row := t.rows.getD i #[]
      let f := row.getD c 0
      if f == 0 then row else axpy f prn row)
  let fz := t.zAt c
  { rows := rows, z := if fz == 0 then t.z else axpy fz prn t.z, basis := t.basis.setIfInBounds r c }

/-- one iteration with Bland's rule; `none` = optimal (or unbounded, which the callers' problems exclude) -/
def step (t : Tab) (ncol : Nat) : Option Tab :=
  match (List.range ncol).find? (fun j => decide (t.zAt j < 0)) with
  | none => none
  | some c =>
    let cand := (List.range t.rows.size).filter (fun i => decide (0 < t.at i c))
    let best := cand.foldl (fun (acc : Option (Nat × Rat)) i =>
      let ratio := t.at i ncol / t.at i c
      match acc with
      | none => some (i, ratio)
      | some (bi, br) => if ratio < br || (ratio == br && t.basis.getD i 0 < t.basis.getD bi 0) then some (i, ratio) else acc) none
    match best with
    | none => none
    | some (r, _) => some (pivot t r c)

def run : Nat → Tab → Nat → Tab
  | 0, t, _ => t
  | fuel + 1, t, ncol => match step t ncol with
    | none => t
    | some t' => run fuel t' ncol

/-- maximise `c·x` subject to `A x ≤ b`, `x ≥ 0`, with `b ≥ 0` (the origin is feasible).
    Returns `(x, y)`: primal solution and dual multipliers (one per row), or `none` when the fuel ran out. -/
def simplexMax (A : List Vec) (b : Vec) (c : Vec) : Option (Vec × Vec) :=
  let m := A.length; let nv := c.length
  let ncol := nv + m
  let rows := (List.range m).map (fun i =>
    ((List.range nv).map (fun j => (A.getD i []).getD j 0) ++ (List.range m).map (fun k => if k == i then (1 : Rat) else 0) ++ [b.getD i 0]).toArray)
  let z := ((List.range nv).map (fun j => - c.getD j 0) ++ List.replicate (m + 1) 0).toArray
  let t0 : Tab := ⟨rows.toArray, z, ((List.range m).map (fun i => nv + i)).toArray⟩
  let fuel := 200 + 20 * (m + nv)
  let t := run fuel t0 ncol
  if (List.range ncol).any (fun j => decide (t.zAt j < 0)) then none else
  let x := (List.range nv).map (fun j =>
    match (List.range m).find? (fun i => t.basis.getD i 0 == j) with
    | some i => t.at i ncol
    | none => 0)
  let y := (List.range m).map (fun i => t.zAt (nv + i))
  some (x, y)

/-- value of the matrix game `max_{b ∈ simplex} min_i b·d_i` for the rows `D` (dimension `S`):
    returns `(value, b, lam)` with `lam` multipliers over the rows (`Σ lam = 1` at an optimum) -/
def gameSolve (S : Nat) (D : List Vec) : Option (Rat × Vec × Vec) :=
  if S == 0 then none else
  let mx := D.foldl (fun m d => d.foldl (fun m x => maxQ m (if x < 0 then -x else x)) m) 0
  let sh := mx + 1
  -- variables b_0..b_{S-1}, t (= delta + sh ≥ 0): rows  t − Σ b_s (d_is + sh) ≤ 0 ;  Σ b ≤ 1 ; maximise t
  let A := D.map (fun d => (List.range S).map (fun s => -(d.getD s 0 + sh)) ++ [1]) ++ [List.replicate S 1 ++ [0]]
  let bvec := List.replicate D.length 0 ++ [1]
  let c := List.replicate S 0 ++ [1]
  match simplexMax A bvec c with
  | none => none
  | some (x, y) => some (x.getD S 0 - sh, x.take S, y.take D.length)

/-- `min gains·c` s.t. `row·c ≤ rhs` (rhs ≥ 0), `c ≥ 0`: returns `(c, y)` with `y ≥ 0` the row multipliers -/
def interpSolve (rows : List (Vec × Rat)) (gains : Vec) : Option (Vec × Vec) :=
  simplexMax (rows.map (·.1)) (rows.map (·.2)) (gains.map (fun g => -g))

end DrvC12LP
