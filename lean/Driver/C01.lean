import AITB.Model.Proto
import AITB.Model.MDP
open AITB AITB.MDP

/-!
  Driver for C01.  Every line carries the MDP, the call parameters and (after `|`) the implementation's exact output.
  `diff`  = executable model (AITB.Model.MDP) and implementation differ;
  `fail`  = a clause of the property is false on the implementation's own output.

  line   := C01 <op> <mode> <rep> <mdp> <op args> | <impl output>
  mode   := 1 exact (dyadic inputs, short run: compare with ==) | 2 dyadic inputs, long run (compare to 1e-9) | 0 non-dyadic inputs (1e-9)
  mdp    := S A γ  T[s][a][s1]…  R3[s][a][s1]…        (S*A*S numbers each, no length prefix)
  rep    := dense | sparse | learned | learned_sp | learned_sx | learned_spsx | thompson | generic
-/
namespace DrvC01

structure Ctx where
  m : MDP
  rep : Rep
  repName : String
  exact : Bool
  dyadic : Bool

def arr3 (S A : Nat) (l : Array Rat) (s a s1 : Nat) : Rat := l.getD ((s * A + a) * S + s1) 0

def mdpP : P MDP := do
  let S ← P.nat; let A ← P.nat; let γ ← P.q
  let t ← P.rep P.q (S * A * S); let r ← P.rep P.q (S * A * S)
  let ta := t.toArray; let ra := r.toArray
  let T := arr3 S A ta; let R3 := arr3 S A ra
  -- R(s,a) = Σ T·R3 exactly (what Model::setRewardFunction computes in doubles), stored as data
  let Rm := mkMat S A (fun s a => sumTo S (fun s1 => T s a s1 * R3 s a s1))
  pure { S := S, A := A, T := T, R3 := R3, R := Rm.get, γ := γ }

def ctxP : P Ctx := do
  let mode ← P.nat
  let rn ← P.tok
  let rep ← (match rn with
    | "dense" | "sparse" | "learned" | "learned_sp" | "learned_sx" | "learned_spsx" | "thompson" => pure Rep.eigen
    | "generic" => pure Rep.generic
    | _ => P.fail)
  let m ← mdpP
  pure ⟨m, rep, rn, mode == 1, mode != 0⟩

/-- the exact-rational model is only run this many iterations on inexact cases (denominators grow with every step) -/
def capOf (c : Ctx) (h : Nat) : Nat := if c.exact then h else if c.dyadic then min h 500 else min h 40

def powR (x : Rat) : Nat → Rat
  | 0 => 1
  | n+1 => x * powR x n

def qmaxOf (m : MDP) (q : Mat) : Rat :=
  (List.range m.S).foldl (fun acc s => (List.range m.A).foldl (fun acc a => if acc < absR (q.get s a) then absR (q.get s a) else acc) acc) 0

def rmaxOf (m : MDP) : Rat :=
  (List.range m.S).foldl (fun acc s => (List.range m.A).foldl (fun acc a => if acc < absR (m.R s a) then absR (m.R s a) else acc) acc) 0

/-- a correct run with horizon `h` cannot end above the tolerance: consecutive iterates inside the ball of radius Rmax/(1-γ)
    differ by at most γ^k · 2Rmax/(1-γ) after k steps (geometric decay of the variation) -/
def mustConverge (m : MDP) (h : Nat) (tol : Rat) : Bool :=
  let k := min (h - 1) 3000
  decide (0 < m.γ) && decide (m.γ < 1) && decide (powR m.γ k * (2 * rmaxOf m / (1 - m.γ)) ≤ tol)

def vecP (n : Nat) : P Vec := do let l ← P.rep P.q n; pure l.toArray
def natsP (n : Nat) : P (Array Nat) := do let l ← P.rep P.nat n; pure l.toArray
def matP (n k : Nat) : P Mat := do let l ← P.rep (vecP k) n; pure l.toArray

/-- numbers agree: bit-exact when the case is flagged exact, else to 1e-9 -/
def eqNum (c : Ctx) (a b : Rat) : Bool := if c.exact then a == b else closeQ (1 / 1000000000) a b
def eqVec (c : Ctx) (n : Nat) (a b : Vec) : Bool := a.size == b.size && allLt n (fun i => eqNum c (a.get i) (b.get i))
def eqMat (c : Ctx) (n k : Nat) (a b : Mat) : Bool := allLt n (fun i => allLt k (fun j => eqNum c (a.get i j) (b.get i j)))

def showVec (v : Vec) : String := " ".intercalate (v.toList.map ratStr)

/-- float slack granted to inequalities evaluated on double outputs: 1e-9 relative to the magnitudes involved -/
def scaleOf (m : MDP) (V : Vec) : Rat :=
  let mx := V.foldl (fun acc x => if acc < absR x then absR x else acc) 1
  let rx := (List.range m.S).foldl (fun acc s => (List.range m.A).foldl (fun acc a => if acc < absR (m.R s a) then absR (m.R s a) else acc) acc) 1
  if mx < rx then rx else mx
def fslack (m : MDP) (V : Vec) : Rat := scaleOf m V / 1000000000

/-- smallest gap between a row's maximum and the runner-up *distinct beyond 1e-9*: tells whether first-max argmax is well conditioned -/
def rowWellCond (A : Nat) (q : Nat → Rat) (sl : Rat) : Bool :=
  let mx := maxTo (A - 1) q
  allLt A (fun a => decide (q a = mx) || decide (q a < mx - sl))

def warmVFP (S : Nat) : P (Option VF) := do
  let w ← P.bool
  if !w then pure none else do
    let n ← P.nat; let vals ← vecP n; let k ← P.nat; let acts ← natsP k
    let _ := S
    pure (some ⟨vals, acts⟩)

/-- re-run the VI loop collecting the smallest |variation − tol| margin at every loop test -/
def viMargin (m : MDP) (rep : Rep) (ir : Mat) (tol : Rat) : Nat → VIState → Rat → Rat
  | 0, _, mg => mg
  | fuel+1, st, mg =>
    let d := absR (st.variation - tol)
    let mg := if d < mg then d else mg
    if !(decide (st.variation > tol)) then mg else viMargin m rep ir tol fuel (viStep m rep ir true st) mg

/-- `vi <ctx> h tol warm | variation V[S] nActs acts[nActs] Q[S][A]` -/
def vi : P String := do
  let c ← ctxP; let m := c.m
  let h ← P.nat; let tol ← P.q; let warm ← warmVFP m.S; P.bar
  let iVar ← P.q; let iV ← vecP m.S; let iActsL ← P.nats; let iActs := iActsL.toArray; let iQ ← matP m.S m.A; P.eof
  let hm := capOf c h
  let out := valueIteration m c.rep hm tol warm
  let useTol := useTolerance tol
  let capped := hm < h && (!useTol || out.timestep == hm)
  let sl := fslack m iV
  -- conditioning of the tolerance test (only matters for inexact arithmetic)
  let v1 : VF := match warm with
    | none => makeVF m.S
    | some v => acceptWarm m.S v
  let warmUsed := match warm with | none => false | some v => v.values.size == m.S
  let margin := if useTol && !c.exact && !capped then viMargin m c.rep (immRewards m c.rep) tol hm ⟨v1, makeQ m.S m.A, tol * 2, 0⟩ 1 else 1
  let illc := decide (margin < sl / 100)
  let nodiff := capped || illc
  let comp := "ValueIteration"
  let v : Verdict := { tag := (if m.S ≤ 1 && m.A ≤ 1 then "trivial " else "") ++ (if useTol then "vi_tol" else "vi_dp") ++ (if warmUsed then " warm" else "")
                              ++ (if capped then " capped" else "") ++ (if illc then " illcond" else "") ++ " " ++ c.repName }
  -- L2b: model vs implementation
  -- the variation is a difference of two value vectors: in inexact mode its rounding error is relative to the values, not to itself
  let v := v.diffIf (!nodiff && !(eqNum c out.variation iVar) && (c.exact || decide (sl < absR (out.variation - iVar)))) s!"{comp} variation model={ratStr out.variation} impl={ratStr iVar}"
  let v := v.diffIf (!nodiff && !(eqVec c m.S out.vf.values iV)) s!"{comp} values model={showVec out.vf.values} impl={showVec iV}"
  let v := v.diffIf (!nodiff && !(eqMat c m.S m.A out.q iQ)) s!"{comp} q"
  let wellc := c.exact || allLt m.S (fun s => rowWellCond m.A (out.q.get s) sl)
  let v := v.diffIf (!nodiff && wellc && out.vf.actions != iActs) s!"{comp} actions model={out.vf.actions} impl={iActs}"
  -- L3: property clauses on the implementation's own output
  let actsOK := AITB.Gen.C01.viResizesActions || (match warm with | some w => w.actions.size == m.S || w.values.size != m.S | none => true)
  let stepped := h > 0
  -- (a) tolerance zero, default start: exactly the h-step DP values and their backup
  let v := if !useTol && !warmUsed && !capped then
      let dp := optIter m h
      let v := v.failIf (!(eqVec c m.S dp iV)) s!"{comp} not_h_step_dp want={showVec dp} got={showVec iV}"
      let v := v.failIf (iVar != 0) s!"{comp} variation_not_zero {ratStr iVar}"
      if h = 0 then v.failIf (!(eqMat c m.S m.A (makeQ m.S m.A) iQ)) s!"{comp} q_not_backup h0"
      else
        let prev := optIter m (h - 1)
        v.failIf (!(eqMat c m.S m.A (mkMat m.S m.A (qBackup m prev.get)) iQ)) s!"{comp} q_not_backup"
    else v
  -- (a') tolerance zero, accepted warm start: exactly h backups of the supplied values (whatever its actions vector holds)
  let v := match warm with
    | some w => if !useTol && warmUsed && !capped then
        let dp := optIterFrom m w.values h
        v.failIf (!(eqVec c m.S dp iV)) s!"{comp} warm_start_not_iterated want={showVec dp} got={showVec iV}"
      else v
    | none => v
  -- (b) greedy actions and V = max Q on the implementation's own Q (exact: V is a copy of a Q entry)
  let v := if stepped && actsOK then
      let v := v.failIf (!(checkGreedy m.S m.A iQ.get (natAt iActs) 0)) s!"{comp} action_not_greedy {iActs}"
      v.failIf (!(allLt m.S (fun s => iV.get s == iQ.get s (natAt iActs s)))) s!"{comp} v_not_max_q"
    else v
  -- (c) tolerance run: claimed variation within tolerance when the horizon cannot have been exhausted; Bellman residual ≤ γ·variation
  let v := if useTol && stepped && actsOK && !warmUsed then
      let v := v.failIf (mustConverge m h tol && !(decide (iVar ≤ tol))) s!"{comp} stopped_above_tolerance {ratStr iVar}"
      v.failIf (!(checkResidual m iV.get (m.γ * iVar + sl))) s!"{comp} residual_exceeds_bound var={ratStr iVar} res={ratStr (residual m iV.get)}"
    else v
  return v.render

/-- re-run the PE loop collecting the smallest |variation − tol| margin -/
def peMargin (m : MDP) (rep : Rep) (ir : Mat) (tol : Rat) (p : Mat) : Nat → PEState → Rat → Rat
  | 0, _, mg => mg
  | fuel+1, st, mg =>
    let d := absR (st.variation - tol)
    let mg := if d < mg then d else mg
    if !(decide (st.variation > tol)) then mg else peMargin m rep ir tol p fuel (peStep m rep ir true p st) mg

/-- `pe <ctx> h tol warm(0 | 1 n vals) policy[S][A] | variation V[S] Q[S][A]` -/
def pe : P String := do
  let c ← ctxP; let m := c.m
  let h ← P.nat; let tol ← P.q
  let w ← P.bool
  let warm ← (if w then do let n ← P.nat; let x ← vecP n; pure (some x) else pure none)
  let pol ← matP m.S m.A; P.bar
  let iVar ← P.q; let iV ← vecP m.S; let iQ ← matP m.S m.A; P.eof
  let hm := capOf c h
  let out := policyEvaluation m c.rep hm tol warm pol
  let useTol := useTolerance tol
  let capped := hm < h && (!useTol || out.timestep == hm)
  let sl := fslack m iV
  let v1 : Vec := match warm with
    | none => mkVec m.S (fun _ => 0)
    | some v => if v.size != m.S then mkVec m.S (fun _ => 0) else v
  let warmUsed := match warm with | none => false | some v => v.size == m.S
  let margin := if useTol && !c.exact && !capped then peMargin m c.rep (immRewards m c.rep) tol pol hm ⟨v1, makeQ m.S m.A, tol * 2, 0⟩ 1 else 1
  let illc := decide (margin < sl / 100)
  let nodiff := capped || illc
  let comp := "PolicyEvaluation"
  let v : Verdict := { tag := (if m.S ≤ 1 && m.A ≤ 1 then "trivial " else "") ++ (if useTol then "pe_tol" else "pe_dp") ++ (if warmUsed then " warm" else "")
                              ++ (if capped then " capped" else "") ++ (if illc then " illcond" else "") ++ " " ++ c.repName }
  let v := v.diffIf (!nodiff && !(eqNum c out.variation iVar) && (c.exact || decide (sl < absR (out.variation - iVar)))) s!"{comp} variation model={ratStr out.variation} impl={ratStr iVar}"
  let v := v.diffIf (!nodiff && !(eqVec c m.S out.v iV)) s!"{comp} values model={showVec out.v} impl={showVec iV}"
  let v := v.diffIf (!nodiff && !(eqMat c m.S m.A out.q iQ)) s!"{comp} q"
  let stepped := h > 0
  let v := if !useTol && !warmUsed && !capped then
      let ev := evalIter m pol h
      let v := v.failIf (!(eqVec c m.S ev iV)) s!"{comp} not_h_step_policy_value want={showVec ev} got={showVec iV}"
      v.failIf (iVar != 0) s!"{comp} variation_not_zero {ratStr iVar}"
    else v
  -- tolerance zero, accepted warm start: exactly h sweeps from the supplied values (pe_tol0_warm); this is the call PolicyIteration makes
  let v := match warm with
    | some w => if !useTol && warmUsed && !capped then
        let ev := evalIterFrom m pol w h
        v.failIf (!(eqVec c m.S ev iV)) s!"{comp} warm_start_not_iterated want={showVec ev} got={showVec iV}"
      else v
    | none => v
  -- a start of the wrong size is ignored: the answer is the one from zeros
  let v := match warm with
    | some w => if !useTol && !warmUsed && !capped && w.size != 0 then
        v.failIf (!(eqVec c m.S (evalIter m pol h) iV)) s!"{comp} wrong_size_start_not_ignored"
      else v
    | none => v
  -- V(s) = Σ_a π(s,a) Q(s,a) on the implementation's own Q
  let v := if stepped then
      v.failIf (!(allLt m.S (fun s => eqNum c (iV.get s) (dotTo m.A (iQ.get s) (pol.get s))))) s!"{comp} v_not_pi_dot_q"
    else v
  let v := if useTol && stepped && !warmUsed then
      let v := v.failIf (mustConverge m h tol && !(decide (iVar ≤ tol))) s!"{comp} stopped_above_tolerance {ratStr iVar}"
      v.failIf (!(allLt m.S (fun s => decide (absR (bellmanPi m pol.get iV.get s - iV.get s) ≤ m.γ * iVar + sl)))) s!"{comp} residual_exceeds_bound var={ratStr iVar}"
    else v
  return v.render

/-- conditioning of one greedy row: no |q a − mx| within `sl` of the tie thresholds -/
def greedyRowWellCond (A : Nat) (q : Nat → Rat) (sl : Rat) : Bool :=
  allLt A (fun a => allLt A (fun b =>
    let d := absR (q a - q b)
    decide (d = 0) || decide (sl < absR (d - AITB.Gen.equalToleranceSmall))))

structure PITrace where
  st : PIState
  ok : Bool          -- terminated within fuel
  wellCond : Bool
  capped : Bool

/-- PolicyIteration with conditioning information (same `piRoundWith` as the model; `hm` = capped horizon) -/
def piTrace (m : MDP) (rep : Rep) (h hm : Nat) (tol : Rat) (exact : Bool) (sl : Rat) : Nat → PIState → Bool → PITrace
  | 0, st, wc => ⟨st, false, wc, false⟩
  | fuel+1, st, wc =>
    let p := greedyPolicy m.S m.A st.qfun
    let out := policyEvaluation m rep hm tol st.vParam p
    let useTol := useTolerance tol
    if hm < h && (!useTol || out.timestep == hm) then ⟨st, true, wc, true⟩ else
    let v1 : Vec := match st.vParam with | none => mkVec m.S (fun _ => 0) | some v => v
    let mg := if useTol && !exact then peMargin m rep (immRewards m rep) tol p hm ⟨v1, makeQ m.S m.A, tol * 2, 0⟩ 1 else 1
    let wc := wc && !(decide (mg < sl / 100)) && (exact || allLt m.S (fun s => greedyRowWellCond m.A (out.q.get s) sl))
    let (st', again) := piRoundWith m out st
    if again then piTrace m rep h hm tol exact sl fuel st' wc else ⟨st', true, wc, false⟩

/-- `pi <ctx> h tol | Q[S][A]` -/
def pi : P String := do
  let c ← ctxP; let m := c.m
  let h ← P.nat; let tol ← P.q; P.bar
  let iQ ← matP m.S m.A; P.eof
  let iV := mkVec m.S (fun s => maxTo (m.A - 1) (iQ.get s))
  let sl := fslack m iV
  let q0 := makeQ m.S m.A
  let hm := capOf c h
  let tr := piTrace m c.rep h hm tol c.exact sl 300 ⟨q0, greedyPolicy m.S m.A q0, none, 0⟩ true
  let useTol := useTolerance tol
  let comp := "PolicyIteration"
  let v : Verdict := { tag := (if m.S ≤ 1 && m.A ≤ 1 then "trivial " else "") ++ (if useTol then "pi_tol" else "pi_dp")
                              ++ (if tr.capped then " capped" else "") ++ (if !tr.wellCond then " illcond" else "") ++ " " ++ c.repName }
  -- L3 (does not depend on the model run): V := max_a Q satisfies the Bellman equation within γ(tol + 2·tolSmall)
  -- hypothesis of policyIteration_chain that is checkable on the output: the greedy matrix of the returned Q is a distribution
  let coh := checkValidPi m (greedyPolicy m.S m.A iQ).get
  let v := { v with tag := v.tag ++ (if coh then "" else " incoherent_greedy") }
  let v := if useTol && mustConverge m h tol then
      -- policyIteration_chain + greedyRow_near_max: τ = 2·tieSlack B, B = largest |Q| entry.  The clause is the property's whatever the
      -- greedy matrix looks like; when the *as-found* tie scan (the model's) does not yield a distribution on the returned Q the failure
      -- is explained by that scan and carries its own kind (finding C01-3), otherwise it is unexplained.
      let eps := tol + 2 * tieSlack (qmaxOf m iQ)
      v.failIf (!(checkResidual m iV.get (m.γ * eps + sl)))
        (if coh then s!"{comp} residual_exceeds_bound res={ratStr (residual m iV.get)} bound={ratStr (m.γ * eps)}"
         else s!"{comp} greedy_row_not_distribution res={ratStr (residual m iV.get)} bound={ratStr (m.γ * eps)}")
    else v
  if !tr.ok then return (v.diffIf true s!"{comp} model_out_of_fuel").render else
  let v := v.diffIf (!tr.capped && tr.wellCond && !(eqMat c m.S m.A tr.st.qfun iQ)) s!"{comp} q rounds={tr.st.rounds}"
  return v.render

/-- `lp <ctx> | status prec V[S] acts[S] Q[S][A]`  (status 1 = returned, 0 = threw) -/
def lp : P String := do
  let c ← ctxP; let m := c.m; P.bar
  let okb ← P.bool
  let comp := "LinearProgramming"
  if !okb then return s!"fail {comp} no_solution" else
  let prec ← P.q; let iV ← vecP m.S; let iActs ← natsP m.S; let iQ ← matP m.S m.A; P.eof
  let sl := fslack m iV
  let (mq, macts) := lpAssemble m c.rep iV
  let v : Verdict := { tag := (if m.S ≤ 1 && m.A ≤ 1 then "trivial " else "") ++ "lp " ++ c.repName }
  let cx : Ctx := { c with exact := false }
  let v := v.diffIf (!(eqMat cx m.S m.A mq iQ)) s!"{comp} q_assembly"
  let wellc := allLt m.S (fun s => rowWellCond m.A (mq.get s) sl)
  let v := v.diffIf (wellc && macts != iActs) s!"{comp} actions model={macts} impl={iActs}"
  -- property: feasible and Bellman-tight within the precision the call reports (scaled to the magnitudes)
  let bound := prec * scaleOf m iV
  let v := v.failIf (!(checkLpFeasible m c.rep iV.get bound)) s!"{comp} infeasible"
  let v := v.failIf (!(checkResidual m iV.get bound)) s!"{comp} residual_exceeds_bound res={ratStr (residual m iV.get)} bound={ratStr bound}"
  let v := v.failIf (!(checkGreedy m.S m.A iQ.get (natAt iActs) 0)) s!"{comp} action_not_greedy {iActs}"
  return v.render

/-- `agree <ctx> tolVI tolPI precLP | Vvi[S] actsVI[S] Qpi[S][A] Vlp[S] Qlp[S][A]`:
    three converged solvers agree within the sum of their bounds divided by (1-γ) -/
def agree : P String := do
  let c ← ctxP; let m := c.m
  let tolVI ← P.q; let tolPI ← P.q; let prec ← P.q; P.bar
  let vVI ← vecP m.S; let aVI ← natsP m.S; let qPI ← matP m.S m.A; let vLP ← vecP m.S; let qLP ← matP m.S m.A; P.eof
  let vPI := mkVec m.S (fun s => maxTo (m.A - 1) (qPI.get s))
  let sl := fslack m vVI
  let bVI := m.γ * tolVI + sl
  let bPI := m.γ * (tolPI + 2 * tieSlack (qmaxOf m qPI)) + sl
  let bLP := prec * scaleOf m vLP
  let k := 1 / (1 - m.γ)
  let comp := "Agreement"
  let v : Verdict := { tag := (if m.S ≤ 1 && m.A ≤ 1 then "trivial " else "") ++ "agree " ++ c.repName }
  -- a disagreement of PolicyIteration that the as-found tie scan explains (its greedy matrix on the returned Q is not a distribution,
  -- finding C01-3) carries its own kind, so that the finding cannot mask any other disagreement
  let coh := checkValidPi m (greedyPolicy m.S m.A qPI).get
  let sfx := if coh then "" else "_greedy_row_not_distribution"
  let v := v.failIf (!(checkClose m.S vVI.get vLP.get ((bVI + bLP) * k))) s!"{comp} vi_lp_values"
  let v := v.failIf (!(checkClose m.S vVI.get vPI.get ((bVI + bPI) * k))) (if coh then s!"{comp} vi_pi_values" else s!"{comp} pi_values{sfx}")
  let v := v.failIf (!(checkClose m.S vPI.get vLP.get ((bPI + bLP) * k))) (if coh then s!"{comp} pi_lp_values" else s!"{comp} pi_values{sfx}")
  -- the VI action is near-greedy for the other solvers' Q (ties allowed)
  let v := v.failIf (!(checkGreedy m.S m.A qPI.get (natAt aVI) (2 * (tolVI + bVI + bPI) * k))) (if coh then s!"{comp} vi_action_not_greedy_for_pi" else s!"{comp} pi_values{sfx}")
  let v := v.failIf (!(checkGreedy m.S m.A qLP.get (natAt aVI) (2 * (tolVI + bVI + bLP) * k))) s!"{comp} vi_action_not_greedy_for_lp"
  return v.render

/-- `xrep <ctx> what | n  V_1[S] … V_n[S]`: the same call on the n representations returns the same values -/
def xrep : P String := do
  let c ← ctxP; let m := c.m
  let what ← P.tok; P.bar
  let n ← P.nat
  let vs ← P.rep (vecP m.S) n; P.eof
  let comp := "Representations"
  let v : Verdict := { tag := (if m.S ≤ 1 && m.A ≤ 1 then "trivial " else "") ++ "xrep_" ++ what }
  let bad := match vs with
    | [] => false
    | v0 :: rest => rest.any (fun w => !(eqVec c m.S v0 w))
  let v := v.failIf bad s!"{comp} {what}_differs"
  return v.render

/-- conditioning of a greedy row for the tie tests themselves: no pair sits within a hair of either threshold of `checkEqualGeneral` -/
def tieWellCond (A : Nat) (q : Nat → Rat) : Bool :=
  allLt A (fun a => allLt A (fun b =>
    let d := absR (q a - q b)
    let rel := minR (absR (q a)) (absR (q b)) * AITB.Gen.equalToleranceGeneral
    decide (d = 0) ||
      (decide (AITB.Gen.equalToleranceSmall / 1000000 < absR (d - AITB.Gen.equalToleranceSmall)) &&
       decide (rel / 1000 < absR (d - rel) || d ≤ AITB.Gen.equalToleranceSmall / 2))))

/-- `gp S A Q[S][A] | M[S][A]`: `MDP::QGreedyPolicy(Q).getPolicy()` -/
def gp : P String := do
  let S ← P.nat; let A ← P.nat; let q ← matP S A; P.bar
  let iM ← matP S A; P.eof
  let comp := "QGreedyPolicy"
  let mM := greedyPolicy S A q
  let wc := allLt S (fun s => tieWellCond A (q.get s))
  let one : Rat := 1
  let v : Verdict := { tag := (if A ≤ 1 then "trivial " else "") ++ "gp" ++ (if wc then "" else " illcond") }
  let v := v.diffIf (wc && !(allLt S (fun s => allLt A (fun a => closeQ (1 / 1000000000) (mM.get s a) (iM.get s a))))) s!"{comp} table"
  -- property-side clauses on the implementation's own table: what PolicyEvaluation needs from `policy.getPolicy()`
  let rowSum := fun s => sumTo A (iM.get s)
  let v := v.failIf (!(allLt S (fun s => allLt A (fun a => decide (0 ≤ iM.get s a))))) s!"{comp} negative_entry"
  let v := v.failIf (!(allLt S (fun s => decide (rowSum s ≤ one + 1 / 1000000000)))) s!"{comp} row_sum_above_one"
  let v := v.failIf (!(allLt S (fun s => decide (one - 1 / 1000000000 ≤ rowSum s)))) s!"{comp} row_sum_below_one"
  let v := v.failIf (!(allLt S (fun s =>
      let B := maxTo (A - 1) (fun a => absR (q.get s a))
      let mx := maxTo (A - 1) (q.get s)
      allLt A (fun a => decide (iM.get s a = 0) || decide (mx - 2 * tieSlack B ≤ q.get s a))))) s!"{comp} weight_far_below_max"
  return v.render

/-- `bop S A Q[S][A] | n V[n] nActs acts[nActs]`: `bellmanOperator(Q)` -/
def bop : P String := do
  let S ← P.nat; let A ← P.nat; let q ← matP S A; P.bar
  let n ← P.nat; let iV ← vecP n; let iActsL ← P.nats; let iActs := iActsL.toArray; P.eof
  let comp := "bellmanOperator"
  let mo := bellmanOp S A q
  let v : Verdict := { tag := (if A ≤ 1 then "trivial " else "") ++ "bop" }
  let v := v.diffIf (mo.values != iV || mo.actions != iActs) s!"{comp} model={showVec mo.values} {mo.actions} impl={showVec iV} {iActs}"
  -- bellmanOp_spec on the implementation's own output: S entries each, V(s) = Q(s, a_s) = row maximum, a_s the first maximiser
  let v := v.failIf (n != S || iActs.size != S) s!"{comp} wrong_size"
  let v := v.failIf (!(checkGreedy S A q.get (natAt iActs) 0)) s!"{comp} action_not_greedy {iActs}"
  let v := v.failIf (!(allLt S (fun s => iV.get s == q.get s (natAt iActs s)))) s!"{comp} v_not_max_q"
  let v := v.failIf (!(allLt S (fun s => allLt (natAt iActs s) (fun a => decide (q.get s a < q.get s (natAt iActs s)))))) s!"{comp} not_first_maximum"
  return v.render

/-- `settol <class> threw tolAfter tolBefore`: a negative tolerance is rejected and leaves the object unchanged -/
def settol : P String := do
  let cls ← P.tok; let threw ← P.bool; let after ← P.q; let before ← P.q; P.eof
  let v : Verdict := { tag := "settol" }
  let v := v.failIf (!threw) s!"{cls} negative_tolerance_accepted"
  let v := v.failIf (after != before) s!"{cls} tolerance_changed_by_rejected_call"
  return v.render

def componentOf (op : String) : String :=
  match op with
  | "vi" => "ValueIteration" | "pe" => "PolicyEvaluation" | "pi" => "PolicyIteration" | "lp" => "LinearProgramming"
  | "gp" => "QGreedyPolicy" | "bop" => "bellmanOperator" | "agree" => "Agreement" | _ => "Representations"

def handle (toks : List String) : String :=
  -- a NaN or an infinity anywhere in an output is never "the optimal value function"
  let outs := (toks.dropWhile (· != "|"))
  if outs.any (fun t => t == "nan" || t == "inf" || t == "-inf") then s!"fail {componentOf (toks.headD "")} not_finite" else
  if outs == ["|", "timeout"] then s!"fail {componentOf (toks.headD "")} does_not_terminate" else
  let r := match toks with
    | "gp" :: rest => P.run gp rest
    | "bop" :: rest => P.run bop rest
    | "settol" :: rest => P.run settol rest
    | "getter" :: _ :: cls :: _ => some s!"fail {cls} getter_mismatch"
    | "vi" :: rest => P.run vi rest
    | "pe" :: rest => P.run pe rest
    | "pi" :: rest => P.run pi rest
    | "lp" :: rest => P.run lp rest
    | "agree" :: rest => P.run agree rest
    | "xrep" :: rest => P.run xrep rest
    | _ => none
  r.getD "bad-op"

end DrvC01
