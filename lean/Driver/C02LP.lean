import AITB.Model.Num
/-! Exact two-phase simplex (Bland's rule) on the dual of   minimise c·x  s.t.  coef_i·x ≥ rhs_i  (x free).
  Copy of the finder in Driver/C15.lean (kept separate so the two drivers stay independent).  UNTRUSTED: C02 uses it only to
  propose multipliers that the Lean checker `AITB.POMDP.domBy` (sound by `domBy_sound`) then verifies exactly. -/
namespace DrvC02LP

structure GeRow where
  coef : List Rat
  rhs : Rat
  deriving Inhabited

structure Tab where
  t : Array (Array Rat)     -- n rows, width m + n + 1
  d : Array Rat             -- reduced costs, last entry = −objective
  basis : Array Nat
  deriving Inhabited

def rowScale (r : Array Rat) (q : Rat) : Array Rat := r.map (· * q)
def rowSubMul (r p : Array Rat) (q : Rat) : Array Rat := (r.zip p).map (fun (a, b) => a - q * b)

def pivot (tb : Tab) (i j : Nat) : Tab :=
  let pr := rowScale tb.t[i]! (1 / tb.t[i]![j]!)
  let t := (tb.t.zipIdx).map (fun (r, k) => if k == i then pr else if r[j]! == 0 then r else rowSubMul r pr r[j]!)
  let d := if tb.d[j]! == 0 then tb.d else rowSubMul tb.d pr tb.d[j]!
  { t := t, d := d, basis := tb.basis.set! i j }

/-- Bland: smallest allowed column with negative reduced cost -/
def entering (tb : Tab) (allowed : Nat) : Option Nat :=
  (List.range allowed).find? (fun j => tb.d[j]! < 0)

def leaving (tb : Tab) (j w : Nat) : Option Nat :=
  let cands := (List.range tb.t.size).filter (fun i => tb.t[i]![j]! > 0)
  cands.foldl (fun (best : Option Nat) i =>
    match best with
    | none => some i
    | some b =>
      let ri := tb.t[i]![w]! / tb.t[i]![j]!
      let rb := tb.t[b]![w]! / tb.t[b]![j]!
      if ri < rb || (ri == rb && tb.basis[i]! < tb.basis[b]!) then some i else some b) none

inductive Stop where | optimal | unbounded | fuel
  deriving BEq

def iterate (allowed w : Nat) : Nat → Tab → Tab × Stop
  | 0, tb => (tb, .fuel)
  | f+1, tb =>
    match entering tb allowed with
    | none => (tb, .optimal)
    | some j =>
      match leaving tb j w with
      | none => (tb, .unbounded)
      | some i => iterate allowed w f (pivot tb i j)

def costRow (tb : Tab) (cost : Nat → Rat) (width : Nat) : Array Rat :=
  Array.ofFn (n := width) (fun j =>
    (if j.val + 1 == width then 0 else cost j.val)
      - (List.range tb.t.size).foldl (fun acc i => acc + cost tb.basis[i]! * tb.t[i]![j.val]!) 0)

inductive Sol where
  | optimal (x y : List Rat)
  | infeasible        -- the flat LP has no optimum (infeasible or unbounded); not certified
  | fuel

def simplex (n : Nat) (rows : List GeRow) (c : List Rat) : Sol :=
  let m := rows.length
  let width := m + n + 1
  let rowsA := rows.toArray
  let sign : Array Rat := Array.ofFn (n := n) (fun i => if c.getD i.val 0 < 0 then -1 else 1)
  let t : Array (Array Rat) := Array.ofFn (n := n) (fun i =>
    Array.ofFn (n := width) (fun j =>
      if j.val < m then sign[i.val]! * (rowsA[j.val]!).coef.getD i.val 0
      else if j.val < m + n then (if j.val == m + i.val then 1 else 0)
      else sign[i.val]! * c.getD i.val 0))
  let tb0 : Tab := { t := t, d := #[], basis := Array.ofFn (n := n) (fun i => m + i.val) }
  let tb0 := { tb0 with d := costRow tb0 (fun j => if j < m then 0 else 1) width }
  let (tb1, s1) := iterate (m + n) (m + n) 5000 tb0
  if s1 != .optimal then .fuel else
  if tb1.d[m + n]! != 0 then .infeasible else
  -- drive the remaining (zero-level) artificials out of the basis
  let tb2 := (List.range n).foldl (fun (tb : Tab) i =>
    if tb.basis[i]! < m then tb else
    match (List.range m).find? (fun j => tb.t[i]![j]! != 0) with
    | some j => pivot tb i j
    | none => tb) tb1
  let tb2 := { tb2 with d := costRow tb2 (fun j => if j < m then -(rowsA[j]!).rhs else 0) width }
  let (tb3, s3) := iterate m (m + n) 5000 tb2
  match s3 with
  | .fuel => .fuel
  | .unbounded => .infeasible
  | .optimal =>
    let y := (List.range m).map (fun j =>
      match (List.range n).find? (fun i => tb3.basis[i]! == j) with
      | some i => tb3.t[i]![m + n]!
      | none => 0)
    let x := (List.range n).map (fun i => sign[i]! * tb3.d[m + i]!)
    .optimal x y


end DrvC02LP
