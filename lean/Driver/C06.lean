import AITB.Model.Proto
import AITB.Model.Guard
import AITB.Model.ModelState
import AITB.Model.CoopDyn
import AITB.Model.AmdpHull
import AITB.Model.Loader
open AITB AITB.Guard AITB.MS AITB.Sampling

namespace DrvC06

def tab3 (X Y Z : Nat) : P Tab3 := P.rep (P.rep (P.rep P.x Z) Y) X
def tab2 (X Y : Nat) : P Tab2 := P.rep (P.rep P.x Y) X

def state : P St := do
  let S ← P.nat; let A ← P.nat; let O ← P.nat; let d ← P.x
  let T ← tab3 A S S; let R ← tab2 S A; let Om ← tab3 A S O
  return { S := S, A := A, O := O, disc := d, T := T, R := R, Om := Om }

def rep : P Rep := do
  let t ← P.tok
  if t == "dense" then pure .dense else if t == "sparse" then pure .sparse else P.fail

def eps : Rat := 1 / 1000000000

/-- same class, finite values within 1e-9 (relative or absolute) -/
def xclose (a b : XRat) : Bool :=
  match a, b with
  | .fin p, .fin q => closeQ eps p q
  | .nan, .nan => true
  | .pinf, .pinf => true
  | .ninf, .ninf => true
  | _, _ => false

def xeq (a b : XRat) : Bool := a == b

def all3 (X Y Z : Nat) (f : Nat → Nat → Nat → Bool) : Bool :=
  (List.range X).all fun x => (List.range Y).all fun y => (List.range Z).all fun z => f x y z
def all2 (X Y : Nat) (f : Nat → Nat → Bool) : Bool :=
  (List.range X).all fun x => (List.range Y).all fun y => f x y

/-- states agree through the getters (`c` compares numbers) -/
def stAgree (c : XRat → XRat → Bool) (m i : St) : Bool :=
  m.S == i.S && m.A == i.A && m.O == i.O && c m.disc i.disc &&
  all3 i.A i.S i.S (fun a s s1 => c (get3 m.T a s s1) (get3 i.T a s s1)) &&
  all2 i.S i.A (fun s a => c (get2 m.R s a) (get2 i.R s a)) &&
  all3 i.A i.S i.O (fun a s o => c (get3 m.Om a s o) (get3 i.Om a s o))

/-- the documented tolerance ("off by rounding": 1e-6, Utils/Core.hpp).  The property clauses are evaluated with THIS number, not with
    the regenerated `tol` the model follows (equal today: theorem `tolerance_is_documented`), so that a widened library tolerance
    yields a failing input (a stored row that is no distribution) and not only a broken obligation -/
def docTol : Rat := 1 / 1000000
def slack : Rat := docTol + eps

def rowsDistB (t : Tab3) : Bool := t.all fun m => m.all (rowDistB slack)
/-- no stored entry is negative (exact on the sign: `valid_no_negative`; the sparse validator tests signs since fixes/C05-2) -/
def noNegB (t : Tab3) : Bool := t.all fun m => m.all fun row => row.all fun v => !(XRat.lt v (.fin 0))

/-- rows whose accept/reject decision is within 1e-9 of the tolerance boundary cannot be compared between
    double arithmetic and exact arithmetic -/
def illRow (row : List XRat) : Bool :=
  match sumX row with
  | .fin s => decide (absQ (absQ (s - 1) - tol) < eps)
  | _ => false
def illEntry (v : XRat) : Bool :=
  match v with
  | .fin q => decide (absQ (absQ q - tol) < eps / 1000)
  | _ => false
def illTab (sparse : Bool) (t : Tab3) : Bool :=
  t.any fun m => m.any fun row => illRow row || illRow (row.map sparsify) || (sparse && row.any illEntry)

def baseCls : Rep → String
  | .dense => "MDP::Model"
  | .sparse => "MDP::SparseModel"
def obsCls : Rep → String
  | .dense => "POMDP::Model"
  | .sparse => "POMDP::SparseModel"

def errOfBool (b : Bool) : String := if b then "invalid_argument" else "none"

def discKind (d : XRat) : String := match d with
  | .nan => "accepts_nan_discount"
  | _ => "accepts_invalid_discount"

/-- `op kb ko name pre | args | err post` -/
def opLine : P String := do
  let kb ← rep; let ko ← rep; let name ← P.tok
  let pre ← state; P.bar
  let k : Kind := ⟨kb, ko⟩
  let S := pre.S; let A := pre.A; let O := pre.O
  let (op, comp, ill) ← (match name with
    | "setDiscount" => do let d ← P.x; pure (Op.setDiscount d, baseCls kb ++ "::setDiscount", false)
    | "setT3D" => do let t ← tab3 S A S; pure (Op.setT3D t, baseCls kb ++ "::setTransitionFunction3D", illTab (kb == .sparse) t)
    | "setTEigen" => do let t ← tab3 A S S; pure (Op.setTEigen t, baseCls kb ++ "::setTransitionFunctionEigen", illTab false t)
    | "setR3D" => do
        let r ← tab3 S A S
        -- the sparse class stores the expected reward only when it differs from 0 by more than the tolerance:
        -- values within 1e-12 of that boundary cannot be compared between double and exact arithmetic
        let ill := kb == Rep.sparse && (List.range S).any (fun s => (List.range A).any (fun a => illEntry (expReward S r pre.T s a)))
        pure (Op.setR3D r, baseCls kb ++ "::setRewardFunction3D", ill)
    | "setREigen" => do let r ← tab2 S A; pure (Op.setREigen r, baseCls kb ++ "::setRewardFunctionEigen", false)
    | "setO3D" => do let o ← tab3 S A O; pure (Op.setO3D o, obsCls ko ++ "::setObservationFunction3D", illTab (ko == .sparse) o)
    | "setOEigen" => do let o ← tab3 A S O; pure (Op.setOEigen o, obsCls ko ++ "::setObservationFunctionEigen", illTab false o)
    | _ => P.fail : P (Op × String × Bool))
  P.bar
  let err ← P.tok; let post ← state; P.eof
  if ill then return "skip ill_conditioned" else
  let (mst, mthrew) := step k pre op
  let threw := err != "none"
  let v : Verdict := { tag := name ++ (if threw then " rejected" else " accepted") }
  -- property clauses on the implementation's own output
  let v := v.failIf (threw && err != "invalid_argument") s!"{comp} wrong_exception_class {err}"
  let v := v.failIf (threw && !(stAgree xeq pre post)) s!"{comp} failed_call_changed_object"
  let v := match op with
    | .setDiscount d =>
        let v := v.failIf (!threw && !(inUnitB post.disc)) s!"{comp} {discKind post.disc} {post.disc}"
        v.failIf (threw && inUnitB d) s!"{comp} rejects_valid_discount {d}"
    | .setT3D t =>
        let v := v.failIf (!threw && !(rowsDistB post.T)) s!"{comp} stored_row_not_distribution"
        let v := v.failIf (!threw && !(noNegB post.T)) s!"{comp} stored_negative_entry"
        v.failIf (!threw && !(all3 A S S (fun a s s1 => match get3 post.T a s s1, get3 t s a s1 with
            | .fin x, .fin y => decide (absQ (x - y) ≤ tol) | _, _ => false))) s!"{comp} table_not_the_supplied_one"
    | .setTEigen t =>
        let v := v.failIf (!threw && !(rowsDistB post.T)) s!"{comp} stored_row_not_distribution"
        let v := v.failIf (!threw && !(noNegB post.T)) s!"{comp} stored_negative_entry"
        v.failIf (!threw && !(all3 A S S (fun a s s1 => xeq (get3 post.T a s s1) (get3 t a s s1)))) s!"{comp} table_not_the_supplied_one"
    | .setO3D o =>
        let v := v.failIf (!threw && !(rowsDistB post.Om)) s!"{comp} stored_row_not_distribution"
        let v := v.failIf (!threw && !(noNegB post.Om)) s!"{comp} stored_negative_entry"
        v.failIf (!threw && !(all3 A S O (fun a s z => match get3 post.Om a s z, get3 o s a z with
            | .fin x, .fin y => decide (absQ (x - y) ≤ tol) | _, _ => false))) s!"{comp} table_not_the_supplied_one"
    | .setOEigen o =>
        let v := v.failIf (!threw && !(rowsDistB post.Om)) s!"{comp} stored_row_not_distribution"
        let v := v.failIf (!threw && !(noNegB post.Om)) s!"{comp} stored_negative_entry"
        v.failIf (!threw && !(all3 A S O (fun a s z => xeq (get3 post.Om a s z) (get3 o a s z)))) s!"{comp} table_not_the_supplied_one"
    | .setR3D r =>
        -- expected reward w.r.t. the object's own transition table; the sparse class may drop |value| ≤ tol
        v.failIf (!threw && !(all2 S A (fun s a =>
            match expReward S r post.T s a, get2 post.R s a with
            | .fin e, .fin g => closeQ eps e g || (kb == Rep.sparse && decide (absQ e ≤ tol + eps) && decide (g = 0))
            | e, g => xclose e g))) s!"{comp} reward_not_expected"
    | .setREigen r =>
        v.failIf (!threw && !(all2 S A (fun s a => xeq (get2 post.R s a) (get2 r s a)))) s!"{comp} reward_not_the_supplied_one"
  -- correspondence with the model
  let v := v.diffIf (mthrew != threw) s!"{comp} outcome model={errOfBool mthrew} impl={err}"
  let v := v.diffIf (mthrew == threw && !(stAgree xclose mst post)) s!"{comp} state_after_call"
  return v.render

structure SrcP where
  src : Src
  O : Nat
  om : Tab3

def srcP (pomdp : Bool) : P SrcP := do
  let S ← P.nat; let A ← P.nat; let d ← P.x
  let T ← tab3 S A S; let R ← tab3 S A S
  if pomdp then
    let O ← P.nat; let om ← tab3 S A O
    return ⟨⟨S, A, d, T, R⟩, O, om⟩
  else return ⟨⟨S, A, d, T, R⟩, 0, []⟩

/-- `acc kb ko pomdp state | generic view` : the generic interface of an object returns what its tables hold
    (`srcOf`: getTransitionProbability(s,a,s1) = T[a](s,s1), getExpectedReward(s,a,s1) = R(s,a), getObservationProbability(s1,a,o) = O[a](s1,o)) -/
def accLine : P String := do
  let kb ← rep; let ko ← rep; let pomdp ← P.bool
  let st ← state; P.bar
  let sp ← srcP pomdp; P.eof
  let comp := (if pomdp then obsCls ko else baseCls kb)
  let m := srcOf st
  let v : Verdict := { tag := "acc" }
  let v := v.failIf (sp.src.S != st.S || sp.src.A != st.A || (pomdp && sp.O != st.O)) s!"{comp}::getS sizes_disagree"
  let v := v.failIf (!(xeq sp.src.disc st.disc)) s!"{comp}::getDiscount views_disagree"
  let v := v.failIf (!(all3 st.S st.A st.S (fun s a s1 => xeq (get3 sp.src.T s a s1) (get3 m.T s a s1))))
            s!"{baseCls kb}::getTransitionProbability accessor_disagrees_with_table"
  let v := v.failIf (!(all3 st.S st.A st.S (fun s a s1 => xeq (get3 sp.src.R s a s1) (get3 m.R s a s1))))
            s!"{baseCls kb}::getExpectedReward accessor_disagrees_with_table"
  let v := v.failIf (pomdp && !(all3 st.S st.A st.O (fun s1 a o => xeq (get3 sp.om s1 a o) (get3 st.Om a s1 o))))
            s!"{obsCls ko}::getObservationProbability accessor_disagrees_with_table"
  return v.render

/-- `ctor kb ko pomdp which args | err [state]` -/
def ctorLine : P String := do
  let kb ← rep; let ko ← rep; let pomdp ← P.bool; let which ← P.tok
  let k : Kind := ⟨kb, ko⟩
  let (model, ill, check, srcInfo) ← (match which with
    | "basic" => do
        let S ← P.nat; let A ← P.nat; let d ← P.x
        let O ← (if pomdp then P.nat else pure 0)
        let b := ctorBasic kb S A d
        pure (if pomdp then b.map (fun s => pomdpBasic s O) else b, false, true, none)
    | "c3d" => do
        let S ← P.nat; let A ← P.nat; let d ← P.x
        let t ← tab3 S A S; let r ← tab3 S A S
        let b := ctor3D kb S A t r d
        if pomdp then
          let O ← P.nat; let o ← tab3 S A O
          pure (b.bind (fun s => pomdp3D k s O o), illTab (kb == .sparse) t || illTab (ko == .sparse) o, true, none)
        else pure (b, illTab (kb == .sparse) t, true, none)
    | "nocheck" => do
        let S ← P.nat; let A ← P.nat; let d ← P.x
        let t ← tab3 A S S; let r ← tab2 S A
        let b := ctorNoCheck S A t r d
        if pomdp then
          let O ← P.nat; let om ← tab3 A S O
          pure (some { b with O := O, Om := om }, false, false, none)
        else pure (some b, false, false, none)
    | "clone" => do
        -- source of the very same class: the implicit C++ copy constructor; the getters must be reproduced exactly
        let sp ← srcP pomdp
        let m := sp.src
        let st : St := { S := m.S, A := m.A, O := sp.O, disc := m.disc,
                         T := mk3 m.A m.S m.S (fun a s s1 => get3 m.T s a s1),
                         R := mk2 m.S m.A (fun s a => get3 m.R s a 0),
                         Om := mk3 m.A m.S sp.O (fun a s o => get3 sp.om s a o) }
        pure (some st, false, false, none)
    | "copy" => do
        let sp ← srcP pomdp
        let b := copyBase kb sp.src
        let illT := illTab true (sp.src.T)
        if pomdp then
          pure (b.bind (fun s => copyObs ko s sp.O sp.om), illT || illTab true sp.om, true, some sp)
        else pure (b, illT, true, some sp)
    | _ => P.fail : P (Option St × Bool × Bool × Option SrcP))
  P.bar
  let err ← P.tok
  let threw := err != "none"
  let post ← (if threw then pure none else (do let s ← state; pure (some s)) : P (Option St))
  P.eof
  if ill then return "skip ill_conditioned" else
  let compB := baseCls kb ++ "::ctor_" ++ which
  let compO := obsCls ko ++ "::ctor_" ++ which
  let v : Verdict := { tag := "ctor_" ++ which ++ (if threw then " rejected" else " accepted") }
  let v := v.failIf (threw && err != "invalid_argument") s!"{compB} wrong_exception_class {err}"
  let v := match post with
    | none => v
    | some p =>
        if !check then v else
        -- the 3D-table and converting constructors go through setDiscount / the 3D setters: attribute to those
        let viaSetters := which == "c3d" || which == "copy"
        let compD := if viaSetters then baseCls kb ++ "::setDiscount" else compB
        let compT := if which == "c3d" then baseCls kb ++ "::setTransitionFunction3D" else compB
        let compOm := if which == "c3d" then obsCls ko ++ "::setObservationFunction3D" else compO
        let v := v.failIf (!(inUnitB p.disc)) s!"{compD} {discKind p.disc} {p.disc}"
        let v := v.failIf (!(rowsDistB p.T)) s!"{compT} stored_row_not_distribution"
        let v := v.failIf (!(noNegB p.T)) s!"{compT} stored_negative_entry"
        let v := v.failIf (pomdp && !(rowsDistB p.Om)) s!"{compOm} stored_row_not_distribution"
        let v := v.failIf (pomdp && !(noNegB p.Om)) s!"{compOm} stored_negative_entry"
        match srcInfo with
        | none => v
        | some sp =>
            -- conversion preserves dynamics (entrywise, up to the storage threshold) and rewards
            let m := sp.src
            let v := v.failIf (!(all3 m.A m.S m.S (fun a s s1 => match get3 p.T a s s1, get3 m.T s a s1 with
                | .fin x, .fin y => decide (absQ (x - y) ≤ tol) | _, _ => false))) s!"{compB} conversion_changed_dynamics"
            let v := v.failIf (pomdp && !(all3 m.A m.S sp.O (fun a s o => match get3 p.Om a s o, get3 sp.om s a o with
                | .fin x, .fin y => decide (absQ (x - y) ≤ tol) | _, _ => false))) s!"{compO} conversion_changed_observations"
            let Tt := mk3 m.A m.S m.S (fun a s s1 => get3 m.T s a s1)
            let v := v.failIf (!(all2 m.S m.A (fun s a =>
                match expReward m.S m.R Tt s a, get2 p.R s a with
                | .fin e, .fin g =>
                    -- the sparse class ignores rewards below the threshold: allow tol per successor
                    decide (absQ (e - g) ≤ (if kb == Rep.sparse then tol * (m.S + 1) else 0) + eps * (1 + absQ e))
                | e, g => xclose e g))) s!"{compB} conversion_changed_rewards"
            v.failIf (!(xeq p.disc m.disc)) s!"{compB} conversion_changed_discount"
  let v := match model, post with
    | none, none => v
    | some m, some p => v.diffIf (!(stAgree xclose m p)) s!"{compB} constructed_state"
    | none, some _ => v.diffIf true s!"{compB} outcome model=rejects impl=accepts"
    | some _, none => v.diffIf true s!"{compB} outcome model=accepts impl={err}"
  return v.render

/-- `isprob n row | loop dense sparse` -/
def isprobLine : P String := do
  let n ← P.nat; let row ← P.rep P.x n; P.bar
  let il ← P.bool; let id ← P.bool; let is ← P.bool; P.eof
  if illRow row || illRow (row.map xabs) then return "skip ill_conditioned" else
  -- specification: every entry finite and non-negative, sum within the tolerance of one
  let spec := row.all (fun v => match v with | .fin q => decide (0 ≤ q) | _ => false) &&
              (match sumX row with | .fin s => decide (absQ (s - 1) ≤ tol) | _ => false)
  -- one specification for the three implementations: the sparse validator tests the sign of the stored values since fixes/C05-2
  -- (as first read it let entries in [-tol/2, 0) through: `isProbSparseAbs_accepts_negative`)
  let specSparse := spec
  let v : Verdict := { tag := if spec then "isprob valid" else "isprob invalid" }
  let v := v.failIf (il != spec) s!"isProbability<loop> wrong_answer {il}"
  let v := v.failIf (id != spec) s!"isProbability(Matrix2D) wrong_answer {id}"
  let v := v.failIf (is != specSparse) s!"isProbability(SparseMatrix2D) wrong_answer {is}"
  let v := v.diffIf (isProbLoop row != il) s!"isProbability<loop> model={isProbLoop row} impl={il}"
  let v := v.diffIf (isProbDense row != id) s!"isProbability(Matrix2D) model={isProbDense row} impl={id}"
  let v := v.diffIf (isProbSparse row != is) s!"isProbability(SparseMatrix2D) model={isProbSparse row} impl={is}"
  return v.render

/-- `disc file cls d before | err after` -/
def discLine : P String := do
  let file ← P.tok; let cls ← P.tok; let d ← P.x; let before ← P.x; P.bar
  let err ← P.tok; let after ← P.x; P.eof
  let threw := err != "none"
  let comp := cls ++ "::setDiscount"
  let mthrew := match findSite AITB.Gen.Guards.sites file "setDiscount" with
    | some s => s.g.eval d
    | none => false      -- no guard in the source
  let v : Verdict := { tag := "disc" }
  let v := v.failIf (threw && err != "invalid_argument") s!"{comp} wrong_exception_class {err}"
  let v := v.failIf (threw && !(xeq before after)) s!"{comp} failed_call_changed_object"
  let v := v.failIf (!threw && !(inUnitB after)) s!"{comp} {discKind after} {after}"
  let v := v.failIf (threw && inUnitB d) s!"{comp} rejects_valid_discount {d}"
  let v := v.diffIf (mthrew != threw) s!"{comp} outcome model={errOfBool mthrew} impl={err}"
  let v := v.diffIf (!threw && !(xeq after d)) s!"{comp} stored_discount"
  return v.render

/-- `lm file cls op arg before | err after nrows (len entries)*` : learned / factored models derived by the library -/
def lmLine : P String := do
  let file ← P.tok; let cls ← P.tok; let op ← P.tok; let arg ← P.x; let before ← P.x; P.bar
  let err ← P.tok; let after ← P.x
  let rows ← P.list (P.list P.x); P.eof
  let threw := err != "none"
  let comp := cls ++ "::" ++ (if op == "ctor" then "ctor" else if op == "setDiscount" then "setDiscount" else "sync")
  let g := learnedGuard file
  let facts := (AITB.Gen.Guards.learnedModels.find? (fun x => x.1 == cls)).map (fun x => x.2.2)
  let (ck, vf) := facts.getD (false, false)
  let v : Verdict := { tag := "lm_" ++ op ++ (if threw then " rejected" else " accepted") }
  let v := v.failIf (threw && err != "invalid_argument") s!"{comp} wrong_exception_class {err}"
  -- a learned model is a model object: whatever exists has a discount in (0,1] and distribution rows
  let v := v.failIf ((op != "ctor" || !threw) && !(inUnitB after)) s!"{comp} {discKind after} {after}"
  let v := v.failIf (!(rows.all (rowDistB slack))) s!"{comp} row_not_distribution"
  let v := v.failIf (op != "ctor" && threw && !(xeq before after)) s!"{comp} failed_call_changed_object"
  let v := v.failIf ((op == "ctor" || op == "setDiscount") && threw && inUnitB arg) s!"{comp} rejects_valid_discount {arg}"
  let v := v.failIf (op != "ctor" && op != "setDiscount" && (threw || !(xeq before after))) s!"{comp} experience_call_touched_discount"
  -- correspondence of the discount cell with the model (rows: C07's harness)
  let v := match op with
    | "ctor" =>
        let m := lmCtor ck g arg
        let v := v.diffIf (m.isNone != threw) s!"{comp} outcome model={errOfBool m.isNone} impl={err}"
        v.diffIf (!threw && !(xeq after arg)) s!"{comp} stored_discount"
    | "setDiscount" =>
        let (d', t) := lmSetDiscount vf g before arg
        let v := v.diffIf (t != threw) s!"{comp} outcome model={errOfBool t} impl={err}"
        v.diffIf (t == threw && !(xeq d' after)) s!"{comp} stored_discount"
    | _ => v
  return v.render

def evP : P Ev := do
  let s ← P.nat; let a ← P.nat; let s1 ← P.nat; let p ← P.q; let r ← P.q
  return ⟨s, a, s1, p, r⟩

/-- `amdp kind S1 A nev events | S' A' disc T R pomdpDisc` -/
def amdpLine : P String := do
  let kind ← P.tok; let S1 ← P.nat; let A ← P.nat
  let evs ← P.list evP; P.bar
  let S' ← P.nat; let A' ← P.nat; let disc ← P.x
  let T ← tab3 A' S' S'; let R ← tab2 S' A'; let pd ← P.x; P.bar
  let S0 ← P.nat; let buckets ← P.nat
  let bs ← P.list (do let b ← P.rep P.q S0; let i ← P.nat; pure (b, i)); P.eof
  let sparse := kind == "sparse"
  let comp := if sparse then "AMDP::discretizeSparse" else "AMDP::discretizeDense"
  let v : Verdict := { tag := "amdp_" ++ kind }
  -- property: the derived model is a valid finite MDP with finite rewards
  let v := v.failIf (S' != S1 || A' != A) s!"{comp} wrong_dimensions"
  let v := v.failIf (!(xeq disc pd)) s!"{comp} discount_not_inherited"
  let v := v.failIf (!(T.all fun m => m.all (fun row => rowDistB eps row && row.all (fun x => match x with | .fin q => decide (0 ≤ q) | _ => false))))
             s!"{comp} row_not_distribution"
  let v := v.failIf (!(R.all fun row => row.all isFin)) s!"{comp} reward_not_finite"
  -- … and every reward is an average of the POMDP's rewards: inside the interval spanned by 0 and the expected rewards of the
  -- beliefs that fell into the bucket (theorems amdp_dense_reward_in_hull / amdp_sparse_reward_in_hull; the sparse variant
  -- is only within the tolerance of it)
  let hslack : Rat := if sparse then tol + eps else eps
  let v := v.failIf (!(all2 S1 A (fun s a => rewardHullB hslack evs s a (get2 R s a)))) s!"{comp} reward_outside_hull"
  -- the discretizer sends every belief inside the augmented state space, to a state whose base component is the
  -- belief's most likely state (theorem discretize_lt covers the arithmetic; the entropy term is not modelled)
  let v := v.failIf (bs.any (fun (_, i) => decide (i ≥ S0 * buckets))) s!"AMDP::makeDiscretizer index_out_of_range"
  let v := v.diffIf (bs.any (fun (b, i) => i % S0 != argmaxBelief b)) s!"AMDP::makeDiscretizer base_state"
  -- a belief with zero entropy (every entry exactly 0 or 1) belongs to the lowest-entropy bucket, whatever S is
  let v := v.failIf (bs.any (fun (b, i) => b.all (fun q => decide (q = 0) || decide (q = 1)) && i / S0 != 0))
             s!"AMDP::makeDiscretizer zero_entropy_belief_not_in_bucket_0"
  -- correspondence with the modelled accumulate-and-normalise phase
  let guarded := AITB.Gen.Guards.amdpDenseGuardedDivide
  let v := v.diffIf (!(all3 A S1 S1 (fun a s s1 => xclose (.fin (amdpT evs S1 a s s1)) (get3 T a s s1)))) s!"{comp} transitions"
  let v := v.diffIf (!(all2 S1 A (fun s a =>
      xclose (if sparse then amdpRSparse evs S1 s a else amdpRDense guarded evs S1 s a) (get2 R s a)))) s!"{comp} rewards"
  return v.render

/-- `load kb pre | cut d T R | err failbit post` : `operator>>(istream&, Model&)` / `(…, SparseModel&)` -/
def loadLine : P String := do
  let kb ← rep; let pre ← state; P.bar
  let cut ← P.nat; let d ← P.x; let t ← tab3 pre.A pre.S pre.S; let r ← tab2 pre.S pre.A; P.bar
  let err ← P.tok; let failbit ← P.bool; let post ← state; P.eof
  let comp := baseCls kb ++ "::operator>>"
  if illTab (kb == .sparse) t then return "skip ill_conditioned" else
  -- the reader stops at the first token it cannot read: a cut, or a non-finite number (printed as nan / inf)
  let finT := t.all (fun m => m.all (fun row => row.all isFin))
  let finR := r.all (fun row => row.all isFin)
  let parsed : Parsed :=
    if cut == 3 || !(isFin d) then .nothing
    else if cut == 1 || !finT then .disc d
    else if cut == 2 || !finR then .discT d t
    else .all d t r
  let (ms, mo) := load kb pre parsed
  let iout : LoadOut := if err != "none" then .threw else if failbit then .failbit else .loaded
  let v : Verdict := { tag := "load_" ++ (match iout with | .loaded => "loaded" | .failbit => "failbit" | .threw => "threw") }
  let v := v.failIf (err != "none" && err != "invalid_argument") s!"{comp} wrong_exception_class {err}"
  let v := v.failIf (iout != .loaded && !(post == pre)) s!"{comp} failed_load_changed_object"
  let v := v.failIf (iout == .loaded && !(inUnitB post.disc)) s!"{comp} {discKind post.disc} {post.disc}"
  let v := v.failIf (iout == .loaded && !(rowsDistB post.T)) s!"{comp} stored_row_not_distribution"
  let v := v.failIf (iout == .loaded && !(noNegB post.T)) s!"{comp} stored_negative_entry"
  let v := v.failIf (iout == .loaded && !(post.T == t && post.R == r && xeq post.disc d)) s!"{comp} loaded_table_not_supplied"
  let v := v.diffIf (mo != iout) s!"{comp} outcome model={repr mo} impl={repr iout}"
  let v := v.diffIf (mo == iout && !(stAgree xeq ms post)) s!"{comp} state_after_load"
  return v.render

/-- `amdp0 kind via | err bucketsAfter S1` : AMDP asked for zero entropy buckets -/
def amdp0Line : P String := do
  let kind ← P.tok; let via ← P.tok; P.bar
  let err ← P.tok; let after ← P.nat; let _S1 ← P.nat; P.eof
  let comp := if via == "ctor" then "AMDP::AMDP" else "AMDP::setEntropyBuckets"
  let v : Verdict := { tag := "amdp0_" ++ kind ++ "_" ++ via }
  -- a model over S·0 = 0 states is no MDP: the only acceptable outcome is a rejection that leaves the object unchanged
  let v := v.failIf (err == "none") s!"{comp} accepts_zero_entropy_buckets"
  let v := v.failIf (err != "none" && err != "invalid_argument") s!"{comp} wrong_exception_class {err}"
  let v := v.failIf (err != "none" && via != "ctor" && after != 3) s!"{comp} failed_call_changed_object"
  return v.render

def tagP : P (List Nat) := P.nats

def graphP (S A : List Nat) : P Graph := do
  let n ← P.nat
  let items ← P.rep (do
      let ag ← tagP; let fs ← P.list tagP; let sz ← P.nat
      pure (PSet.mk ag fs, sz)) n
  return { S := S, A := A, parents := items.map (·.1), sizes := items.map (·.2) }

def pushErrStr : PushErr → String
  | .none => "none"
  | .runtime => "runtime_error"
  | .invalid => "invalid_argument"

/-- `push S A graph | agents features | err graph` -/
def pushLine : P String := do
  let S ← P.nats; let A ← P.nats; let g ← graphP S A; P.bar
  let ag ← tagP; let fs ← P.list tagP; P.bar
  let err ← P.tok; let g' ← graphP S A; P.eof
  let p : PSet := ⟨ag, fs⟩
  let (mg, me) := push AITB.Gen.Guards.vf_DDNGraph_push g p
  let comp := "DDNGraph::push"
  let v : Verdict := { tag := "push " ++ err }
  let v := v.failIf (err != "none" && !(g' == g)) s!"{comp} failed_call_changed_object"
  -- accepted: the stored parent set is well formed (sorted, distinct, in range; one feature set per joint action of its agents)
  let okTag (space tag : List Nat) : Bool :=
      tag != [] && tag.all (fun k => decide (k < space.length)) && (tag.zip (tag.drop 1)).all (fun (a, b) => decide (a < b))
  let v := v.failIf (err == "none" && !(okTag A ag && fs.all (okTag S) && fs.length == spacePartial A ag && g.parents.length < S.length))
              s!"{comp} accepted_malformed_parent_set"
  let v := v.failIf (err != "none" && (okTag A ag && fs.all (okTag S) && fs.length == spacePartial A ag && g.parents.length < S.length))
              s!"{comp} rejected_wellformed_parent_set"
  let v := v.diffIf (pushErrStr me != err) s!"{comp} outcome model={pushErrStr me} impl={err}"
  let v := v.diffIf (!(mg == g')) s!"{comp} graph_after_call"
  return v.render

/-- `coop d | S A graph | nT (rows cols entries)* | nB (tag actionTag rows cols)* | err [disc entries]` -/
def coopLine : P String := do
  let d ← P.x; P.bar
  let S ← P.nats; let A ← P.nats; let g ← graphP S A; P.bar
  let mats ← P.list (do let r ← P.nat; let c ← P.nat; let e ← tab2 r c; pure (Mat.mk r c e)); P.bar
  let bases ← P.list (do let t ← tagP; let atg ← tagP; let r ← P.nat; let c ← P.nat; pure (Basis.mk t atg r c)); P.bar
  let err ← P.tok
  let threw := err != "none"
  let comp := "Factored::MDP::CooperativeModel::ctor"
  let post ← (if threw then pure none else (do
      let dd ← P.x
      let ms ← mats.mapM (fun m => tab2 m.rows m.cols)
      pure (some (dd, ms))) : P (Option (XRat × List Tab2)))
  P.eof
  if mats.any (fun m => m.ent.any illRow) then return "skip ill_conditioned" else
  let maccept := coopAccepts (coopDiscountRejected d) g mats bases
  let v : Verdict := { tag := "coop " ++ err }
  let v := v.failIf (threw && err != "invalid_argument") s!"{comp} wrong_exception_class {err}"
  let okTag (space tag : List Nat) : Bool :=
      tag != [] && tag.all (fun k => decide (k < space.length)) && (tag.zip (tag.drop 1)).all (fun (a, b) => decide (a < b))
  let v := match post with
    | none => v
    | some (dd, ms) =>
        let v := v.failIf (!(inUnitB dd)) s!"{comp} {discKind dd} {dd}"
        let v := v.failIf (!(ms.all fun m => m.all (rowDistB slack))) s!"{comp} stored_row_not_distribution"
        -- an accepted model is well formed: one matrix per feature with the graph's shape, well-formed reward bases
        let v := v.failIf (!(g.parents.length == S.length && mats.length == S.length &&
                    (List.range S.length).all (fun i => (mats.getD i default).rows == g.sizes.getD i 0 && (mats.getD i default).cols == S.getD i 0)))
                  s!"{comp} accepted_malformed_transition_function"
        let v := v.failIf (!(bases.all fun b => okTag A b.actionTag && okTag S b.tag && b.cols == spacePartial A b.actionTag && b.rows == spacePartial S b.tag))
                  s!"{comp} accepted_malformed_reward_basis"
        v.diffIf (!(xeq dd d) || !(ms == mats.map Mat.ent)) s!"{comp} constructed_state"
  let v := v.diffIf (maccept == threw) s!"{comp} outcome model={errOfBool (!maccept)} impl={err}"
  return v.render


/-- all tuples of a factor space, last factor fastest (the order the harness enumerates in) -/
def factorsP (sp : List Nat) : P (List Nat) := P.rep P.nat sp.length

/-- `coopdyn | S A graph | nT (rows cols entries)* | nB (tag actionTag rows cols values)* | ids | nQ queries` — see harness -/
def coopdynLine : P String := do
  P.bar
  let S ← P.nats; let A ← P.nats; let g ← graphP S A; P.bar
  let mats ← P.list (do let r ← P.nat; let c ← P.nat; let e ← tab2 r c; pure (Mat.mk r c e)); P.bar
  let bases ← P.list (do
      let t ← tagP; let atg ← tagP; let r ← P.nat; let c ← P.nat
      let vals ← P.rep (P.rep P.q c) r
      pure (BasisV.mk t atg r c vals)); P.bar
  let ids ← (List.range S.length).mapM (fun _ => do
      let sz ← P.nat; let psz ← P.nat
      let rows ← P.rep (do let pid ← P.nat; let aid ← P.nat; let id2 ← P.nat; let part ← P.nat; pure (pid, aid, id2, part)) sz
      pure (sz, psz, rows)); P.bar
  let nS := (enumSpace S).length
  let queries ← P.list (do
      let s ← factorsP S; let a ← factorsP A; let viaCopy ← P.bool; let rew ← P.q
      let pr ← P.rep (do let p ← P.q; let ppf ← P.q; pure (p, ppf)) nS
      let k ← P.nat; let subK ← P.rep P.nat k; let subV ← P.rep P.nat k; let pm ← P.q
      pure (s, a, viaCopy, rew, pr, subK.zip subV, pm))
  P.eof
  let comp := "Factored::MDP::CooperativeModel"
  let n := S.length
  let v : Verdict := { tag := "coopdyn" }
  -- the object exists, so the constructor accepted: the model must accept the same arguments, on a graph satisfying the invariant
  let v := v.diffIf (!(coopAccepts false g mats (bases.map BasisV.shape))) s!"{comp}::ctor accepted_arguments_rejected_by_model"
  let v := v.failIf (!(graphOK g)) "DDNGraph::push graph_invariant_broken"
  -- row-id arithmetic: getIds(feature, j) / getId(feature, parentId, actionId) / getPartialSize
  let v := (List.range n).foldl (fun (v : Verdict) i =>
      let (sz, psz, rows) := ids.getD i (0, 0, [])
      let ps := (g.parents.getD i default).toPS
      let v := v.diffIf (sz != ddnSize S ps || psz != ps.features.length) s!"DDNGraph::getSize feature={i} model={ddnSize S ps} impl={sz}"
      (List.range rows.length).foldl (fun (v : Verdict) j =>
        let (pid, aid, id2, part) := rows.getD j (0, 0, 0, 0)
        let v := v.failIf (id2 != j) s!"DDNGraph::getIds row_id_roundtrip feature={i} j={j} ids=({pid},{aid}) getId={id2}"
        let v := v.failIf (!(decide (aid < ps.features.length) && decide (pid < part))) s!"DDNGraph::getIds parent_id_outside_block feature={i} j={j} ids=({pid},{aid}) partialSize={part}"
        let v := v.diffIf (ddnIdsOfRow S ps j != (pid, aid)) s!"DDNGraph::getIds feature={i} j={j} model={(ddnIdsOfRow S ps j)} impl=({pid},{aid})"
        v.diffIf (ddnPartialSize S ps aid != part) s!"DDNGraph::getPartialSize feature={i} actionId={aid} model={ddnPartialSize S ps aid} impl={part}") v) v
  -- dynamics and rewards
  let jslack : Rat := docTol * n + eps
  let v := queries.foldl (fun (v : Verdict) (s, a, viaCopy, rew, pr, sub, pm) =>
      let who := if viaCopy then comp ++ "(copy)" else comp
      let mrow := jointRow g mats s a
      let irow := pr.map (·.1)
      let v := v.failIf (!(jointDistB jslack irow)) s!"{who}::getTransitionProbability joint_row_not_distribution s={s} a={a} sum={irow.sum}"
      let v := v.failIf (!((mrow.zip irow).all (fun (m, i) => closeQ eps m i)) || mrow.length != irow.length)
                s!"{who}::getTransitionProbability transition_not_supplied s={s} a={a}"
      let v := v.failIf (!(pr.all (fun (p, ppf) => closeQ eps p ppf)))
                s!"DDN::getTransitionProbability(PartialFactors) transition_not_supplied s={s} a={a}"
      let mm := marginalProb g mats s a sub
      let v := v.failIf (!(closeQ eps mm pm)) s!"DDN::getTransitionProbability(PartialFactors) marginal_not_supplied s={s} a={a} sub={sub} model={mm} impl={pm}"
      let mr := coopReward g bases s a
      v.failIf (!(closeQ eps mr rew)) s!"{who}::getExpectedReward reward_not_supplied s={s} a={a} model={mr} impl={rew}") v
  return v.render

/-- `guards` : static look at the generated guard table (no implementation output involved): one verdict -/
def guardsLine : P String := do
  P.eof
  let ds := AITB.Gen.Guards.sites.filter (fun s => s.fn == "setDiscount")
  let bad := ds.filter (fun s => !(s.g.discountOKfinite) || !(s.g.discountComplete))
  match bad with
  | s :: _ => return s!"fail {s.cls}::setDiscount guard_not_unit_interval {s.file}:{s.line}"
  | [] =>
      let all := AITB.Gen.Guards.sites
      let nanOk := all.filter (fun s => !(s.g.eval .nan))
      return s!"ok guards trivial sites:{all.length} discountSites:{ds.length} nanAccepting:{nanOk.length} unguardedDiscountSetters:{AITB.Gen.Guards.unguardedDiscountSetters.length}"

def handle (toks : List String) : String :=
  let r := match toks with
    | "op" :: rest => P.run opLine rest
    | "ctor" :: rest => P.run ctorLine rest
    | "acc" :: rest => P.run accLine rest
    | "load" :: rest => P.run loadLine rest
    | "isprob" :: rest => P.run isprobLine rest
    | "disc" :: rest => P.run discLine rest
    | "amdp" :: rest => P.run amdpLine rest
    | "amdp0" :: rest => P.run amdp0Line rest
    | "lm" :: rest => P.run lmLine rest
    | "push" :: rest => P.run pushLine rest
    | "coop" :: rest => P.run coopLine rest
    | "coopdyn" :: rest => P.run coopdynLine rest
    | "guards" :: rest => P.run guardsLine rest
    | _ => none
  r.getD "bad-op"

end DrvC06
