import AITB.Model.Proto
import AITB.Model.Policies
import AITB.Gen.C09
import AITB.Model.VE
open AITB AITB.Pol

/-
  Protocol of C09 (one line = one policy object observed; `|` separates inputs from the implementation's outputs;
  numbers are exact tokens; `W` = 6 raw engine words the policy's own mt19937 would deliver next, `u` = the value
  `probabilityDistribution(engine)` would deliver next — both read from a COPY of the policy's engine before the call):

    greedy  <comp> n q[n]                       | probs[n] policy[n] ns { W act }
    random  <comp> n                            | probs[n] policy[n] ns { W act }
    table   <comp> n row[n]                     | probs[n] policy[n] ns { u act }
    softmax <comp> T n q[n] e[n] es[n]          | probs[n] policy[n] ns { u W act }      e = exp(q/T), es = exp((q-max q)/T) (impl's own exp)
    eps     <comp> eps n wp[n]                  | probs[n] policy[n] ns { u W wrappedAct act }
    shift   <comp> kind n q[n] c                | pa[n] pb[n] ns { actA actB }           same object on q and on q+c, same seed
    lrp     <comp> n a b k { act res }          | row0[n] k×row[n] ns { u act }
    wolf    <comp> n S dW dL sc k { s q[n] W }  | k×row[n] S×row[n] ns { s u act }
    pgaapp  <comp> n S lr pl k { s q[n] }       | k×row[n] S×row[n] ns { s u act }
    thompson <comp> n cnt[n] val[n]             | act                                    val = the implementation-side posterior draws
    mc      <comp> n                            | policy[n] probs[n] ns { act }          Monte-Carlo tables: range / normalisation only
    recommend <comp> n mean[n]                  | act                                    TopTwo / T3C recommendAction
    fprob   <comp> m A[m] eps g[m] np { a[m] p } ns { act[m] }                           factored policies: queries over the whole joint space
    mc2     <comp> n trials cnt[n] qtrials qcnt[n] | policy[n] probs[n]                  Monte-Carlo tables vs the sampling counts of an identical copy
    esrl    <comp> n a N phases window k { act res } | (k+1)×( exploit probs[n] policy[n] act )
    sr      <comp> n k { nk mean[n] }           | nk1 (k+1)×( cur probs[n] policy[n] )
    toptwo  <comp> n cnt[n] beta u k inner[k]   | act        inner = the next k answers of the (shadowed) inner Thompson policy, u drives pickBest
    t3c     <comp> n cnt[n] mean[n] var beta best u0 nu us[nu] | act
    fjoint  <comp> m A[m] nr { nk keys[nk] vals[nk] value } | act[m]   local payoff entries the policy maximises over; act must be in range and optimal by brute force
    joint   <comp> m A[m] act[m] opt val best   factored wrappers: joint action in range (opt=1: value `val` must equal brute-force `best`)

  Verdicts: `diff <comp> …` model ≠ implementation;  `fail <comp> <clause>` the property's own clause is false on the
  implementation's output (clauses: query_negative query_sum_ne_one query_not_finite table_negative table_sum_ne_one
  table_not_finite table_ne_query sample_out_of_range sample_zero_prob mass_off_argmax shift_variant row_negative
  row_sum_ne_one not_max_draw joint_out_of_range joint_not_optimal).
-/
namespace DrvC09

def tol : Rat := 1 / 1000000000

def fn (l : List Rat) : Nat → Rat := fun i => l.getD i 0
def tab (n : Nat) (f : Nat → Rat) : List Rat := (List.range n).map f
def closeL (a b : List Rat) : Bool := a.length == b.length && (a.zip b).all (fun (x, y) => closeQ tol x y)
def sumL (l : List Rat) : Rat := l.foldl (· + ·) 0
def showL (l : List Rat) : String := " ".intercalate (l.map ratStr)

def finL (l : List XRat) : Option (List Rat) := l.mapM (fun x => match x with | .fin q => some q | _ => none)

def words : P (List Nat) := P.rep P.nat 6

/-- row-validity clauses on an implementation row -/
def rowClauses (v : Verdict) (comp what : String) (row : List Rat) : Verdict :=
  let v := v.failIf (row.any (· < 0)) s!"{comp} {what}_negative {showL row}"
  v.failIf (!(closeQ tol (sumL row) 1)) s!"{comp} {what}_sum_ne_one sum={ratStr (sumL row)} {showL row}"

/-- the coherence clauses of the property, evaluated on the implementation's own outputs -/
def coherent (v : Verdict) (comp : String) (n : Nat) (probs policy : List Rat) (samples : List Nat) : Verdict :=
  let v := v.diffIf (probs.length != n || policy.length != n) s!"{comp} arity"
  let v := rowClauses v comp "query" probs
  let v := rowClauses v comp "table" policy
  let v := v.failIf (!(closeL probs policy)) s!"{comp} table_ne_query table={showL policy} query={showL probs}"
  let v := v.failIf (samples.any (· ≥ n)) s!"{comp} sample_out_of_range {samples}"
  v.failIf (samples.any (fun a => a < n && decide (probs.getD a 0 ≤ 0))) s!"{comp} sample_zero_prob {samples}"

def xrow (v : Verdict) (comp what : String) (l : List XRat) : Verdict × List Rat :=
  match finL l with
  | some r => (v, r)
  | none => (v.failIf true s!"{comp} {what}_not_finite {l}", l.map (fun x => match x with | .fin q => q | _ => 0))

def sepB (q : Nat → Rat) (n : Nat) : Bool :=
  (List.range n).all (fun i => (List.range n).all (fun j => !(ceG (q i) (q j)) || decide (q i = q j)))

def maxL (l : List Rat) : Rat := l.foldl maxQ (l.getD 0 0)
def maxAbsL (l : List Rat) : Rat := l.foldl (fun m x => maxQ m (absQ x)) 0

/-- some pair sits within 0.1 % of one of the two tolerance thresholds: the double comparison may round either way -/
def illB (q : Nat → Rat) (n : Nat) : Bool :=
  let near := fun (d t : Rat) => d != 0 && decide (t * (999 / 1000) ≤ d) && decide (d ≤ t * (1001 / 1000))
  (List.range n).any (fun i => (List.range n).any (fun j =>
    let d := absQ (q i - q j)
    near d tolS || near d (minQ (absQ (q i)) (absQ (q j)) * tolG)))

def cmpOf (g : Bool) : Cmp := if g then ceG else ceS
/-- QGreedyPolicyWrapper as the source currently has it (translator: `Gen.C09.greedy…`) -/
def gform : GForm := ⟨AITB.Gen.C09.greedyMaxFirst, cmpOf AITB.Gen.C09.greedyCmpSampleG, cmpOf AITB.Gen.C09.greedyCmpProbG,
  cmpOf AITB.Gen.C09.greedyCmpPol1G, cmpOf AITB.Gen.C09.greedyCmpPol2G⟩
/-- WoLFPolicy::stepUpdateP's own copy of the scan -/
def wolfForm : GForm := ⟨false, cmpOf AITB.Gen.C09.wolfCmpG, ceG, ceG, ceG⟩

def lemireGet (r : Nat) (ws : List Nat) : Option Nat := (lemire r ws).map (·.1)

/-- the property clauses of a greedy-type policy on the implementation's own outputs.  On clustered rows (`clsB`) each clause is
    reported under its own name; on rows where `checkEqualGeneral` is not transitive (chains of near-ties) any incoherence is
    reported under the single clause `incoherent_on_nontransitive_ties` (recorded finding; never masks a failure on a clustered row). -/
def greedyJudge (v : Verdict) (comp : String) (qf : Nat → Rat) (q : List Rat) (n : Nat) (probs policy : List Rat) (samples : List Nat) : Verdict :=
  let j : Verdict := {}
  let j := coherent j comp n probs policy samples
  let mx := maxL q
  let j := j.failIf ((List.range n).any (fun a => decide (probs.getD a 0 > 0) && !(ceG (qf a) mx))) s!"{comp} mass_off_argmax query"
  let j := j.failIf ((List.range n).any (fun a => decide (policy.getD a 0 > 0) && !(ceG (qf a) mx))) s!"{comp} mass_off_argmax table"
  let j := j.failIf (samples.any (fun a => !(ceG (qf a) mx))) s!"{comp} mass_off_argmax sample"
  if clsB qf n then { v with fails := v.fails ++ j.fails, diffs := v.diffs ++ j.diffs }
  else match j.fails with
    | f :: _ => { v with diffs := v.diffs ++ j.diffs }.failIf true s!"{comp} incoherent_on_nontransitive_ties ({f})"
    | [] => { v with diffs := v.diffs ++ j.diffs }

/-- greedy -/
def greedy : P String := do
  let comp ← P.tok; let n ← P.nat; let q ← P.rep P.q n; P.bar
  let probs ← P.rep P.q n; let policy ← P.rep P.q n
  let ns ← P.nat
  let samp ← P.rep (do let w ← words; let a ← P.nat; pure (w, a)) ns
  P.eof
  if n == 0 then return "skip empty" else
  let qf := fn q
  if illB qf n then return "skip ill_conditioned" else
  let sep := sepB qf n
  let v : Verdict := { tag := if sep then "greedy" else if clsB qf n then "greedy classes" else "greedy nontransitive" }
  let mP := tab n (gform.prob qf n)
  let mT := tab n (gform.policy qf n)
  let v := v.diffIf (!(closeL mP probs)) s!"{comp} getActionProbability model={showL mP} impl={showL probs}"
  let v := v.diffIf (!(closeL mT policy)) s!"{comp} getPolicy model={showL mT} impl={showL policy}"
  let v := samp.foldl (fun v (w, a) => v.diffIf (gform.sample qf n w != some a) s!"{comp} sampleAction model={gform.sample qf n w} impl={a}") v
  return (greedyJudge v comp qf q n probs policy (samp.map (·.2))).render

def random : P String := do
  let comp ← P.tok; let n ← P.nat; P.bar
  let probs ← P.rep P.q n; let policy ← P.rep P.q n
  let ns ← P.nat
  let samp ← P.rep (do let w ← words; let a ← P.nat; pure (w, a)) ns
  P.eof
  let v : Verdict := { tag := "random" }
  let uni := tab n (fun _ => 1 / (n : Rat))
  let v := v.diffIf (!(closeL uni probs)) s!"{comp} getActionProbability"
  let v := v.diffIf (!(closeL uni policy)) s!"{comp} getPolicy"
  let v := samp.foldl (fun v (w, a) => v.diffIf (lemireGet n w != some a) s!"{comp} sampleAction model={lemireGet n w} impl={a}") v
  return (coherent v comp n probs policy (samp.map (·.2))).render

def table : P String := do
  let comp ← P.tok; let n ← P.nat; let row ← P.rep P.q n; P.bar
  let probs ← P.rep P.q n; let policy ← P.rep P.q n
  let ns ← P.nat
  let samp ← P.rep (do let u ← P.q; let a ← P.nat; pure (u, a)) ns
  P.eof
  let v : Verdict := { tag := "table" }
  let v := v.diffIf (row != probs) s!"{comp} getActionProbability"
  let v := v.diffIf (row != policy) s!"{comp} getPolicy"
  let v := samp.foldl (fun v (u, a) => v.diffIf (sampleRow (fn row) n u != a) s!"{comp} sampleAction model={sampleRow (fn row) n u} impl={a} u={ratStr u}") v
  return (coherent v comp n probs policy (samp.map (·.2))).render

def isInfX : XRat → Bool | .pinf => true | _ => false
def finOr0 : XRat → Rat | .fin q => q | _ => 0

def softmax : P String := do
  let comp ← P.tok; let t ← P.q; let n ← P.nat; let q ← P.rep P.q n
  let e ← P.rep P.x n; let es ← P.rep P.x n; P.bar
  let probsX ← P.rep P.x n; let policyX ← P.rep P.x n
  let ns ← P.nat
  let samp ← P.rep (do let u ← P.q; let w ← words; let a ← P.nat; pure (u, w, a)) ns
  P.eof
  if n == 0 then return "skip empty" else
  let qf := fn q
  let ex := if AITB.Gen.C09.smSubtractMax then es else e
  let deleg := smDelegates t
  -- (with T ~ 0 the members delegate to the greedy wrapper before any exponential is taken)
  if !deleg && ex.any (fun x => match x with | .nan | .ninf => true | _ => false) then return "skip exp_nan" else
  let inf := fun i => !deleg && isInfX (ex.getD i (.fin 0))
  let ef := fun i => finOr0 (ex.getD i (.fin 0))
  let v : Verdict := { tag := if deleg then "softmax greedy" else if (List.range n).any inf then "softmax inf" else "softmax" }
  let (v, probs) := xrow v comp "query" probsX
  let (v, policy) := xrow v comp "table" policyX
  -- hypotheses of `softmax_submax_distribution` on the exponentials the harness took with the library's expression
  let v := v.diffIf (AITB.Gen.C09.smSubtractMax && !deleg && !((List.range n).all (fun i => !(inf i) && decide (0 ≤ ef i) && decide (ef i ≤ 1)) && (List.range n).any (fun i => ef i == 1)))
    s!"{comp} exp_hypothesis: exp((q - max)/T) not in [0,1] with a 1"
  let sumE := sumTo n ef
  -- model (skipped where the model itself divides by zero: the implementation then produces NaN, reported above)
  let degenerate := !deleg && !((List.range n).any inf) && sumE == 0
  if deleg && illB qf n then return "skip ill_conditioned" else
  let mProb := if deleg then gform.prob qf n else smProb ef inf n
  let mPol := if deleg then gform.policy qf n else smPolicy AITB.Gen.C09.smPolicySmallSumUniform ef inf n
  let v := v.diffIf (!degenerate && !(closeL (tab n mProb) probs)) s!"{comp} getActionProbability model={showL (tab n mProb)} impl={showL probs}"
  let v := v.diffIf (!(degenerate && !AITB.Gen.C09.smPolicySmallSumUniform) && !(closeL (tab n mPol) policy)) s!"{comp} getPolicy model={showL (tab n mPol)} impl={showL policy}"
  let v := samp.foldl (fun v (u, w, a) =>
      let m := if deleg then gform.sample qf n w else smSample ef inf n u w
      -- the scan compares u with rounded cumulative sums: compare only when u is not within 1e-9 of a breakpoint
      let near := !deleg && !((List.range n).any inf) && (List.range (n + 1)).any (fun k => closeQ tol (sumTo k (fun i => ef i / sumE)) u)
      v.diffIf (!degenerate && !near && m != some a) s!"{comp} sampleAction model={m} impl={a}") v
  if deleg then return (greedyJudge v comp qf q n probs policy (samp.map (·.2.2))).render else
  return (coherent v comp n probs policy (samp.map (·.2.2))).render

def eps : P String := do
  let comp ← P.tok; let e ← P.q; let n ← P.nat; let wp ← P.rep P.q n; P.bar
  let probs ← P.rep P.q n; let policy ← P.rep P.q n
  let ns ← P.nat
  let samp ← P.rep (do let u ← P.q; let w ← words; let wa ← P.nat; let a ← P.nat; pure (u, w, wa, a)) ns
  P.eof
  let v : Verdict := { tag := "eps" }
  let wf := fn wp
  let v := v.diffIf (!(closeL (tab n (epsProb e wf n)) probs)) s!"{comp} getActionProbability model={showL (tab n (epsProb e wf n))} impl={showL probs}"
  let v := v.diffIf (!(closeL (tab n (epsPolicy e wf n)) policy)) s!"{comp} getPolicy model={showL (tab n (epsPolicy e wf n))} impl={showL policy}"
  let v := samp.foldl (fun v (u, w, wa, a) =>
      let m := (lemireGet n (w.drop 2)).map (fun rnd => epsSample e u rnd wa)
      v.diffIf (m != some a) s!"{comp} sampleAction model={m} impl={a}") v
  -- the mixture is a distribution only if the wrapped row is one; the wrapped policy is checked by its own line
  if !(closeQ tol (sumL wp) 1) || wp.any (· < 0) then return v.render else
  return (coherent v comp n probs policy (samp.map (·.2.2.2))).render

/-- `kind` = exact (tables must be identical) | close (within 1e-9) | closeS (as close, admissible only when the softmax subtracts the maximum) | none (samples only) -/
def shift : P String := do
  let comp ← P.tok; let kind ← P.tok; let n ← P.nat; let q ← P.rep P.q n; let c ← P.q; P.bar
  let pa ← P.rep P.x n; let pb ← P.rep P.x n
  let ns ← P.nat
  let samp ← P.rep (do let a ← P.nat; let b ← P.nat; pure (a, b)) ns
  P.eof
  let qf := fn q
  -- "shifts that … preserve that separation": both rows clustered, same tie relation, no pair at a tolerance threshold
  if kind == "exact" && !(clsB qf n && clsB (fun i => qf i + c) n && sameRelB qf c n && !(illB qf n) && !(illB (fun i => qf i + c) n)) then return "skip not_separated" else
  if kind == "closeS" && !AITB.Gen.C09.smSubtractMax then return "skip inadmissible_shift" else
  let v : Verdict := { tag := "shift" }
  match finL pa, finL pb with
  | some a, some b =>
    let same := if kind == "exact" then a == b else closeL a b
    let v := v.failIf (!same) s!"{comp} shift_variant table a={showL a} b={showL b}"
    let v := v.failIf (samp.any (fun (x, y) => x != y)) s!"{comp} shift_variant sample {samp}"
    return v.render
  | _, _ => return (v.failIf true s!"{comp} table_not_finite").render

def rowsCheck (v : Verdict) (comp : String) (rows : List (List Rat)) : Verdict :=
  rows.foldl (fun v r => rowClauses v comp "row" r) v

def lrp : P String := do
  let comp ← P.tok; let n ← P.nat; let a ← P.q; let b ← P.q; let k ← P.nat
  let ops ← P.rep (do let act ← P.nat; let r ← P.bool; pure (act, r)) k; P.bar
  let row0 ← P.rep P.q n
  let rows ← P.rep (P.rep P.q n) k
  let ns ← P.nat
  let samp ← P.rep (do let u ← P.q; let x ← P.nat; pure (u, x)) ns
  P.eof
  let inDoc := decide (0 ≤ a) && decide (a ≤ 1) && decide (0 ≤ b) && decide (b ≤ 1) && (n ≥ 2 || decide (b = 0))
  let v : Verdict := { tag := if inDoc then "lrp" else "lrp excluded" }
  let v := v.diffIf (!(closeL (tab n (lrpInit n)) row0)) s!"{comp} ctor"
  let (v, _) := (ops.zip rows).foldl (fun (v, p) ((act, r), row) =>
      let p' := tab n (lrpStep n a b act r (fn p))
      (v.diffIf (!(closeL p' row)) s!"{comp} stepUpdateP model={showL p'} impl={showL row}", p')) (v, tab n (lrpInit n))
  let last := (rows.getLast?).getD row0
  let v := samp.foldl (fun v (u, x) =>
      let near := (List.range (n + 1)).any (fun j => closeQ tol (sumTo j (fn last)) u)
      v.diffIf (!near && sampleRow (fn last) n u != x) s!"{comp} sampleAction model={sampleRow (fn last) n u} impl={x}") v
  if !inDoc then return v.render else
  let v := rowsCheck v comp (row0 :: rows)
  let v := v.failIf (samp.any (fun (_, x) => x ≥ n)) s!"{comp} sample_out_of_range"
  let v := v.failIf (samp.any (fun (_, x) => decide (last.getD x 0 ≤ 0))) s!"{comp} sample_zero_prob"
  return v.render


/-- `lrpv`: an LRP history whose learning parameters are changed on the live object between updates (per-operation a, b as in
    `lrp_row_invariant`); every row, the getters' read-back of the parameters and the samples from the last row -/
def lrpv : P String := do
  let comp ← P.tok; let n ← P.nat; let k ← P.nat
  let ops ← P.rep (do let a ← P.q; let b ← P.q; let act ← P.nat; let r ← P.bool; pure (a, b, act, r)) k; P.bar
  let row0 ← P.rep P.q n
  let rows ← P.rep (do let row ← P.rep P.q n; let ga ← P.q; let gb ← P.q; pure (row, ga, gb)) k
  let ns ← P.nat
  let samp ← P.rep (do let u ← P.q; let x ← P.nat; pure (u, x)) ns
  P.eof
  let v : Verdict := { tag := if k ≤ 1 then "lrpv trivial" else "lrpv" }
  let v := v.diffIf (!(closeL (tab n (lrpInit n)) row0)) s!"{comp} ctor"
  let (v, _) := (ops.zip rows).foldl (fun (v, p) ((a, b, act, r), (row, ga, gb)) =>
      let p' := tab n (lrpStep n a b act r (fn p))
      let v := v.diffIf (!(closeL p' row)) s!"{comp} stepUpdateP_after_setters a={a} b={b} model={showL p'} impl={showL row}"
      let v := v.failIf (!(closeQ tol ga a) || !(closeQ tol gb b)) s!"{comp} parameter_getter_ne_setter set=({a},{b}) get=({ga},{gb})"
      (v, p')) (v, tab n (lrpInit n))
  let allRows := row0 :: rows.map (·.1)
  let last := (allRows.getLast?).getD row0
  let v := samp.foldl (fun v (u, x) =>
      let near := (List.range (n + 1)).any (fun j => closeQ tol (sumTo j (fn last)) u)
      v.diffIf (!near && sampleRow (fn last) n u != x) s!"{comp} sampleAction model={sampleRow (fn last) n u} impl={x}") v
  let v := rowsCheck v comp allRows
  let v := v.failIf (samp.any (fun (_, x) => x ≥ n)) s!"{comp} sample_out_of_range"
  let v := v.failIf (samp.any (fun (_, x) => decide (last.getD x 0 ≤ 0))) s!"{comp} sample_zero_prob"
  return v.render


/-- `term <comp> <what> | <returned action>|no_return` : a call that must return (run in a child process with an alarm) -/
def term : P String := do
  let comp ← P.tok; let what ← P.tok; P.bar; let out ← P.tok; P.eof
  let v : Verdict := { tag := "term" }
  let v := v.failIf (out == "no_return") s!"{comp} {what}_does_not_return"
  let v := v.failIf (out != "no_return" && out != "0") s!"{comp} {what}_out_of_range {out}"
  return v.render

def setNth {α} (l : List α) (i : Nat) (x : α) : List α := l.set i x

def wolf : P String := do
  let comp ← P.tok; let n ← P.nat; let S ← P.nat; let dW ← P.q; let dL ← P.q; let sc ← P.q; let k ← P.nat
  let ops ← P.rep (do let s ← P.nat; let q ← P.rep P.q n; let w ← words; pure (s, q, w)) k; P.bar
  let rows ← P.rep (P.rep P.q n) k
  let final ← P.rep (P.rep P.q n) S
  let ns ← P.nat
  let samp ← P.rep (do let s ← P.nat; let u ← P.q; let x ← P.nat; pure (s, u, x)) ns
  P.eof
  let inDoc := decide (0 ≤ dW) && decide (0 ≤ dL) && decide (0 < sc)
  let v : Verdict := { tag := if inDoc then "wolf" else "wolf excluded" }
  let uni := tab n (fun _ => 1 / (n : Rat))
  let st0 : List (List Rat × List Rat × Nat) := List.replicate S (uni, uni, 0)
  let (v, st) := (ops.zip rows).foldl (fun (v, st) ((s, q, w), row) =>
      let r := st.getD s (uni, uni, 0)
      match wolfForm.sample (fn q) n w with
      | none => (v.diffIf true s!"{comp} words_exhausted", st)
      | some best =>
        let r0 : WRow := ⟨fn r.1, fn r.2.1, r.2.2⟩
        let r' := wolfStep n dW dL sc (fn q) best r0
        -- the learning-rate choice compares two expected values: below a margin of 1e-9 the step is not compared
        let (avgV, actV) := wolfVals n (fn q) r0
        let ill := (closeQ tol avgV actV || decide (absQ (avgV - actV) ≤ maxAbsL q / 8796093022208)) && decide (dW ≠ dL) || illB (fn q) n
        -- the model follows the implementation's own row (the hidden running average is the model's)
        (v.diffIf (!ill && !(closeL (tab n r'.act) row)) s!"{comp} stepUpdateP model={showL (tab n r'.act)} impl={showL row}",
         st.set s (tab n r'.avg, row, r'.c))) (v, st0)
  let v := v.diffIf (!((st.zip final).all (fun (r, row) => closeL r.2.1 row))) s!"{comp} getPolicy final table"
  let v := samp.foldl (fun v (s, u, x) =>
      let row := final.getD s []
      let near := (List.range (n + 1)).any (fun j => closeQ tol (sumTo j (fn row)) u)
      v.diffIf (!near && sampleRow (fn row) n u != x) s!"{comp} sampleAction model={sampleRow (fn row) n u} impl={x}") v
  if !inDoc then return v.render else
  let v := rowsCheck v comp (rows ++ final)
  let v := v.failIf (samp.any (fun (_, _, x) => x ≥ n)) s!"{comp} sample_out_of_range"
  let v := v.failIf (samp.any (fun (s, _, x) => decide ((final.getD s []).getD x 0 ≤ 0))) s!"{comp} sample_zero_prob"
  return v.render

def pgaapp : P String := do
  let comp ← P.tok; let n ← P.nat; let S ← P.nat; let lr ← P.q; let pl ← P.q; let k ← P.nat
  let ops ← P.rep (do let s ← P.nat; let q ← P.rep P.q n; pure (s, q)) k; P.bar
  let rows ← P.rep (P.rep P.q n) k
  let final ← P.rep (P.rep P.q n) S
  let ns ← P.nat
  let samp ← P.rep (do let s ← P.nat; let u ← P.q; let x ← P.nat; pure (s, u, x)) ns
  P.eof
  let v : Verdict := { tag := "pgaapp" }
  let st0 : List (List Rat) := List.replicate S (tab n (fun _ => 1 / (n : Rat)))
  -- the model follows the implementation's own previous row (so one tolerance-branch disagreement does not cascade)
  let (v, _) := (ops.zip rows).foldl (fun (v, st) ((s, q), row) =>
      let r := fn (st.getD s [])
      let pre := fn (tab n (pgaPre n lr pl (fn q) r))
      let sum := projSum n pre
      -- tolerance branches of projectToProbability: skip the comparison when the margin is below 1e-9
      -- rounding of `avgR = row·q` (error ≈ |q|·2^-50) is amplified by lr·(1+pl)/(1-row a): the comparison tolerance follows it
      let amp := (tab n r).foldl (fun m x => if ceS x 1 then m else maxQ m (1 / (1 - x))) 1
      let tolP := tol + maxAbsL q * lr * (1 + pl) * amp / 17592186044416
      let nearP := fun (a b : Rat) => decide (absQ (a - b) ≤ tolP)
      let ill := nearP (absQ (sum - 1)) tolS || nearP (absQ sum) tolS || nearP sum 1 && !(ceS sum 1)
      let r' := tab n (project AITB.Gen.C09.projRepaired n pre)
      let closeP := r'.length == row.length && (r'.zip row).all (fun (x, y) => nearP x y)
      (v.diffIf (!ill && !closeP) s!"{comp} stepUpdateP model={showL r'} impl={showL row}", st.set s row)) (v, st0)
  let v := samp.foldl (fun v (s, u, x) =>
      let row := final.getD s []
      let near := (List.range (n + 1)).any (fun j => closeQ tol (sumTo j (fn row)) u)
      v.diffIf (!near && sampleRow (fn row) n u != x) s!"{comp} sampleAction model={sampleRow (fn row) n u} impl={x}") v
  -- property: every row the policy exposes is a distribution (isProbability tolerance 1e-6 of the library for the sum)
  let bad := (rows ++ final).filter (fun r => r.any (· < 0) || !(decide (absQ (sumL r - 1) ≤ tolS)))
  let v := v.failIf (!bad.isEmpty) s!"{comp} row_sum_ne_one {showL (bad.headD [])}"
  let v := v.failIf (samp.any (fun (_, _, x) => x ≥ n)) s!"{comp} sample_out_of_range"
  return v.render

def thompson : P String := do
  let comp ← P.tok; let n ← P.nat; let cnt ← P.rep P.nat n; let val ← P.rep P.q n; P.bar
  let act ← P.nat; P.eof
  let cf := fun i => cnt.getD i 0
  let vf := fn val
  let v : Verdict := { tag := "thompson" }
  let m := AITB.Pol.thompson AITB.Gen.C09.thompsonInitLowest cf vf n
  let v := v.diffIf (m != act) s!"{comp} sampleAction model={m} impl={act}"
  let v := v.failIf (act ≥ n) s!"{comp} sample_out_of_range {act}"
  -- property: with every arm visited twice the returned arm maximises the drawn values
  let allVisited := (List.range n).all (fun i => cf i ≥ 2)
  let v := v.failIf (allVisited && (List.range n).any (fun i => decide (vf act < vf i))) s!"{comp} not_max_draw act={act} vals={showL val}"
  return v.render

def mc : P String := do
  let comp ← P.tok; let n ← P.nat; P.bar
  let policy ← P.rep P.q n; let probs ← P.rep P.q n
  let ns ← P.nat; let samp ← P.rep P.nat ns; P.eof
  let v : Verdict := { tag := "mc" }
  let v := rowClauses v comp "table" policy
  let v := v.failIf (probs.any (fun p => p < 0 || p > 1)) s!"{comp} query_negative {showL probs}"
  let v := v.failIf (samp.any (· ≥ n)) s!"{comp} sample_out_of_range {samp}"
  return v.render

/-- Monte-Carlo tables against the sampling frequencies of an identical copy of the policy (same engine state):
    `mc2 <comp> n trials cnt[n] qtrials qcnt[n] | policy[n] probs[n]` -/
def mc2 : P String := do
  let comp ← P.tok; let n ← P.nat; let trials ← P.nat; let cnt ← P.rep P.nat n
  let qtrials ← P.nat; let qcnt ← P.rep P.nat n; P.bar
  let policy ← P.rep P.q n; let probs ← P.rep P.q n; P.eof
  let v : Verdict := { tag := "mc2" }
  let cf := fun i => cnt.getD i 0
  let mT := tab n (mcTable n cf)
  let mP := tab n (fun a => mcQuery qtrials (qcnt.getD a 0))
  let v := v.diffIf (!(closeL mT policy)) s!"{comp} getPolicy model={showL mT} impl={showL policy}"
  let v := v.diffIf (!(closeL mP probs)) s!"{comp} getActionProbability model={showL mP} impl={showL probs}"
  -- property clauses on the implementation's own outputs: the table is a distribution, it advertises exactly the sampling
  -- frequencies (positive only on sampled actions), every sample was in range
  let v := rowClauses v comp "table" policy
  let v := v.failIf (probs.any (fun p => p < 0 || p > 1)) s!"{comp} query_negative {showL probs}"
  let v := v.failIf (cnt.foldl (· + ·) 0 != trials) s!"{comp} sample_out_of_range total={cnt.foldl (· + ·) 0} trials={trials}"
  let v := v.failIf ((List.range n).any (fun a => decide (policy.getD a 0 > 0) && cf a == 0)) s!"{comp} table_mass_on_unsampled {showL policy}"
  let v := v.failIf ((List.range n).any (fun a => decide (policy.getD a 0 ≤ 0) && cf a != 0)) s!"{comp} sample_zero_prob {cnt}"
  return v.render

/-- `recommend <comp> n mean[n] | act` : the recommended arm maximises the estimates -/
def recommendOp : P String := do
  let comp ← P.tok; let n ← P.nat; let mean ← P.rep P.q n; P.bar
  let act ← P.nat; P.eof
  let v : Verdict := { tag := "recommend" }
  let v := v.diffIf (recommend (fn mean) n != act) s!"{comp} recommendAction model={recommend (fn mean) n} impl={act}"
  let v := v.failIf (act ≥ n) s!"{comp} sample_out_of_range {act}"
  let v := v.failIf (act < n && mean.any (fun x => decide (fn mean act < x))) s!"{comp} recommend_not_max act={act} means={showL mean}"
  return v.render

/-- `fprob <comp> m A[m] eps g[m] np { a[m] p } ns { act[m] }` : per-joint-action queries over the whole joint space -/
def fprob : P String := do
  let comp ← P.tok; let m ← P.nat; let A ← P.rep P.nat m; let eps ← P.q; let g ← P.rep P.nat m
  let np ← P.nat
  let entries ← P.rep (do let a ← P.rep P.nat m; let p ← P.q; pure (a, p)) np
  let ns ← P.nat; let samp ← P.rep (P.rep P.nat m) ns; P.eof
  let v : Verdict := { tag := "fprob" }
  let N := A.foldl (· * ·) 1
  let v := v.diffIf (np != N) s!"{comp} joint_space size model={N} harness={np}"
  let v := v.diffIf (entries.any (fun (a, p) => !(closeQ tol (jointEps eps N g a) p))) s!"{comp} getActionProbability model≠impl"
  -- property clauses on the implementation's own numbers
  let ps := entries.map (·.2)
  let v := v.failIf (!((entries.map (·.1)).eraseDups.length == N && entries.all (fun (a, _) => (A.zip a).all (fun (k, x) => x < k))))
    s!"{comp} joint_space_not_enumerated"
  let v := rowClauses v comp "query" ps
  let v := v.failIf (samp.any (fun a => (A.zip a).any (fun (k, x) => x ≥ k))) s!"{comp} joint_out_of_range {samp}"
  let v := v.failIf (samp.any (fun a => entries.any (fun (b, p) => b == a && decide (p ≤ 0)))) s!"{comp} sample_zero_prob {samp}"
  return v.render

def esrl : P String := do
  let comp ← P.tok; let n ← P.nat; let a ← P.q; let N ← P.nat; let phases ← P.nat; let window ← P.nat; let k ← P.nat
  let ops ← P.rep (do let act ← P.nat; let r ← P.bool; pure (act, r)) k; P.bar
  let obs ← P.rep (do let ex ← P.bool; let pr ← P.rep P.q n; let po ← P.rep P.q n; let x ← P.nat; pure (ex, pr, po, x)) (k + 1)
  P.eof
  let inDoc := decide (0 ≤ a) && decide (a ≤ 1) && window ≥ 1
  let v : Verdict := { tag := if inDoc then "esrl" else "esrl excluded" }
  let step := fun (v : Verdict) (s : ESRL) (o : Bool × List Rat × List Rat × Nat) =>
    let (ex, pr, po, x) := o
    let v := v.diffIf (ex != s.exploit) s!"{comp} isExploiting model={s.exploit} impl={ex}"
    let v := v.diffIf (!(closeL (tab n (s.prob AITB.Gen.C09.esrlProbUsesFind)) pr)) s!"{comp} getActionProbability model={showL (tab n (s.prob AITB.Gen.C09.esrlProbUsesFind))} impl={showL pr}"
    let v := v.diffIf (!(closeL s.policy po)) s!"{comp} getPolicy model={showL s.policy} impl={showL po}"
    if inDoc then coherent v comp n pr po [x] else v
  let s0 := ESRL.init n a N phases window
  let v := match obs with | o :: _ => step v s0 o | [] => v
  let (v, _) := (ops.zip (obs.drop 1)).foldl (fun (v, s) ((act, r), o) =>
      let s' := s.step act r
      (step v s' o, s')) (v, s0)
  return v.render

def sr : P String := do
  let comp ← P.tok; let n ← P.nat; let k ← P.nat
  let ops ← P.rep (do let nk ← P.nat; let mean ← P.rep P.q n; pure (nk, mean)) k; P.bar
  let nk1 ← P.nat
  let obs ← P.rep (do let cur ← P.nat; let pr ← P.rep P.q n; let po ← P.rep P.q n; pure (cur, pr, po)) (k + 1)
  P.eof
  let v : Verdict := { tag := "sr" }
  let step := fun (v : Verdict) (s : SR) (o : Nat × List Rat × List Rat) =>
    let (cur, pr, po) := o
    let v := v.diffIf (cur != s.current) s!"{comp} sampleAction model={s.current} impl={cur}"
    let ind := tab n (fun i => if i = s.current then 1 else 0)
    let v := v.diffIf (pr != ind) s!"{comp} getActionProbability"
    let v := v.diffIf (po != ind) s!"{comp} getPolicy"
    coherent v comp n pr po [cur]
  let s0 := SR.init n nk1
  let v := match obs with | o :: _ => step v s0 o | [] => v
  let (v, _) := (ops.zip (obs.drop 1)).foldl (fun (v, s) ((nk, mean), o) =>
      let s' := s.step nk (fn mean)
      (step v s' o, s')) (v, s0)
  return v.render

def joint : P String := do
  let comp ← P.tok; let m ← P.nat; let A ← P.rep P.nat m; let act ← P.rep P.nat m
  let opt ← P.bool; let val ← P.q; let best ← P.q; P.eof
  let v : Verdict := { tag := "joint" }
  let v := v.failIf ((A.zip act).any (fun (a, x) => x ≥ a)) s!"{comp} joint_out_of_range {act}"
  let v := v.failIf (opt && !(closeQ tol val best)) s!"{comp} joint_not_optimal value={ratStr val} best={ratStr best}"
  return v.render

def toptwoOp : P String := do
  let comp ← P.tok; let n ← P.nat; let cnt ← P.rep P.nat n; let beta ← P.q; let u ← P.q
  let k ← P.nat; let inner ← P.rep P.nat k; P.bar
  let act ← P.nat; P.eof
  let cf := fun i => cnt.getD i 0
  let v : Verdict := { tag := "toptwo" }
  let m := topTwo cf (decide (u < beta)) inner
  let v := v.diffIf (m.isSome && m != some act) s!"{comp} sampleAction model={m} impl={act}"
  let v := v.failIf (act ≥ n) s!"{comp} sample_out_of_range {act}"
  -- property (selection given the draws): a challenger is never the leader; the leader is kept on its coin / when under-sampled
  let v := match inner with
    | b :: _ =>
      let chall := cf b ≥ 2 && !(decide (u < beta))
      let v := v.failIf (chall && act == b) s!"{comp} challenger_is_leader {act}"
      v.failIf (!chall && act != b) s!"{comp} leader_not_returned act={act} best={b}"
    | [] => v
  if m.isNone then (if v.fails.isEmpty then return "skip toptwo_long_rejection" else return v.render) else
  return v.render

def t3cOp : P String := do
  let comp ← P.tok; let n ← P.nat; let cnt ← P.rep P.nat n; let mean ← P.rep P.q n; let var ← P.q; let beta ← P.q
  let best ← P.nat; let u0 ← P.q; let nu ← P.nat; let us ← P.rep P.q nu; P.bar
  let act ← P.nat; P.eof
  let cf := fun i => cnt.getD i 0
  let mf := fn mean
  let v : Verdict := { tag := "t3c" }
  let m := t3c mf cf var beta n best u0 us
  let v := v.diffIf (m != act) s!"{comp} sampleAction model={m} impl={act}"
  let v := v.failIf (act ≥ n) s!"{comp} sample_out_of_range {act}"
  -- property (selection given the draws): a challenger is never the leader and has minimal transportation cost
  let challenger := n ≥ 2 && cf best ≥ 2 && !(decide (u0 < beta))
  let cost := t3cCost mf cf var best
  let v := v.failIf (challenger && act == best) s!"{comp} challenger_is_leader {act}"
  let v := v.failIf (challenger && act < n && (List.range n).any (fun a => a != best && decide (cost a < cost act))) s!"{comp} challenger_not_min_cost act={act}"
  let v := v.failIf (!challenger && act != best) s!"{comp} leader_not_returned act={act} best={best}"
  return v.render

def fjoint : P String := do
  let comp ← P.tok; let m ← P.nat; let A ← P.rep P.nat m; let nr ← P.nat
  let rules ← P.rep (do let nk ← P.nat; let ks ← P.rep P.nat nk; let vs ← P.rep P.nat nk; let x ← P.q; pure (⟨ks, vs, x⟩ : AITB.VE.Rule)) nr
  P.bar
  let act ← P.rep P.nat m; P.eof
  let v : Verdict := { tag := "fjoint" }
  let v := v.failIf ((A.zip act).any (fun (a, x) => x ≥ a)) s!"{comp} joint_out_of_range {act}"
  let best := AITB.VE.bruteMax A rules
  let val := AITB.VE.payoffL rules act
  let v := v.failIf (!(closeQ tol val best) && decide (val < best)) s!"{comp} joint_not_optimal value={ratStr val} best={ratStr best} act={act}"
  return v.render

def handle (toks : List String) : String :=
  let r := match toks with
    | "greedy" :: rest => P.run greedy rest
    | "random" :: rest => P.run random rest
    | "table" :: rest => P.run table rest
    | "softmax" :: rest => P.run softmax rest
    | "eps" :: rest => P.run eps rest
    | "shift" :: rest => P.run shift rest
    | "lrp" :: rest => P.run lrp rest
    | "lrpv" :: rest => P.run lrpv rest
    | "term" :: rest => P.run term rest
    | "wolf" :: rest => P.run wolf rest
    | "pgaapp" :: rest => P.run pgaapp rest
    | "thompson" :: rest => P.run thompson rest
    | "mc" :: rest => P.run mc rest
    | "mc2" :: rest => P.run mc2 rest
    | "recommend" :: rest => P.run recommendOp rest
    | "fprob" :: rest => P.run fprob rest
    | "esrl" :: rest => P.run esrl rest
    | "sr" :: rest => P.run sr rest
    | "joint" :: rest => P.run joint rest
    | "toptwo" :: rest => P.run toptwoOp rest
    | "t3c" :: rest => P.run t3cOp rest
    | "fjoint" :: rest => P.run fjoint rest
    | _ => none
  r.getD "bad-op"

end DrvC09
