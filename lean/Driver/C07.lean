import AITB.Model.Proto
import AITB.Model.Experience
import AITB.Model.ExperienceCfg
import AITB.Model.ExperienceKeyed
import AITB.Gen.Constants
open AITB AITB.Exp

/-
  Protocol (one line = one whole history of one table, observations inline after every call):

    C07 hist <variant> <np> <w> <A> <hasModel> <junk> <nops> { <op> }

    <variant>  dense | dsparse | sparse | generic | gsparse | bandit | fbandit | coop
    <np>       number of pairs; <w> row width; <A> : default row index of pair i is i / A (flat) when A > 0, 0 when A = 0
    <junk>     the value uninitialised storage holds in this process (heap poison), exact token
    <op>       r p s1 rew   | cnt[w] N mean M2 ts            record on pair p; experience getters of p afterwards
               s p          | row[w] rew                     sync(s,a)
               i p s1       | row[w] rew                     sync(s,a,s1)
               S            | np × (row[w] rew)              sync()
               c b          | np × (row[w] rew)              model constructed now with sync flag b
               R            | np × (cnt[w] N mean M2) ts     reset()
               E            | np × (cnt[w] N mean M2) ts [np × (row[w] rew)]     final dump

    C07 thompson <component> <w> <n> { cnt[w] N mean | row[w] rew }      exposed rows of a posterior-sampling model

  Verdicts: `diff` = implementation differs from the Lean model run on the same history;
  `fail` = the property's own clause (computed from the recorded data by definition, `Ghost`/`freqOf`/
  `meanOf`/`sqDevOf`) is false on the implementation's output.
-/
namespace DrvC07

def tol : Rat := 1 / 1000000000

structure Variant where
  expC : String
  modC : String
  cfg : Cfg

def variantOf (name : String) (junk : Rat) : Option Variant :=
  match name with
  | "dense"   => some ⟨"MDP::Experience", "MaximumLikelihoodModel", cfgDense junk⟩
  | "dsparse" => some ⟨"MDP::SparseExperience", "MaximumLikelihoodModel", cfgDense junk⟩
  | "generic" => some ⟨"GenericExperience", "MaximumLikelihoodModel", cfgDense junk⟩
  | "sparse"  => some ⟨"MDP::SparseExperience", "SparseMaximumLikelihoodModel", cfgSparse junk⟩
  | "gsparse" => some ⟨"GenericExperience", "SparseMaximumLikelihoodModel<generic>", cfgGSparse junk⟩
  | "bandit"  => some ⟨"Bandit::Experience", "none", cfgPlain junk⟩
  | "fbandit" => some ⟨"Factored::Bandit::Experience", "none", cfgPlain junk⟩
  | "coop"    => some ⟨"CooperativeExperience", "CooperativeMaximumLikelihoodModel", cfgPlain junk⟩
  | _ => none

structure ExpObs where
  cnt : List Nat
  n : Nat
  mean : XRat
  m2 : XRat

structure ModObs where
  row : List XRat
  rew : XRat

def pExp (w : Nat) : P ExpObs := do
  let c ← P.rep P.nat w; let n ← P.nat; let m ← P.x; let m2 ← P.x
  pure ⟨c, n, m, m2⟩

def pMod (w : Nat) : P ModObs := do
  let r ← P.rep P.x w; let rw ← P.x
  pure ⟨r, rw⟩

structure St where
  v : Variant
  np : Nat
  w : Nat
  world : World
  ghosts : List Ghost
  taint : List Bool        -- pair's incremental-sync precondition was violated and no full sync happened since
  everReset : Bool
  hasCtor : Bool
  opIdx : Nat
  verdict : Verdict
  nInc : Nat
  nPreViol : Nat

def xClose (x : XRat) (q : Rat) : Bool :=
  match x with
  | .fin a => closeQ tol a q
  | _ => false

def xFin (x : XRat) : Bool := match x with | .fin _ => true | _ => false

def showX (x : XRat) : String := toString x

/-- is it time to evaluate the O(n) definitional clauses? (always for short histories, sampled for long ones) -/
def heavy (n opIdx : Nat) (last : Bool) : Bool := n ≤ 256 || opIdx % 509 == 0 || last

/-- experience clauses for pair `i`: implementation vs model (diff) and vs the recorded data (fail) -/
def checkExp (st : St) (site : String) (i : Nat) (o : ExpObs) (last : Bool) : Verdict :=
  let v := st.verdict
  let p := st.world.pairs.getD i default
  let g := st.ghosts.getD i default
  let comp := st.v.expC ++ "." ++ site
  let v := v.diffIf (o.cnt != p.cnt) s!"{comp} visits pair={i} model={p.cnt} impl={o.cnt}"
  let v := v.diffIf (o.n != p.cell.n) s!"{comp} visitsSum pair={i} model={p.cell.n} impl={o.n}"
  let v := v.diffIf (!(xClose o.mean p.cell.mean)) s!"{comp} reward pair={i} model={ratStr p.cell.mean} impl={showX o.mean}"
  let v := v.diffIf (!(xClose o.m2 p.cell.m2)) s!"{comp} M2 pair={i} model={ratStr p.cell.m2} impl={showX o.m2}"
  -- the property's clauses, from the definitions
  let v := v.failIf (o.n != g.recs.length) s!"{comp} visitsSum_not_record_count pair={i} impl={o.n} records={g.recs.length}"
  if heavy g.recs.length st.opIdx last then
    let v := v.failIf (o.cnt != (List.range st.w).map (fun k => countS1 k g.recs)) s!"{comp} visits_not_record_count pair={i} impl={o.cnt}"
    let v := v.failIf (!(xClose o.mean (meanOf g.recs))) s!"{comp} mean_not_empirical pair={i} impl={showX o.mean} want={ratStr (meanOf g.recs)}"
    let v := v.failIf (!(xClose o.m2 (sqDevOf g.recs))) s!"{comp} m2_not_sum_sq_dev pair={i} impl={showX o.m2} want={ratStr (sqDevOf g.recs)}"
    v
  else v

/-- learned-model clauses for pair `i` -/
def checkMod (st : St) (site : String) (i : Nat) (o : ModObs) (last : Bool) : Verdict :=
  let v := st.verdict
  let p := st.world.pairs.getD i default
  let g := st.ghosts.getD i default
  let comp := st.v.modC ++ "." ++ site
  let rowBad := (List.range st.w).any (fun k => !(xClose (o.row.getD k .nan) (nthQ p.row k)))
  let v := v.diffIf rowBad s!"{comp} row pair={i} model={p.row.map ratStr} impl={o.row.map showX}"
  let v := v.diffIf (!(xClose o.rew p.rew)) s!"{comp} reward pair={i} model={ratStr p.rew} impl={showX o.rew}"
  if st.taint.getD i false then
    -- outside the precondition the C++ may divide by zero (NaN/inf rows); the rational model has no such value
    (if o.row.all xFin then v else { v with tag := "SKIP" })
  else
  if g.snap.isEmpty then
    -- never synced with data: the fixed valid default
    let bad := (List.range st.w).any (fun k => !(xClose (o.row.getD k .nan) (specRow st.w p.dfl g k)))
    let v := v.failIf bad s!"{comp} unvisited_row_not_default pair={i} impl={o.row.map showX}"
    v.failIf (!(xClose o.rew 0)) s!"{comp} unvisited_reward_not_zero pair={i} impl={showX o.rew}"
  else if heavy g.snap.length st.opIdx last then
    let bad := (List.range st.w).any (fun k => !(xClose (o.row.getD k .nan) (freqOf g.snap k)))
    let kind := if st.everReset && g.snap.length == 1 && site == "syncInc" then "row_not_frequency_first_record_after_reset" else "row_not_frequency"
    -- where the implementation is wrong only on cells the data never visited (value left over from before)
    let onlyUnvisited := (List.range st.w).all (fun k => xClose (o.row.getD k .nan) (freqOf g.snap k) || countS1 k g.snap == 0)
    let kind := if kind == "row_not_frequency" && onlyUnvisited && site != "syncInc" then "row_keeps_stale_unvisited_cells" else kind
    let v := v.failIf bad s!"{comp} {kind} pair={i} impl={o.row.map showX} want={(List.range st.w).map (fun k => ratStr (freqOf g.snap k))}"
    let m := meanOf g.snap
    if xClose o.rew m then v
    else
      let lag := match st.v.cfg.rewTol, o.rew with
        | some t, .fin a => decide (AITB.Exp.absQ (a - m) ≤ t)
        | _, _ => false
      v.failIf true (if lag then s!"{st.v.modC} reward_lags_mean_within_tolerance site={site} pair={i} impl={showX o.rew} want={ratStr m}"
                     else s!"{comp} reward_not_mean pair={i} impl={showX o.rew} want={ratStr m}")
  else v

def stepSt (st : St) (op : Op) : St :=
  let world := st.world.step st.v.cfg op
  let pre := mapIdxFrom (fun i (g : Ghost) => incPreOK g (op.project i)) 0 st.ghosts
  let ghosts := mapIdxFrom (fun i (g : Ghost) => g.step (op.project i)) 0 st.ghosts
  -- taint bookkeeping
  let taint := mapIdxFrom (fun i (t : Bool) =>
      match op.project i with
      | .syncInc _ => if !(pre.getD i true) then true
                      else if (world.pairs.getD i default).cell.n % st.v.cfg.period == 0 && (world.pairs.getD i default).cell.n != 0 then false else t
      | .sync => if (world.pairs.getD i default).cell.n == 0 then t else false
      | .ctor _ => false
      | _ => t) 0 st.taint
  let viol := match op with | .syncInc .. => if pre.all id then 0 else 1 | _ => 0
  let isInc := match op with | .syncInc .. => 1 | _ => 0
  { st with world := world, ghosts := ghosts, taint := taint, opIdx := st.opIdx + 1,
            everReset := st.everReset || (match op with | .reset => true | _ => false),
            hasCtor := st.hasCtor || (match op with | .ctor _ => true | _ => false),
            nInc := st.nInc + isInc, nPreViol := st.nPreViol + viol }

def foldIdx {α} (l : List α) (st : St) (f : St → Nat → α → Verdict) : St :=
  (l.foldl (fun (acc : St × Nat) x => ({ acc.1 with verdict := f acc.1 acc.2 x }, acc.2 + 1)) (st, 0)).1

/-- one operation with its observations; returns the new state and the remaining tokens -/
def oneOp (st : St) (hasModel : Bool) : P St := do
  let t ← P.tok
  match t with
  | "r" => do
      let p ← P.nat; let s1 ← P.nat; let r ← P.q
      let o ← pExp st.w; let ts ← P.nat
      let st := stepSt st (.record p s1 r)
      let v := checkExp st "record" p o false
      let v := v.diffIf (ts != st.world.ts) s!"{st.v.expC}.record timesteps model={st.world.ts} impl={ts}"
      pure { st with verdict := v }
  | "s" => do
      let p ← P.nat; let o ← pMod st.w
      let st := stepSt st (.sync p)
      pure { st with verdict := checkMod st "syncSA" p o false }
  | "i" => do
      let p ← P.nat; let s1 ← P.nat; let o ← pMod st.w
      let st := stepSt st (.syncInc p s1)
      pure { st with verdict := checkMod st "syncInc" p o false }
  | "S" => do
      let os ← P.rep (pMod st.w) st.np
      let st := stepSt st .syncAll
      pure (foldIdx os st (fun s i o => checkMod s "sync" i o false))
  | "c" => do
      let b ← P.bool
      let os ← P.rep (pMod st.w) st.np
      let st := stepSt st (.ctor b)
      pure (foldIdx os st (fun s i o => checkMod s (if b then "ctorSync" else "ctorNoSync") i o false))
  | "R" => do
      let os ← P.rep (pExp st.w) st.np; let ts ← P.nat
      let st := stepSt st .reset
      let st := foldIdx os st (fun s i o => checkExp s "reset" i o false)
      pure { st with verdict := st.verdict.failIf (ts != 0) s!"{st.v.expC}.reset timesteps_not_zero impl={ts}" }
  | "E" => do
      let os ← P.rep (pExp st.w) st.np; let ts ← P.nat
      let st := foldIdx os st (fun s i o => checkExp s "final" i o true)
      let v := st.verdict.diffIf (ts != st.world.ts) s!"{st.v.expC}.final timesteps model={st.world.ts} impl={ts}"
      let st := { st with verdict := v }
      if hasModel then do
        let ms ← P.rep (pMod st.w) st.np
        pure (foldIdx ms st (fun s i o => checkMod s "final" i o true))
      else pure st
  | _ => P.fail

def opsLoop (hasModel : Bool) : Nat → St → P St
  | 0, st => pure st
  | n+1, st => do
      let st' ← oneOp st hasModel
      opsLoop hasModel n st'

def hist : P String := do
  let vname ← P.tok; let np ← P.nat; let w ← P.nat; let a ← P.nat
  let hasModel ← P.bool; let junk ← P.q; let nops ← P.nat
  match variantOf vname junk with
  | none => P.fail
  | some v =>
    let dflOf := fun i => if a == 0 then 0 else i / a
    let st : St := { v := v, np := np, w := w, world := World.init np w dflOf,
                     ghosts := List.replicate np Ghost.init, taint := List.replicate np false,
                     everReset := false, hasCtor := false, opIdx := 0, verdict := {}, nInc := 0, nPreViol := 0 }
    let st ← opsLoop hasModel nops st
    P.eof
    let tag := vname ++ (if st.nPreViol > 0 then " nopre" else " pre") ++ (if nops ≤ 2 then " trivial" else "")
              ++ (if st.nInc > 0 then " inc" else "") ++ (if st.everReset then " reset" else "")
    if st.verdict.tag == "SKIP" && st.verdict.fails.isEmpty then pure "skip nonfinite_row_outside_precondition"
    else pure ({ st.verdict with tag := tag }).render

/-- exposed distribution of a posterior-sampling model: rows valid, rewards finite, MLE reward below two visits -/
def thompson : P String := do
  let comp ← P.tok; let w ← P.nat; let n ← P.nat
  let rec go : Nat → Nat → Verdict → P Verdict
    | 0, _, v => pure v
    | k+1, i, v => do
        let _cnt ← P.rep P.nat w; let nn ← P.nat; let mean ← P.x
        let o ← pMod w
        let allFin := o.row.all xFin
        let qs := o.row.map (fun x => match x with | .fin q => q | _ => 0)
        let v := v.failIf (!allFin) s!"{comp} row_not_finite pair={i} {o.row.map showX}"
        let v := v.failIf (allFin && qs.any (fun q => decide (q < 0))) s!"{comp} row_negative_entry pair={i} {o.row.map showX}"
        let s := sumQ qs
        let v := v.failIf (allFin && !(decide (AITB.Exp.absQ (s - 1) ≤ tol))) s!"{comp} row_sum_not_one pair={i} sum={ratStr s}"
        let v := v.failIf (!(xFin o.rew)) s!"{comp} reward_not_finite pair={i} {showX o.rew}"
        let v := v.failIf (nn < 2 && xFin o.rew && xFin mean && !(match o.rew, mean with | .fin a, .fin b => closeQ tol a b | _, _ => false))
                  s!"{comp} reward_not_mle_below_two_visits pair={i} impl={showX o.rew} mean={showX mean}"
        go k (i+1) v
  let v ← go n 0 { tag := "thompson" }
  P.eof
  pure v.render

/-- `C07 tsync <component> <w> <n> { cnt[w] N mean M2 | g[w] t sd | row[w] rew }`
    a Thompson model row together with the engine outputs that produced it (the harness replays the model's
    random engine from the same seed: gamma draws with the Jeffreys parameters `dirichletParams cnt`, then — when
    N ≥ 2 — one Student-t draw with N−1 degrees of freedom; `sd` is the harness's own `sqrt(M2/(N(N−1)))`).
    diff: the Lean `Pair.thompsonSync` on these outputs vs the implementation; fail: validity clauses. -/
def tsync : P String := do
  let comp ← P.tok; let w ← P.nat; let n ← P.nat
  let rec go : Nat → Nat → Verdict → P Verdict
    | 0, _, v => pure v
    | k+1, i, v => do
        let cnt ← P.rep P.nat w; let nn ← P.nat; let mean ← P.q; let m2 ← P.q
        let gs ← P.rep P.q w; let t ← P.q; let sd ← P.q
        let o ← pMod w
        let cell : Cell := ⟨nn, mean, m2⟩
        let pr : Pair := { (Pair.init w 0 i) with cell := cell, cnt := cnt }
        let q := pr.thompsonSync gs t sd
        -- the harness's sd against the model's posterior scale
        let v := match thompsonPost cell with
          | some post => v.diffIf (!(closeQ (1/100000000) (sd * sd) post.scale2)) s!"{comp} posterior_scale pair={i} sd^2={ratStr (sd*sd)} model={ratStr post.scale2}"
          | none => v
        let rowBad := (List.range w).any (fun k => !(xClose (o.row.getD k .nan) (nthQ q.row k)))
        let v := v.diffIf rowBad s!"{comp} row pair={i} model={q.row.map ratStr} impl={o.row.map showX}"
        let v := v.diffIf (!(xClose o.rew q.rew)) s!"{comp} reward pair={i} model={ratStr q.rew} impl={showX o.rew}"
        -- validity of what is exposed
        let allFin := o.row.all xFin
        let qs := o.row.map (fun x => match x with | .fin q => q | _ => 0)
        let v := v.failIf (!allFin) s!"{comp} row_not_finite pair={i} {o.row.map showX}"
        let v := v.failIf (allFin && qs.any (fun q => decide (q < 0))) s!"{comp} row_negative_entry pair={i}"
        let v := v.failIf (allFin && !(decide (AITB.Exp.absQ (sumQ qs - 1) ≤ tol))) s!"{comp} row_sum_not_one pair={i} sum={ratStr (sumQ qs)}"
        let v := v.failIf (!(xFin o.rew)) s!"{comp} reward_not_finite pair={i} {showX o.rew}"
        let v := v.failIf (nn < 2 && !(xClose o.rew mean)) s!"{comp} reward_not_mle_below_two_visits pair={i} impl={showX o.rew}"
        let v := v.failIf (gs.any (fun g => decide (g ≤ 0))) s!"{comp} gamma_draw_not_positive pair={i}"
        go k (i+1) v
  let v ← go n 0 { tag := "tsync" }
  P.eof
  pure v.render

/-- `C07 sethist <variant> <np> <w> <A> <junk> <nops> { op }` — experience with table setters
      r p s1 rew | cnt[w] N mean M2            record
      R          | np × (cnt[w] N mean M2)     reset
      V np×cnt[w]| dump                         setVisitsTable
      M t np×x   | dump                         setRewardMatrix (t = 1: element-wise sparse overload, tolerance drop)
      Q t np×x   | dump                         setM2Matrix
      F          | np × (row[w] rew)            a MaximumLikelihoodModel constructed now with sync = true -/
structure SetSt where
  comp : String
  np : Nat
  w : Nat
  a : Nat
  cfg : Cfg
  es : List EPair
  gs : List EGhost
  v : Verdict

def checkE (st : SetSt) (site : String) (i : Nat) (o : ExpObs) : Verdict :=
  let e := st.es.getD i default
  let want := ((st.gs.getD i default).current st.w)
  let c := st.comp ++ "." ++ site
  let v := st.v
  let v := v.diffIf (o.cnt != e.cnt || o.n != e.cell.n) s!"{c} visits pair={i} model={e.cnt}/{e.cell.n} impl={o.cnt}/{o.n}"
  let v := v.diffIf (!(xClose o.mean e.cell.mean)) s!"{c} reward pair={i} model={ratStr e.cell.mean} impl={showX o.mean}"
  let v := v.diffIf (!(xClose o.m2 e.cell.m2)) s!"{c} M2 pair={i} model={ratStr e.cell.m2} impl={showX o.m2}"
  let v := v.failIf (o.cnt != want.cnt) s!"{c} visits_not_loaded_plus_recorded pair={i} impl={o.cnt} want={want.cnt}"
  let v := v.failIf (o.n != want.cell.n) s!"{c} visitsSum_not_loaded_plus_recorded pair={i} impl={o.n} want={want.cell.n}"
  let v := v.failIf (!(xClose o.mean want.cell.mean)) s!"{c} mean_not_combined_statistics pair={i} impl={showX o.mean} want={ratStr want.cell.mean}"
  v.failIf (!(xClose o.m2 want.cell.m2)) s!"{c} m2_not_combined_statistics pair={i} impl={showX o.m2} want={ratStr want.cell.m2}"

def setApply (st : SetSt) (tol : Option Rat) (ops : List EOp) : SetSt :=
  { st with es := mapIdxFrom (fun i (e : EPair) => e.step tol (ops.getD i .nop)) 0 st.es,
            gs := mapIdxFrom (fun i (g : EGhost) => g.step tol st.w (ops.getD i .nop)) 0 st.gs }

def setDump (st : SetSt) (site : String) : P SetSt := do
  let os ← P.rep (pExp st.w) st.np
  let r := os.foldl (fun (acc : SetSt × Nat) o => ({ acc.1 with v := checkE acc.1 site acc.2 o }, acc.2 + 1)) (st, 0)
  pure r.1

def setOp (st : SetSt) : P SetSt := do
  let t ← P.tok
  let tolOf := fun (b : Bool) => if b then some AITB.Gen.equalToleranceSmall else none
  match t with
  | "r" => do
      let p ← P.nat; let s1 ← P.nat; let r ← P.q
      let o ← pExp st.w
      let st := setApply st none ((List.range st.np).map (fun i => if i == p then EOp.record s1 r else .nop))
      pure { st with v := checkE st "record" p o }
  | "R" => do
      let st := setApply st none (List.replicate st.np .reset)
      setDump st "reset"
  | "V" => do
      let rows ← P.rep (P.rep P.nat st.w) st.np
      let st := setApply st none (rows.map EOp.setCnt)
      setDump st "setVisitsTable"
  | "M" => do
      let b ← P.bool; let xs ← P.rep P.q st.np
      let st := setApply st (tolOf b) (xs.map EOp.setMean)
      setDump st "setRewardMatrix"
  | "Q" => do
      let b ← P.bool; let xs ← P.rep P.q st.np
      let st := setApply st (tolOf b) (xs.map EOp.setM2)
      setDump st "setM2Matrix"
  | "F" => do
      let ms ← P.rep (pMod st.w) st.np
      let r := ms.foldl (fun (acc : Verdict × Nat) o =>
        let i := acc.2
        let e := st.es.getD i default
        let dfl := if st.a == 0 then 0 else i / st.a
        let pr : Pair := { (Pair.init st.w dfl i) with cell := e.cell, cnt := e.cnt }
        let q := pr.ctor st.cfg true
        let want := ((st.gs.getD i default).current st.w)
        let c := "MaximumLikelihoodModel.afterSetters"
        let v := acc.1
        let v := v.diffIf ((List.range st.w).any (fun k => !(xClose (o.row.getD k .nan) (nthQ q.row k)))) s!"{c} row pair={i} model={q.row.map ratStr} impl={o.row.map showX}"
        let v := v.diffIf (!(xClose o.rew q.rew)) s!"{c} reward pair={i} model={ratStr q.rew} impl={showX o.rew}"
        let v := if want.cell.n == 0 then
            v.failIf ((List.range st.w).any (fun k => !(xClose (o.row.getD k .nan) (if k == dfl then 1 else 0))) || !(xClose o.rew 0)) s!"{c} unvisited_row_not_default pair={i}"
          else
            let v := v.failIf ((List.range st.w).any (fun k => !(xClose (o.row.getD k .nan) ((nthN want.cnt k : Rat) / (want.cell.n : Rat))))) s!"{c} row_not_visits_over_visitsSum pair={i} impl={o.row.map showX}"
            v.failIf (!(xClose o.rew want.cell.mean)) s!"{c} reward_not_mean pair={i} impl={showX o.rew}"
        (v, i + 1)) (st.v, 0)
      pure { st with v := r.1 }
  | _ => P.fail

def sethist : P String := do
  let vname ← P.tok; let np ← P.nat; let w ← P.nat; let a ← P.nat; let junk ← P.q; let nops ← P.nat
  let comp := if vname == "sparse-set" then "MDP::SparseExperience" else "MDP::Experience"
  let st0 : SetSt := { comp := comp, np := np, w := w, a := a, cfg := cfgDense junk,
                       es := List.replicate np (EPair.init w), gs := List.replicate np { base := EPair.init w, since := [] }, v := { tag := "setters" } }
  let rec loop : Nat → SetSt → P SetSt
    | 0, st => pure st
    | n+1, st => do let st' ← setOp st; loop n st'
  let st ← loop nops st0
  P.eof
  pure st.v.render

/-! ## the factored classes at the level of their own API (`AITB.Model.ExperienceKeyed`, `AITB.Props.C07Keyed`)

    C07 coophist S[] A[] nf×(agents[] features[][]) sizes[nf] <junk> <nops> { op }
      r s[nf] a[na] s1[nf] rews[nf] | ids[nf]  nf × (cnt[S_i] N mean M2 — the row ids[i] the call reports)  ts
      s s a                         | nf × (j row[S_i] rew)            sync(s,a); j = the library's own getId
      x s a ids[nf]                 | nf × (row[S_i] rew)              sync(indeces)
      S | nf × size_i × (row rew)        c b | same        R | nf × size_i × (cnt N mean M2) ts
      q s a s1 | P R Rvec[nf]            getTransitionProbability / getExpectedReward / getExpectedRewards
      E | nf × size_i × exp, ts, hasModel, [nf × size_i × mod]
    C07 fbhist A[] deps[][] sizes[nb] <nops> { op }
      r a[na] rews[nb] | ids[nb]  nb × (N mean M2 at ids[i])  ts          R | nb × size_i × (N mean M2) ts       E | same

    `diff`: the implementation differs from the Lean model run with the Lean index functions (`DDNGraph.getId`, `toIndexPartial`);
    `fail`: its numbers differ from the statistics of the records with the same CONTEXT (compared as value lists, no index). -/

abbrev Key := List Nat × List Nat

structure KTab where
  expC : String
  modC : String
  w : Nat
  size : Nat                 -- number of rows the implementation reports
  idx : Key → Nat
  ctx : Key → Key
  world : World
  /-- specification state per context: `AITB.Exp.Oracle` (proved equal to the ghost of the context projection: `oracle_sound`) -/
  oracle : Oracle Key
  /-- context → the model row of the first key seen with that context (only used to attribute the rows of whole-table dumps) -/
  rows : List (Key × Nat)

def KTab.step (cfg : Cfg) (t : KTab) (op : KOp Key) : KTab :=
  let rows := match op.key? with
    | some k => if t.rows.any (fun e => e.1 == t.ctx k) then t.rows else t.rows ++ [(t.ctx k, t.idx k)]
    | none => t.rows
  { t with world := t.world.step cfg (op.toOp t.idx), oracle := t.oracle.step t.ctx op, rows := rows }

def KTab.ghostOf (t : KTab) (k : Key) : Ghost := t.oracle.ghostOf (t.ctx k)

def KTab.ghostAtRow (t : KTab) (j : Nat) : Ghost :=
  match t.rows.find? (fun e => e.2 == j) with
  | some e => t.oracle.ghostOf e.1
  | none => t.oracle.fresh

def KTab.pair (t : KTab) (j : Nat) : Pair := t.world.pairs.getD j default

def expDiff (v : Verdict) (comp loc : String) (j : Nat) (o : ExpObs) (p : Pair) : Verdict :=
  let v := v.diffIf (o.cnt != p.cnt || o.n != p.cell.n) s!"{comp} visits {loc} row={j} model={p.cnt}/{p.cell.n} impl={o.cnt}/{o.n}"
  let v := v.diffIf (!(xClose o.mean p.cell.mean)) s!"{comp} reward {loc} row={j} model={ratStr p.cell.mean} impl={showX o.mean}"
  v.diffIf (!(xClose o.m2 p.cell.m2)) s!"{comp} M2 {loc} row={j} model={ratStr p.cell.m2} impl={showX o.m2}"

def expClause (v : Verdict) (comp loc : String) (w j : Nat) (o : ExpObs) (g : Ghost) (hv : Bool) : Verdict :=
  let v := v.failIf (o.n != g.recs.length) s!"{comp} visitsSum_not_record_count_of_context {loc} row={j} impl={o.n} records={g.recs.length}"
  if hv then
    let v := v.failIf (o.cnt != (List.range w).map (fun k => countS1 k g.recs)) s!"{comp} visits_not_record_count_of_context {loc} row={j} impl={o.cnt} want={(List.range w).map (fun k => countS1 k g.recs)}"
    let v := v.failIf (!(xClose o.mean (meanOf g.recs))) s!"{comp} mean_not_empirical_of_context {loc} row={j} impl={showX o.mean} want={ratStr (meanOf g.recs)}"
    v.failIf (!(xClose o.m2 (sqDevOf g.recs))) s!"{comp} m2_not_sum_sq_dev_of_context {loc} row={j} impl={showX o.m2} want={ratStr (sqDevOf g.recs)}"
  else v

def modDiff (v : Verdict) (comp loc : String) (w j : Nat) (o : ModObs) (p : Pair) : Verdict :=
  let rowBad := (List.range w).any (fun k => !(xClose (o.row.getD k .nan) (nthQ p.row k)))
  let v := v.diffIf rowBad s!"{comp} row {loc} row={j} model={p.row.map ratStr} impl={o.row.map showX}"
  v.diffIf (!(xClose o.rew p.rew)) s!"{comp} reward {loc} row={j} model={ratStr p.rew} impl={showX o.rew}"

def modClause (v : Verdict) (comp loc : String) (w j : Nat) (o : ModObs) (g : Ghost) : Verdict :=
  let bad := (List.range w).any (fun k => !(xClose (o.row.getD k .nan) (specRow w 0 g k)))
  if g.snap.isEmpty then
    let v := v.failIf bad s!"{comp} unvisited_row_not_default {loc} row={j} impl={o.row.map showX}"
    v.failIf (!(xClose o.rew 0)) s!"{comp} unvisited_reward_not_zero {loc} row={j} impl={showX o.rew}"
  else
    let v := v.failIf bad s!"{comp} row_not_frequency_of_context {loc} row={j} impl={o.row.map showX} want={(List.range w).map (fun k => ratStr (freqOf g.snap k))}"
    v.failIf (!(xClose o.rew (meanOf g.snap))) s!"{comp} reward_not_mean_of_context {loc} row={j} impl={showX o.rew} want={ratStr (meanOf g.snap)}"

structure CSt where
  g : AITB.Factored.DDNGraph
  cfg : Cfg
  tabs : List KTab
  ts : Nat
  opIdx : Nat
  v : Verdict
  nRec : Nat := 0
  nSync : Nat := 0
  nQuery : Nat := 0
  nReset : Nat := 0
  outside : Bool := false      -- a call with arguments outside their spaces was seen (the theorems' hypothesis `FOp.WF` fails)

def CSt.apply (st : CSt) (op : FOp) : CSt :=
  { st with tabs := mapIdxFrom (fun i (t : KTab) => t.step st.cfg (op.toKOp i)) 0 st.tabs,
            outside := st.outside || !(op.validB st.g),
            ts := (match op with | .record .. => st.ts + 1 | .reset => 0 | _ => st.ts), opIdx := st.opIdx + 1 }

def CSt.world (st : CSt) : CoopWorld := { ts := st.ts, tables := st.tabs.map (·.world) }

/-- fold over the tables with their index -/
def foldTabs {α} (tabs : List KTab) (xs : List α) (v : Verdict) (f : Verdict → Nat → KTab → α → Verdict) : Verdict :=
  ((tabs.zip xs).foldl (fun (acc : Verdict × Nat) tx => (f acc.1 acc.2 tx.1 tx.2, acc.2 + 1)) (v, 0)).1

def pTabs {α} (tabs : List KTab) (p : KTab → P α) : P (List α) :=
  tabs.foldlM (fun acc t => do let x ← p t; pure (acc ++ [x])) []

/-- whole-table dumps: every row against the model and against the specification state of the context that owns it -/
def dumpExp (st : CSt) (site : String) (last : Bool) : P CSt := do
  let obs ← pTabs st.tabs (fun t => P.rep (pExp t.w) t.size)
  let v := foldTabs st.tabs obs st.v (fun v i t os =>
    ((os.foldl (fun (acc : Verdict × Nat) o =>
      let j := acc.2
      let g := t.ghostAtRow j
      let v := expDiff acc.1 s!"{t.expC}.{site}" s!"feature={i}" j o (t.pair j)
      (expClause v s!"{t.expC}.{site}" s!"feature={i}" t.w j o g (heavy g.recs.length st.opIdx last), j + 1)) (v, 0))).1)
  pure { st with v := v }

def dumpMod (st : CSt) (site : String) : P CSt := do
  let obs ← pTabs st.tabs (fun t => P.rep (pMod t.w) t.size)
  let v := foldTabs st.tabs obs st.v (fun v i t os =>
    ((os.foldl (fun (acc : Verdict × Nat) o =>
      let j := acc.2
      let v := modDiff acc.1 s!"{t.modC}.{site}" s!"feature={i}" t.w j o (t.pair j)
      (modClause v s!"{t.modC}.{site}" s!"feature={i}" t.w j o (t.ghostAtRow j), j + 1)) (v, 0))).1)
  pure { st with v := v }

def coopOp (st : CSt) : P CSt := do
  let nf := st.g.S.length
  let na := st.g.A.length
  let t ← P.tok
  match t with
  | "r" => do
      let s ← P.rep P.nat nf; let a ← P.rep P.nat na; let s1 ← P.rep P.nat nf; let rews ← P.rep P.q nf
      let ids ← P.rep P.nat nf
      let obs ← pTabs st.tabs (fun t => pExp t.w)
      let ts ← P.nat
      let st := st.apply (.record s a s1 rews)
      let want := coopIds st.g s a
      let v := st.v.diffIf (ids != want) s!"CooperativeExperience.record returned_indeces model={want} impl={ids}"
      let v := foldTabs st.tabs (obs.zip ids) v (fun v i t oj =>
        let (o, j) := oj
        let g := t.ghostOf (s, a)
        let v := expDiff v s!"CooperativeExperience.record" s!"feature={i}" j o (t.pair j)
        expClause v s!"CooperativeExperience.record" s!"feature={i}" t.w j o g (heavy g.recs.length st.opIdx false))
      let v := v.failIf (ts != st.ts) s!"CooperativeExperience.record timesteps_not_record_count impl={ts} want={st.ts}"
      pure { st with v := v, nRec := st.nRec + 1 }
  | "s" => do
      let s ← P.rep P.nat nf; let a ← P.rep P.nat na
      let obs ← pTabs st.tabs (fun t => do let j ← P.nat; let o ← pMod t.w; pure (j, o))
      let st := st.apply (.syncSA s a)
      let v := foldTabs st.tabs obs st.v (fun v i t jo =>
        let (j, o) := jo
        let v := v.diffIf (j != t.idx (s, a)) s!"DDNGraph.getId feature={i} model={t.idx (s, a)} impl={j}"
        let v := modDiff v s!"{t.modC}.syncSA" s!"feature={i}" t.w j o (t.pair j)
        modClause v s!"{t.modC}.syncSA" s!"feature={i}" t.w j o (t.ghostOf (s, a)))
      pure { st with v := v, nSync := st.nSync + 1 }
  | "x" => do
      let s ← P.rep P.nat nf; let a ← P.rep P.nat na; let ids ← P.rep P.nat nf
      let obs ← pTabs st.tabs (fun t => pMod t.w)
      let st := st.apply (.syncIdx ids s a)
      let v := foldTabs st.tabs (obs.zip ids) st.v (fun v i t oj =>
        let (o, j) := oj
        let v := modDiff v s!"{t.modC}.syncIndeces" s!"feature={i}" t.w j o (t.pair j)
        modClause v s!"{t.modC}.syncIndeces" s!"feature={i}" t.w j o (t.ghostOf (s, a)))
      pure { st with v := v, nSync := st.nSync + 1 }
  | "S" => do
      let st := st.apply .syncAll
      dumpMod { st with nSync := st.nSync + 1 } "sync"
  | "c" => do
      let b ← P.bool
      let st := st.apply (.ctor b)
      dumpMod st (if b then "ctorSync" else "ctorNoSync")
  | "R" => do
      let st := st.apply .reset
      let st ← dumpExp st "reset" false
      let ts ← P.nat
      pure { st with v := st.v.failIf (ts != 0) s!"CooperativeExperience.reset timesteps_not_zero impl={ts}", nReset := st.nReset + 1 }
  | "q" => do
      let s ← P.rep P.nat nf; let a ← P.rep P.nat na; let s1 ← P.rep P.nat nf
      let pr ← P.x; let rw ← P.x; let rv ← P.rep P.x nf
      let cw := st.world
      let modC := (st.tabs.head?.map (·.modC)).getD ""
      let v := st.v.diffIf (!(xClose pr (coopTransProb st.g cw s a s1))) s!"{modC}.getTransitionProbability model={ratStr (coopTransProb st.g cw s a s1)} impl={showX pr}"
      let v := v.diffIf (!(xClose rw (coopExpReward st.g cw s a))) s!"{modC}.getExpectedReward model={ratStr (coopExpReward st.g cw s a)} impl={showX rw}"
      -- the specification: product of the spec rows of the contexts of (s,a), sum of their spec rewards
      let wantP := ((st.tabs.zip (List.range nf)).foldl (fun (acc : Rat) ti => acc * specRow ti.1.w 0 (ti.1.ghostOf (s, a)) (s1.getD ti.2 0)) 1)
      let wantRs := st.tabs.map (fun t => let g := t.ghostOf (s, a); if g.snap.isEmpty then (0 : Rat) else meanOf g.snap)
      let wantR := wantRs.foldl (· + ·) 0
      let v := v.failIf (!(xClose pr wantP)) s!"{modC}.getTransitionProbability joint_probability_not_product_of_context_frequencies s={s} a={a} s1={s1} impl={showX pr} want={ratStr wantP}"
      let v := v.failIf (!(xClose rw wantR)) s!"{modC}.getExpectedReward expected_reward_not_sum_of_context_means s={s} a={a} impl={showX rw} want={ratStr wantR}"
      let v := v.failIf ((rv.zip wantRs).any (fun xw => !(xClose xw.1 xw.2))) s!"{modC}.getExpectedRewards expected_rewards_not_context_means s={s} a={a} impl={rv.map showX} want={wantRs.map ratStr}"
      pure { st with v := v, nQuery := st.nQuery + 1, opIdx := st.opIdx + 1 }
  | "E" => do
      let st ← dumpExp st "final" true
      let ts ← P.nat
      let st := { st with v := st.v.failIf (ts != st.ts) s!"CooperativeExperience.final timesteps_not_record_count impl={ts} want={st.ts}" }
      let hm ← P.bool
      if hm then dumpMod st "final" else pure st
  | _ => P.fail

def pDDN : P AITB.Factored.DDNGraph := do
  let S ← P.nats; let A ← P.nats
  let ps ← P.rep (do let ag ← P.nats; let fs ← P.natss; pure ({ agents := ag, features := fs } : AITB.Factored.ParentSet)) S.length
  pure { S := S, A := A, parents := ps }

def coophist : P String := do
  let g ← pDDN
  let nf := g.S.length
  let sizes ← P.rep P.nat nf
  let thompson ← P.bool        -- rows come from CooperativeThompsonModel? (reserved, always 0)
  let _ := thompson
  let junk ← P.q; let nops ← P.nat
  let cfg := cfgPlain junk
  let tabs := (List.range nf).map (fun i =>
    ({ expC := "CooperativeExperience", modC := "CooperativeMaximumLikelihoodModel", w := g.S.getD i 0, size := sizes.getD i 0,
       idx := coopIdx g i, ctx := ctxOf g i, world := World.init (g.getSize i) (g.S.getD i 0) (fun _ => 0), oracle := Oracle.init, rows := [] } : KTab))
  let v0 : Verdict := {}
  let v0 := v0.diffIf (sizes != (List.range nf).map g.getSize) s!"DDNGraph.getSize model={(List.range nf).map g.getSize} impl={sizes}"
  -- the graph was accepted by the library's `push`: it must satisfy what the theorems assume (`parentsOKB_iff`)
  let v0 := v0.failIf (!((List.range nf).all (parentsOKB g))) s!"DDNGraph.push accepted_malformed_parent_set"
  let st0 : CSt := { g := g, cfg := cfg, tabs := tabs, ts := 0, opIdx := 0, v := v0 }
  let rec loop : Nat → CSt → P CSt
    | 0, st => pure st
    | n+1, st => do let st' ← coopOp st; loop n st'
  let st ← loop nops st0
  P.eof
  let multi := g.parents.any (fun p => p.agents.length ≥ 2)
  let tag := "coophist" ++ (if nops ≤ 2 then " trivial" else "") ++ (if multi then " multiagent" else "") ++ (if st.nReset > 0 then " reset" else "")
             ++ (if st.nQuery > 0 then " query" else "")
  if st.outside && st.v.fails.isEmpty then pure "skip arguments_outside_documented_precondition"
  else pure ({ st.v with tag := tag }).render

/-- `C07 coopq <component> <graph> sizes[nf] nf×size_i×(row[S_i] rew) nq { q s a R Rvec[nf] full K K×(s1[nf] P) }`
    what a cooperative learned model answers against what it exposes: `getTransitionProbability(s,a,s1)` must be the product of its
    own rows `getId(i,s,a)` (Lean index), `getExpectedReward` the sum of its own rewards; every exposed row a distribution; when all
    joint next states were queried they sum to one (`coop_joint_of_rows`, `coop_joint_is_distribution`, `coop_thompson_joint_valid`). -/
def coopq : P String := do
  let comp ← P.tok
  let g ← pDDN
  let nf := g.S.length
  let na := g.A.length
  let sizes ← P.rep P.nat nf
  let tabs ← (List.range nf).foldlM (fun (acc : List (List ModObs)) i => do
      let t ← P.rep (pMod (g.S.getD i 0)) (sizes.getD i 0); pure (acc ++ [t])) []
  let nq ← P.nat
  let v0 : Verdict := { tag := "coopq" }
  let v0 := v0.diffIf (sizes != (List.range nf).map g.getSize) s!"DDNGraph.getSize model={(List.range nf).map g.getSize} impl={sizes}"
  -- every exposed row is a distribution, every reward finite
  let v0 := ((tabs.zip (List.range nf)).foldl (fun (v : Verdict) ti =>
    ((ti.1.foldl (fun (acc : Verdict × Nat) o =>
      let v := acc.1
      let allFin := o.row.all xFin
      let qs := o.row.map (fun x => match x with | .fin q => q | _ => 0)
      let v := v.failIf (!allFin) s!"{comp} row_not_finite feature={ti.2} row={acc.2}"
      let v := v.failIf (allFin && qs.any (fun q => decide (q < 0))) s!"{comp} row_negative_entry feature={ti.2} row={acc.2}"
      let v := v.failIf (allFin && !(decide (AITB.Exp.absQ (sumQ qs - 1) ≤ tol))) s!"{comp} row_sum_not_one feature={ti.2} row={acc.2} sum={ratStr (sumQ qs)}"
      let v := v.failIf (!(xFin o.rew)) s!"{comp} reward_not_finite feature={ti.2} row={acc.2}"
      (v, acc.2 + 1)) (v, 0))).1) v0)
  let cell := fun (i j k : Nat) => match ((tabs.getD i []).getD j ⟨[], .nan⟩).row.getD k .nan with | .fin q => q | _ => (0 : Rat)
  let rewAt := fun (i j : Nat) => match ((tabs.getD i []).getD j ⟨[], .nan⟩).rew with | .fin q => q | _ => (0 : Rat)
  let rec loop : Nat → Verdict → P Verdict
    | 0, v => pure v
    | n+1, v => do
        P.lit "q"
        let s ← P.rep P.nat nf; let a ← P.rep P.nat na
        let rw ← P.x; let rv ← P.rep P.x nf
        let full ← P.bool; let k ← P.nat
        let qs ← P.rep (do let s1 ← P.rep P.nat nf; let p ← P.x; pure (s1, p)) k
        let ids := (List.range nf).map (fun i => g.getId i s a)
        let wantRs := (List.range nf).map (fun i => rewAt i (ids.getD i 0))
        let v := v.failIf (!(xClose rw (wantRs.foldl (· + ·) 0))) s!"{comp}.getExpectedReward expected_reward_not_sum_of_exposed_rewards s={s} a={a} impl={showX rw} want={ratStr (wantRs.foldl (· + ·) 0)}"
        let v := v.failIf ((rv.zip wantRs).any (fun xw => !(xClose xw.1 xw.2))) s!"{comp}.getExpectedRewards expected_rewards_not_exposed_rewards s={s} a={a}"
        let v := qs.foldl (fun (v : Verdict) sp =>
          let want := (List.range nf).foldl (fun (acc : Rat) i => acc * cell i (ids.getD i 0) (sp.1.getD i 0)) 1
          let v := v.failIf (!(xClose sp.2 want)) s!"{comp}.getTransitionProbability joint_probability_not_product_of_exposed_rows s={s} a={a} s1={sp.1} impl={showX sp.2} want={ratStr want}"
          v.failIf (match sp.2 with | .fin q => decide (q < 0) | _ => true) s!"{comp}.getTransitionProbability joint_probability_negative_or_not_finite s={s} a={a} s1={sp.1}") v
        let tot := qs.foldl (fun (acc : Rat) sp => acc + (match sp.2 with | .fin q => q | _ => 0)) 0
        let v := v.failIf (full && !(decide (AITB.Exp.absQ (tot - 1) ≤ tol))) s!"{comp}.getTransitionProbability joint_distribution_not_normalised s={s} a={a} sum={ratStr tot}"
        loop n v
  let v ← loop nq v0
  P.eof
  pure v.render

/-- Factored::Bandit::Experience -/
def fbOp (A : List Nat) (st : CSt) : P CSt := do
  let nb := st.tabs.length
  let t ← P.tok
  match t with
  | "r" => do
      let a ← P.rep P.nat A.length; let rews ← P.rep P.q nb
      let ids ← P.rep P.nat nb
      let obs ← pTabs st.tabs (fun _ => pExp 0)
      let ts ← P.nat
      let tabs := mapIdxFrom (fun i (t : KTab) => t.step st.cfg (fbRecord i a rews |> fun (k : KOp (List Nat)) =>
        match k with | .record a' s1 r => (KOp.record (([] : List Nat), a') s1 r : KOp Key) | _ => .reset)) 0 st.tabs
      let st := { st with tabs := tabs, ts := st.ts + 1, opIdx := st.opIdx + 1 }
      let want := st.tabs.map (fun t => t.idx ([], a))
      let v := st.v.diffIf (ids != want) s!"Factored::Bandit::Experience.record returned_indeces model={want} impl={ids}"
      let v := foldTabs st.tabs (obs.zip ids) v (fun v i t oj =>
        let (o, j) := oj
        let g := t.ghostOf ([], a)
        let v := expDiff v s!"Factored::Bandit::Experience.record" s!"basis={i}" j o (t.pair j)
        expClause v s!"Factored::Bandit::Experience.record" s!"basis={i}" 0 j o g (heavy g.recs.length st.opIdx false))
      let v := v.failIf (ts != st.ts) s!"Factored::Bandit::Experience.record timesteps_not_record_count impl={ts} want={st.ts}"
      pure { st with v := v, nRec := st.nRec + 1 }
  | "R" => do
      let st := { st with tabs := st.tabs.map (fun t => t.step st.cfg .reset), ts := 0, opIdx := st.opIdx + 1 }
      let st ← dumpExp st "reset" false
      let ts ← P.nat
      pure { st with v := st.v.failIf (ts != 0) s!"Factored::Bandit::Experience.reset timesteps_not_zero impl={ts}", nReset := st.nReset + 1 }
  | "E" => do
      let st ← dumpExp st "final" true
      let ts ← P.nat
      pure { st with v := st.v.failIf (ts != st.ts) s!"Factored::Bandit::Experience.final timesteps_not_record_count impl={ts} want={st.ts}" }
  | _ => P.fail

def fbhist : P String := do
  let A ← P.nats; let deps ← P.natss
  let tags ← P.natss; let depsOut ← P.natss; let aOut ← P.nats
  let sizes ← P.rep P.nat deps.length
  let nops ← P.nat
  let cfg := cfgPlain 0
  let tabs := (deps.zip sizes).map (fun ds =>
    ({ expC := "Factored::Bandit::Experience", modC := "none", w := 0, size := ds.2,
       idx := fun k => fbIdx A ds.1 k.2, ctx := fun k => (fbCtx ds.1 k.2, []),
       world := World.init (AITB.Factored.spacePartial ds.1 A) 0 (fun _ => 0), oracle := Oracle.init, rows := [] } : KTab))
  let want := deps.map (fun d => AITB.Factored.spacePartial d A)
  let v0 : Verdict := {}
  let v0 := v0.diffIf (sizes != want) s!"factorSpacePartial model={want} impl={sizes}"
  -- the object must keep statistics for exactly the dependency sets and action space it was given
  let v0 := v0.failIf (tags != deps) s!"Factored::Bandit::Experience.ctor basis_tag_not_dependency impl={tags} want={deps}"
  let v0 := v0.failIf (depsOut != deps || aOut != A) s!"Factored::Bandit::Experience.ctor reported_dependencies_or_action_space_differ impl={depsOut}/{aOut}"
  let st0 : CSt := { g := { S := [], A := A, parents := [] }, cfg := cfg, tabs := tabs, ts := 0, opIdx := 0, v := v0 }
  let rec loop : Nat → CSt → P CSt
    | 0, st => pure st
    | n+1, st => do let st' ← fbOp A st; loop n st'
  let st ← loop nops st0
  P.eof
  let tag := "fbhist" ++ (if nops ≤ 2 then " trivial" else "") ++ (if st.nReset > 0 then " reset" else "")
  pure ({ st.v with tag := tag }).render

def handle (toks : List String) : String :=
  let r := match toks with
    | "hist" :: rest => P.run hist rest
    | "thompson" :: rest => P.run thompson rest
    | "tsync" :: rest => P.run tsync rest
    | "sethist" :: rest => P.run sethist rest
    | "coophist" :: rest => P.run coophist rest
    | "fbhist" :: rest => P.run fbhist rest
    | "coopq" :: rest => P.run coopq rest
    | _ => none
  r.getD "bad-op"

end DrvC07
