import AITB.Model.Proto
import AITB.Model.Experience
import AITB.Model.ExperienceCfg
import AITB.Gen.Constants
open AITB AITB.Exp

/-
  Protocol (one line = one whole history of one table, observations inline after every call):

    C07 hist <variant> <np> <w> <A> <hasModel> <junk> <nops> { <op> }

    <variant>  dense | dsparse | sparse | generic | gsparse | bandit | fbandit | coop
    <np>       number of pairs; <w> row width; <A> : default row index of pair i is i / A (flat) when A > 0, 0 when A = 0
    <junk>     the value uninitialised storage holds in this process (heap poison), exact token
    <op>       r p s1 rew   | cnt[w] N mean M2 ts            record on pair p; experience getters of p afterwards
               s p          | row[w] rew                     sync(s,a)
               i p s1       | row[w] rew                     sync(s,a,s1)
               S            | np × (row[w] rew)              sync()
               c b          | np × (row[w] rew)              model constructed now with sync flag b
               R            | np × (cnt[w] N mean M2) ts     reset()
               E            | np × (cnt[w] N mean M2) ts [np × (row[w] rew)]     final dump

    C07 thompson <component> <w> <n> { cnt[w] N mean | row[w] rew }      exposed rows of a posterior-sampling model

  Verdicts: `diff` = implementation differs from the Lean model run on the same history;
  `fail` = the property's own clause (computed from the recorded data by definition, `Ghost`/`freqOf`/
  `meanOf`/`sqDevOf`) is false on the implementation's output.
-/
namespace DrvC07

def tol : Rat := 1 / 1000000000

structure Variant where
  expC : String
  modC : String
  cfg : Cfg

def variantOf (name : String) (junk : Rat) : Option Variant :=
  match name with
  | "dense"   => some ⟨"MDP::Experience", "MaximumLikelihoodModel", cfgDense junk⟩
  | "dsparse" => some ⟨"MDP::SparseExperience", "MaximumLikelihoodModel", cfgDense junk⟩
  | "generic" => some ⟨"GenericExperience", "MaximumLikelihoodModel", cfgDense junk⟩
  | "sparse"  => some ⟨"MDP::SparseExperience", "SparseMaximumLikelihoodModel", cfgSparse junk⟩
  | "gsparse" => some ⟨"GenericExperience", "SparseMaximumLikelihoodModel<generic>", cfgGSparse junk⟩
  | "bandit"  => some ⟨"Bandit::Experience", "none", cfgPlain junk⟩
  | "fbandit" => some ⟨"Factored::Bandit::Experience", "none", cfgPlain junk⟩
  | "coop"    => some ⟨"CooperativeExperience", "CooperativeMaximumLikelihoodModel", cfgPlain junk⟩
  | _ => none

structure ExpObs where
  cnt : List Nat
  n : Nat
  mean : XRat
  m2 : XRat

structure ModObs where
  row : List XRat
  rew : XRat

def pExp (w : Nat) : P ExpObs := do
  let c ← P.rep P.nat w; let n ← P.nat; let m ← P.x; let m2 ← P.x
  pure ⟨c, n, m, m2⟩

def pMod (w : Nat) : P ModObs := do
  let r ← P.rep P.x w; let rw ← P.x
  pure ⟨r, rw⟩

structure St where
  v : Variant
  np : Nat
  w : Nat
  world : World
  ghosts : List Ghost
  taint : List Bool        -- pair's incremental-sync precondition was violated and no full sync happened since
  everReset : Bool
  hasCtor : Bool
  opIdx : Nat
  verdict : Verdict
  nInc : Nat
  nPreViol : Nat

def xClose (x : XRat) (q : Rat) : Bool :=
  match x with
  | .fin a => closeQ tol a q
  | _ => false

def xFin (x : XRat) : Bool := match x with | .fin _ => true | _ => false

def showX (x : XRat) : String := toString x

/-- is it time to evaluate the O(n) definitional clauses? (always for short histories, sampled for long ones) -/
def heavy (n opIdx : Nat) (last : Bool) : Bool := n ≤ 256 || opIdx % 509 == 0 || last

/-- experience clauses for pair `i`: implementation vs model (diff) and vs the recorded data (fail) -/
def checkExp (st : St) (site : String) (i : Nat) (o : ExpObs) (last : Bool) : Verdict :=
  let v := st.verdict
  let p := st.world.pairs.getD i default
  let g := st.ghosts.getD i default
  let comp := st.v.expC ++ "." ++ site
  let v := v.diffIf (o.cnt != p.cnt) s!"{comp} visits pair={i} model={p.cnt} impl={o.cnt}"
  let v := v.diffIf (o.n != p.cell.n) s!"{comp} visitsSum pair={i} model={p.cell.n} impl={o.n}"
  let v := v.diffIf (!(xClose o.mean p.cell.mean)) s!"{comp} reward pair={i} model={ratStr p.cell.mean} impl={showX o.mean}"
  let v := v.diffIf (!(xClose o.m2 p.cell.m2)) s!"{comp} M2 pair={i} model={ratStr p.cell.m2} impl={showX o.m2}"
  -- the property's clauses, from the definitions
  let v := v.failIf (o.n != g.recs.length) s!"{comp} visitsSum_not_record_count pair={i} impl={o.n} records={g.recs.length}"
  if heavy g.recs.length st.opIdx last then
    let v := v.failIf (o.cnt != (List.range st.w).map (fun k => countS1 k g.recs)) s!"{comp} visits_not_record_count pair={i} impl={o.cnt}"
    let v := v.failIf (!(xClose o.mean (meanOf g.recs))) s!"{comp} mean_not_empirical pair={i} impl={showX o.mean} want={ratStr (meanOf g.recs)}"
    let v := v.failIf (!(xClose o.m2 (sqDevOf g.recs))) s!"{comp} m2_not_sum_sq_dev pair={i} impl={showX o.m2} want={ratStr (sqDevOf g.recs)}"
    v
  else v

/-- learned-model clauses for pair `i` -/
def checkMod (st : St) (site : String) (i : Nat) (o : ModObs) (last : Bool) : Verdict :=
  let v := st.verdict
  let p := st.world.pairs.getD i default
  let g := st.ghosts.getD i default
  let comp := st.v.modC ++ "." ++ site
  let rowBad := (List.range st.w).any (fun k => !(xClose (o.row.getD k .nan) (nthQ p.row k)))
  let v := v.diffIf rowBad s!"{comp} row pair={i} model={p.row.map ratStr} impl={o.row.map showX}"
  let v := v.diffIf (!(xClose o.rew p.rew)) s!"{comp} reward pair={i} model={ratStr p.rew} impl={showX o.rew}"
  if st.taint.getD i false then
    -- outside the precondition the C++ may divide by zero (NaN/inf rows); the rational model has no such value
    (if o.row.all xFin then v else { v with tag := "SKIP" })
  else
  if g.snap.isEmpty then
    -- never synced with data: the fixed valid default
    let bad := (List.range st.w).any (fun k => !(xClose (o.row.getD k .nan) (specRow st.w p.dfl g k)))
    let v := v.failIf bad s!"{comp} unvisited_row_not_default pair={i} impl={o.row.map showX}"
    v.failIf (!(xClose o.rew 0)) s!"{comp} unvisited_reward_not_zero pair={i} impl={showX o.rew}"
  else if heavy g.snap.length st.opIdx last then
    let bad := (List.range st.w).any (fun k => !(xClose (o.row.getD k .nan) (freqOf g.snap k)))
    let kind := if st.everReset && g.snap.length == 1 && site == "syncInc" then "row_not_frequency_first_record_after_reset" else "row_not_frequency"
    -- where the implementation is wrong only on cells the data never visited (value left over from before)
    let onlyUnvisited := (List.range st.w).all (fun k => xClose (o.row.getD k .nan) (freqOf g.snap k) || countS1 k g.snap == 0)
    let kind := if kind == "row_not_frequency" && onlyUnvisited && site != "syncInc" then "row_keeps_stale_unvisited_cells" else kind
    let v := v.failIf bad s!"{comp} {kind} pair={i} impl={o.row.map showX} want={(List.range st.w).map (fun k => ratStr (freqOf g.snap k))}"
    let m := meanOf g.snap
    if xClose o.rew m then v
    else
      let lag := match st.v.cfg.rewTol, o.rew with
        | some t, .fin a => decide (AITB.Exp.absQ (a - m) ≤ t)
        | _, _ => false
      v.failIf true (if lag then s!"{st.v.modC} reward_lags_mean_within_tolerance site={site} pair={i} impl={showX o.rew} want={ratStr m}"
                     else s!"{comp} reward_not_mean pair={i} impl={showX o.rew} want={ratStr m}")
  else v

def stepSt (st : St) (op : Op) : St :=
  let world := st.world.step st.v.cfg op
  let pre := mapIdxFrom (fun i (g : Ghost) => incPreOK g (op.project i)) 0 st.ghosts
  let ghosts := mapIdxFrom (fun i (g : Ghost) => g.step (op.project i)) 0 st.ghosts
  -- taint bookkeeping
  let taint := mapIdxFrom (fun i (t : Bool) =>
      match op.project i with
      | .syncInc _ => if !(pre.getD i true) then true
                      else if (world.pairs.getD i default).cell.n % st.v.cfg.period == 0 && (world.pairs.getD i default).cell.n != 0 then false else t
      | .sync => if (world.pairs.getD i default).cell.n == 0 then t else false
      | .ctor _ => false
      | _ => t) 0 st.taint
  let viol := match op with | .syncInc .. => if pre.all id then 0 else 1 | _ => 0
  let isInc := match op with | .syncInc .. => 1 | _ => 0
  { st with world := world, ghosts := ghosts, taint := taint, opIdx := st.opIdx + 1,
            everReset := st.everReset || (match op with | .reset => true | _ => false),
            hasCtor := st.hasCtor || (match op with | .ctor _ => true | _ => false),
            nInc := st.nInc + isInc, nPreViol := st.nPreViol + viol }

def foldIdx {α} (l : List α) (st : St) (f : St → Nat → α → Verdict) : St :=
  (l.foldl (fun (acc : St × Nat) x => ({ acc.1 with verdict := f acc.1 acc.2 x }, acc.2 + 1)) (st, 0)).1

/-- one operation with its observations; returns the new state and the remaining tokens -/
def oneOp (st : St) (hasModel : Bool) : P St := do
  let t ← P.tok
  match t with
  | "r" => do
      let p ← P.nat; let s1 ← P.nat; let r ← P.q
      let o ← pExp st.w; let ts ← P.nat
      let st := stepSt st (.record p s1 r)
      let v := checkExp st "record" p o false
      let v := v.diffIf (ts != st.world.ts) s!"{st.v.expC}.record timesteps model={st.world.ts} impl={ts}"
      pure { st with verdict := v }
  | "s" => do
      let p ← P.nat; let o ← pMod st.w
      let st := stepSt st (.sync p)
      pure { st with verdict := checkMod st "syncSA" p o false }
  | "i" => do
      let p ← P.nat; let s1 ← P.nat; let o ← pMod st.w
      let st := stepSt st (.syncInc p s1)
      pure { st with verdict := checkMod st "syncInc" p o false }
  | "S" => do
      let os ← P.rep (pMod st.w) st.np
      let st := stepSt st .syncAll
      pure (foldIdx os st (fun s i o => checkMod s "sync" i o false))
  | "c" => do
      let b ← P.bool
      let os ← P.rep (pMod st.w) st.np
      let st := stepSt st (.ctor b)
      pure (foldIdx os st (fun s i o => checkMod s (if b then "ctorSync" else "ctorNoSync") i o false))
  | "R" => do
      let os ← P.rep (pExp st.w) st.np; let ts ← P.nat
      let st := stepSt st .reset
      let st := foldIdx os st (fun s i o => checkExp s "reset" i o false)
      pure { st with verdict := st.verdict.failIf (ts != 0) s!"{st.v.expC}.reset timesteps_not_zero impl={ts}" }
  | "E" => do
      let os ← P.rep (pExp st.w) st.np; let ts ← P.nat
      let st := foldIdx os st (fun s i o => checkExp s "final" i o true)
      let v := st.verdict.diffIf (ts != st.world.ts) s!"{st.v.expC}.final timesteps model={st.world.ts} impl={ts}"
      let st := { st with verdict := v }
      if hasModel then do
        let ms ← P.rep (pMod st.w) st.np
        pure (foldIdx ms st (fun s i o => checkMod s "final" i o true))
      else pure st
  | _ => P.fail

def opsLoop (hasModel : Bool) : Nat → St → P St
  | 0, st => pure st
  | n+1, st => do
      let st' ← oneOp st hasModel
      opsLoop hasModel n st'

def hist : P String := do
  let vname ← P.tok; let np ← P.nat; let w ← P.nat; let a ← P.nat
  let hasModel ← P.bool; let junk ← P.q; let nops ← P.nat
  match variantOf vname junk with
  | none => P.fail
  | some v =>
    let dflOf := fun i => if a == 0 then 0 else i / a
    let st : St := { v := v, np := np, w := w, world := World.init np w dflOf,
                     ghosts := List.replicate np Ghost.init, taint := List.replicate np false,
                     everReset := false, hasCtor := false, opIdx := 0, verdict := {}, nInc := 0, nPreViol := 0 }
    let st ← opsLoop hasModel nops st
    P.eof
    let tag := vname ++ (if st.nPreViol > 0 then " nopre" else " pre") ++ (if nops ≤ 2 then " trivial" else "")
              ++ (if st.nInc > 0 then " inc" else "") ++ (if st.everReset then " reset" else "")
    if st.verdict.tag == "SKIP" && st.verdict.fails.isEmpty then pure "skip nonfinite_row_outside_precondition"
    else pure ({ st.verdict with tag := tag }).render

/-- exposed distribution of a posterior-sampling model: rows valid, rewards finite, MLE reward below two visits -/
def thompson : P String := do
  let comp ← P.tok; let w ← P.nat; let n ← P.nat
  let rec go : Nat → Nat → Verdict → P Verdict
    | 0, _, v => pure v
    | k+1, i, v => do
        let _cnt ← P.rep P.nat w; let nn ← P.nat; let mean ← P.x
        let o ← pMod w
        let allFin := o.row.all xFin
        let qs := o.row.map (fun x => match x with | .fin q => q | _ => 0)
        let v := v.failIf (!allFin) s!"{comp} row_not_finite pair={i} {o.row.map showX}"
        let v := v.failIf (allFin && qs.any (fun q => decide (q < 0))) s!"{comp} row_negative_entry pair={i} {o.row.map showX}"
        let s := sumQ qs
        let v := v.failIf (allFin && !(decide (AITB.Exp.absQ (s - 1) ≤ tol))) s!"{comp} row_sum_not_one pair={i} sum={ratStr s}"
        let v := v.failIf (!(xFin o.rew)) s!"{comp} reward_not_finite pair={i} {showX o.rew}"
        let v := v.failIf (nn < 2 && xFin o.rew && xFin mean && !(match o.rew, mean with | .fin a, .fin b => closeQ tol a b | _, _ => false))
                  s!"{comp} reward_not_mle_below_two_visits pair={i} impl={showX o.rew} mean={showX mean}"
        go k (i+1) v
  let v ← go n 0 { tag := "thompson" }
  P.eof
  pure v.render

/-- `C07 tsync <component> <w> <n> { cnt[w] N mean M2 | g[w] t sd | row[w] rew }`
    a Thompson model row together with the engine outputs that produced it (the harness replays the model's
    random engine from the same seed: gamma draws with the Jeffreys parameters `dirichletParams cnt`, then — when
    N ≥ 2 — one Student-t draw with N−1 degrees of freedom; `sd` is the harness's own `sqrt(M2/(N(N−1)))`).
    diff: the Lean `Pair.thompsonSync` on these outputs vs the implementation; fail: validity clauses. -/
def tsync : P String := do
  let comp ← P.tok; let w ← P.nat; let n ← P.nat
  let rec go : Nat → Nat → Verdict → P Verdict
    | 0, _, v => pure v
    | k+1, i, v => do
        let cnt ← P.rep P.nat w; let nn ← P.nat; let mean ← P.q; let m2 ← P.q
        let gs ← P.rep P.q w; let t ← P.q; let sd ← P.q
        let o ← pMod w
        let cell : Cell := ⟨nn, mean, m2⟩
        let pr : Pair := { (Pair.init w 0 i) with cell := cell, cnt := cnt }
        let q := pr.thompsonSync gs t sd
        -- the harness's sd against the model's posterior scale
        let v := match thompsonPost cell with
          | some post => v.diffIf (!(closeQ (1/100000000) (sd * sd) post.scale2)) s!"{comp} posterior_scale pair={i} sd^2={ratStr (sd*sd)} model={ratStr post.scale2}"
          | none => v
        let rowBad := (List.range w).any (fun k => !(xClose (o.row.getD k .nan) (nthQ q.row k)))
        let v := v.diffIf rowBad s!"{comp} row pair={i} model={q.row.map ratStr} impl={o.row.map showX}"
        let v := v.diffIf (!(xClose o.rew q.rew)) s!"{comp} reward pair={i} model={ratStr q.rew} impl={showX o.rew}"
        -- validity of what is exposed
        let allFin := o.row.all xFin
        let qs := o.row.map (fun x => match x with | .fin q => q | _ => 0)
        let v := v.failIf (!allFin) s!"{comp} row_not_finite pair={i} {o.row.map showX}"
        let v := v.failIf (allFin && qs.any (fun q => decide (q < 0))) s!"{comp} row_negative_entry pair={i}"
        let v := v.failIf (allFin && !(decide (AITB.Exp.absQ (sumQ qs - 1) ≤ tol))) s!"{comp} row_sum_not_one pair={i} sum={ratStr (sumQ qs)}"
        let v := v.failIf (!(xFin o.rew)) s!"{comp} reward_not_finite pair={i} {showX o.rew}"
        let v := v.failIf (nn < 2 && !(xClose o.rew mean)) s!"{comp} reward_not_mle_below_two_visits pair={i} impl={showX o.rew}"
        let v := v.failIf (gs.any (fun g => decide (g ≤ 0))) s!"{comp} gamma_draw_not_positive pair={i}"
        go k (i+1) v
  let v ← go n 0 { tag := "tsync" }
  P.eof
  pure v.render

/-- `C07 sethist <variant> <np> <w> <A> <junk> <nops> { op }` — experience with table setters
      r p s1 rew | cnt[w] N mean M2            record
      R          | np × (cnt[w] N mean M2)     reset
      V np×cnt[w]| dump                         setVisitsTable
      M t np×x   | dump                         setRewardMatrix (t = 1: element-wise sparse overload, tolerance drop)
      Q t np×x   | dump                         setM2Matrix
      F          | np × (row[w] rew)            a MaximumLikelihoodModel constructed now with sync = true -/
structure SetSt where
  comp : String
  np : Nat
  w : Nat
  a : Nat
  cfg : Cfg
  es : List EPair
  gs : List EGhost
  v : Verdict

def checkE (st : SetSt) (site : String) (i : Nat) (o : ExpObs) : Verdict :=
  let e := st.es.getD i default
  let want := ((st.gs.getD i default).current st.w)
  let c := st.comp ++ "." ++ site
  let v := st.v
  let v := v.diffIf (o.cnt != e.cnt || o.n != e.cell.n) s!"{c} visits pair={i} model={e.cnt}/{e.cell.n} impl={o.cnt}/{o.n}"
  let v := v.diffIf (!(xClose o.mean e.cell.mean)) s!"{c} reward pair={i} model={ratStr e.cell.mean} impl={showX o.mean}"
  let v := v.diffIf (!(xClose o.m2 e.cell.m2)) s!"{c} M2 pair={i} model={ratStr e.cell.m2} impl={showX o.m2}"
  let v := v.failIf (o.cnt != want.cnt) s!"{c} visits_not_loaded_plus_recorded pair={i} impl={o.cnt} want={want.cnt}"
  let v := v.failIf (o.n != want.cell.n) s!"{c} visitsSum_not_loaded_plus_recorded pair={i} impl={o.n} want={want.cell.n}"
  let v := v.failIf (!(xClose o.mean want.cell.mean)) s!"{c} mean_not_combined_statistics pair={i} impl={showX o.mean} want={ratStr want.cell.mean}"
  v.failIf (!(xClose o.m2 want.cell.m2)) s!"{c} m2_not_combined_statistics pair={i} impl={showX o.m2} want={ratStr want.cell.m2}"

def setApply (st : SetSt) (tol : Option Rat) (ops : List EOp) : SetSt :=
  { st with es := mapIdxFrom (fun i (e : EPair) => e.step tol (ops.getD i .nop)) 0 st.es,
            gs := mapIdxFrom (fun i (g : EGhost) => g.step tol st.w (ops.getD i .nop)) 0 st.gs }

def setDump (st : SetSt) (site : String) : P SetSt := do
  let os ← P.rep (pExp st.w) st.np
  let r := os.foldl (fun (acc : SetSt × Nat) o => ({ acc.1 with v := checkE acc.1 site acc.2 o }, acc.2 + 1)) (st, 0)
  pure r.1

def setOp (st : SetSt) : P SetSt := do
  let t ← P.tok
  let tolOf := fun (b : Bool) => if b then some AITB.Gen.equalToleranceSmall else none
  match t with
  | "r" => do
      let p ← P.nat; let s1 ← P.nat; let r ← P.q
      let o ← pExp st.w
      let st := setApply st none ((List.range st.np).map (fun i => if i == p then EOp.record s1 r else .nop))
      pure { st with v := checkE st "record" p o }
  | "R" => do
      let st := setApply st none (List.replicate st.np .reset)
      setDump st "reset"
  | "V" => do
      let rows ← P.rep (P.rep P.nat st.w) st.np
      let st := setApply st none (rows.map EOp.setCnt)
      setDump st "setVisitsTable"
  | "M" => do
      let b ← P.bool; let xs ← P.rep P.q st.np
      let st := setApply st (tolOf b) (xs.map EOp.setMean)
      setDump st "setRewardMatrix"
  | "Q" => do
      let b ← P.bool; let xs ← P.rep P.q st.np
      let st := setApply st (tolOf b) (xs.map EOp.setM2)
      setDump st "setM2Matrix"
  | "F" => do
      let ms ← P.rep (pMod st.w) st.np
      let r := ms.foldl (fun (acc : Verdict × Nat) o =>
        let i := acc.2
        let e := st.es.getD i default
        let dfl := if st.a == 0 then 0 else i / st.a
        let pr : Pair := { (Pair.init st.w dfl i) with cell := e.cell, cnt := e.cnt }
        let q := pr.ctor st.cfg true
        let want := ((st.gs.getD i default).current st.w)
        let c := "MaximumLikelihoodModel.afterSetters"
        let v := acc.1
        let v := v.diffIf ((List.range st.w).any (fun k => !(xClose (o.row.getD k .nan) (nthQ q.row k)))) s!"{c} row pair={i} model={q.row.map ratStr} impl={o.row.map showX}"
        let v := v.diffIf (!(xClose o.rew q.rew)) s!"{c} reward pair={i} model={ratStr q.rew} impl={showX o.rew}"
        let v := if want.cell.n == 0 then
            v.failIf ((List.range st.w).any (fun k => !(xClose (o.row.getD k .nan) (if k == dfl then 1 else 0))) || !(xClose o.rew 0)) s!"{c} unvisited_row_not_default pair={i}"
          else
            let v := v.failIf ((List.range st.w).any (fun k => !(xClose (o.row.getD k .nan) ((nthN want.cnt k : Rat) / (want.cell.n : Rat))))) s!"{c} row_not_visits_over_visitsSum pair={i} impl={o.row.map showX}"
            v.failIf (!(xClose o.rew want.cell.mean)) s!"{c} reward_not_mean pair={i} impl={showX o.rew}"
        (v, i + 1)) (st.v, 0)
      pure { st with v := r.1 }
  | _ => P.fail

def sethist : P String := do
  let vname ← P.tok; let np ← P.nat; let w ← P.nat; let a ← P.nat; let junk ← P.q; let nops ← P.nat
  let comp := if vname == "sparse-set" then "MDP::SparseExperience" else "MDP::Experience"
  let st0 : SetSt := { comp := comp, np := np, w := w, a := a, cfg := cfgDense junk,
                       es := List.replicate np (EPair.init w), gs := List.replicate np { base := EPair.init w, since := [] }, v := { tag := "setters" } }
  let rec loop : Nat → SetSt → P SetSt
    | 0, st => pure st
    | n+1, st => do let st' ← setOp st; loop n st'
  let st ← loop nops st0
  P.eof
  pure st.v.render

def handle (toks : List String) : String :=
  let r := match toks with
    | "hist" :: rest => P.run hist rest
    | "thompson" :: rest => P.run thompson rest
    | "tsync" :: rest => P.run tsync rest
    | "sethist" :: rest => P.run sethist rest
    | _ => none
  r.getD "bad-op"

end DrvC07
