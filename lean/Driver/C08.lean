import AITB.Model.Proto
import AITB.Model.Sampling
import AITB.Model.SamplingModels
import AITB.Model.SamplingChain
import AITB.Gen.C08Variant
import AITB.Gen.C08Engines
open AITB AITB.Sampling

namespace DrvC08

/-! The model of *the code that exists* (round 2): the three repairs are merged, so the driver uses the
    repaired models directly.  `tools/extract_c08.py` fails the run (broken tie) when the text of any
    modelled function is no longer the form these models were written from. -/
def projectImpl (v : List Rat) : List Rat := projectFixed v
def sampleSparseImpl (d : Nat) (row _rest : List (Nat × Rat)) (u : Rat) : Option Nat := some (sampleSparseFixed d row u)
def voseBuildImpl (p : List Rat) (avg : Rat) : List Rat × List Nat := voseBuildFixed p avg

def tolCmp : Rat := 1 / 1000000000          -- 1e-9: comparison / conditioning margin
def two53 : Nat := 2 ^ 53

/-- the value lies on the 2^-53 grid: double arithmetic on such values inside [0,2) is exact -/
def onGrid (q : Rat) : Bool := two53 % q.den == 0
def minQ (l : List Rat) (d : Rat) : Rat := l.foldl (fun m x => if x < m then x else m) d

/-- distance of `u` from the nearest inner breakpoint of `l` -/
def bpMargin (l : List Rat) (u : Rat) : Rat :=
  minQ ((List.range l.length).map (fun k => absQ (cum l (k + 1) - u))) 1

/-- one draw of a dense scan: (conditioned?, failure?, diff?) folded into the verdict -/
def denseOne (comp : String) (l : List Rat) (v : Verdict) (ur : Rat × Nat) : Verdict :=
  let (u, r) := ur
  let v := v.failIf (decide (l.length ≤ r)) s!"{comp} out_of_range index={r} size={l.length} u={ratStr u}"
  let exact := l.all onGrid && onGrid u
  if !exact && decide (bpMargin l u < tolCmp) then { v with tag := "illc" } else
  let v := v.failIf (!(intervalSpec l u r)) s!"{comp} wrong_index index={r} u={ratStr u} model={sampleDense l u}"
  v.diffIf (sampleDense l u != r) s!"{comp} model={sampleDense l u} impl={r} u={ratStr u}"

/-- `dense <container> p… us… | results… words` -/
def dense : P String := do
  let cont ← P.tok; let l ← P.qs; let us ← P.qs; P.bar
  let rs ← P.nats; let words ← P.nat; P.eof
  if us.length != rs.length then P.fail
  let comp := "sampleProbability_dense"
  let v : Verdict := { tag := if l.length ≤ 1 then "trivial" else "dense-" ++ cont }
  let v := (us.zip rs).foldl (denseOne comp l) v
  let v := v.diffIf (words != 2 * us.length) s!"{comp} draws_consumed words={words} draws={us.length}"
  return v.render

def entries : P (List (Nat × Rat)) := P.list (do let c ← P.nat; let x ← P.q; pure (c, x))

def posOf (row : List (Nat × Rat)) (c : Nat) : Option Nat :=
  let idx := row.findIdx (fun e => e.1 == c)
  if idx < row.length then some idx else none

def sparseOne (comp : String) (n : Nat) (row rest : List (Nat × Rat)) (v : Verdict) (ur : Rat × Nat) : Verdict :=
  let (u, r) := ur
  let vals := row.map (·.2)
  let v := v.failIf (decide (n ≤ r)) s!"{comp} out_of_range index={r} size={n} u={ratStr u}"
  let exact := vals.all onGrid && (rest.map (·.2)).all onGrid && onGrid u
  -- conditioning: breakpoints of the row and of what follows it
  let allv := vals ++ rest.map (·.2)
  if !exact && decide (bpMargin allv u < tolCmp) then { v with tag := "illc" } else
  let m := sampleSparseImpl n row rest u
  -- assumption of the theorems (Eigen row-major storage): the iterator visits the stored columns in ascending order
  let v := v.diffIf (!((row.zip (row.drop 1)).all (fun (a, b) => decide (a.1 < b.1)))) s!"{comp} stored_columns_not_ascending {row.map (·.1)}"
  let v := match posOf row r with
    | none => v.failIf true s!"{comp} outside_support column={r} u={ratStr u} rowsum={ratStr vals.sum}"
    | some k =>
      -- a draw in the slack [row sum, 1) may land on any stored column ("still lands on a valid index")
      if decide (vals.sum ≤ u) then v else v.failIf (!(intervalSpec vals u k)) s!"{comp} wrong_index column={r} u={ratStr u}"
  v.diffIf (m != some r) s!"{comp} model={m} impl={r} u={ratStr u}"

/-- `sparse cols row… rest… us… | results… words` -/
def sparse : P String := do
  let n ← P.nat; let row ← entries; let rest ← entries; let us ← P.qs; P.bar
  let rs ← P.nats; let words ← P.nat; P.eof
  if us.length != rs.length then P.fail
  let comp := "sampleProbability_sparse"
  let v : Verdict := { tag := "sparse" }
  let v := (us.zip rs).foldl (sparseOne comp n row rest) v
  let v := v.diffIf (words != 2 * us.length) s!"{comp} draws_consumed words={words} draws={us.length}"
  return v.render

def closeL (a b : List Rat) : Bool := a.length == b.length && (a.zip b).all (fun (x, y) => closeQ tolCmp x y)

/-- margin of the `isProbability` decision on `l` (distance of |sum-1| from the tolerance) -/
def probMargin (l : List Rat) : Rat := absQ (absQ (l.sum - 1) - Gen.equalToleranceSmall)

/-- `proj v… | out…` -/
def proj : P String := do
  let vin ← P.qs; P.bar; let out ← P.qs; P.eof
  let comp := "projectToProbability"
  let s := posSum vin
  -- a sum above the largest finite double is `inf` in the implementation (outside the exact-arithmetic reading)
  let maxDouble : Rat := ((2 ^ 1024 - 2 ^ 971 : Nat) : Rat)
  let br := if decide (s > maxDouble) then "sum_overflows_double" else projectBranch vin
  -- the branch decision itself must be well conditioned
  if decide (absQ (absQ (s - 1) - Gen.equalToleranceSmall) < tolCmp) || decide (absQ (absQ s - Gen.equalToleranceSmall) < tolCmp)
     || decide (probMargin out < tolCmp) || decide (probMargin vin < tolCmp) then return "skip ill_conditioned" else
  let v : Verdict := { tag := if vin.length == 0 then "trivial" else "proj-" ++ br }
  let v := v.failIf (out.length != vin.length) s!"{comp} wrong_length {out.length}"
  let v := v.failIf (isProb vin && out != vin) s!"{comp} changes_valid_input"
  let v := v.failIf (vin.length != 0 && !(isProb out)) s!"{comp} not_probability@{br} sum={ratStr out.sum}"
  let v := v.diffIf (!(closeL (projectImpl vin) out)) s!"{comp} branch={br} model={(projectImpl vin).map ratStr} impl={out.map ratStr}"
  return v.render

/-- stored entries of a dense row as a compressed sparse matrix holds them (zeros are not stored; an explicitly
    stored zero changes nothing in `isProbability`) -/
def storedOf (l : List Rat) : List (Nat × Rat) := ((List.range l.length).zip l).filter (fun e => e.2 != 0)

/-- the property-level reading of "accepted by isProbability": no negative entry, |sum - 1| ≤ 1e-6 — with a
    conditioning margin: `some true` = valid with margin, `some false` = invalid with margin, `none` = too close to call -/
def propTol : Rat := 1 / 1000000     -- the property's own number: "row sums in [1-1e-6, 1+1e-6]" (not read from the source)
def rowVerdict (l : List Rat) : Option Bool :=
  if l.any (fun x => decide (x < 0)) then some false
  else if decide (absQ (absQ (l.sum - 1) - propTol) < tolCmp) then none
  else some (decide (absQ (l.sum - 1) ≤ propTol))

def tableVerdict (rows : List (List Rat)) : Option Bool :=
  let vs := rows.map rowVerdict
  if vs.any (· == some false) then some false else if vs.any (· == none) then none else some true

/-- clause on one overload's answer: it must be the property-level verdict -/
def isprobClause (comp what : String) (expect impl : Bool) (v : Verdict) : Verdict :=
  (v.failIf (impl && !expect) s!"{comp} accepts_invalid overload={what}").failIf (!impl && expect) s!"{comp} rejects_valid overload={what}"

/-- `isprob v… | template dense sparse` : the three `isProbability` overloads on one row -/
def isprob : P String := do
  let l ← P.qs; P.bar; let t ← P.bool; let md ← P.bool; let ms ← P.bool; P.eof
  let comp := "isProbability"
  match rowVerdict l with
  | none => return "skip ill_conditioned"
  | some e =>
  let v : Verdict := { tag := if isProb l then "isprob-accept" else "isprob-reject" }
  let v := isprobClause comp "template" e t v
  let v := isprobClause comp "Matrix2D" e md v
  let v := isprobClause comp "SparseMatrix2D" e ms v
  let v := v.diffIf (isProb l != t) s!"{comp} template model={isProb l} impl={t}"
  let v := v.diffIf (isProbMatrix2D [l] != md) s!"{comp} Matrix2D model={isProbMatrix2D [l]} impl={md}"
  let v := v.diffIf (isProbSparse2D [storedOf l] != ms) s!"{comp} SparseMatrix2D model={isProbSparse2D [storedOf l]} impl={ms}"
  return v.render

/-- `isprobm D (R rows…)*D | t3 m3 s3 t2 m2 s2` : the 3-D overloads on the whole table (template, Matrix3D, SparseMatrix3D) and
    the 2-D overloads on the slice holding the defective row; the slice index is not on the line: the 2-D answers are
    checked against "some slice" only through the clause (a 2-D overload accepting while the table has no valid slice …) -/
def isprobm : P String := do
  let t ← P.list P.qss; P.bar
  let t3 ← P.bool; let m3 ← P.bool; let s3 ← P.bool; let t2 ← P.bool; let m2 ← P.bool; let s2 ← P.bool; P.eof
  let comp := "isProbability"
  match tableVerdict t.flatten with
  | none => return "skip ill_conditioned"
  | some e =>
  let v : Verdict := { tag := if e then "isprobm-accept" else "isprobm-reject" }
  let v := isprobClause comp "template3D" e t3 v
  let v := isprobClause comp "Matrix3D" e m3 v
  let v := isprobClause comp "SparseMatrix3D" e s3 v
  -- the slice the 2-D overloads were called on holds the only defective row (if any): same verdict as the table
  let v := isprobClause comp "template2D" e t2 v
  let v := isprobClause comp "Matrix2D" e m2 v
  let v := isprobClause comp "SparseMatrix2D" e s2 v
  let v := v.diffIf (isProbTable3D t != t3) s!"{comp} template3D model={isProbTable3D t} impl={t3}"
  let v := v.diffIf (isProbMatrix3D t != m3) s!"{comp} Matrix3D model={isProbMatrix3D t} impl={m3}"
  let v := v.diffIf (isProbSparse3D (t.map (·.map storedOf)) != s3) s!"{comp} SparseMatrix3D model={isProbSparse3D (t.map (·.map storedOf))} impl={s3}"
  return v.render

/-- `seeded <ctor> orow… us… | obs…` : the observations of a freshly built POMDP object against the draws of an
    mt19937 seeded with the Seeder seed the object is expected to take -/
def seeded : P String := do
  let ctor ← P.tok; let orow ← P.qs; let us ← P.qs; P.bar; let obs ← P.nats; P.eof
  if us.length != obs.length then P.fail
  let v : Verdict := { tag := "seeded" }
  let bad := (us.zip obs).filter (fun (u, o) => !(intervalSpec orow u o))
  let v := v.failIf (!bad.isEmpty) s!"{ctor} engine_not_seeded_from_Seeder mismatches={bad.length}/{us.length} expected={us.map (sampleDense orow)} impl={obs}"
  return v.render

/-- `seededrows <ctor> rows… us… | outcomes…` : sample `i` scanned `rows[i]`; the draws are those of an mt19937 seeded with the
    Seeder seed the object is expected to take -/
def seededrows : P String := do
  let ctor ← P.tok; let rows ← P.qss; let us ← P.qs; P.bar; let outs ← P.nats; P.eof
  if us.length != outs.length || rows.length != outs.length then P.fail
  let v : Verdict := { tag := "seeded" }
  let cond := (rows.zip us).filter (fun (r, u) => decide (tolCmp ≤ bpMargin r u))      -- well-conditioned samples only
  let bad := (rows.zip (us.zip outs)).filter (fun (r, u, o) => decide (tolCmp ≤ bpMargin r u) && !(intervalSpec r u o))
  let v := v.failIf (!bad.isEmpty) s!"{ctor} engine_not_seeded_from_Seeder mismatches={bad.length}/{cond.length} impl={outs}"
  return v.render

/-- `seedvar <ctor> xs… | ys…` : a continuous posterior sample taken by two objects built under different root seeds -/
def seedvar : P String := do
  let ctor ← P.tok; let xs ← P.qs; P.bar; let ys ← P.qs; P.eof
  let v : Verdict := { tag := if xs.length < 4 then "trivial" else "seedvar" }
  let v := v.failIf (decide (4 ≤ xs.length) && xs == ys) s!"{ctor} engine_not_seeded_from_Seeder identical_posterior_sample_for_two_root_seeds entries={xs.length}"
  return v.render

def armBlock : P (List Nat × List (Rat × Rat)) := do
  let g ← P.nats; let arms ← P.list (do let lo ← P.q; let hi ← P.q; pure (lo, hi)); pure (g, arms)

/-- `fband joint|flat A… G (group… narms (lo hi)*)*G a… id us… | rews…` : Factored::Bandit::Model::sampleR / FlattenedModel::sampleR -/
def fband : P String := do
  let mode ← P.tok; let A ← P.nats; let blocks ← P.list armBlock; let a0 ← P.nats; let id ← P.nat; let us ← P.qs; P.bar
  let out ← P.qs; P.eof
  let groups := blocks.map (·.1); let arms := blocks.map (·.2)
  if us.length != groups.length then P.fail
  let flat := mode == "flat"
  let comp := if flat then "Factored::Bandit::FlattenedModel::sampleR" else "Factored::Bandit::Model::sampleR"
  let a := if flat then AITB.Factored.toFactors A id else a0
  let v : Verdict := { tag := "fband-" ++ mode }
  -- range safety of the arm lookup (B2/B3) on this very input
  let v := v.failIf (!((blocks.all (fun b => decide (AITB.Factored.toIndexPartial b.1 A a < b.2.length))))) s!"{comp} arm_index_out_of_range a={a}"
  let m := fbSampleR A groups arms a us
  -- each group's reward lies in the support of the arm its partial action index selects and is that arm's image of the group's own draw
  let v := if flat then
      v.failIf (!(out.length == 1 && closeQ tolCmp (out.getD 0 0) m.sum)) s!"{comp} reward_not_from_selected_arms impl={out.map ratStr} model={ratStr m.sum}"
    else
      let v := v.failIf (out.length != groups.length) s!"{comp} wrong_length {out.length}"
      (List.range groups.length).foldl (fun v i =>
        let arm := (arms.getD i []).getD (AITB.Factored.toIndexPartial (groups.getD i []) A a) (0, 0)
        let r := out.getD i 0
        let v := v.failIf (!(decide (arm.1 ≤ r) && decide (r ≤ arm.2))) s!"{comp} reward_outside_arm_support group={i} r={ratStr r} arm=[{ratStr arm.1},{ratStr arm.2})"
        v.failIf (!(closeQ tolCmp r (m.getD i 0))) s!"{comp} reward_not_from_selected_arm group={i} impl={ratStr r} model={ratStr (m.getD i 0)}") v
  return v.render

/-- `traj mdp|pomdp dense|sparse A T… Ob… s0 us… | outcomes…` : a rollout on one object; action = (sum of earlier outcomes) mod A -/
def traj : P String := do
  let mode ← P.tok; let kind ← P.tok; let A ← P.nat
  let T ← P.list P.qss; let Ob ← P.list P.qss; let s0 ← P.nat; let us ← P.qs; P.bar
  let out ← P.nats; P.eof
  if us.length != out.length || A == 0 then P.fail
  let comp := s!"Model::rollout-{mode}-{kind}"
  let Tf : Nat → Nat → List Rat := fun a s => (T.getD a []).getD s []
  let Of : Nat → Nat → List Rat := fun a s => (Ob.getD a []).getD s []
  let pol : List Nat → Nat := fun h => h.sum % A
  let row : List Nat → List Rat := if mode == "pomdp" then pomdpRow Tf Of pol s0 else mdpRow Tf pol s0
  let v : Verdict := { tag := s!"traj-{mode}-{kind}" }
  -- clause, step by step, on the row selected by the IMPLEMENTATION's own history
  let v := (List.range out.length).foldl (fun v i =>
    if v.tag == "illc" then v else denseOne comp (row (out.take i)) v (us.getD i 0, out.getD i 0)) v
  let m := chainSample row us
  let v := if v.tag == "illc" then v else v.diffIf (m != out) s!"{comp} model={m} impl={out}"
  return v.render

/-- `rand draws… | out… words` -/
def rand : P String := do
  let us ← P.qs; P.bar; let out ← P.qs; let words ← P.nat; P.eof
  let comp := "makeRandomProbability"
  let v : Verdict := { tag := if us.length == 0 then "trivial" else "rand" }
  let v := v.failIf (out.length != us.length + 1) s!"{comp} wrong_length {out.length}"
  -- draws on the 2^-53 grid: every subtraction is exact, so the sum is exactly one and the model is matched bit for bit;
  -- finer draws: the spacings are rounded, the clause is `isProbability` and the model is matched to 1e-9
  let exact := us.all onGrid
  let v := v.failIf (!(out.all (fun x => decide (0 ≤ x)) && (if exact then out.sum == 1 else isProb out)))
    s!"{comp} not_probability sum={ratStr out.sum}"
  let v := v.diffIf (if exact then makeRandomProbability us != out else !(closeL (makeRandomProbability us) out))
    s!"{comp} model={(makeRandomProbability us).map ratStr} impl={out.map ratStr}"
  let v := v.diffIf (words != 2 * us.length) s!"{comp} draws_consumed words={words} draws={us.length}"
  return v.render

def isPow2 (n : Nat) : Bool := n != 0 && (List.range 12).any (fun k => 2 ^ k == n)

/-- states visited by the constructor's main loop (same step functions as the model) -/
def voseStates (fixed : Bool) (n : Nat) (avg : Rat) : Nat → Vose → List Vose
  | 0, st => [st]
  | fuel + 1, st =>
    if st.small < n && st.large < n then
      st :: voseStates fixed n avg fuel (if fixed then voseStepFixed n avg st else voseStep n avg st)
    else [st]

/-- conditioning of the construction on non-dyadic data: the smallest distance from `avg` of any
    *computed* entry in any visited state (entries still equal to their input value are compared
    exactly by the double code as well).  When it is ≥ 1e-9 no comparison of the double
    computation can come out differently from the exact one, so the tables must agree. -/
def voseMargin (fixed : Bool) (p : List Rat) (avg : Rat) : Rat :=
  let n := p.length
  let small := scanFrom (fun i => p.getD i 0 ≥ avg) n n 0
  let large := scanFrom (fun i => p.getD i 0 < avg) n n 0
  let st0 : Vose := { prob := p, alias := List.replicate n (if fixed then n else 0), small, large, cp := small }
  let sts := voseStates fixed n avg (2 * n + 1) st0
  minQ (sts.flatMap (fun st => (List.range n).filterMap (fun i =>
    let x := st.prob.getD i 0
    if x == p.getD i 0 then none else some (absQ (x - avg))))) 1

/-- `vose p… avg | thr… alias… monotone` : table reconstructed from the sampler's behaviour -/
def vose : P String := do
  let p ← P.qs; let avg ← P.q; P.bar
  let thr ← P.qs; let alias ← P.nats; let mono ← P.bool; P.eof
  let comp := "VoseAliasSampler"
  let n := p.length
  if thr.length != n || alias.length != n || n == 0 then P.fail
  let (mp, ma) := voseBuildImpl p avg
  let mthr := mp.map clamp01
  let ma := (List.range n).map (fun i => if mthr.getD i 0 == 1 then i else ma.getD i 0)
  let exact := (isPow2 n && p.all (fun q => (2 ^ 40) % q.den == 0)) || decide (tolCmp ≤ voseMargin true p avg)
  let slack := absQ (1 - p.sum) + tolCmp
  let v : Verdict := { tag := if n ≤ 1 then "trivial" else if exact then "vose" else "vose-inexact" }
  let v := v.failIf (!(alias.all (fun a => decide (a < n)))) s!"{comp} alias_out_of_range {alias}"
  let kind := if p.getD 0 0 ≥ avg then "wrong_distribution_first_above_avg" else "wrong_distribution_first_below_avg"
  let mass := (List.range n).map (aliasMass thr alias)
  let v := v.failIf (!(aliasTableOk slack p thr alias)) s!"{comp} {kind} p={p.map ratStr} sampled={mass.map ratStr} thr={thr.map ratStr} alias={alias}"
  let v := v.diffIf (!mono) s!"{comp} not_a_threshold_sampler"
  let same := closeL mthr thr && ma == alias
  let v := if exact then v.diffIf (!same) s!"{comp} model_thr={mthr.map ratStr} model_alias={ma} impl_thr={thr.map ratStr} impl_alias={alias}"
           else if same then v else { v with tag := "vose-inexact-differs" }
  return v.render

/-- `vsample thr… alias… xs… | results… words` -/
def vsample : P String := do
  let thr ← P.qs; let alias ← P.nats; let xs ← P.qs; P.bar
  let rs ← P.nats; let words ← P.nat; P.eof
  if xs.length != rs.length then P.fail
  let comp := "VoseAliasSampler::sampleProbability"
  let n := thr.length
  let v : Verdict := { tag := if n ≤ 1 then "trivial" else "vsample" }
  let v := (xs.zip rs).foldl (fun v (x, r) =>
    let v := v.failIf (decide (n ≤ r)) s!"{comp} out_of_range index={r} size={n}"
    v.diffIf (aliasSampleX thr alias x != r) s!"{comp} model={aliasSampleX thr alias x} impl={r} x={ratStr x}") v
  let v := v.diffIf (words != 2 * xs.length) s!"{comp} draws_consumed words={words} draws={xs.length}"
  return v.render

/-- `sr <kind> row… u R | s1 reward` : one model sample (next state or observation) and its reward -/
def sr : P String := do
  let kind ← P.tok; let row ← P.qs; let u ← P.q; let rexp ← P.q; P.bar
  let s1 ← P.nat; let rew ← P.q; P.eof
  let comp := "Model::sample-" ++ kind
  let v : Verdict := { tag := "sr-" ++ kind }
  -- sparse model objects: a draw at or above the stored row sum must still land on a state the row supports
  let v := if kind == "sparse" && decide (row.sum ≤ u) && onGrid u && row.all onGrid then
      (v.failIf (decide (row.length ≤ s1)) s!"{comp} out_of_range index={s1}").failIf (decide (row.getD s1 0 ≤ 0))
        s!"{comp} outside_support state={s1} u={ratStr u} rowsum={ratStr row.sum}"
    else denseOne comp row v (u, s1)
  let v := v.failIf (rew != rexp) s!"{comp} wrong_reward impl={ratStr rew} table={ratStr rexp}"
  let v := v.diffIf ((sampleSR (fun _ _ => row) (fun _ _ => rexp) 0 0 u).2 != rew) s!"{comp} reward"
  return v.render

/-- `sor <kind> trow… S orows… u1 u2 R | s1 o reward` -/
def sor : P String := do
  let kind ← P.tok; let trow ← P.qs; let orows ← P.qss; let u1 ← P.q; let u2 ← P.q; let rexp ← P.q; P.bar
  let s1 ← P.nat; let ob ← P.nat; let rew ← P.q; P.eof
  let comp := "Model::sampleSOR-" ++ kind
  let v : Verdict := { tag := "sor-" ++ kind }
  let v := denseOne comp trow v (u1, s1)
  -- the observation must follow the row of the state the implementation itself returned
  let orow := orows.getD s1 []
  let v := denseOne (comp ++ "-obs") orow v (u2, ob)
  let v := v.failIf (rew != rexp) s!"{comp} wrong_reward impl={ratStr rew} table={ratStr rexp}"
  let m := sampleSOR (fun _ _ => trow) (fun _ s => orows.getD s []) (fun _ _ => rexp) 0 0 u1 u2
  let v := if v.tag == "illc" then v else v.diffIf (m != (s1, ob, rew)) s!"{comp} model={m.1},{m.2.1} impl={s1},{ob}"
  return v.render

/-- `fsr rows… us… R | s1… reward` : CooperativeModel::sampleSR, one scan per state factor -/
def fsrWith (comp : String) : P String := do
  let rows ← P.qss; let us ← P.qs; let rexp ← P.q; P.bar
  let s1 ← P.nats; let rew ← P.q; P.eof
  if rows.length != us.length || rows.length != s1.length then P.fail
  let v : Verdict := { tag := "fsr" }
  let v := (rows.zip (us.zip s1)).foldl (fun v (row, ur) => denseOne comp row v ur) v
  let v := v.failIf (rew != rexp) s!"{comp} wrong_reward impl={ratStr rew} table={ratStr rexp}"
  let v := if v.tag == "illc" then v else v.diffIf (sampleFactored rows us != s1) s!"{comp} model={sampleFactored rows us} impl={s1}"
  return v.render

/-- one draw of a stored sparse row: support clause, interval clause on the stored values, model = implementation -/
def storedOne (comp : String) (d : Nat) (row : List (Nat × Rat)) (v : Verdict) (u : Rat) (r : Nat) : Verdict :=
  sparseOne comp d row [] v (u, r)

/-- `spsr S row… u R | s1 reward` : MDP::SparseModel::sampleSR on the stored row and the stored reward table -/
def spsr : P String := do
  let S ← P.nat; let row ← entries; let u ← P.q; let rtab ← P.q; P.bar
  let s1 ← P.nat; let rew ← P.q; P.eof
  let comp := "SparseModel::sampleSR"
  let v : Verdict := { tag := "spsr" }
  let v := storedOne comp S row v u s1
  let v := v.failIf (rew != rtab) s!"{comp} wrong_reward impl={ratStr rew} table={ratStr rtab}"
  let m := sampleSRSparse S (fun _ _ => row) (fun _ _ => rtab) 0 0 u
  let v := if v.tag == "illc" then v else v.diffIf (m != (s1, rew)) s!"{comp} model={m.1} impl={s1}"
  return v.render

/-- `spsor S O trow… nS orows… u1 u2 R | s1 o reward` : POMDP::SparseModel::sampleSOR -/
def spsor : P String := do
  let S ← P.nat; let O ← P.nat; let trow ← entries; let orows ← P.list entries
  let u1 ← P.q; let u2 ← P.q; let rtab ← P.q; P.bar
  let s1 ← P.nat; let ob ← P.nat; let rew ← P.q; P.eof
  let comp := "SparseModel::sampleSOR"
  let v : Verdict := { tag := "spsor" }
  let v := storedOne comp S trow v u1 s1
  let v := storedOne (comp ++ "-obs") O (orows.getD s1 []) v u2 ob
  let v := v.failIf (rew != rtab) s!"{comp} wrong_reward impl={ratStr rew} table={ratStr rtab}"
  let m := sampleSORSparse S O (fun _ _ => trow) (fun _ x => orows.getD x []) (fun _ _ => rtab) 0 0 u1 u2
  let v := if v.tag == "illc" then v else v.diffIf (m != (s1, ob, rew)) s!"{comp} model={m.1},{m.2.1} impl={s1},{ob}"
  return v.render

/-- `spor O orow… u R | o reward` : POMDP::SparseModel::sampleOR -/
def spor : P String := do
  let O ← P.nat; let orow ← entries; let u ← P.q; let rtab ← P.q; P.bar
  let ob ← P.nat; let rew ← P.q; P.eof
  let comp := "SparseModel::sampleOR"
  let v : Verdict := { tag := "spor" }
  let v := storedOne comp O orow v u ob
  let v := v.failIf (rew != rtab) s!"{comp} wrong_reward impl={ratStr rew} table={ratStr rtab}"
  let m := sampleORSparse O (fun _ _ => orow) (fun _ _ => rtab) 0 0 0 u
  let v := if v.tag == "illc" then v else v.diffIf (m != (ob, rew)) s!"{comp} model={m.1} impl={ob}"
  return v.render

def parentBlock : P (ParentSet × List (List Rat)) := do
  let agents ← P.nats; let feats ← P.natss; let rows ← P.qss
  pure ({ agents := agents, features := feats }, rows)

def basisBlock : P Basis2D := do
  let tag ← P.nats; let atag ← P.nats; let vals ← P.qss
  pure { tag := tag, actionTag := atag, values := vals }

/-- `coop sr|srs S… A… F (agents feats rows)*F B (tag atag values)*B s… a… us… | s1… reward rews…`
    CooperativeModel::sampleSR / sampleSRs with the whole model on the line: the row ids are computed by the
    model of `DDNGraph::getId`, the reward by the model of `FactoredMatrix2D::getValue` -/
def coop : P String := do
  let mode ← P.tok; let S ← P.nats; let A ← P.nats
  let blocks ← P.list parentBlock; let bases ← P.list basisBlock
  let s ← P.nats; let a ← P.nats; let us ← P.qs; P.bar
  let s1 ← P.nats; let rew ← P.q; let rews ← P.qs; let tp ← P.q; P.eof
  let comp := "CooperativeModel::sample" ++ (if mode == "srs" then "SRs" else "SR")
  let parents := blocks.map (·.1); let T := blocks.map (·.2)
  if us.length != parents.length || s1.length != parents.length then P.fail
  let v : Verdict := { tag := "coop-" ++ mode }
  -- property clauses on the implementation's answer, factor by factor, against the row the MODEL's getId selects
  let rowsSel := blocks.map (fun b => b.2.getD (ddnGetId S A b.1 s a) [])
  let v := v.failIf (!((blocks.all (fun b => decide (ddnGetId S A b.1 s a < b.2.length))))) s!"{comp} row_id_out_of_range"
  let v := (rowsSel.zip (us.zip s1)).foldl (fun v (row, ur) => denseOne comp row v ur) v
  let mr := factoredReward S A bases s a
  let v := v.failIf (rew != mr) s!"{comp} wrong_reward impl={ratStr rew} table={ratStr mr}"
  let v := if mode == "srs" then
      v.failIf (rews != (coopSampleSRs S A parents T bases s a us).2) s!"{comp} wrong_basis_rewards impl={rews.map ratStr}"
    else v
  -- `DDN::getTransitionProbability(s,a,s1)` = product of the selected rows' entries = volume of the box of draws mapped to s1
  let mtp := (rowsSel.zip s1).foldl (fun acc (row, k) => acc * row.getD k 0) 1
  let v := v.diffIf (!(closeQ tolCmp mtp tp)) s!"{comp} getTransitionProbability model={ratStr mtp} impl={ratStr tp}"
  let v := if v.tag == "illc" then v else v.diffIf ((coopSampleSR S A parents T bases s a us).1 != s1)
    s!"{comp} model={(coopSampleSR S A parents T bases s a us).1} impl={s1}"
  return v.render

/-- `trajc S… A… F (agents feats rows)*F s0… us… | outcomes…` : `CooperativeModel::sampleSR` repeated on one object (s ← s1);
    joint action of a step: agent j plays (Σ earlier outcomes + j) mod A_j -/
def trajc : P String := do
  let S ← P.nats; let A ← P.nats; let blocks ← P.list parentBlock; let s0 ← P.nats; let us ← P.qs; P.bar
  let out ← P.nats; P.eof
  let parents := blocks.map (·.1); let T := blocks.map (·.2)
  if us.length != out.length || parents.length == 0 || us.length % parents.length != 0 then P.fail
  let comp := "CooperativeModel::rollout"
  let pol : List Nat → List Nat := fun h => A.mapIdx (fun j aj => (h.sum + j) % aj)
  let row := coopRolloutRow S A parents T pol s0
  let v : Verdict := { tag := "traj-coop" }
  let v := (List.range out.length).foldl (fun v i =>
    if v.tag == "illc" then v else denseOne comp (row (out.take i)) v (us.getD i 0, out.getD i 0)) v
  let m := chainSample row us
  let v := if v.tag == "illc" then v else v.diffIf (m != out) s!"{comp} model={m} impl={out}"
  return v.render

def finQ? : XRat → Option Rat
  | .fin q => some q
  | _ => none

/-- `dir params… gammas… | out… insync` : sampleDirichletDistribution as a function of its gamma draws -/
def dir : P String := do
  let params ← P.qs; let gs ← P.qs; P.bar; let outx ← P.xs; let insync ← P.bool; P.eof
  let comp := "sampleDirichletDistribution"
  if gs.length != params.length then P.fail
  let v : Verdict := { tag := if gs.length ≤ 1 then "trivial" else "dir" }
  match outx.mapM finQ? with
  | none =>
    -- NaN / inf in the result: never a probability vector; attributed to gamma underflow when every draw is exactly 0
    let kind := if gs.all (fun g => g == 0) then "not_probability@gamma_underflow" else "not_probability"
    return (v.failIf true s!"{comp} {kind} gammas={gs.map ratStr} out={outx.map toString}").render
  | some out =>
    -- theorems assume non-negative draws with a positive sum (dirichlet_valid, dirichlet_valid_nonneg)
    if !(gs.all (fun g => decide (0 ≤ g)) && decide (0 < gs.sum)) then return "skip gamma_draws_not_positive" else
    let v := if gs.all (fun g => decide (0 < g)) then v else { v with tag := "dir-some-draws-zero" }
    let v := v.failIf (out.length != gs.length) s!"{comp} wrong_length {out.length}"
    let v := v.failIf (!(out.all (fun x => decide (0 ≤ x)) && isProb out)) s!"{comp} not_probability sum={ratStr out.sum}"
    -- the defining clause of the sampler: the normalised gamma draws (Dirichlet(α) = (Γ(α_i))_i / Σ)
    let v := v.failIf (!(closeL (dirichletFromGammas gs) out)) s!"{comp} not_normalised_gamma_draws model={(dirichletFromGammas gs).map ratStr} impl={out.map ratStr}"
    let v := v.diffIf (!insync) s!"{comp} draws_consumed"
    return v.render

/-- `beta a b x y | r insync` : sampleBetaDistribution -/
def beta : P String := do
  let _a ← P.q; let _b ← P.q; let x ← P.q; let y ← P.q; P.bar; let rx ← P.x; let insync ← P.bool; P.eof
  let comp := "sampleBetaDistribution"
  let v : Verdict := { tag := "beta" }
  match finQ? rx with
  | none =>
    let kind := if x == 0 && y == 0 then "outside_unit_interval@gamma_underflow" else "outside_unit_interval"
    return (v.failIf true s!"{comp} {kind} x={ratStr x} y={ratStr y} result={rx}").render
  | some r =>
    if !(decide (0 ≤ x) && decide (0 ≤ y) && decide (0 < x + y)) then return "skip gamma_draws_not_positive" else
    let v := v.failIf (!(decide (0 ≤ r) && decide (r ≤ 1))) s!"{comp} outside_unit_interval {ratStr r}"
    -- the defining clause: Beta(a,b) = X / (X + Y) with X ~ Γ(a), Y ~ Γ(b) drawn in this order
    let v := v.failIf (!(closeQ tolCmp (betaFromGammas x y) r)) s!"{comp} not_gamma_ratio model={ratStr (betaFromGammas x y)} impl={ratStr r}"
    let v := v.diffIf (!insync) s!"{comp} draws_consumed"
    return v.render

/-- `projx v… | out…` : non-finite input — outside the property's quantifier (see docs/C08.md); the run only shows it does not crash -/
def projx : P String := do
  let _v ← P.xs; P.bar; let _out ← P.xs; P.eof
  return "ok trivial outside_quantifier"

/-- `inst <what> 0|1` : a documented overload that the harness could (1) or could not (0) instantiate -/
def inst : P String := do
  let what ← P.tok; let ok ← P.bool; P.eof
  let v : Verdict := { tag := "trivial" }
  return (v.failIf (!ok) s!"sampleDirichletDistribution does_not_instantiate {what}").render

def handle (toks : List String) : String :=
  let r := match toks with
    | "dense" :: rest => P.run dense rest
    | "sparse" :: rest => P.run sparse rest
    | "proj" :: rest => P.run proj rest
    | "rand" :: rest => P.run rand rest
    | "vose" :: rest => P.run vose rest
    | "vsample" :: rest => P.run vsample rest
    | "sr" :: rest => P.run sr rest
    | "sor" :: rest => P.run sor rest
    | "fsr" :: rest => P.run (fsrWith "CooperativeModel::sampleSR") rest
    | "fsrml" :: rest => P.run (fsrWith "CooperativeMaximumLikelihoodModel::sampleSR") rest
    | "isprob" :: rest => P.run isprob rest
    | "spsr" :: rest => P.run spsr rest
    | "spsor" :: rest => P.run spsor rest
    | "spor" :: rest => P.run spor rest
    | "coop" :: rest => P.run coop rest
    | "dir" :: rest => P.run dir rest
    | "beta" :: rest => P.run beta rest
    | "projx" :: rest => P.run projx rest
    | "inst" :: rest => P.run inst rest
    | "isprobm" :: rest => P.run isprobm rest
    | "seeded" :: rest => P.run seeded rest
    | "traj" :: rest => P.run traj rest
    | "seededrows" :: rest => P.run seededrows rest
    | "seedvar" :: rest => P.run seedvar rest
    | "fband" :: rest => P.run fband rest
    | "trajc" :: rest => P.run trajc rest
    | _ => none
  r.getD "bad-op"

end DrvC08
